import NLV.Driver.PubSub
import NLV.Driver.Lines
import NLV.Driver.Registrars
import NLV.Driver.Aio
import NLV.Driver.Commands
import NLV.Driver.DoneCallback
import NLV.Driver.Lifecycle
import NLV.Driver.RunProc
import NLV.Driver.Trace
import NLV.Driver.Relay
import NLV.Driver.Traceback
import NLV.Driver.Bdb

def main (args : List String) : IO UInt32 := do
  match args with
  | ["pubsub"] => NLV.Driver.PubSub.main; return 0
  | ["lines"] => NLV.Driver.Lines.main; return 0
  | ["reg"] => NLV.Driver.Reg.main; return 0
  | ["aio"] => NLV.Driver.Aio.main; return 0
  | ["cmd"] => NLV.Driver.Cmd.main; return 0
  | ["done"] => NLV.Driver.Done.main; return 0
  | ["life"] => NLV.Driver.Life.main; return 0
  | ["runproc"] => NLV.Driver.RunProc.main; return 0
  | ["trace"] => NLV.Driver.Trace.main; return 0
  | ["relay"] => NLV.Driver.Relay.main; return 0
  | ["tb"] => NLV.Driver.Tb.main; return 0
  | ["bdb"] => NLV.Driver.Bdb.main; return 0
  | _ => IO.eprintln "usage: nlvmodel <model>"; return 2
