import NLV.Model.Lifecycle
import NLV.Driver.Util
namespace NLV.Driver.Life
open NLV.Life NLV.Driver

def errS : Option Err → String
  | none => "ok" | some .machineError => "MachineError" | some .assertionError => "AssertionError"
  | some .runtimeError => "RuntimeError" | some .lookupError => "LookupError"

def b01 (b : Bool) : String := if b then "1" else "0"

def obsS : Obs → String
  | .ret c e => s!"ret:{c}:{errS e}"
  | .blocked c => s!"blocked:{c}"
  | .pubState s => s!"ps:{s}"
  | .pubRunNo n => s!"prn:{n}"
  | .pubRunInfo n s => s!"pri:{n}/{s}"
  | .pubStatement x => s!"pst:{x}"
  | .pubCont b => s!"pc:{b01 b}"
  | .hook n s r => s!"hk:{n}/{s}/{b01 r}"
  | .childStart rn st tt tm => s!"cs:{rn}/{st}/{b01 tt}/{b01 tm}"
  | .childSignal k => s!"sg:{k}"
  | .command => "cmd"
  | .brokerClosed => "bc"

/-- state summary appended to every reply: state, continuous flag, result()/format_exception() of the last run -/
def tailS (s : St) : List String :=
  let ce := match s.cont with | some b => b01 b | none => "E"
  let rs := match s.lastResult with | some (some v) => toString v | _ => "-"
  let fe := match s.lastResult with | some _ => "E" | none => "N"
  [s!"st={s.ms}", s!"ce={ce}", s!"rs={rs}", s!"fe={fe}"]

def optN (s : String) : Option (Option Nat) := if s = "-" then some none else s.toNat?.map some
def optB (s : String) : Option (Option Bool) :=
  if s = "-" then some none else if s = "1" then some (some true) else if s = "0" then some (some false) else none

def parseOp : List String → Option Op
  | ["start"] => some .start
  | ["run"] => some .run
  | ["rac"] => some .runAndContinue
  | ["rcw"] => some .runContinueAndWait
  | ["reset", a, b, c, d] => do pure (.reset (← optN a) (← optN b) (← optB c) (← optB d))
  | ["close"] => some .close
  | ["sig", k] => some (.signal k)
  | ["cmd"] => some .sendCommand
  | ["prompt"] => some .childPrompt
  | ["exit", "+"] => some (.childExit none)          -- a hard exit with a positive exit status: no result, like a kill
  | ["exit", r] => do pure (.childExit (← optN r))
  | ["exitx", r] => do pure (.childExit (← optN r))     -- a plugin's on_end_run raises: same observable protocol
  | _ => none

def handle (s : St) (ws : List String) : St × String :=
  match ws with
  | ["reset!"] => ({}, "ok")
  | ["new", stmt, rn, tt, tm] => match stmt.toNat?, rn.toNat?, optB tt, optB tm with
    | some st, some rn, some (some tt), some (some tm) => ({ stmt := st, nextRunNo := rn, tt := tt, tm := tm }, "ok")
    | _, _, _, _ => (s, "bad-op")
  | ["reg2"] => (s, " ".intercalate (tailS s))      -- (un)registration of a second plugin: no effect on the modelled observations
  | ["unreg2"] => (s, " ".intercalate (tailS s))
  | ["kclose", r, _k] =>
    -- `kclose r k`: the child exits and, k scheduler steps later (anywhere between the exit of the process and the end of the
    -- `finish` transition), a fresh task calls close(); serially: childExit, then close — whatever k is
    if s.waitBlocked || s.closeBlocked then (s, "skipped") else
    match optN r with
    | some r =>
      if s.childAlive then
        let (s1, o1) := step s (.childExit r)
        let (s2, o2) := step s1 .close
        (s2, " ".intercalate ((o1 ++ o2).map obsS ++ tailS s2))
      else
        (s, " ".intercalate (tailS s))
    | none => (s, "bad-op")
  | [cmd, r] =>
    -- `xreset r` / `xclose r`: the child exits and a caller that watches the state attribute calls reset()/close() the
    -- moment it reads 'finished' (the `finish` transition may still be in progress); serially: childExit, then the call
    if cmd = "xreset" ∨ cmd = "xclose" then
      if s.waitBlocked || s.closeBlocked then (s, "skipped") else
      match optN r with
      | some r =>
        let (s1, o1) := step s (.childExit r)
        let op2 : Op := if cmd = "xreset" then .reset none none none none else .close
        if s.childAlive && s1.ms = "finished" then
          let (s2, o2) := step s1 op2
          (s2, " ".intercalate ((o1 ++ o2).map obsS ++ tailS s2))
        else
          (s1, " ".intercalate (o1.map obsS ++ tailS s1))
      | none => (s, "bad-op")
    else if cmd = "pexit" then
      match optN r with
      | some r =>
        let (s1, o1) := step s .childPrompt
        let (s2, o2) := step s1 (.childExit r)
        (s2, " ".intercalate ((o1 ++ o2).map obsS ++ tailS s2))
      | none => (s, "bad-op")
    else
      match parseOp ws with
      | some op =>
        if op.isLifecycle && (s.waitBlocked || s.closeBlocked) then (s, "skipped") else
        let (s', o) := step s op
        (s', " ".intercalate (o.map obsS ++ tailS s'))
      | none => (s, "bad-op")
  | _ =>
    match parseOp ws with
    | some op =>
      if op.isLifecycle && (s.waitBlocked || s.closeBlocked) then (s, "skipped") else
      let (s', o) := step s op
      (s', " ".intercalate (o.map obsS ++ tailS s'))
    | none => (s, "bad-op")

def main : IO Unit := do
  loop (← IO.getStdin) (← IO.getStdout) ({} : St) handle
end NLV.Driver.Life
