import NLV.Model.Traceback
import NLV.Driver.Util
namespace NLV.Driver.Tb
open NLV.Tb NLV.Driver

def modOf : String → Option Mod
  | "r" => some .runner | "c" => some .compose | "u" => some .utils | "n" => some .nextline | "s" => some .user | _ => none
def modS : Mod → String
  | .runner => "r" | .compose => "c" | .utils => "u" | .nextline => "n" | .user => "s"
def kindOf : String → Option ExcKind
  | "syntax" => some .syntaxError | "kbd" => some .keyboardInterrupt | "other" => some .other | _ => none

/-- `clean <kind> <frame>*` → the cleaned traceback, `-` when empty -/
def handle (u : Unit) (ws : List String) : Unit × String :=
  match ws with
  | "clean" :: k :: fs =>
    match kindOf k, fs.mapM modOf with
    | some k, some tb =>
      let r := clean k tb
      (u, if r.isEmpty then "-" else " ".intercalate (r.map modS))
    | _, _ => (u, "bad-op")
  | _ => (u, "bad-op")

def main : IO Unit := do
  loop (← IO.getStdin) (← IO.getStdout) () handle
end NLV.Driver.Tb
