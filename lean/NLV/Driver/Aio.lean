import NLV.Model.Aio
import NLV.Driver.Util
/-! Acceptance-mode driver for model J: tracks the set of model states consistent with the observed labels. -/
namespace NLV.Driver.Aio
open NLV.Aio NLV.Driver

def dedup {α} [BEq α] (l : List α) : List α := l.foldl (fun acc x => if acc.contains x then acc else acc ++ [x]) []

/-- τ successors of a merge state: wake, popStop i, loop -/
def mtau (m : M) : List M :=
  let ls : List Label := [.wake, .loop] ++ (List.range m.srcs.length).map .popStop
  ls.filterMap (mstep m)

partial def closure {α} [BEq α] (tau : α → List α) (ss : List α) : List α :=
  let next := dedup (ss ++ ss.flatMap tau)
  if next.length = ss.length then ss else closure tau next

def wtau (w : Wt) : List Wt :=
  match wstep w .wake with
  | some w' => if w'.phase == .waiting then [w'] else []
  | none => []

inductive S where
  | none
  | merge (ss : List M)
  | wait (ss : List Wt)

def parseList (s : String) : Option (List Nat) :=
  if s = "-" then some [] else (s.splitOn ",").mapM (·.toNat?)

def sameSet (a b : List Nat) : Bool := a.all b.contains && b.all a.contains

def handle (st : S) (ws : List String) : S × String :=
  match st, ws with
  | _, ["merge", srcs] =>
    match (if srcs = "none" then some [] else (srcs.splitOn ";").mapM parseList) with
    | some l => (.merge [M.new l], "n=1")
    | none => (st, "bad-op")
  | _, ["wait", items] =>
    match parseList items with
    | some l => (.wait [Wt.new l], "n=1")
    | none => (st, "bad-op")
  | .merge ss, "obs" :: rest =>
    let cl := closure mtau ss
    let nxt : Option (List M) :=
      match rest with
      | ["start"] => some (cl.filterMap (mstep · .start))
      | ["complete", i] => i.toNat?.map fun i => cl.filterMap (mstep · (.complete i))
      | ["recv", i, x] => match i.toNat?, x.toNat? with
        | some i, some x => some ((cl.filterMap (mstep · (.recv i))).filter fun m => m.out.getLast? == some (i, x))
        | _, _ => none
      | ["next"] => some (cl.filterMap (mstep · .next))
      | ["stopiter"] => some (cl.filter fun m => m.phase == .ended)
      | _ => none
    match nxt with
    | some l => let l := dedup l; (.merge l, s!"n={l.length}")
    | none => (st, "bad-op")
  | .wait ss, "obs" :: rest =>
    let cl := closure wtau ss
    let nxt : Option (List Wt) :=
      match rest with
      | ["completeAnext"] => some (cl.filterMap (wstep · .completeAnext))
      | ["completeTask", i, e] => match i.toNat?, (if e = "-" then some none else e.toNat?.map some) with
        | some i, some e => some (cl.filterMap (wstep · (.completeTask i e)))
        | _, _ => none
      | ["yield", x] => x.toNat?.map fun x =>
          (cl.filterMap (wstep · .wake)).filter fun w => w.phase == .yieldedItem && w.out.getLast? == some x
      | ["raised", e] => e.toNat?.map fun e =>
          (cl.flatMap fun w => (List.range w.tasks.length).filterMap fun i => wstep w (.wakeRaise i)).filter
            fun w => w.phase == .raised e
      | ["stopiter"] => some ((cl.filterMap (wstep · .wake)).filter fun w => w.phase == .ended)
      | ["send", n] => n.toNat?.map fun n => cl.filterMap (wstep · (.send n))
      | ["sets", d, p] => match parseList d, parseList p with
        | some d, some p => some (cl.filter fun w => w.phase == .yieldedSets && sameSet w.done d && sameSet w.pending p)
        | _, _ => none
      | ["resume"] => some (cl.filterMap (wstep · .resume))
      | _ => none
    match nxt with
    | some l => let l := dedup l; (.wait l, s!"n={l.length}")
    | none => (st, "bad-op")
  | _, ["toaiter", items] =>
    match parseList items with
    | some l => (st, ",".intercalate ((toAiterAll l).map toString))
    | none => (st, "bad-op")
  | _, _ => (st, "bad-op")

def main : IO Unit := do
  loop (← IO.getStdin) (← IO.getStdout) S.none handle
end NLV.Driver.Aio
