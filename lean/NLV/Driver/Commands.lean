import NLV.Model.Commands
import NLV.Driver.Util
namespace NLV.Driver.Cmd
open NLV.Cmd NLV.Driver

/-- run relay/consume steps until nothing more can happen (the harness waits for quiescence) -/
def settle (s : St) : Nat → St
  | 0 => s
  | fuel + 1 =>
    match step s .relay with
    | some s' => settle s' fuel
    | none =>
      match s.opened.findSome? fun e => step s (.consume e.1) with
      | some s' => settle s' fuel
      | none => s

def fuelOf (s : St) : Nat := 2 * (s.inq.length + (s.queues.foldl (fun n e => n + e.2.length) 0)) + 4

def report (old new : St) : String :=
  let es := new.executed.drop old.executed.length
  if es.isEmpty then "none" else " ".intercalate (es.map fun e => s!"exec:{e.trace}:{e.prompt}:{e.cmd}")

def handle (s : St) (ws : List String) : St × String :=
  match ws with
  | ["reset"] => ({}, "ok")
  | ["start", t] => match t.toNat? with
    | some t => (match step s (.startTrace t) with | some s' => (s', "ok") | none => (s, "err"))
    | none => (s, "bad-op")
  | ["end", t] => match t.toNat? with
    | some t => (match step s (.endTrace t) with | some s' => (s', "ok") | none => (s, "err"))
    | none => (s, "bad-op")
  | ["open", t] => match t.toNat? with
    | some t => (match step s (.openPrompt t) with
      | some s1 => let s2 := settle s1 (fuelOf s1); (s2, s!"p={s.counter} {report s1 s2}")
      | none => (s, "err"))
    | none => (s, "bad-op")
  | ["send", t, p, c] => match t.toNat?, p.toNat?, c.toNat? with
    | some t, some p, some c => (match step s (.send t p c) with
      | some s1 => let s2 := settle s1 (fuelOf s1); (s2, report s1 s2)
      | none => (s, "err"))
    | _, _, _ => (s, "bad-op")
  | _ => (s, "bad-op")

def main : IO Unit := do
  loop (← IO.getStdin) (← IO.getStdout) ({} : St) handle
end NLV.Driver.Cmd
