import NLV.Model.Lines
import NLV.Driver.Util
namespace NLV.Driver.Lines
open NLV.Lines NLV.Driver

def parseText (s : String) : Option Text :=
  if s = "-" then some [] else (s.splitOn ",").mapM (·.toNat?)

def showText (t : Text) : String := if t.isEmpty then "-" else ",".intercalate (t.map toString)

def handle (st : St) (ws : List String) : St × String :=
  match ws with
  | ["reset"] => ({}, "ok")
  | ["w", k, t] =>
    match parseText t with
    | none => (st, "bad-op")
    | some t =>
      let key : Option (Option Nat) := if k = "-" then some none else k.toNat?.map some
      match key with
      | none => (st, "bad-op")
      | some key =>
        let st' := write st key t
        if st'.emitted.length > st.emitted.length then
          match st'.emitted.getLast? with
          | some (k, p) => (st', s!"emit:{k}:{showText p}")
          | none => (st', "none")
        else (st', "none")
  | ["real"] => (st, showText (st.real.flatMap id))
  | _ => (st, "bad-op")

def main : IO Unit := do
  loop (← IO.getStdin) (← IO.getStdout) ({} : St) handle
end NLV.Driver.Lines
