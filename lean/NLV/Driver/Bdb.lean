import NLV.Model.Bdb
import NLV.Driver.Util
/-! Line-protocol driver of model D2 (one reply line per request line).

    reset <trace_modules 0|1> <script module>            → ok          (new run: fresh filter state, frame table, f_traces)
    ent <entity no> <entering thread 0|1> <default cmd> <cmd>*   → ok  (new entity = fresh Pdb; commands for successive prompts)
    f <fid> <parent fid|-> <isgen 0|1> <module|~> <function>    → ok   (frame table entry)
    e <fid> <line|-> <c|l|r|x> <exc kind 0..3> <deepest tb fid|-> → P <line> <kind> <curframe fid> (a prompt) | - <why>
    end                                                  → prompts: <line>:<kind> …   (the entity's predicted prompt list)
    flt <module|~> <function>                            → skip | accept   (the hook `filter` alone, on the run's filter state)
    cml <module|~>                                       → ok   (`FilerByModule.on_cmdloop` in a frame of that module)
-/
namespace NLV.Driver.Bdb
open NLV.Bdb NLV.Driver

def cmdOf : String → Option Cmd
  | "step" | "s" => some .step
  | "next" | "n" => some .next
  | "return" | "r" => some .ret
  | "until" | "unt" => some .until
  | "continue" | "c" | "cont" => some .cont
  | _ => none

def kindOf : String → Option Kind
  | "c" => some .call | "l" => some .line | "r" => some .ret | "x" => some .exc | _ => none

def kindStr : Kind → String
  | .call => "call" | .line => "line" | .ret => "return" | .exc => "exception"

def lineStr : Option Nat → String
  | none => "-"
  | some l => toString l

def excOf : String → Option ExcKind
  | "0" => some .other | "1" => some .siNoTb | "2" => some .siTb | "3" => some .genExit | _ => none

def optNat (s : String) : Option (Option Nat) :=
  if s = "-" then some none else (natOf s).map some

def optStr (s : String) : Option String := if s = "~" then none else some s

def handle (st : St) (ws : List String) : St × String :=
  match ws with
  | ["reset", m, script] =>
    match boolOf m with
    | some b => (init b script, "ok")
    | none => (st, "bad-op")
  | "ent" :: n :: ent :: dflt :: cmds =>
    match natOf n, boolOf ent, cmdOf dflt, cmds.mapM cmdOf with
    | some n, some b, some d, some cs => (newEntity st n b cs d, "ok")
    | _, _, _, _ => (st, "bad-op")
  | ["f", fid, par, g, m, fn] =>
    match natOf fid, optNat par, boolOf g with
    | some fid, some par, some g =>
      (onItem st (.frame fid { parent := par, isGen := g, desc := { module := optStr m, func := fn } }), "ok")
    | _, _, _ => (st, "bad-op")
  | ["e", fid, line, k, x, deep] =>
    match natOf fid, optNat line, kindOf k, excOf x, optNat deep with
    | some fid, some line, some k, some x, some deep =>
      let ev : Ev := { fid := fid, line := line, kind := k, exc := x, tbDeep := deep }
      let st' := onItem st (.ev ev)
      if st'.prompts.length > st.prompts.length then (st', s!"P {lineStr line} {kindStr k} {curframe st ev}")
      else
        let why := if k == .call then (if (lookup st'.ftrace fid).isSome then "traced" else "untraced")
                   else match lookup st.ftrace fid with | none => "no-f_trace" | some .patched => "patched" | some .nextline => "nostop"
        (st', s!"- {why}")
    | _, _, _, _, _ => (st, "bad-op")
  | ["end"] =>
    (st, "prompts:" ++ String.join (st.prompts.map fun p => s!" {lineStr p.1}:{kindStr p.2}"))
  | ["flt", mod, fn] =>
    -- the hook `filter` alone, on the run's filter state (which it updates)
    let (r, filt') := runFilter st.order st.cx st.filt { module := optStr mod, func := fn }
    ({ st with filt := filt' }, if r == some true then "skip" else "accept")
  | ["cml", mod] =>
    -- `FilerByModule.on_cmdloop` for a command loop in a frame of that module
    ({ st with filt := if st.order.contains "FilerByModule" then addModule st.filt (optStr mod) else st.filt }, "ok")
  | _ => (st, "bad-op")

def main : IO Unit := do
  loop (← IO.getStdin) (← IO.getStdout) (init false "") handle
end NLV.Driver.Bdb
