/-! Line-protocol helpers shared by all model drivers (import-free). -/
namespace NLV.Driver

def words (line : String) : List String :=
  (line.splitOn " ").filter (· ≠ "") |>.map fun w => w.trimAscii.toString

def natOf (s : String) : Option Nat := s.toNat?
def intOf (s : String) : Option Int := s.toInt?
def boolOf (s : String) : Option Bool :=
  match s with | "1" => some true | "0" => some false | _ => none

/-- read lines until EOF, threading a state; one reply line per request line -/
partial def loop {σ : Type} (h : IO.FS.Stream) (out : IO.FS.Stream) (st : σ)
    (step : σ → List String → σ × String) : IO Unit := do
  let line ← h.getLine
  if line.isEmpty then return ()
  let ws := words line
  if ws.isEmpty then
    loop h out st step
  else
    let (st', reply) := step st ws
    out.putStrLn reply
    out.flush
    loop h out st' step

def hexDigit (n : Nat) : Char := "0123456789abcdef".toList.getD n '0'

def hexOfString (s : String) : String :=
  String.ofList (s.toUTF8.toList.flatMap fun b => [hexDigit (b.toNat / 16), hexDigit (b.toNat % 16)])

def hexVal (c : Char) : Option Nat :=
  if '0' ≤ c ∧ c ≤ '9' then some (c.toNat - '0'.toNat)
  else if 'a' ≤ c ∧ c ≤ 'f' then some (c.toNat - 'a'.toNat + 10)
  else none

/-- decode a hex string to a list of byte values -/
def bytesOfHex : List Char → Option (List Nat)
  | [] => some []
  | [_] => none
  | a :: b :: rest => do
    let x ← hexVal a
    let y ← hexVal b
    let r ← bytesOfHex rest
    pure ((x * 16 + y) :: r)

end NLV.Driver
