import NLV.Model.PubSub
import NLV.Driver.Util
/-! Line-protocol driver for model B. Items and keys are natural numbers. -/
namespace NLV.Driver.PubSub
open NLV.PubSub NLV.Driver

structure St where
  item : Item Nat := {}
  broker : Broker Nat Nat := {}
  pendI : List Nat := []   -- item subscribers with a pending `__anext__`
  pendB : List Nat := []   -- broker handles with a pending `__anext__`

def outStr : Out Nat → String
  | .ok => "ok" | .closedError => "closed" | .yielded a => s!"yield:{a}" | .skipped => "skipped"
  | .pending => "pending" | .stopped => "stop" | .noSuchSub => "nosub"

/-- drive one `__anext__` as far as it goes without suspending -/
def anextItem (s : Item Nat) (i : Nat) : Nat → Item Nat × Out Nat
  | 0 => (s, .pending)
  | fuel + 1 =>
    let (s', o) := step s (.pull i)
    match o with
    | .skipped => anextItem s' i fuel
    | _ => (s', o)

def anextBroker (b : Broker Nat Nat) (h : Nat) : Nat → Broker Nat Nat × Out Nat
  | 0 => (b, .pending)
  | fuel + 1 =>
    let (b', o) := bstep b (.pull h)
    match o with
    | .skipped => anextBroker b' h fuel
    | _ => (b', o)

def fuelOf (s : Item Nat) : Nat := s.subs.foldl (fun n q => n + q.queue.length + q.pre.length + 2) 2
def bfuel (b : Broker Nat Nat) : Nat := b.items.foldl (fun n it => n + fuelOf it) 2

/-- after every operation, pending `__anext__` calls that can now complete do so (index order) -/
def settleItem (st : St) : St × String :=
  let (it, pend, msg) := st.pendI.foldl (fun (acc : Item Nat × List Nat × String) i =>
    let (it, pend, msg) := acc
    let (it', o) := anextItem it i (fuelOf it)
    match o with
    | .pending => (it', pend ++ [i], msg)
    | _ => (it', pend, msg ++ s!" {i}:{outStr o}")) (st.item, [], "")
  ({ st with item := it, pendI := pend }, msg)

def settleBroker (st : St) : St × String :=
  let (b, pend, msg) := st.pendB.foldl (fun (acc : Broker Nat Nat × List Nat × String) h =>
    let (b, pend, msg) := acc
    let (b', o) := anextBroker b h (bfuel b)
    match o with
    | .pending => (b', pend ++ [h], msg)
    | _ => (b', pend, msg ++ s!" {h}:{outStr o}")) (st.broker, [], "")
  ({ st with broker := b, pendB := pend }, msg)

def liveCount (s : Item Nat) : Nat := (s.subs.filter fun q => q.phase = .live).length

def reply (st : St) (r : String) : St × String :=
  let (st1, m1) := settleItem st
  let (st2, m2) := settleBroker st1
  (st2, r ++ " |" ++ m1 ++ m2)

def handle (st : St) (ws : List String) : St × String :=
  match ws with
  | ["new", c] => match boolOf c with
    | some c => ({ item := Item.new c }, "ok |")
    | none => (st, "bad-op")
  | ["publish", a] => match natOf a with
    | some a => let (s, o) := step st.item (.publish a); reply { st with item := s } (outStr o)
    | none => (st, "bad-op")
  | ["clear"] => let (s, o) := step st.item .clear; reply { st with item := s } (outStr o)
  | ["aclose"] => let (s, o) := step st.item .aclose; reply { st with item := s } (outStr o)
  | ["latest"] => reply st (match st.item.latest with | some a => s!"some:{a}" | none => "none")
  | ["sub", l, c] => match boolOf l, boolOf c with
    | some l, some c =>
      let (s, _) := step st.item (.subNew l c)
      reply { st with item := s } s!"ok:{st.item.subs.length}"
    | _, _ => (st, "bad-op")
  | ["anext", i] => match natOf i with
    | some i =>
      if st.pendI.contains i then (st, "bad-op") else
      let (s, o) := anextItem st.item i (fuelOf st.item)
      let st' := { st with item := s, pendI := if o = .pending then st.pendI ++ [i] else st.pendI }
      reply st' (outStr o)
    | none => (st, "bad-op")
  | ["leave", i] => match natOf i with
    | some i =>
      let (s, o) := step st.item (.leave i)
      reply { st with item := s, pendI := st.pendI.filter (· ≠ i) } (outStr o)
    | none => (st, "bad-op")
  | ["nsubs"] => reply st s!"n:{liveCount st.item}:{if st.item.closed then 1 else 0}"
  -- broker
  | ["bnew"] => ({}, "ok |")
  | ["bpublish", k, a] => match natOf k, natOf a with
    | some k, some a => let (b, o) := bstep st.broker (.publish k a); reply { st with broker := b } (outStr o)
    | _, _ => (st, "bad-op")
  | ["blatest", k] => match natOf k with
    | some k =>
      let (b, _) := bstep st.broker (.latest k)
      reply { st with broker := b } (match b.latest k with | some a => s!"some:{a}" | none => "none")
    | none => (st, "bad-op")
  | ["bsub", k, l] => match natOf k, boolOf l with
    | some k, some l =>
      let (b, _) := bstep st.broker (.subscribe k l)
      reply { st with broker := b } s!"ok:{st.broker.handles.length}"
    | _, _ => (st, "bad-op")
  | ["banext", h] => match natOf h with
    | some h =>
      if st.pendB.contains h then (st, "bad-op") else
      let (b, o) := anextBroker st.broker h (bfuel st.broker)
      let st' := { st with broker := b, pendB := if o = .pending then st.pendB ++ [h] else st.pendB }
      reply st' (outStr o)
    | none => (st, "bad-op")
  | ["bleave", h] => match natOf h with
    | some h =>
      let (b, o) := bstep st.broker (.leave h)
      reply { st with broker := b, pendB := st.pendB.filter (· ≠ h) } (outStr o)
    | none => (st, "bad-op")
  | ["bend", k] => match natOf k with
    | some k => let (b, o) := bstep st.broker (.endKey k); reply { st with broker := b } (outStr o)
    | none => (st, "bad-op")
  | ["bclose"] => let (b, o) := bstep st.broker .close; reply { st with broker := b } (outStr o)
  | _ => (st, "bad-op")

def main : IO Unit := do
  loop (← IO.getStdin) (← IO.getStdout) ({} : St) handle

end NLV.Driver.PubSub
