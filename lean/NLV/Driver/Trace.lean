import NLV.Model.Trace
import NLV.Model.Teardown
import NLV.Driver.Util
import NLV.Driver.Registrars
/-! Driver for model D1.  Every observed event of the child's stream corresponds to exactly one visible action of the model
(`e …` lines); the hidden number-drawing steps are proposed by the harness (`h …` lines, a witness it computes from the
whole stream) and executed here like any other step.  The model is deterministic given the labels: the stream is accepted
iff every step is enabled and every visible step emits exactly the observed event (same numbers) — and, independently,
the registrars' grammar `Reg.wrun` accepts it. -/
namespace NLV.Driver.Trace
open NLV.Trace NLV.Reg NLV.Driver

structure D where
  s : Trace.St := {}
  ok : Bool := true
  ents : List (Nat × Ent) := []            -- observed trace number ↦ entity
  w : Option W := some {}                  -- registrars' grammar state
  n : Nat := 0
  closed : Bool := false                   -- model D1t: the plugin context has exited (`h close …`)
  main : Option Ent := none

/-- one step of model D1t (`Teardown.rstep`): model D1's step, refused once the context has exited unless it is the end of a
trace or a write of an entity without a trace -/
def tstep (d : D) (e : Ent) (a : Act) : Option Trace.St :=
  (Teardown.rstep { tr := d.s, closed := d.closed, main := d.main } (.act e a)).map (·.tr)

def close (d : D) (m : Option Ent) : D × String :=
  if !d.ok then (d, "reject:earlier") else
  match Teardown.rstep { tr := d.s, closed := d.closed, main := d.main } (.close m) with
  | none => ({ d with ok := false }, "reject:close-not-enabled")
  | some r => ({ d with closed := r.closed, main := r.main }, "ok")

def entOf (d : D) (t : Nat) : Option Ent := (d.ents.find? fun e => e.1 = t).map (·.2)

def hidden (d : D) (e : Ent) (a : Act) : D × String :=
  if !d.ok then (d, "reject:earlier") else
  match tstep d e a with
  | none => ({ d with ok := false }, "reject:hidden-step-not-enabled")
  | some s' => if s'.out.length = d.s.out.length then ({ d with s := s' }, "ok") else ({ d with ok := false }, "reject:hidden-step-emitted")

def observe (d : D) (e : Ent) (ev : Ev) (a : Act) : D × String :=
  if !d.ok then (d, "reject:earlier") else
  let w' := d.w.bind fun w => wstep w ev
  match tstep d e a with
  | none => ({ d with ok := false, n := d.n + 1 }, "reject:model")
  | some s' =>
    if s'.out.drop d.s.out.length == [ev] then
      if w'.isNone then ({ d with s := s', w := w', ok := false, n := d.n + 1 }, "reject:grammar")
      else ({ d with s := s', w := w', n := d.n + 1 }, "ok")
    else ({ d with ok := false, n := d.n + 1 }, s!"reject:model-emits-other")

def optNat (s : String) : Option (Option Nat) := if s = "-" then some none else s.toNat?.map some

def handle (d : D) (ws : List String) : D × String :=
  match ws with
  | ["reset"] => ({}, "ok")
  | ["h", "ids", th, ta] => (match th.toNat?, optNat ta with
    | some th, some ta => hidden d { thread := th, task := ta } .drawIds
    | _, _ => (d, "bad-op"))
  | ["h", "trace", th, ta] => (match th.toNat?, optNat ta with
    | some th, some ta => hidden d { thread := th, task := ta } .drawTrace
    | _, _ => (d, "bad-op"))
  | ["h", "close", th, ta] =>
    if th = "-" then close d none else (match th.toNat?, optNat ta with
    | some th, some ta => close d (some { thread := th, task := ta })
    | _, _ => (d, "bad-op"))
  | ["h", "call", t, f, l, fr, evk] => (match t.toNat?, f.toNat?, l.toNat?, fr.toNat?, evk.toNat? with
    | some t, some f, some l, some fr, some evk => (match entOf d t with
      | some e => hidden d e (.drawCall f l fr evk)
      | none => ({ d with ok := false }, "reject:unknown-trace"))
    | _, _, _, _, _ => (d, "bad-op"))
  | ["h", "prompt", t] => (match t.toNat? with
    | some t => (match entOf d t with
      | some e => hidden d e .drawPrompt
      | none => ({ d with ok := false }, "reject:unknown-trace"))
    | none => (d, "bad-op"))
  | "e" :: rest =>
    match Driver.Reg.parseEv rest with
    | none => (d, "bad-op")
    | some ev =>
      match ev with
      | .startTrace t th ta =>
        -- entity identity as far as it is observable: (thread number, task number)
        let e : Ent := { thread := th, task := ta }
        observe { d with ents := d.ents.filter (fun x => x.1 ≠ t) ++ [(t, e)] } e ev .emitStart
      | _ =>
        match entOf d (evTraceNo ev) with
        | none => ({ d with ok := false }, "reject:unknown-trace")
        | some e =>
          match ev with
          | .startCall .. => observe d e ev .emitCall
          | .startCmdloop .. => observe d e ev .stop
          | .startPrompt _ _ _ text => observe d e ev (.emitPrompt text)
          | .endPrompt _ _ cmd => observe d e ev (.answer cmd)
          | .endCmdloop .. => observe d e ev .endLoop
          | .endCall .. => observe d e ev .leave
          | .endTrace .. => observe d e ev .finish
          | .stdout _ text => observe d e ev (.write text)
          | .startTrace .. => (d, "bad-op")
  | ["end"] => (d, if d.ok then "ok" else "reject:earlier")
  | _ => (d, "bad-op")
where
  evTraceNo : Ev → Nat
    | .startTrace t _ _ | .endTrace t | .startCall t _ | .endCall t _ | .startCmdloop t _ | .endCmdloop t _
    | .startPrompt t _ _ _ | .endPrompt t _ _ | .stdout t _ => t

def main : IO Unit := do
  loop (← IO.getStdin) (← IO.getStdout) ({} : D) handle
end NLV.Driver.Trace
