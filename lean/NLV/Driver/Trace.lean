import NLV.Model.Trace
import NLV.Driver.Util
import NLV.Driver.Registrars
/-! Acceptance-mode driver for model D1: the observed event stream of a child must be producible by the model
(same nesting, same numbers), and — independently — accepted by the registrars' grammar `Reg.wrun`. -/
namespace NLV.Driver.Trace
open NLV.Trace NLV.Reg NLV.Driver

structure Cand where
  s : Trace.St
  pend : List Ev          -- events the model has already emitted for a multi-event action, still to be observed
  deriving DecidableEq

def dedupC (l : List Cand) : List Cand := l.foldl (fun acc x => if acc.contains x then acc else acc ++ [x]) []

structure D where
  cands : List Cand := [{ s := {}, pend := [] }]
  ents : List (Nat × Ent) := []            -- observed trace number ↦ entity
  stash : List (Nat × Ev) := []            -- OnStartTrace seen, waiting for the first trace call of that trace
  w : Option W := some {}                  -- registrars' grammar state
  n : Nat := 0

def entOf (d : D) (t : Nat) : Option Ent := (d.ents.find? fun e => e.1 = t).map (·.2)

def tryAct (c : Cand) (e : Ent) (a : Act) (expect : List Ev) : Option Cand :=
  match Trace.step c.s e a with
  | none => none
  | some s' =>
    let new := s'.out.drop c.s.out.length
    -- the first `expect.length` new events must be the expected ones; the rest stays pending
    if new.take expect.length == expect && expect.length ≤ new.length then some { s := s', pend := new.drop expect.length } else none

def observe (d : D) (t : Nat) (ev : Ev) (acts : List Act) (pre : List Ev) : D × String :=
  match entOf d t with
  | none => (d, "reject:unknown-trace")
  | some e =>
    let cands := d.cands.flatMap fun c =>
      match c.pend with
      | p :: ps => if pre.isEmpty && p == ev then [{ c with pend := ps }] else []
      | [] => acts.filterMap fun a => tryAct c e a (pre ++ [ev])
    let cands := dedupC cands
    let w' := (pre ++ [ev]).foldl (fun w x => w.bind fun w => wstep w x) d.w
    let d' := { d with cands := cands, w := w', n := d.n + 1 }
    if cands.isEmpty then (d', "reject:model")
    else if w'.isNone then (d', "reject:grammar")
    else (d', s!"ok:{cands.length}")

def handle (d : D) (ws : List String) : D × String :=
  match ws with
  | ["reset"] => ({}, "ok")
  | "e" :: rest =>
    match Driver.Reg.parseEv rest with
    | none => (d, "bad-op")
    | some ev =>
      match ev with
      | .startTrace t th ta =>
        -- entity identity as far as it is observable: (thread number, task number)
        ({ d with ents := d.ents.filter (fun e => e.1 ≠ t) ++ [(t, { thread := th, task := ta })], stash := d.stash ++ [(t, ev)] }, "ok:stash")
      | .startCall t c =>
        let pre := (d.stash.filter fun x => x.1 = t).map (·.2)
        let d1 := { d with stash := d.stash.filter fun x => x.1 ≠ t }
        observe d1 t ev [.enter c.file c.line c.frame c.event] pre
      | .startCmdloop t _ => observe d t ev [.stop] []
      | .startPrompt t _ _ text => observe d t ev [.prompt text] []
      | .endPrompt t _ cmd => observe d t ev [.answer cmd false, .answer cmd true, .abort] []
      | .endCmdloop t _ => observe d t ev [.abort] []
      | .endCall t _ => observe d t ev [.leave, .abort] []
      | .endTrace t => observe d t ev [.finish] []
      | .stdout t text => observe d t ev [.write text] []
  | ["end"] =>
    -- end of stream: nothing may be left pending or stashed
    let ok := d.cands.any fun c => c.pend.isEmpty
    (d, if ok && d.stash.isEmpty then "ok" else "reject:pending")
  | _ => (d, "bad-op")

def main : IO Unit := do
  loop (← IO.getStdin) (← IO.getStdout) ({} : D) handle
end NLV.Driver.Trace
