import NLV.Model.DoneCallback
import NLV.Driver.Util
import NLV.Driver.Aio
/-! Acceptance-mode driver for model I. -/
namespace NLV.Driver.Done
open NLV.Done NLV.Driver

def tau (s : St) : List St := (step s .mon).toList

inductive S where
  | none
  | thr (ss : List St)
  | task (ss : List TSt)

def parseList (s : String) : Option (List Nat) :=
  if s = "-" then some [] else (s.splitOn ",").mapM (·.toNat?)

def handle (st : S) (ws : List String) : S × String :=
  match st, ws with
  | _, ["threads", raising] => match parseList raising with
    | some r => (.thr [{ raising := r }], "n=1")
    | none => (st, "bad-op")
  | _, ["tasks"] => (.task [{}], "n=1")
  | .thr ss, "obs" :: rest =>
    let cl := Aio.closure tau ss
    let nxt : Option (List St) :=
      match rest with
      | ["start", t] => t.toNat?.map fun t => cl.filterMap (step · (.start t))
      | ["die", t] => t.toNat?.map fun t => cl.filterMap (step · (.die t))
      | ["register", t] => t.toNat?.map fun t => cl.filterMap (step · (.register t))
      | ["cb", t] => t.toNat?.map fun t => cl.filterMap (step · (.call t))
      | ["closeCall"] => some (cl.filterMap (step · .closeCall))
      | ["closeRet", e] =>
        let want : Option (Option Nat) := if e = "-" then some none else e.toNat?.map some
        want.map fun w => (cl.filterMap (step · .closeRet)).filter fun s => s.reraised == w
      | _ => none
    match nxt with
    | some l => let l := Aio.dedup l; (.thr l, s!"n={l.length}")
    | none => (st, "bad-op")
  | .task ss, "obs" :: rest =>
    let nxt : Option (List TSt) :=
      match rest with
      | ["register", t] => t.toNat?.map fun t => ss.filterMap (tstep · (.register t))
      | ["finish", t] => t.toNat?.map fun t => ss.filterMap (tstep · (.finish t))
      | ["cb", t] => t.toNat?.map fun t => ss.filterMap (tstep · (.callback t))
      | ["quiescent"] => some (ss.filter fun s => s.scheduled.isEmpty && s.active.all fun t => !s.finished.contains t)
      | _ => none
    match nxt with
    | some l => let l := Aio.dedup l; (.task l, s!"n={l.length}")
    | none => (st, "bad-op")
  | _, _ => (st, "bad-op")

def main : IO Unit := do
  loop (← IO.getStdin) (← IO.getStdout) S.none handle
end NLV.Driver.Done
