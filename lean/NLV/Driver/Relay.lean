import NLV.Model.Relay
import NLV.Driver.Util
import NLV.Driver.Aio
/-! Acceptance-mode driver for model F (τ = monitor dequeue, drain loop giving up). -/
namespace NLV.Driver.Relay
open NLV.Relay NLV.Driver

def tau (s : St) : List St := [Label.monGet, Label.drainGiveUp, Label.awaitChild].filterMap (step s)

def handle (ss : List St) (ws : List String) : List St × String :=
  match ws with
  | ["reset"] => ([{}], "n=1")
  | "obs" :: rest =>
    let cl := Aio.closure tau ss
    let nxt : Option (List St) :=
      match rest with
      | ["createChild"] => some (cl.filterMap (step · .createChild))
      | ["startRun"] => some (cl.filterMap (step · .issueStartRun))
      | ["emit", n] => n.toNat?.map fun n => cl.filterMap (step · (.emit n))
      | ["exit"] => some (cl.filterMap (step · .childExit))
      | ["kill", k] => k.toNat?.map fun k => cl.filterMap (step · (.kill k))
      | ["deliver", n] => n.toNat?.map fun n =>
          (cl.filterMap (step · .monDone)).filter fun s => s.log.getLast? == some (Obs.deliver n)
      | ["endRun"] => some (cl.filterMap (step · .joinMonitor))
      | _ => none
    match nxt with
    | some l => let l := Aio.dedup l; (l, s!"n={l.length}")
    | none => (ss, "bad-op")
  | _ => (ss, "bad-op")

def main : IO Unit := do
  loop (← IO.getStdin) (← IO.getStdout) ([{}] : List St) handle
end NLV.Driver.Relay
