import NLV.Model.RunProc
import NLV.Driver.Util
namespace NLV.Driver.RunProc
open NLV.RunProc NLV.Driver

def parseOutcome : List String → Option Outcome
  | ["returned", p] => (boolOf p).map .returned
  | ["raised", p] => (boolOf p).map .raised
  | ["systemExit"] => some .systemExit
  | ["kbd"] => some .keyboardInterruptUncaught
  | ["hardExit", n] => n.toNat?.map .hardExit
  | ["signal", n] => n.toNat?.map .killedBySignal
  | _ => none

def handle (u : Unit) (ws : List String) : Unit × String :=
  match ws with
  | "await" :: l :: rest =>
    match boolOf l, parseOutcome rest with
    | some l, some o =>
      let r := await l o
      (u, s!"ret={if r.ret then 1 else 0} exc={match r.exc with | some c => c | none => "-"} raised={if r.raisedOut then 1 else 0}")
    | _, _ => (u, "bad-op")
  | _ => (u, "bad-op")

def main : IO Unit := do
  loop (← IO.getStdin) (← IO.getStdout) () handle
end NLV.Driver.RunProc
