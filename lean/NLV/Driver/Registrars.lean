import NLV.Model.Registrars
import NLV.Driver.Util
namespace NLV.Driver.Reg
open NLV.Reg NLV.Driver

def optS (o : Option Nat) : String := match o with | some n => toString n | none => "-"
def b01 (b : Bool) : String := if b then "1" else "0"

def keyS : Key → String
  | .traceNos => "trace_nos" | .traceInfo => "trace_info" | .promptInfo => "prompt_info"
  | .promptInfoFor t => s!"prompt_info_{t}" | .promptNotice => "prompt_notice" | .runInfo => "run_info"
  | .runNo => "run_no" | .stdout => "stdout"

def valS : Value → String
  | .traceNos l => "tn:" ++ ",".intercalate (l.map toString)
  | .traceInfo i => s!"ti:{i.runNo},{i.traceNo},{i.threadNo},{optS i.taskNo},{b01 i.running}"
  | .promptInfo i =>
    s!"pi:{i.runNo},{i.traceNo},{i.promptNo},{b01 i.isOpen},{optS i.event},{optS i.file},{optS i.line},{optS i.text},{optS i.command},{b01 i.callEnd}"
  | .notice n => s!"pn:{n.runNo},{n.traceNo},{n.promptNo},{n.text},{n.event},{n.file},{n.line}"
  | .runInfo i => s!"ri:{i.runNo},{i.state},{optS i.script},{optS i.result},{optS i.exc}"
  | .runNo n => s!"rn:{n}"
  | .stdout r t x => s!"so:{r},{t},{x}"

def opS : PubOp → String
  | .pub k v => s!"P|{keyS k}|{valS v}"
  | .endKey k => s!"E|{keyS k}"

def optN (s : String) : Option (Option Nat) := if s = "-" then some none else s.toNat?.map some

def parseEv : List String → Option Ev
  | ["st", t, th, ta] => do pure (.startTrace (← t.toNat?) (← th.toNat?) (← optN ta))
  | ["et", t] => do pure (.endTrace (← t.toNat?))
  | ["sc", t, n, f, l, fr, e] => do
    pure (.startCall (← t.toNat?) { callNo := ← n.toNat?, file := ← f.toNat?, line := ← l.toNat?, frame := ← fr.toNat?, event := ← e.toNat? })
  | ["ec", t, n] => do pure (.endCall (← t.toNat?) (← n.toNat?))
  | ["sl", t, n] => do pure (.startCmdloop (← t.toNat?) (← n.toNat?))
  | ["el", t, n] => do pure (.endCmdloop (← t.toNat?) (← n.toNat?))
  | ["sp", t, n, p, x] => do pure (.startPrompt (← t.toNat?) (← n.toNat?) (← p.toNat?) (← x.toNat?))
  | ["ep", t, p, c] => do pure (.endPrompt (← t.toNat?) (← p.toNat?) (← c.toNat?))
  | ["so", t, x] => do pure (.stdout (← t.toNat?) (← x.toNat?))
  | _ => none

structure D where
  st : St := {}
  w : Option W := some {}

def fire (d : D) (h : Hook) (w' : Option W) : D × String :=
  match step d.st h with
  | none => ({ d with w := w' }, s!"error wf={b01 w'.isSome}")
  | some (st, ops) => ({ st := st, w := w' }, s!"ok wf={b01 w'.isSome} " ++ ";".intercalate (ops.map opS))

def handle (d : D) (ws : List String) : D × String :=
  match ws with
  | ["reset"] => ({}, "ok")
  | ["init", r, s] => match r.toNat?, optN s with
    | some r, some s => fire d (.initRun r s) (some {})
    | _, _ => (d, "bad-op")
  | ["startrun"] => fire d .startRun d.w
  | ["endrun", a, b] => match a.toNat?, b.toNat? with
    | some a, some b => fire d (.endRun a b) d.w
    | _, _ => (d, "bad-op")
  | "ev" :: rest => match parseEv rest with
    | some e => fire d (.event e) (d.w.bind fun w => wstep w e)
    | none => (d, "bad-op")
  | _ => (d, "bad-op")

def main : IO Unit := do
  loop (← IO.getStdin) (← IO.getStdout) ({} : D) handle
end NLV.Driver.Reg
