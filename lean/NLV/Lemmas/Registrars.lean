import NLV.Model.Registrars
/-! Helper lemmas for model C (association lists, simulation between registrar state and stream grammar). -/
namespace NLV.Reg

section al
variable {β : Type}

def keysOf (l : List (Nat × β)) : List Nat := l.map (·.1)

theorem alGet_none_iff (l : List (Nat × β)) (k : Nat) : alGet l k = none ↔ k ∉ keysOf l := by
  induction l with
  | nil => simp [alGet, keysOf]
  | cons e t ih =>
    by_cases h : e.1 = k
    · simp [alGet, keysOf, List.find?_cons, h]
    · have ih' : (Option.map (fun x => x.snd) (List.find? (fun e => decide (e.fst = k)) t) = none) ↔ k ∉ keysOf t := ih
      simp only [alGet, keysOf, List.find?_cons, h, decide_false, List.map_cons, List.mem_cons, not_or] at ih' ⊢
      constructor
      · intro hh; exact ⟨fun h' => h h'.symm, ih'.mp hh⟩
      · intro hh; exact ih'.mpr hh.2

theorem alGet_some_mem {l : List (Nat × β)} {k : Nat} {v : β} (h : alGet l k = some v) : (k, v) ∈ l := by
  unfold alGet at h
  cases hf : l.find? (fun e => e.1 = k) with
  | none => simp [hf] at h
  | some e =>
    simp only [hf, Option.map_some, Option.some.injEq] at h
    have h1 := List.find?_some hf
    have h2 := List.mem_of_find?_eq_some hf
    simp only [decide_eq_true_eq] at h1
    obtain ⟨a, b⟩ := e
    simp only at h1 h
    subst h1; subst h
    exact h2

theorem keysOf_alSet_fresh (l : List (Nat × β)) (k : Nat) (v : β) (h : k ∉ keysOf l) :
    alSet l k v = l ++ [(k, v)] := by
  induction l with
  | nil => rfl
  | cons e t ih =>
    obtain ⟨k', v'⟩ := e
    simp only [keysOf, List.map_cons, List.mem_cons, not_or] at h
    have hne : ¬ k' = k := fun h' => h.1 h'.symm
    simp only [alSet, hne, if_false, List.cons_append, List.cons.injEq, true_and]
    exact ih h.2

theorem keysOf_alErase (l : List (Nat × β)) (k : Nat) : keysOf (alErase l k) = (keysOf l).filter (· ≠ k) := by
  induction l with
  | nil => rfl
  | cons e t ih =>
    simp only [alErase, keysOf, ne_eq, decide_not] at ih ⊢
    by_cases h : e.1 = k
    · simp [List.filter_cons, h, ih]
    · simp [List.filter_cons, h, ih]

theorem filter_ne_eq_erase (l : List Nat) (k : Nat) (h : l.Nodup) : l.filter (· ≠ k) = l.erase k := by
  induction l with
  | nil => rfl
  | cons a t ih =>
    have ht := (List.nodup_cons.mp h).2
    have ha := (List.nodup_cons.mp h).1
    have ih' := ih ht
    simp only [ne_eq, decide_not] at ih' ⊢
    by_cases hak : a = k
    · subst hak
      simp only [List.filter_cons, decide_true, Bool.not_true, Bool.false_eq_true, if_false,
        List.erase_cons_head]
      rw [List.filter_eq_self.mpr]
      intro x hx
      simp only [Bool.not_eq_eq_eq_not, Bool.not_true, decide_eq_false_iff_not]
      intro hxa; subst hxa; exact ha hx
    · have : (a == k) = false := by simp [hak]
      simp [List.filter_cons, hak, List.erase_cons, this, ih']

theorem mem_alErase {l : List (Nat × β)} {k : Nat} {e : Nat × β} (h : e ∈ alErase l k) : e ∈ l ∧ e.1 ≠ k := by
  simp only [alErase, List.mem_filter, decide_eq_true_eq] at h
  exact h

end al

/-- the registrar state mirrors the grammar state of the stream seen so far -/
structure Sim (st : St) (w : W) : Prop where
  nos : st.traceNos = w.active
  info : keysOf st.infoMap = w.active
  infoOk : ∀ e ∈ st.infoMap, e.2.traceNo = e.1 ∧ e.2.running = true
  calls : st.callMap = w.calls
  calls2 : st.callMap2 = w.calls
  prompts : keysOf st.promptMap = keysOf w.prompts
  promptsOk : ∀ e ∈ st.promptMap, e.2.promptNo = (e.1 : Int) ∧ e.2.isOpen = true
  nodup : w.active.Nodup
  actStarted : ∀ t ∈ w.active, t ∈ w.started
  promptsEver : ∀ p ∈ keysOf w.prompts, p ∈ w.promptsEver

def tracePubs (o : List PubOp) : List (List Nat) :=
  o.filterMap fun | .pub .traceNos (.traceNos l) => some l | _ => none

theorem sim_init (r : Nat) (st : St) :
    Sim { st with runNo := r, traceNos := [], infoMap := [], lastPromptFrame := [], callMap := [],
                  promptMap := [], keys := [], callMap2 := [], runInfo := none } {} := by
  refine ⟨rfl, rfl, ?_, rfl, rfl, rfl, ?_, List.nodup_nil, ?_, ?_⟩ <;> intro _ h <;> simp [keysOf] at h

end NLV.Reg

namespace NLV.Reg

theorem keysOf_append {β : Type} (l : List (Nat × β)) (e : Nat × β) : keysOf (l ++ [e]) = keysOf l ++ [e.1] := by
  simp [keysOf]

/-- what a hook call must publish on `trace_nos` -/
def expectNos (e : Ev) (w' : W) : List (List Nat) :=
  match e with
  | .startTrace _ _ _ => [w'.active]
  | .endTrace _ => [w'.active]
  | _ => []

theorem sim_step (st : St) (w w' : W) (e : Ev) (h : Sim st w) (hw : wstep w e = some w') :
    ∃ st' o, onEvent st e = some (st', o) ∧ Sim st' w' ∧ tracePubs o = expectNos e w' := by
  cases e with
  | startTrace t th ta =>
    simp only [wstep] at hw
    split at hw
    · cases hw
    · rename_i hns
      cases hw
      have hna : t ∉ w.active := fun ha => hns (h.actStarted t ha)
      have hnk : t ∉ keysOf st.infoMap := by rw [h.info]; exact hna
      refine ⟨_, _, rfl, ?_, ?_⟩
      · refine ⟨?_, ?_, ?_, h.calls, h.calls2, h.prompts, h.promptsOk, ?_, ?_, h.promptsEver⟩
        · simp [pubFor, h.nos]
        · simp only [pubFor]; rw [keysOf_alSet_fresh _ _ _ hnk, keysOf_append, h.info]
        · simp only [pubFor]; rw [keysOf_alSet_fresh _ _ _ hnk]
          intro e he
          simp only [List.mem_append, List.mem_singleton] at he
          rcases he with he | rfl
          · exact h.infoOk e he
          · exact ⟨rfl, rfl⟩
        · exact List.nodup_append.mpr ⟨h.nodup, by simp, by
            intro a ha b hb; simp at hb; subst hb; intro hab; subst hab; exact hna ha⟩
        · intro x hx
          simp only [List.mem_append, List.mem_singleton] at hx ⊢
          rcases hx with hx | rfl
          · exact Or.inl (h.actStarted x hx)
          · exact Or.inr rfl
      · simp [tracePubs, expectNos, pubFor, h.nos]
  | endTrace t =>
    simp only [wstep] at hw
    split at hw
    · rename_i hc
      cases hw
      have hta : t ∈ st.traceNos := by rw [h.nos]; exact hc.1
      refine ⟨_, _, rfl, ?_, ?_⟩
      · refine ⟨?_, ?_, ?_, h.calls, h.calls2, h.prompts, h.promptsOk, ?_, ?_, h.promptsEver⟩
        · show st.traceNos.erase t = w.active.erase t
          rw [h.nos]
        · show keysOf (alErase st.infoMap t) = w.active.erase t
          rw [keysOf_alErase, h.info, filter_ne_eq_erase _ _ h.nodup]
        · intro e he
          exact h.infoOk e (mem_alErase he).1
        · exact h.nodup.erase t
        · intro x hx
          exact h.actStarted x (List.mem_of_mem_erase hx)
      · simp only [if_pos hta, tracePubs, expectNos]
        cases alGet st.infoMap t <;> by_cases hk : t ∈ st.keys <;> simp [hk, h.nos]
    · cases hw
  | startCall t c =>
    simp only [wstep] at hw
    split at hw
    · cases hw
      refine ⟨_, _, rfl, ?_, by simp [tracePubs, expectNos]⟩
      exact ⟨h.nos, h.info, h.infoOk, by simp [h.calls], by simp [h.calls2], h.prompts, h.promptsOk,
        h.nodup, h.actStarted, h.promptsEver⟩
    · cases hw
  | endCall t n =>
    simp only [wstep] at hw
    cases hc : alGet w.calls t with
    | none => simp [hc] at hw
    | some c =>
      simp only [hc] at hw
      split at hw
      · cases hw
        have hc' : alGet st.callMap t = some c := by rw [h.calls]; exact hc
        simp only [onEvent, hc']
        split
        · refine ⟨_, _, rfl, ?_, by simp [tracePubs, expectNos, pubFor]⟩
          exact ⟨h.nos, h.info, h.infoOk, by simp [pubFor, h.calls], by simp [pubFor, h.calls2],
            h.prompts, h.promptsOk, h.nodup, h.actStarted, h.promptsEver⟩
        · refine ⟨_, _, rfl, ?_, by simp [tracePubs, expectNos]⟩
          exact ⟨h.nos, h.info, h.infoOk, by simp [h.calls], by simp [h.calls2],
            h.prompts, h.promptsOk, h.nodup, h.actStarted, h.promptsEver⟩
      · cases hw
  | startCmdloop t n =>
    simp only [wstep] at hw
    cases hc : alGet w.calls t with
    | none => simp [hc] at hw
    | some c =>
      simp only [hc] at hw
      split at hw
      · cases hw; exact ⟨_, _, rfl, h, by simp [tracePubs, expectNos]⟩
      · cases hw
  | endCmdloop t n =>
    simp only [wstep] at hw
    cases hc : alGet w.calls t with
    | none => simp [hc] at hw
    | some c =>
      simp only [hc] at hw
      split at hw
      · cases hw; exact ⟨_, _, rfl, h, by simp [tracePubs, expectNos]⟩
      · cases hw
  | startPrompt t n p text =>
    simp only [wstep] at hw
    cases hc : alGet w.calls t with
    | none => simp [hc] at hw
    | some c =>
      simp only [hc] at hw
      split at hw
      · rename_i hcond
        cases hw
        have hc1 : alGet st.callMap t = some c := by rw [h.calls]; exact hc
        have hc2 : alGet st.callMap2 t = some c := by rw [h.calls2]; exact hc
        have hpw : p ∉ keysOf w.prompts := fun hp => hcond.2.1 (h.promptsEver p hp)
        have hps : p ∉ keysOf st.promptMap := by rw [h.prompts]; exact hpw
        simp only [onEvent, hc1, hc2]
        refine ⟨_, _, rfl, ?_, by simp [tracePubs, expectNos, pubFor]⟩
        refine ⟨h.nos, h.info, h.infoOk, h.calls, h.calls2, ?_, ?_, h.nodup, h.actStarted, ?_⟩
        · simp only [pubFor]
          rw [keysOf_alSet_fresh _ _ _ hps, keysOf_alSet_fresh _ _ _ hpw, keysOf_append, keysOf_append, h.prompts]
        · simp only [pubFor]
          rw [keysOf_alSet_fresh _ _ _ hps]
          intro e he
          simp only [List.mem_append, List.mem_singleton] at he
          rcases he with he | rfl
          · exact h.promptsOk e he
          · exact ⟨rfl, rfl⟩
        · rw [keysOf_alSet_fresh _ _ _ hpw, keysOf_append]
          intro q hq
          simp only [List.mem_append, List.mem_singleton] at hq ⊢
          rcases hq with hq | rfl
          · exact Or.inl (h.promptsEver q hq)
          · exact Or.inr rfl
      · cases hw
  | endPrompt t p cmd =>
    simp only [wstep] at hw
    split at hw
    · rename_i hg
      cases hw
      have hin : p ∈ keysOf st.promptMap := by
        rw [h.prompts]
        have := alGet_some_mem hg
        simp only [keysOf, List.mem_map]
        exact ⟨(p, t), this, rfl⟩
      cases hi : alGet st.promptMap p with
      | none => exact absurd hin ((alGet_none_iff _ _).mp hi)
      | some i =>
        simp only [onEvent, hi]
        refine ⟨_, _, rfl, ?_, by simp [tracePubs, expectNos, pubFor]⟩
        refine ⟨h.nos, h.info, h.infoOk, h.calls, h.calls2, ?_, ?_, h.nodup, h.actStarted, ?_⟩
        · simp only [pubFor]; rw [keysOf_alErase, keysOf_alErase, h.prompts]
        · simp only [pubFor]; intro e he; exact h.promptsOk e (mem_alErase he).1
        · intro q hq
          rw [keysOf_alErase] at hq
          exact h.promptsEver q (List.mem_filter.mp hq).1
    · cases hw
  | stdout t text =>
    simp only [wstep] at hw
    cases hw
    exact ⟨_, _, rfl, h, by simp [tracePubs, expectNos]⟩

end NLV.Reg

namespace NLV.Reg

/-! ### which per-trace prompt topics are "live": published since their last end -/

def keyStep (ks : List Nat) : PubOp → List Nat
  | .pub (.promptInfoFor t) _ => addKey ks t
  | .endKey (.promptInfoFor t) => ks.erase t
  | _ => ks

/-- fold over a publication log: the `prompt_info_<n>` topics that have been published and not ended since -/
def liveKeys (ks : List Nat) (o : List PubOp) : List Nat := o.foldl keyStep ks

@[simp] theorem liveKeys_nil (ks : List Nat) : liveKeys ks [] = ks := rfl
@[simp] theorem liveKeys_cons (ks : List Nat) (op : PubOp) (o : List PubOp) :
    liveKeys ks (op :: o) = liveKeys (keyStep ks op) o := rfl
theorem liveKeys_append (ks : List Nat) (o o' : List PubOp) :
    liveKeys ks (o ++ o') = liveKeys (liveKeys ks o) o' := by simp [liveKeys, List.foldl_append]

theorem addKey_nodup {ks : List Nat} (h : ks.Nodup) (t : Nat) : (addKey ks t).Nodup := by
  unfold addKey
  split
  · exact h
  · rename_i hn
    exact List.nodup_append.mpr ⟨h, by simp, by
      intro a ha b hb; simp at hb; subst hb; intro hab; subst hab; exact hn ha⟩

/-- the registrars' `_keys` set is exactly the set of live topics of the log they produced — for
**every** event on which no hook raises, well formed or not -/
theorem liveKeys_onEvent (st st' : St) (e : Ev) (o : List PubOp) (h : onEvent st e = some (st', o)) :
    liveKeys st.keys o = st'.keys ∧ (st.keys.Nodup → st'.keys.Nodup) := by
  cases e with
  | startTrace t th ta =>
    simp only [onEvent, pubFor, Option.some.injEq, Prod.mk.injEq] at h
    obtain ⟨rfl, rfl⟩ := h
    exact ⟨by simp [keyStep], fun hn => addKey_nodup hn t⟩
  | endTrace t =>
    simp only [onEvent, Option.some.injEq, Prod.mk.injEq] at h
    obtain ⟨rfl, rfl⟩ := h
    refine ⟨?_, fun hn => hn.erase t⟩
    cases halg : alGet st.infoMap t <;> by_cases hm : t ∈ st.traceNos <;> by_cases hk : t ∈ st.keys <;>
      simp [hm, hk, keyStep, List.erase_of_not_mem]
  | startCall t c =>
    simp only [onEvent, Option.some.injEq, Prod.mk.injEq] at h
    obtain ⟨rfl, rfl⟩ := h
    exact ⟨rfl, id⟩
  | endCall t n =>
    simp only [onEvent] at h
    cases hc : alGet st.callMap t with
    | none =>
      simp only [hc, Option.some.injEq, Prod.mk.injEq] at h
      obtain ⟨rfl, rfl⟩ := h
      exact ⟨rfl, id⟩
    | some c =>
      simp only [hc] at h
      split at h
      · simp only [pubFor, Option.some.injEq, Prod.mk.injEq] at h
        obtain ⟨rfl, rfl⟩ := h
        exact ⟨by simp [keyStep], fun hn => addKey_nodup hn t⟩
      · simp only [Option.some.injEq, Prod.mk.injEq] at h
        obtain ⟨rfl, rfl⟩ := h
        exact ⟨rfl, id⟩
  | startCmdloop t n =>
    simp only [onEvent, Option.some.injEq, Prod.mk.injEq] at h
    obtain ⟨rfl, rfl⟩ := h; exact ⟨rfl, id⟩
  | endCmdloop t n =>
    simp only [onEvent, Option.some.injEq, Prod.mk.injEq] at h
    obtain ⟨rfl, rfl⟩ := h; exact ⟨rfl, id⟩
  | startPrompt t n p text =>
    simp only [onEvent] at h
    cases hc : alGet st.callMap t with
    | none => simp [hc] at h
    | some c =>
      cases hc2 : alGet st.callMap2 t with
      | none => simp [hc, hc2] at h
      | some c2 =>
        simp only [hc, hc2, pubFor, Option.some.injEq, Prod.mk.injEq] at h
        obtain ⟨rfl, rfl⟩ := h
        exact ⟨by simp [keyStep], fun hn => addKey_nodup hn t⟩
  | endPrompt t p cmd =>
    simp only [onEvent] at h
    cases hi : alGet st.promptMap p with
    | none => simp [hi] at h
    | some i =>
      simp only [hi, pubFor, Option.some.injEq, Prod.mk.injEq] at h
      obtain ⟨rfl, rfl⟩ := h
      exact ⟨by simp [keyStep], fun hn => addKey_nodup hn t⟩
  | stdout t text =>
    simp only [onEvent, Option.some.injEq, Prod.mk.injEq] at h
    obtain ⟨rfl, rfl⟩ := h
    exact ⟨by simp [keyStep], id⟩

theorem liveKeys_endAll (ks : List Nat) (h : ks.Nodup) :
    liveKeys ks (ks.map fun t => PubOp.endKey (.promptInfoFor t)) = [] := by
  induction ks with
  | nil => rfl
  | cons a t ih =>
    have ht := (List.nodup_cons.mp h).2
    have ha := (List.nodup_cons.mp h).1
    simp only [List.map_cons, liveKeys_cons, keyStep, List.erase_cons_head]
    exact ih ht

theorem liveKeys_irrel (ks : List Nat) (o : List PubOp)
    (h : ∀ op ∈ o, (∀ t v, op ≠ .pub (.promptInfoFor t) v) ∧ (∀ t, op ≠ .endKey (.promptInfoFor t))) :
    liveKeys ks o = ks := by
  induction o generalizing ks with
  | nil => rfl
  | cons op o ih =>
    have h1 := h op (by simp)
    have : keyStep ks op = ks := by
      cases op with
      | pub k v => cases k <;> simp [keyStep]; exact absurd rfl (h1.1 _ v)
      | endKey k => cases k <;> simp [keyStep]; exact absurd rfl (h1.2 _)
    rw [liveKeys_cons, this]
    exact ih ks (fun op' hop' => h op' (by simp [hop']))

end NLV.Reg

namespace NLV.Reg

/-- the `running` flags of the `trace_info` publications about trace `t`, in order -/
def infoSeq (o : List PubOp) (t : Nat) : List Bool :=
  o.filterMap fun
    | .pub .traceInfo (.traceInfo i) => if i.traceNo = t then some i.running else none
    | _ => none

theorem infoSeq_append (o o' : List PubOp) (t : Nat) : infoSeq (o ++ o') t = infoSeq o t ++ infoSeq o' t := by
  simp [infoSeq, List.filterMap_append]

def expectInfo (w : W) (t : Nat) : List Bool :=
  if t ∈ w.active then [true] else if t ∈ w.started then [true, false] else []

theorem mem_erase_ne {l : List Nat} {a b : Nat} (h : a ≠ b) : a ∈ l.erase b ↔ a ∈ l :=
  List.mem_erase_of_ne h

theorem infoSeq_step (st st' : St) (w w' : W) (e : Ev) (o : List PubOp) (h : Sim st w)
    (hw : wstep w e = some w') (ho : onEvent st e = some (st', o)) (t : Nat) :
    expectInfo w t ++ infoSeq o t = expectInfo w' t := by
  cases e with
  | startTrace t0 th ta =>
    simp only [wstep] at hw
    split at hw
    · cases hw
    · rename_i hns
      cases hw
      simp only [onEvent, pubFor, Option.some.injEq, Prod.mk.injEq] at ho
      obtain ⟨_, rfl⟩ := ho
      have hna : t0 ∉ w.active := fun ha => hns (h.actStarted t0 ha)
      by_cases ht : t0 = t
      · subst ht
        simp [infoSeq, expectInfo, hna, hns]
      · have ht' : ¬ t = t0 := fun h' => ht h'.symm
        simp [infoSeq, expectInfo, ht, ht']
  | endTrace t0 =>
    simp only [wstep] at hw
    split at hw
    · rename_i hc
      cases hw
      simp only [onEvent, Option.some.injEq, Prod.mk.injEq] at ho
      obtain ⟨_, rfl⟩ := ho
      have hin : t0 ∈ keysOf st.infoMap := by rw [h.info]; exact hc.1
      cases hi : alGet st.infoMap t0 with
      | none => exact absurd hin ((alGet_none_iff _ _).mp hi)
      | some info =>
        have hinfo := h.infoOk _ (alGet_some_mem hi)
        simp only at hinfo
        have hnot : t0 ∉ w.active.erase t0 := fun hm => (List.Nodup.mem_erase_iff h.nodup).mp hm |>.1 rfl
        by_cases ht : t0 = t
        · subst ht
          have hst := h.actStarted t0 hc.1
          by_cases hm : t0 ∈ st.traceNos <;> by_cases hk : t0 ∈ st.keys <;>
            simp [infoSeq, expectInfo, hc.1, hnot, hst, hinfo.1, hm, hk]
        · have ht' : t ≠ t0 := fun h' => ht h'.symm
          by_cases hm : t0 ∈ st.traceNos <;> by_cases hk : t0 ∈ st.keys <;>
            simp [infoSeq, expectInfo, hinfo.1, ht, hm, hk, mem_erase_ne ht']
    · cases hw
  | startCall t0 c =>
    simp only [wstep] at hw
    split at hw
    · cases hw
      simp only [onEvent, Option.some.injEq, Prod.mk.injEq] at ho
      obtain ⟨_, rfl⟩ := ho
      simp [infoSeq, expectInfo]
    · cases hw
  | endCall t0 n =>
    simp only [wstep] at hw
    cases hc : alGet w.calls t0 with
    | none => simp [hc] at hw
    | some c =>
      simp only [hc] at hw
      split at hw
      · cases hw
        have hc' : alGet st.callMap t0 = some c := by rw [h.calls]; exact hc
        simp only [onEvent, hc'] at ho
        split at ho <;>
          (simp only [pubFor, Option.some.injEq, Prod.mk.injEq] at ho
           obtain ⟨_, rfl⟩ := ho
           simp [infoSeq, expectInfo])
      · cases hw
  | startCmdloop t0 n =>
    simp only [wstep] at hw
    cases hc : alGet w.calls t0 with
    | none => simp [hc] at hw
    | some c =>
      simp only [hc] at hw
      split at hw
      · cases hw
        simp only [onEvent, Option.some.injEq, Prod.mk.injEq] at ho
        obtain ⟨_, rfl⟩ := ho
        simp [infoSeq]
      · cases hw
  | endCmdloop t0 n =>
    simp only [wstep] at hw
    cases hc : alGet w.calls t0 with
    | none => simp [hc] at hw
    | some c =>
      simp only [hc] at hw
      split at hw
      · cases hw
        simp only [onEvent, Option.some.injEq, Prod.mk.injEq] at ho
        obtain ⟨_, rfl⟩ := ho
        simp [infoSeq]
      · cases hw
  | startPrompt t0 n p text =>
    simp only [wstep] at hw
    cases hc : alGet w.calls t0 with
    | none => simp [hc] at hw
    | some c =>
      simp only [hc] at hw
      split at hw
      · cases hw
        have hc1 : alGet st.callMap t0 = some c := by rw [h.calls]; exact hc
        have hc2 : alGet st.callMap2 t0 = some c := by rw [h.calls2]; exact hc
        simp only [onEvent, hc1, hc2, pubFor, Option.some.injEq, Prod.mk.injEq] at ho
        obtain ⟨_, rfl⟩ := ho
        simp [infoSeq, expectInfo]
      · cases hw
  | endPrompt t0 p cmd =>
    simp only [wstep] at hw
    split at hw
    · cases hw
      simp only [onEvent] at ho
      cases hi : alGet st.promptMap p with
      | none => simp [hi] at ho
      | some i =>
        simp only [hi, pubFor, Option.some.injEq, Prod.mk.injEq] at ho
        obtain ⟨_, rfl⟩ := ho
        simp [infoSeq, expectInfo]
    · cases hw
  | stdout t0 text =>
    simp only [wstep] at hw
    cases hw
    simp only [onEvent, Option.some.injEq, Prod.mk.injEq] at ho
    obtain ⟨_, rfl⟩ := ho
    simp [infoSeq]

end NLV.Reg
