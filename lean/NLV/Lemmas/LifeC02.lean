import NLV.Model.Lifecycle
import NLV.Lemmas.LifeA
/-! Helper definitions and lemmas for C02 (every started run finishes exactly once): the `run_info` publications of an
output, and the strengthened invariant `Inv2` (on top of `Inv`: while `running` no result is reported and the run
argument is in place; a blocked `run_continue_and_wait()` / `close()` exists only while `running`). -/
namespace NLV.LifeC02
open NLV.Life

/-- the `run_info` publications of an output as (run number, state) -/
def runInfosOf (o : Out) : List (Nat × String) := o.filterMap fun | .pubRunInfo n s => some (n, s) | _ => none

@[simp] theorem runInfosOf_nil : runInfosOf [] = [] := rfl

@[simp] theorem runInfosOf_append (a b : Out) : runInfosOf (a ++ b) = runInfosOf a ++ runInfosOf b :=
  List.filterMap_append ..

theorem runInfosOf_cons (x : Obs) (o : Out) :
    runInfosOf (x :: o) = (match x with | .pubRunInfo n s => [(n, s)] | _ => []) ++ runInfosOf o := by
  cases x <;> simp [runInfosOf]

@[simp] theorem runInfosOf_replicate_pubCont (n : Nat) (b : Bool) :
    runInfosOf (List.replicate n (Obs.pubCont b)) = [] := by
  induction n with
  | zero => rfl
  | succ n ih => rw [List.replicate_succ, runInfosOf_cons, ih]; rfl

@[simp] theorem runInfosOf_replicate_command (n : Nat) : runInfosOf (List.replicate n Obs.command) = [] := by
  induction n with
  | zero => rfl
  | succ n ih => rw [List.replicate_succ, runInfosOf_cons, ih]; rfl

/-! ## `run` output -/

theorem run_cons_snd (s : St) (op : Op) (ops : List Op) :
    (run s (op :: ops)).2 = (step s op).2 ++ (run (step s op).1 ops).2 := rfl

/-- environment operations other than `childExit` publish nothing on `run_info` -/
theorem step_env_runInfos (s : St) (op : Op) (h1 : op.isLifecycle = false) (h2 : ∀ r, op ≠ Op.childExit r) :
    runInfosOf (step s op).2 = [] := by
  cases op
  case childExit r => exact absurd rfl (h2 r)
  case signal k => simp only [step]; split <;> rfl
  case sendCommand => simp only [step]; split <;> rfl
  case childPrompt =>
    simp only [step]; split
    · rw [runInfosOf_append, runInfosOf_replicate_command]; rfl
    · rfl
  all_goals simp [Op.isLifecycle] at h1

theorem run_env_runInfos (s : St) (env : List Op)
    (henv : ∀ op ∈ env, op.isLifecycle = false ∧ ∀ r, op ≠ Op.childExit r) : runInfosOf (run s env).2 = [] := by
  induction env with
  | nil => rfl
  | cons op ops ih =>
    have h := henv op (List.mem_cons_self ..)
    rw [run_cons_snd, runInfosOf_append, step_env_runInfos s op h.1 h.2, step_env s op h.1 h.2]
    exact ih fun o ho => henv o (List.mem_cons_of_mem _ ho)

/-! ## the strengthened invariant -/

structure Inv2 (s : St) : Prop extends Inv s where
  /-- while a run is in progress no result is reported and the run's arguments are in place -/
  running : s.ms = "running" → s.lastResult = none ∧ s.runArg ≠ none
  /-- `run_continue_and_wait()` waits only while a run is in progress -/
  waitRunning : s.waitBlocked = true → s.ms = "running"
  /-- `close()` waits only while a run is in progress -/
  closeRunning : s.closeBlocked = true → s.ms = "running"

theorem inv2_init (stmt rn : Nat) (tt tm : Bool) : Inv2 (St.init stmt rn tt tm) := by
  refine ⟨inv_init .., ?_, ?_, ?_⟩ <;> simp [St.init, sCreated]

theorem inv2_step (s : St) (op : Op) (h : Inv2 s) : Inv2 (step s op).1 := by
  obtain ⟨h0, h4, h5, h6⟩ := h
  refine ⟨inv_step s op h0, ?_, ?_, ?_⟩
  all_goals
    obtain ⟨h1, h2, h3⟩ := h0
    obtain ⟨ms, started, closedFlag, stmt, nextRunNo, tt, tm, runArg, cont, contClosed, contPlugins, childAlive, everRan,
      lastResult, waitBlocked, closeBlocked, children⟩ := s
    simp only at h1 h2 h3 h4 h5 h6
    have hms := states_cases h1
    clear h1
    cases op
    case childExit r =>
      cases waitBlocked <;> cases closeBlocked <;> rcases hms with rfl | rfl | rfl | rfl | rfl <;> life_unfold <;>
        subst_vars <;> simp_all
    all_goals
      rcases hms with rfl | rfl | rfl | rfl | rfl <;> life_unfold <;> subst_vars <;> (repeat' split) <;> simp_all

theorem inv2_run (s : St) (ops : List Op) (h : Inv2 s) : Inv2 (run s ops).1 :=
  run_induction (P := Inv2) inv2_step h ops

theorem inv2_of_reach {s : St} (h : Reach s) : Inv2 s := by
  obtain ⟨stmt, rn, tt, tm, ops, rfl⟩ := h
  exact inv2_run _ _ (inv2_init ..)

end NLV.LifeC02
