import NLV.Model.Relay
/-! Helper lemmas for model F (relay of the child's events): projections of log and channel, step inversion, `run`. -/
namespace NLV.Relay

/-- the event the monitor has dequeued and not yet delivered -/
def inHand : Mon → List Nat
  | .handling n => [n]
  | _ => []

@[simp] theorem inHand_idle : inHand .idle = [] := rfl
@[simp] theorem inHand_exited : inHand .exited = [] := rfl
@[simp] theorem inHand_handling (n : Nat) : inHand (.handling n) = [n] := rfl

/-! ## `delivered`, `inChan` -/

@[simp] theorem delivered_nil : delivered [] = [] := rfl
@[simp] theorem delivered_append (a b : List Obs) : delivered (a ++ b) = delivered a ++ delivered b := by
  simp [delivered]
@[simp] theorem delivered_cons_deliver (n : Nat) (l : List Obs) : delivered (.deliver n :: l) = n :: delivered l := rfl
@[simp] theorem delivered_cons_startRun (l : List Obs) : delivered (.startRun :: l) = delivered l := rfl
@[simp] theorem delivered_cons_endRun (l : List Obs) : delivered (.endRun :: l) = delivered l := rfl

@[simp] theorem inChan_nil : inChan [] = [] := rfl
@[simp] theorem inChan_append (a b : List Item) : inChan (a ++ b) = inChan a ++ inChan b := by
  simp [inChan]
@[simp] theorem inChan_cons_ev (n : Nat) (l : List Item) : inChan (.ev n :: l) = n :: inChan l := rfl
@[simp] theorem inChan_cons_sentinel (l : List Item) : inChan (.sentinel :: l) = inChan l := rfl

theorem inChan_take_prefix (c : List Item) (k : Nat) : inChan (c.take k) <+: inChan c := by
  refine ⟨inChan (c.drop k), ?_⟩
  rw [← inChan_append, List.take_append_drop]

/-! ## step inversion -/

theorem step_createChild {s s' : St} (h : step s .createChild = some s') :
    s.sess = .creating ∧ s' = { s with sess := .childCreated, childAlive := true } := by
  simp only [step] at h
  split at h
  · next hc => exact ⟨hc, by cases h; rfl⟩
  · cases h

theorem step_issueStartRun {s s' : St} (h : step s .issueStartRun = some s') :
    s.sess = .childCreated ∧ s' = { s with sess := .started, log := s.log ++ [.startRun] } := by
  simp only [step] at h
  split at h
  · next hc => exact ⟨hc, by cases h; rfl⟩
  · cases h

theorem step_emit {s s' : St} {n : Nat} (h : step s (.emit n) = some s') :
    s.childAlive = true ∧ s' = { s with chan := s.chan ++ [.ev n], emitted := s.emitted ++ [n] } := by
  simp only [step] at h
  split at h
  · next hc => exact ⟨hc, by cases h; rfl⟩
  · cases h

theorem step_childExit {s s' : St} (h : step s .childExit = some s') :
    s.childAlive = true ∧ s' = { s with childAlive := false } := by
  simp only [step] at h
  split at h
  · next hc => exact ⟨hc, by cases h; rfl⟩
  · cases h

theorem step_kill {s s' : St} {keep : Nat} (h : step s (.kill keep) = some s') :
    s.childAlive = true ∧ s' = { s with childAlive := false, chan := s.chan.take keep, lost := true } := by
  simp only [step] at h
  split at h
  · next hc => exact ⟨hc, by cases h; rfl⟩
  · cases h

theorem step_awaitChild {s s' : St} (h : step s .awaitChild = some s') :
    s.sess = .started ∧ s.childAlive = false ∧ s' = { s with sess := .draining } := by
  simp only [step] at h
  split at h
  · next hc => exact ⟨hc.1, hc.2, by cases h; rfl⟩
  · cases h

theorem step_monGet {s s' : St} (h : step s .monGet = some s') :
    s.mon = .idle ∧
      ((∃ n rest, s.chan = .ev n :: rest ∧ s' = { s with mon := .handling n, chan := rest }) ∨
       (∃ rest, s.chan = .sentinel :: rest ∧ s' = { s with mon := .exited, chan := rest })) := by
  simp only [step] at h
  split at h
  · next n rest hm hc => exact ⟨hm, .inl ⟨n, rest, hc, by cases h; rfl⟩⟩
  · next rest hm hc => exact ⟨hm, .inr ⟨rest, hc, by cases h; rfl⟩⟩
  · cases h

theorem step_monDone {s s' : St} (h : step s .monDone = some s') :
    ∃ n, s.mon = .handling n ∧ s' = { s with mon := .idle, log := s.log ++ [.deliver n] } := by
  simp only [step] at h
  split at h
  · next n hm => exact ⟨n, hm, by cases h; rfl⟩
  · cases h

theorem step_drainGiveUp {s s' : St} (h : step s .drainGiveUp = some s') :
    s.sess = .draining ∧ s' = { s with sess := .sentinelQueued, chan := s.chan ++ [.sentinel] } := by
  simp only [step] at h
  split at h
  · next hc => exact ⟨hc, by cases h; rfl⟩
  · cases h

theorem step_joinMonitor {s s' : St} (h : step s .joinMonitor = some s') :
    s.sess = .sentinelQueued ∧ s.mon = .exited ∧ s' = { s with sess := .endRunIssued, log := s.log ++ [.endRun] } := by
  simp only [step] at h
  split at h
  · next hc => exact ⟨hc.1, hc.2, by cases h; rfl⟩
  · cases h

/-! ## `run` -/

/-- induction principle: a property of the initial state preserved by every step holds after every run -/
theorem run_induction {P : St → Prop} (hstep : ∀ s l s', P s → step s l = some s' → P s') :
    ∀ (ls : List Label) (s s' : St), P s → run s ls = some s' → P s' := by
  intro ls
  induction ls with
  | nil => intro s s' hp h; simp only [run, Option.some.injEq] at h; subst h; exact hp
  | cons l ls ih =>
    intro s s' hp h
    simp only [run] at h
    split at h
    · next s1 h1 => exact ih s1 s' (hstep s l s1 hp h1) h
    · cases h

end NLV.Relay
