import NLV.Model.Lifecycle
/-! Helper definitions and lemmas for model A (serial lifecycle): reachability, the structural invariant `Inv`
(the state is one of the generated states, a child is alive exactly in `running`, `initialized` has a run argument),
its preservation by every operation, and the evaluation of the generated transition table. -/
namespace NLV.Life
open NLV.Generated

/-- initial state of an object constructed with these options -/
def St.init (stmt rn : Nat) (tt tm : Bool) : St := { stmt := stmt, nextRunNo := rn, tt := tt, tm := tm }

/-- states reachable by any history (serial or not: the model's `step` is total) -/
def Reach (s : St) : Prop := ∃ stmt rn tt tm ops, s = (run (St.init stmt rn tt tm) ops).1

/-- documented edges of the state diagram -/
def edge (a b : String) : Bool :=
  (a, b) ∈ [("created","initialized"), ("initialized","running"), ("running","finished"), ("initialized","initialized"),
            ("finished","initialized"), ("created","closed"), ("initialized","closed"), ("running","closed"), ("finished","closed")]

/-- the `state_name` publications of an output -/
def pubStates (o : Out) : List String := o.filterMap fun | .pubState s => some s | _ => none

/-- `a :: l` is a walk along documented edges -/
def Walk : String → List String → Prop
  | _, [] => True
  | a, b :: l => edge a b = true ∧ Walk b l

instance Walk.instDecidable : (a : String) → (l : List String) → Decidable (Walk a l)
  | _, [] => isTrue trivial
  | _, b :: l => @instDecidableAnd _ _ _ (Walk.instDecidable b l)

def lastOr (a : String) (l : List String) : String := l.getLast?.getD a

/-! ## the generated table, evaluated (these break if the table changes) -/

theorem states_cases {ms : String} (h : ms ∈ Generated.states) :
    ms = "created" ∨ ms = "initialized" ∨ ms = "running" ∨ ms = "finished" ∨ ms = "closed" := by
  simpa [Generated.states] using h

@[simp] theorem dest_initialize_created : dest "initialize" "created" = some (some "initialized") := by decide
@[simp] theorem dest_initialize_initialized : dest "initialize" "initialized" = none := by decide
@[simp] theorem dest_initialize_running : dest "initialize" "running" = none := by decide
@[simp] theorem dest_initialize_finished : dest "initialize" "finished" = none := by decide
@[simp] theorem dest_initialize_closed : dest "initialize" "closed" = none := by decide
@[simp] theorem dest_run_created : dest "run" "created" = none := by decide
@[simp] theorem dest_run_initialized : dest "run" "initialized" = some (some "running") := by decide
@[simp] theorem dest_run_running : dest "run" "running" = none := by decide
@[simp] theorem dest_run_finished : dest "run" "finished" = none := by decide
@[simp] theorem dest_run_closed : dest "run" "closed" = none := by decide
@[simp] theorem dest_reset_created : dest "reset" "created" = none := by decide
@[simp] theorem dest_reset_initialized : dest "reset" "initialized" = some (some "initialized") := by decide
@[simp] theorem dest_reset_running : dest "reset" "running" = none := by decide
@[simp] theorem dest_reset_finished : dest "reset" "finished" = some (some "initialized") := by decide
@[simp] theorem dest_reset_closed : dest "reset" "closed" = none := by decide
@[simp] theorem dest_close_created : dest "close" "created" = some (some "closed") := by decide
@[simp] theorem dest_close_initialized : dest "close" "initialized" = some (some "closed") := by decide
@[simp] theorem dest_close_running : dest "close" "running" = some (some "closed") := by decide
@[simp] theorem dest_close_finished : dest "close" "finished" = some (some "closed") := by decide
@[simp] theorem dest_close_closed : dest "close" "closed" = some none := by decide

/-! ## publications -/

@[simp] theorem pubStates_nil : pubStates [] = [] := rfl

@[simp] theorem pubStates_append (a b : Out) : pubStates (a ++ b) = pubStates a ++ pubStates b :=
  List.filterMap_append ..

theorem pubStates_cons (x : Obs) (o : Out) :
    pubStates (x :: o) = (match x with | .pubState s => [s] | _ => []) ++ pubStates o := by
  cases x <;> simp [pubStates]

@[simp] theorem pubStates_replicate_pubCont (n : Nat) (b : Bool) : pubStates (List.replicate n (Obs.pubCont b)) = [] := by
  induction n with
  | zero => rfl
  | succ n ih => rw [List.replicate_succ, pubStates_cons, ih]; rfl

@[simp] theorem pubStates_replicate_command (n : Nat) : pubStates (List.replicate n Obs.command) = [] := by
  induction n with
  | zero => rfl
  | succ n ih => rw [List.replicate_succ, pubStates_cons, ih]; rfl

/-! ## `run` -/

theorem run_nil (s : St) : run s [] = (s, []) := rfl

theorem run_cons (s : St) (op : Op) (ops : List Op) :
    run s (op :: ops) = ((run (step s op).1 ops).1, (step s op).2 ++ (run (step s op).1 ops).2) := rfl

theorem run_append_fst (s : St) (ops1 ops2 : List Op) :
    (run s (ops1 ++ ops2)).1 = (run (run s ops1).1 ops2).1 := by
  induction ops1 generalizing s with
  | nil => rfl
  | cons op ops ih => simp only [List.cons_append, run_cons, ih]

theorem run_induction {P : St → Prop} (hstep : ∀ s op, P s → P (step s op).1) {s0 : St} (h0 : P s0) (ops : List Op) :
    P (run s0 ops).1 := by
  induction ops generalizing s0 with
  | nil => exact h0
  | cons op ops ih => rw [run_cons]; exact ih (hstep _ _ h0)

/-- reachability is preserved by every operation -/
theorem reach_step {s : St} (h : Reach s) (op : Op) : Reach (step s op).1 := by
  obtain ⟨stmt, rn, tt, tm, ops, rfl⟩ := h
  refine ⟨stmt, rn, tt, tm, ops ++ [op], ?_⟩
  rw [run_append_fst, run_cons, run_nil]

theorem reach_run {s : St} (h : Reach s) (ops : List Op) : Reach (run s ops).1 :=
  run_induction (P := Reach) (fun _ op hs => reach_step hs op) h ops

theorem reach_init (stmt rn : Nat) (tt tm : Bool) : Reach (St.init stmt rn tt tm) :=
  ⟨stmt, rn, tt, tm, [], rfl⟩

/-! ## environment operations other than `childExit` (signals, commands, prompts) change nothing -/

theorem step_env (s : St) (op : Op) (h1 : op.isLifecycle = false) (h2 : ∀ r, op ≠ Op.childExit r) :
    (step s op).1 = s := by
  cases op
  case childExit r => exact absurd rfl (h2 r)
  case signal k => simp only [step]; split <;> rfl
  case sendCommand => simp only [step]; split <;> rfl
  case childPrompt => simp only [step]; split <;> rfl
  all_goals simp [Op.isLifecycle] at h1

theorem run_env (s : St) (env : List Op) (henv : ∀ op ∈ env, op.isLifecycle = false ∧ ∀ r, op ≠ Op.childExit r) :
    (run s env).1 = s := by
  induction env with
  | nil => rfl
  | cons op ops ih =>
    rw [run_cons, step_env s op (henv op (List.mem_cons_self ..)).1 (henv op (List.mem_cons_self ..)).2]
    exact ih fun o ho => henv o (List.mem_cons_of_mem _ ho)

/-! ## the structural invariant -/

structure Inv (s : St) : Prop where
  /-- the state attribute is one of the generated states -/
  msOk : s.ms ∈ Generated.states
  /-- a child is alive exactly while the state is `running` -/
  alive : s.childAlive = true ↔ s.ms = "running"
  /-- `initialized` always has a run argument (`assert context.run_arg` in `start_run` never fails) -/
  initArg : s.ms = "initialized" → s.runArg ≠ none

theorem inv_init (stmt rn : Nat) (tt tm : Bool) : Inv (St.init stmt rn tt tm) := by
  constructor <;> simp [St.init, sCreated, Generated.states]

/-- unfold one operation of the model on a state whose `ms` is a literal -/
macro "life_unfold" : tactic =>
  `(tactic| simp [step, contRun, enterInitialized, enterRunning, finishRun, doCloseTrigger, sCreated, sInitialized,
      sRunning, sFinished, sClosed] at *)

theorem inv_step (s : St) (op : Op) (h : Inv s) : Inv (step s op).1 := by
  obtain ⟨h1, h2, h3⟩ := h
  obtain ⟨ms, started, closedFlag, stmt, nextRunNo, tt, tm, runArg, cont, contClosed, contPlugins, childAlive, everRan,
    lastResult, waitBlocked, closeBlocked, children⟩ := s
  simp only at h1 h2 h3
  have hms := states_cases h1
  clear h1
  cases op
  case childExit r =>
    cases waitBlocked <;> cases closeBlocked <;> rcases hms with rfl | rfl | rfl | rfl | rfl <;> life_unfold <;>
      subst_vars <;> constructor <;> simp_all [Generated.states]
  all_goals
    rcases hms with rfl | rfl | rfl | rfl | rfl <;> life_unfold <;> subst_vars <;> (repeat' split) <;>
      constructor <;> simp_all [Generated.states]

theorem inv_run (s : St) (ops : List Op) (h : Inv s) : Inv (run s ops).1 :=
  run_induction (P := Inv) inv_step h ops

theorem inv_of_reach {s : St} (h : Reach s) : Inv s := by
  obtain ⟨stmt, rn, tt, tm, ops, rfl⟩ := h
  exact inv_run _ _ (inv_init ..)

end NLV.Life
