import NLV.Model.Commands
/-! Helper lemmas for model E (delivery of Pdb commands): association-list look-ups, step inversion, `run`. -/
namespace NLV.Cmd

/-! ## association lists keyed by trace number -/

/-- a successful look-up in an association list with distinct keys pins down the unique entry -/
theorem find_split {α : Type} {l : List (Nat × α)} {t : Nat} {v : α}
    (hn : (l.map (·.1)).Nodup) (h : (l.find? fun e => e.1 = t).map (·.2) = some v) :
    ∃ l1 l2, l = l1 ++ (t, v) :: l2 ∧ (∀ e ∈ l1, e.1 ≠ t) ∧ (∀ e ∈ l2, e.1 ≠ t) := by
  rw [Option.map_eq_some_iff] at h
  obtain ⟨⟨t', v'⟩, hf, hv⟩ := h
  simp only at hv; subst hv
  rw [List.find?_eq_some_iff_append] at hf
  obtain ⟨ht, l1, l2, rfl, h1⟩ := hf
  simp only [decide_eq_true_eq] at ht; subst ht
  refine ⟨l1, l2, rfl, ?_, ?_⟩
  · intro e he; simpa using h1 e he
  · intro e he heq
    simp only [List.map_append, List.map_cons, List.nodup_append, List.nodup_cons, List.mem_map] at hn
    exact hn.2.1.1 ⟨e, he, heq⟩

theorem find_none {α : Type} {l : List (Nat × α)} {t : Nat}
    (h : (l.find? fun e => e.1 = t).map (·.2) = none) : ∀ e ∈ l, e.1 ≠ t := by
  simp only [Option.map_eq_none_iff, List.find?_eq_none, decide_eq_true_eq] at h
  exact h

theorem find_filter_none {α : Type} (l : List (Nat × α)) (t : Nat) :
    ((l.filter fun e => e.1 ≠ t).find? fun e => e.1 = t).map (·.2) = none := by
  simp only [Option.map_eq_none_iff, List.find?_eq_none, decide_eq_true_eq, List.mem_filter]
  intro e he; simpa using he.2

theorem filter_split {α : Type} {l1 l2 : List (Nat × α)} {t : Nat} (v : α)
    (h1 : ∀ e ∈ l1, e.1 ≠ t) (h2 : ∀ e ∈ l2, e.1 ≠ t) :
    (l1 ++ (t, v) :: l2).filter (fun e => e.1 ≠ t) = l1 ++ l2 := by
  rw [List.filter_append, List.filter_cons]
  simp only [ne_eq, not_true_eq_false, decide_false, Bool.false_eq_true, if_false]
  congr 1
  · exact List.filter_eq_self.2 (by intro e he; simpa using h1 e he)
  · exact List.filter_eq_self.2 (by intro e he; simpa using h2 e he)

theorem qSet_split {l1 l2 : List (Nat × List Command)} {t : Nat} (q q' : List Command)
    (h1 : ∀ e ∈ l1, e.1 ≠ t) (h2 : ∀ e ∈ l2, e.1 ≠ t) :
    qSet (l1 ++ (t, q) :: l2) t q' = l1 ++ (t, q') :: l2 := by
  have aux : ∀ (l : List (Nat × List Command)), (∀ e ∈ l, e.1 ≠ t) →
      l.map (fun e => if e.1 = t then (t, q') else e) = l := by
    intro l hl
    induction l with
    | nil => rfl
    | cons a l ih =>
      have ha := hl a (List.mem_cons_self ..)
      simp only [List.map_cons, ha, if_false]
      rw [ih (fun e he => hl e (List.mem_cons_of_mem _ he))]
  unfold qSet
  simp only [List.map_append, List.map_cons, if_true]
  rw [aux l1 h1, aux l2 h2]

/-- ids held in the per-trace queues -/
def qids (qs : List (Nat × List Command)) : List Nat := qs.flatMap fun e => e.2.map (·.id)

theorem inTransit_eq (s : St) : inTransit s = s.inq.map (·.id) ++ qids s.queues := rfl

@[simp] theorem qids_nil : qids [] = [] := rfl
@[simp] theorem qids_cons (e : Nat × List Command) (qs) : qids (e :: qs) = e.2.map (·.id) ++ qids qs := by
  simp [qids]
@[simp] theorem qids_append (a b : List (Nat × List Command)) : qids (a ++ b) = qids a ++ qids b := by
  simp [qids]

/-! ## step inversion -/

theorem step_send {s s' : St} {t p c : Nat} (h : step s (.send t p c) = some s') :
    s' = { s with sent := s.sent ++ [⟨s.sent.length, t, p, c⟩], inq := s.inq ++ [⟨s.sent.length, t, p, c⟩] } := by
  simp only [step, Option.some.injEq] at h
  exact h.symm

theorem step_relay {s s' : St} (h : step s .relay = some s') :
    ∃ k rest, s.inq = k :: rest ∧
      ((∃ q, qGet s.queues k.trace = some q ∧
          s' = { s with inq := rest, queues := qSet s.queues k.trace (q ++ [k]) }) ∨
       (qGet s.queues k.trace = none ∧ s' = { s with inq := rest, discarded := s.discarded ++ [k.id] })) := by
  simp only [step] at h
  split at h
  · cases h
  · next k rest hi =>
    refine ⟨k, rest, hi, ?_⟩
    split at h
    · next q hq => left; exact ⟨q, hq, by cases h; rfl⟩
    · next hq => right; exact ⟨hq, by cases h; rfl⟩

theorem step_startTrace {s s' : St} {t : Nat} (h : step s (.startTrace t) = some s') :
    qGet s.queues t = none ∧ s' = { s with queues := s.queues ++ [(t, [])] } := by
  simp only [step] at h
  split at h
  · cases h
  · next hq => exact ⟨hq, by cases h; rfl⟩

theorem step_endTrace {s s' : St} {t : Nat} (h : step s (.endTrace t) = some s') :
    ∃ q, qGet s.queues t = some q ∧ openOf s.opened t = none ∧
      s' = { s with queues := s.queues.filter (fun e => e.1 ≠ t), discarded := s.discarded ++ q.map (·.id) } := by
  simp only [step] at h
  split at h
  · next q hq ho => exact ⟨q, hq, ho, by cases h; rfl⟩
  · cases h

theorem step_openPrompt {s s' : St} {t : Nat} (h : step s (.openPrompt t) = some s') :
    ∃ q, qGet s.queues t = some q ∧ openOf s.opened t = none ∧
      s' = { s with opened := s.opened ++ [(t, s.counter)], counter := s.counter + 1 } := by
  simp only [step] at h
  split at h
  · next q hq ho => exact ⟨q, hq, ho, by cases h; rfl⟩
  · cases h

theorem step_consume {s s' : St} {t : Nat} (h : step s (.consume t) = some s') :
    ∃ p k rest, openOf s.opened t = some p ∧ qGet s.queues t = some (k :: rest) ∧
      ((k.prompt = p ∧
          s' = { s with queues := qSet s.queues t rest, opened := s.opened.filter (fun e => e.1 ≠ t),
                        executed := s.executed ++ [{ trace := t, prompt := p, cmd := k.cmd, id := k.id }] }) ∨
       (k.prompt ≠ p ∧ s' = { s with queues := qSet s.queues t rest, discarded := s.discarded ++ [k.id] })) := by
  simp only [step] at h
  split at h
  · next p k rest ho hq =>
    refine ⟨p, k, rest, ho, hq, ?_⟩
    split at h
    · next hp => left; exact ⟨hp, by cases h; rfl⟩
    · next hp => right; exact ⟨hp, by cases h; rfl⟩
  · cases h

/-! ## `run` -/

theorem run_append (s : St) (ls ls' : List Label) :
    run s (ls ++ ls') = (run s ls).bind fun s1 => run s1 ls' := by
  induction ls generalizing s with
  | nil => rfl
  | cons l ls ih =>
    simp only [List.cons_append, run]
    cases step s l with
    | none => rfl
    | some s1 => exact ih s1

/-- induction principle: a property of the initial state preserved by every step holds after every run -/
theorem run_induction {P : St → Prop} (hstep : ∀ s l s', P s → step s l = some s' → P s')
    {s s' : St} {ls : List Label} (h0 : P s) (h : run s ls = some s') : P s' := by
  induction ls generalizing s with
  | nil => simp only [run, Option.some.injEq] at h; exact h ▸ h0
  | cons l ls ih =>
    simp only [run] at h
    cases hs : step s l with
    | none => rw [hs] at h; cases h
    | some s1 => rw [hs] at h; exact ih (hstep s l s1 h0 hs) h

end NLV.Cmd
