import NLV.Lemmas.LifeA
/-!
# Lemmas for C12 / C14 / C16 over model A (serial lifecycle)

* the definitions the three property files talk about (`St.init`, `Reach`, `hooksOf`, the protocol automaton, …);
* facts about the **generated** transition table (`dest_*`): every one of them is proved by evaluating
  `NLV.Generated.transitions`, so a change of the table breaks them;
* the structural invariant `Inv` of reachable states, one preservation lemma per operation, and its lift to `run`;
* the exact hook-protocol step lemma (`hooks_step`) and its lift to whole histories (`hooks_run`);
* the "quiet run" lemmas used by C16 (`quiet_step`, `quiet_run`).
-/
set_option linter.unusedSimpArgs false
namespace NLV.LifeB
open NLV.Generated
open NLV.Life hiding Inv dest_reset_running dest_run_running inv_init inv_of_reach inv_run inv_step reach_step run_cons run_nil

/-! ## definitions -/


/-- the hook calls a registered plugin sees, as (hook name, state at the call, run arguments present) -/
def hooksOf (o : Out) : List (String × String × Bool) := o.filterMap fun | .hook n s r => some (n, s, r) | _ => none

/-- protocol automaton: 0 = no run initialised, 1 = after init-run, 2 = after start-run (events allowed), 3 = after end-run -/
def protoStep (q : Nat) (h : String × String × Bool) : Option Nat :=
  match q, h with
  | 0, ("on_initialize_run", "initialized", true) => some 1
  | 1, ("on_initialize_run", "initialized", true) => some 1      -- reset before any run: a new initialisation
  | 1, ("on_start_run", "running", true) => some 2
  | 2, ("on_start_prompt", "running", true) => some 2
  | 2, ("on_end_run", "running", true) => some 3
  | 3, ("on_finished", "finished", false) => some 0
  | _, _ => none

def protoRun (q : Nat) : List (String × String × Bool) → Option Nat
  | [] => some q
  | h :: hs => match protoStep q h with | some q' => protoRun q' hs | none => none

/-- automaton state that corresponds to a model state -/
def protoOf (s : St) : Nat :=
  if s.ms = "initialized" then 1 else if s.ms = "running" then 2 else 0

def runNosOf (o : Out) : List Nat := o.filterMap fun | .pubRunNo n => some n | _ => none
def commandsOf (o : Out) : Nat := (o.filter fun x => x == Obs.command).length

/-- the automaton state that corresponds to a model state **exactly** (see C12: `protoOf` is wrong in one corner —
an initialised run abandoned by `close()` keeps its run arguments and never gets start/end/finished) -/
def protoX (s : St) : Nat :=
  if s.ms = "running" then 2 else if s.runArg.isSome then 1 else 0

/-! ## list helpers -/

theorem hooksOf_append (a b : Out) : hooksOf (a ++ b) = hooksOf a ++ hooksOf b := by
  simp [hooksOf, List.filterMap_append]

theorem runNosOf_append (a b : Out) : runNosOf (a ++ b) = runNosOf a ++ runNosOf b := by
  simp [runNosOf, List.filterMap_append]

theorem commandsOf_append (a b : Out) : commandsOf (a ++ b) = commandsOf a + commandsOf b := by
  simp [commandsOf, List.filter_append]

theorem protoRun_append (q : Nat) (a b : List (String × String × Bool)) :
    protoRun q (a ++ b) = (protoRun q a).bind fun q' => protoRun q' b := by
  induction a generalizing q with
  | nil => simp [protoRun]
  | cons h hs ih =>
    simp only [List.cons_append, protoRun]
    cases protoStep q h with
    | none => simp
    | some q' => simpa using ih q'

theorem getD_false_eq_true (o : Option Bool) : (o.getD false = true) ↔ o = some true := by
  cases o <;> simp

theorem getD_false_eq_false (o : Option Bool) : (o.getD false = false) ↔ ¬ o = some true := by
  cases o <;> simp

theorem run_nil (s : St) : run s [] = (s, []) := rfl

theorem run_cons (s : St) (op : Op) (ops : List Op) :
    run s (op :: ops) = ((run (step s op).1 ops).1, (step s op).2 ++ (run (step s op).1 ops).2) := rfl

theorem run_append (s : St) (a b : List Op) :
    run s (a ++ b) = ((run (run s a).1 b).1, (run s a).2 ++ (run (run s a).1 b).2) := by
  induction a generalizing s with
  | nil => simp [run_nil]
  | cons op ops ih => simp [run_cons, ih, List.append_assoc]

/-! ## the generated table -/

theorem dest_initialize (m : String) :
    (m = "created" ∧ dest "initialize" m = some (some "initialized")) ∨ (m ≠ "created" ∧ dest "initialize" m = none) := by
  by_cases h1 : m = "created"
  · subst h1; left; exact ⟨rfl, by decide⟩
  · right; refine ⟨h1, ?_⟩
    have h1' : ¬ "created" = m := fun h => h1 h.symm
    simp [dest, transitions, List.find?, h1']

theorem dest_run (m : String) :
    (m = "initialized" ∧ dest "run" m = some (some "running")) ∨ (m ≠ "initialized" ∧ dest "run" m = none) := by
  by_cases h1 : m = "initialized"
  · subst h1; left; exact ⟨rfl, by decide⟩
  · right; refine ⟨h1, ?_⟩
    have h1' : ¬ "initialized" = m := fun h => h1 h.symm
    simp [dest, transitions, List.find?, h1']

theorem dest_reset (m : String) :
    ((m = "initialized" ∨ m = "finished") ∧ dest "reset" m = some (some "initialized")) ∨
    (m ≠ "initialized" ∧ m ≠ "finished" ∧ dest "reset" m = none) := by
  by_cases h1 : m = "initialized"
  · subst h1; left; exact ⟨Or.inl rfl, by decide⟩
  · by_cases h2 : m = "finished"
    · subst h2; left; exact ⟨Or.inr rfl, by decide⟩
    · right; refine ⟨h1, h2, ?_⟩
      have h1' : ¬ "initialized" = m := fun h => h1 h.symm
      have h2' : ¬ "finished" = m := fun h => h2 h.symm
      simp [dest, transitions, List.find?, h1', h2']

/-- `run` is refused while running -/
theorem dest_run_running : dest "run" "running" = none := by decide

/-- `reset` is refused while running -/
theorem dest_reset_running : dest "reset" "running" = none := by decide

/-! ## the invariant of reachable states -/

structure Inv (s : St) : Prop where
  msOk : s.ms = "created" ∨ s.ms = "initialized" ∨ s.ms = "running" ∨ s.ms = "finished" ∨ s.ms = "closed"
  alive : s.childAlive = true ↔ s.ms = "running"
  argSome : s.ms = "initialized" ∨ s.ms = "running" → s.runArg.isSome = true
  argNone : s.ms = "created" ∨ s.ms = "finished" → s.runArg = none
  argEq : ∀ ra, s.runArg = some ra → ra.stmt = s.stmt ∧ ra.tt = s.tt ∧ ra.tm = s.tm ∧ ra.runNo + 1 = s.nextRunNo
  plugRun : s.contPlugins > 0 → s.ms = "running"
  plugLe : s.contPlugins ≤ 1
  contIff : s.cont = some true ↔ s.contPlugins > 0
  startedOk : s.started = false → s.ms = "created" ∨ s.ms = "closed"
  closedOk : s.closedFlag = true → (s.ms = "running" ∧ s.closeBlocked = true) ∨ s.ms = "closed"

theorem inv_init (stmt rn : Nat) (tt tm : Bool) : Inv (St.init stmt rn tt tm) := by
  constructor <;> simp [St.init, sCreated]

/-- unfold one operation on a state whose machine state is a literal -/
local macro "life_simp" : tactic =>
  `(tactic| simp [step, contRun, dest, transitions, enterInitialized, enterRunning, finishRun, doCloseTrigger,
      sInitialized, sRunning, sFinished, sClosed, sCreated, getD_false_eq_true, getD_false_eq_false] at *)

/-- preservation of `Inv` by one operation: destructure the state, split on the five machine states, evaluate the
table, split on the remaining conditions and discharge the ten fields -/
local macro "inv_tac" : tactic =>
  `(tactic| (
    intro s h
    obtain ⟨hm, h1, h2, h3, h4, h5, h6, h7, h8, h9⟩ := h
    rcases s with ⟨ms, started, closedFlag, stmt, nextRunNo, tt, tm, runArg, cont, contClosed, contPlugins,
      childAlive, everRan, lastResult, waitBlocked, closeBlocked, children⟩
    simp only at hm h1 h2 h3 h4 h5 h6 h7 h8 h9
    rcases hm with hm | hm | hm | hm | hm <;> subst hm <;> life_simp <;> (repeat' (split <;> (try life_simp))) <;>
      (constructor <;> simp_all <;> try omega)))

theorem inv_start : ∀ s, Inv s → Inv (step s .start).1 := by inv_tac
theorem inv_runOp : ∀ s, Inv s → Inv (step s .run).1 := by inv_tac
theorem inv_runAndContinue : ∀ s, Inv s → Inv (step s .runAndContinue).1 := by inv_tac
theorem inv_runContinueAndWait : ∀ s, Inv s → Inv (step s .runContinueAndWait).1 := by inv_tac
theorem inv_reset (st rn : Option Nat) (tt tm : Option Bool) : ∀ s, Inv s → Inv (step s (.reset st rn tt tm)).1 := by
  inv_tac
theorem inv_close : ∀ s, Inv s → Inv (step s .close).1 := by inv_tac
theorem inv_signal (k : String) : ∀ s, Inv s → Inv (step s (.signal k)).1 := by inv_tac
theorem inv_sendCommand : ∀ s, Inv s → Inv (step s .sendCommand).1 := by inv_tac
theorem inv_childPrompt : ∀ s, Inv s → Inv (step s .childPrompt).1 := by inv_tac
theorem inv_childExit (r : Option Nat) : ∀ s, Inv s → Inv (step s (.childExit r)).1 := by inv_tac

theorem inv_step (s : St) (op : Op) (h : Inv s) : Inv (step s op).1 := by
  cases op with
  | start => exact inv_start s h
  | run => exact inv_runOp s h
  | runAndContinue => exact inv_runAndContinue s h
  | runContinueAndWait => exact inv_runContinueAndWait s h
  | reset st rn tt tm => exact inv_reset st rn tt tm s h
  | close => exact inv_close s h
  | signal k => exact inv_signal k s h
  | sendCommand => exact inv_sendCommand s h
  | childPrompt => exact inv_childPrompt s h
  | childExit r => exact inv_childExit r s h

theorem inv_run (s : St) (ops : List Op) (h : Inv s) : Inv (run s ops).1 := by
  induction ops generalizing s with
  | nil => exact h
  | cons op ops ih => rw [run_cons]; exact ih _ (inv_step s op h)

theorem inv_of_reach {s : St} (h : Reach s) : Inv s := by
  obtain ⟨stmt, rn, tt, tm, ops, rfl⟩ := h
  exact inv_run _ _ (inv_init ..)

theorem reach_step {s : St} (h : Reach s) (op : Op) : Reach (step s op).1 := by
  obtain ⟨stmt, rn, tt, tm, ops, rfl⟩ := h
  refine ⟨stmt, rn, tt, tm, ops ++ [op], ?_⟩
  simp [run_append, run_cons, run_nil]

/-! ## the hook protocol, exactly -/

theorem protoX_init (stmt rn : Nat) (tt tm : Bool) : protoX (St.init stmt rn tt tm) = 0 := by
  simp [protoX, St.init, sCreated]

theorem protoOf_init (stmt rn : Nat) (tt tm : Bool) : protoOf (St.init stmt rn tt tm) = 0 := by
  simp [protoOf, St.init, sCreated]

/-- `protoX` and `protoOf` differ only in `closed`, and only when run arguments were left behind -/
theorem protoX_cases {s : St} (h : Inv s) :
    protoX s = protoOf s ∨ (s.ms = "closed" ∧ s.runArg.isSome = true ∧ protoX s = 1 ∧ protoOf s = 0) := by
  have h2 := h.argSome; have h3 := h.argNone; have hm := h.msOk
  rcases s with ⟨ms, started, closedFlag, stmt, nextRunNo, tt, tm, runArg, cont, contClosed, contPlugins,
    childAlive, everRan, lastResult, waitBlocked, closeBlocked, children⟩
  simp only at hm h2 h3
  rcases hm with hm | hm | hm | hm | hm <;> subst hm <;> cases runArg <;> simp [protoX, protoOf] at *

theorem protoX_eq {s : St} (h : Inv s) (hc : s.ms ≠ "closed" ∨ s.runArg = none) : protoX s = protoOf s := by
  rcases protoX_cases h with h' | ⟨h1, h2, _, _⟩
  · exact h'
  · rcases hc with hc | hc
    · exact absurd h1 hc
    · simp [hc] at h2

local macro "hooks_tac" : tactic =>
  `(tactic| (
    intro s h
    obtain ⟨hm, h1, h2, h3, h4, h5, h6, h7, h8, h9⟩ := h
    rcases s with ⟨ms, started, closedFlag, stmt, nextRunNo, tt, tm, runArg, cont, contClosed, contPlugins,
      childAlive, everRan, lastResult, waitBlocked, closeBlocked, children⟩
    simp only at hm h1 h2 h3 h4 h5 h6 h7 h8 h9
    rcases hm with hm | hm | hm | hm | hm <;> subst hm <;> life_simp <;> (repeat' (split <;> (try life_simp))) <;>
      simp_all [protoX, hooksOf, protoRun, protoStep]))

theorem hooks_start : ∀ s, Inv s → protoRun (protoX s) (hooksOf (step s .start).2) = some (protoX (step s .start).1) := by
  hooks_tac
theorem hooks_runOp : ∀ s, Inv s → protoRun (protoX s) (hooksOf (step s .run).2) = some (protoX (step s .run).1) := by
  hooks_tac
theorem hooks_runAndContinue : ∀ s, Inv s →
    protoRun (protoX s) (hooksOf (step s .runAndContinue).2) = some (protoX (step s .runAndContinue).1) := by
  hooks_tac
theorem hooks_runContinueAndWait : ∀ s, Inv s →
    protoRun (protoX s) (hooksOf (step s .runContinueAndWait).2) = some (protoX (step s .runContinueAndWait).1) := by
  hooks_tac
theorem hooks_reset (st rn : Option Nat) (tt tm : Option Bool) : ∀ s, Inv s →
    protoRun (protoX s) (hooksOf (step s (.reset st rn tt tm)).2) = some (protoX (step s (.reset st rn tt tm)).1) := by
  hooks_tac
theorem hooks_close : ∀ s, Inv s → protoRun (protoX s) (hooksOf (step s .close).2) = some (protoX (step s .close).1) := by
  hooks_tac
theorem hooks_signal (k : String) : ∀ s, Inv s →
    protoRun (protoX s) (hooksOf (step s (.signal k)).2) = some (protoX (step s (.signal k)).1) := by
  hooks_tac
theorem hooks_sendCommand : ∀ s, Inv s →
    protoRun (protoX s) (hooksOf (step s .sendCommand).2) = some (protoX (step s .sendCommand).1) := by
  hooks_tac
theorem hooks_childPrompt : ∀ s, Inv s →
    protoRun (protoX s) (hooksOf (step s .childPrompt).2) = some (protoX (step s .childPrompt).1) := by
  hooks_tac
theorem hooks_childExit (r : Option Nat) : ∀ s, Inv s →
    protoRun (protoX s) (hooksOf (step s (.childExit r)).2) = some (protoX (step s (.childExit r)).1) := by
  hooks_tac

/-- every operation extends the hook log by a word of the protocol (exact automaton state `protoX`) -/
theorem hooks_step (s : St) (op : Op) (h : Inv s) :
    protoRun (protoX s) (hooksOf (step s op).2) = some (protoX (step s op).1) := by
  cases op with
  | start => exact hooks_start s h
  | run => exact hooks_runOp s h
  | runAndContinue => exact hooks_runAndContinue s h
  | runContinueAndWait => exact hooks_runContinueAndWait s h
  | reset st rn tt tm => exact hooks_reset st rn tt tm s h
  | close => exact hooks_close s h
  | signal k => exact hooks_signal k s h
  | sendCommand => exact hooks_sendCommand s h
  | childPrompt => exact hooks_childPrompt s h
  | childExit r => exact hooks_childExit r s h

theorem hooks_run (s : St) (ops : List Op) (h : Inv s) :
    protoRun (protoX s) (hooksOf (run s ops).2) = some (protoX (run s ops).1) := by
  induction ops generalizing s with
  | nil => simp [run_nil, hooksOf, protoRun]
  | cons op ops ih =>
    rw [run_cons]
    simp only [hooksOf_append, protoRun_append, hooks_step s op h, Option.bind_some]
    exact ih _ (inv_step s op h)

/-- the one operation on which `protoOf` loses track: `close()` of an initialised, never started run — no hook is
called, the machine goes to `closed`, the run arguments stay in the context -/
theorem close_initialized {s : St} (h : Inv s) (hm : s.ms = "initialized") :
    hooksOf (step s .close).2 = [] ∧ (step s .close).1.ms = "closed" ∧ (step s .close).1.runArg = s.runArg ∧
    s.runArg.isSome = true := by
  have h2 := h.argSome; have h9 := h.closedOk
  rcases s with ⟨ms, started, closedFlag, stmt, nextRunNo, tt, tm, runArg, cont, contClosed, contPlugins,
    childAlive, everRan, lastResult, waitBlocked, closeBlocked, children⟩
  simp only at hm h2 h9
  subst hm
  cases closedFlag <;> life_simp
  · simpa [hooksOf] using h2

local macro "hooksO_tac" : tactic =>
  `(tactic| (
    intro s h
    obtain ⟨hm, h1, h2, h3, h4, h5, h6, h7, h8, h9⟩ := h
    rcases s with ⟨ms, started, closedFlag, stmt, nextRunNo, tt, tm, runArg, cont, contClosed, contPlugins,
      childAlive, everRan, lastResult, waitBlocked, closeBlocked, children⟩
    simp only at hm h1 h2 h3 h4 h5 h6 h7 h8 h9
    rcases hm with hm | hm | hm | hm | hm <;> subst hm <;> life_simp <;> (repeat' (split <;> (try life_simp))) <;>
      simp_all [protoOf, hooksOf, protoRun, protoStep]))

theorem hooksO_start : ∀ s, Inv s →
    protoRun (protoOf s) (hooksOf (step s .start).2) = some (protoOf (step s .start).1) := by
  hooksO_tac
theorem hooksO_runOp : ∀ s, Inv s → protoRun (protoOf s) (hooksOf (step s .run).2) = some (protoOf (step s .run).1) := by
  hooksO_tac
theorem hooksO_runAndContinue : ∀ s, Inv s →
    protoRun (protoOf s) (hooksOf (step s .runAndContinue).2) = some (protoOf (step s .runAndContinue).1) := by
  hooksO_tac
theorem hooksO_runContinueAndWait : ∀ s, Inv s →
    protoRun (protoOf s) (hooksOf (step s .runContinueAndWait).2) = some (protoOf (step s .runContinueAndWait).1) := by
  hooksO_tac
theorem hooksO_reset (st rn : Option Nat) (tt tm : Option Bool) : ∀ s, Inv s →
    protoRun (protoOf s) (hooksOf (step s (.reset st rn tt tm)).2) = some (protoOf (step s (.reset st rn tt tm)).1) := by
  hooksO_tac
/-- the exception: `close()` — only when the machine is not in `initialized` -/
theorem hooksO_close : ∀ s, Inv s → s.ms ≠ "initialized" →
    protoRun (protoOf s) (hooksOf (step s .close).2) = some (protoOf (step s .close).1) := by
  hooksO_tac
theorem hooksO_signal (k : String) : ∀ s, Inv s →
    protoRun (protoOf s) (hooksOf (step s (.signal k)).2) = some (protoOf (step s (.signal k)).1) := by
  hooksO_tac
theorem hooksO_sendCommand : ∀ s, Inv s →
    protoRun (protoOf s) (hooksOf (step s .sendCommand).2) = some (protoOf (step s .sendCommand).1) := by
  hooksO_tac
theorem hooksO_childPrompt : ∀ s, Inv s →
    protoRun (protoOf s) (hooksOf (step s .childPrompt).2) = some (protoOf (step s .childPrompt).1) := by
  hooksO_tac
theorem hooksO_childExit (r : Option Nat) : ∀ s, Inv s →
    protoRun (protoOf s) (hooksOf (step s (.childExit r)).2) = some (protoOf (step s (.childExit r)).1) := by
  hooksO_tac

/-- every other operation keeps `protoOf` in step with the hook log -/
theorem hooksO_step (s : St) (op : Op) (h : Inv s) (hne : ¬ (op = Op.close ∧ s.ms = "initialized")) :
    protoRun (protoOf s) (hooksOf (step s op).2) = some (protoOf (step s op).1) := by
  cases op with
  | start => exact hooksO_start s h
  | run => exact hooksO_runOp s h
  | runAndContinue => exact hooksO_runAndContinue s h
  | runContinueAndWait => exact hooksO_runContinueAndWait s h
  | reset st rn tt tm => exact hooksO_reset st rn tt tm s h
  | close => exact hooksO_close s h (fun hm => hne ⟨rfl, hm⟩)
  | signal k => exact hooksO_signal k s h
  | sendCommand => exact hooksO_sendCommand s h
  | childPrompt => exact hooksO_childPrompt s h
  | childExit r => exact hooksO_childExit r s h

/-! ## operations that publish no run number and start no child -/

theorem runNosOf_eq_nil (o : Out) : runNosOf o = [] ↔ ∀ n, Obs.pubRunNo n ∉ o := by
  induction o with
  | nil => simp [runNosOf]
  | cons x o ih =>
    simp only [runNosOf] at ih
    cases x <;> simp [runNosOf, List.filterMap_cons, ih]
    exact ⟨_, fun h => absurd rfl h⟩

theorem doCloseTrigger_quiet (s : St) :
    (∀ n, Obs.pubRunNo n ∉ (doCloseTrigger s).2) ∧ (doCloseTrigger s).1.nextRunNo = s.nextRunNo ∧
    ∀ a b c d, Obs.childStart a b c d ∉ (doCloseTrigger s).2 := by
  unfold doCloseTrigger
  repeat' split
  all_goals simp

theorem childExit_quiet (s : St) (r : Option Nat) :
    runNosOf (step s (.childExit r)).2 = [] ∧ (step s (.childExit r)).1.nextRunNo = s.nextRunNo ∧
    ∀ a b c d, Obs.childStart a b c d ∉ (step s (.childExit r)).2 := by
  cases ha : s.childAlive <;> cases hw : s.waitBlocked <;> cases hc : s.closeBlocked <;>
    simp [step, finishRun, ha, hw, hc, runNosOf_eq_nil, doCloseTrigger_quiet]

/-! ## a run started with plain `run()` stays quiet -/

/-- the operations the environment of C16 may perform -/
def EnvOp (op : Op) : Prop :=
  op = Op.childPrompt ∨ op = Op.runAndContinue ∨ op = Op.runContinueAndWait ∨ op = Op.sendCommand ∨
    (∃ k, op = Op.signal k) ∨ op = Op.run ∨ (∃ a b c d, op = Op.reset a b c d)

theorem contRun_running (s : St) (call : String) (w : Bool) (hm : s.ms = "running") :
    (contRun s call w).1.ms = "running" ∧ (contRun s call w).1.contPlugins = s.contPlugins ∧
    commandsOf (contRun s call w).2 = 0 := by
  unfold contRun
  by_cases hc : s.contClosed = true
  · simp [hc, hm, commandsOf]
  · simp only [hc, hm, dest_run_running]
    cases s.cont.getD false <;> simp [commandsOf, hm]

theorem quiet_step (s : St) (op : Op) (hm : s.ms = "running") (hp : s.contPlugins = 0) (he : EnvOp op)
    (hn : op ≠ Op.sendCommand) :
    (step s op).1.ms = "running" ∧ (step s op).1.contPlugins = 0 ∧ commandsOf (step s op).2 = 0 := by
  rcases he with rfl | rfl | rfl | rfl | ⟨k, rfl⟩ | rfl | ⟨a, b, c, d, rfl⟩
  · simp only [step]; split <;> simp [hm, hp, commandsOf]
  · simpa [step, hp] using contRun_running s "run_and_continue" false hm
  · simpa [step, hp] using contRun_running s "run_continue_and_wait" true hm
  · exact absurd rfl hn
  · simp only [step]; split <;> simp [hm, hp, commandsOf]
  · simp [step, hm, hp, dest_run_running, commandsOf]
  · simp [step, hm, hp, dest_reset_running, commandsOf]

theorem quiet_run (s : St) (env : List Op) (hm : s.ms = "running") (hp : s.contPlugins = 0)
    (henv : ∀ op ∈ env, EnvOp op) :
    commandsOf (run s (env.filter fun op => op != Op.sendCommand)).2 = 0 := by
  induction env generalizing s with
  | nil => simp [run_nil, commandsOf]
  | cons op env ih =>
    have he : EnvOp op := henv op (List.mem_cons_self ..)
    have henv' : ∀ op ∈ env, EnvOp op := fun o ho => henv o (List.mem_cons_of_mem _ ho)
    by_cases hn : op = Op.sendCommand
    · subst hn
      simpa using ih s hm hp henv'
    · have hl : (op :: env).filter (fun op => op != Op.sendCommand) =
          op :: env.filter (fun op => op != Op.sendCommand) := by simp [List.filter_cons, hn]
      rw [hl, run_cons]
      obtain ⟨h1, h2, h3⟩ := quiet_step s op hm hp he hn
      simp only [commandsOf_append, h3, Nat.zero_add]
      exact ih _ h1 h2 henv'

end NLV.LifeB
