import NLV.Model.DoneCallback
/-! Helper lemmas for model I (done-callbacks): `run` induction, the structural invariants of the thread and the
task model, and the registration-counting potential. -/
namespace NLV.Done

/-! ## `run` / `trun` -/

theorem run_induction {P : St → Prop} (hstep : ∀ s l s', P s → step s l = some s' → P s')
    {s0 s : St} {ls : List Label} (h0 : P s0) (h : run s0 ls = some s) : P s := by
  induction ls generalizing s0 with
  | nil => simp only [run, Option.some.injEq] at h; exact h ▸ h0
  | cons l ls ih =>
    simp only [run] at h
    split at h
    · next s1 hs => exact ih (hstep _ _ _ h0 hs) h
    · exact absurd h (by simp)

theorem trun_induction {P : TSt → Prop} (hstep : ∀ s l s', P s → tstep s l = some s' → P s')
    {s0 s : TSt} {ls : List TLabel} (h0 : P s0) (h : trun s0 ls = some s) : P s := by
  induction ls generalizing s0 with
  | nil => simp only [trun, Option.some.injEq] at h; exact h ▸ h0
  | cons l ls ih =>
    simp only [trun] at h
    split at h
    · next s1 hs => exact ih (hstep _ _ _ h0 hs) h
    · exact absurd h (by simp)

theorem mem_addSet {l : List Nat} {t a : Nat} : a ∈ addSet l t ↔ a ∈ l ∨ a = t := by
  unfold addSet
  split
  · constructor
    · exact Or.inl
    · rintro (h | rfl) <;> assumption
  · simp

theorem nodup_addSet {l : List Nat} {t : Nat} (h : l.Nodup) : (addSet l t).Nodup := by
  unfold addSet
  split
  · exact h
  · next hn =>
    rw [List.nodup_append]
    refine ⟨h, by simp, ?_⟩
    intro a ha b hb
    simp only [List.mem_singleton] at hb
    subst hb
    intro heq; subst heq; exact hn ha

/-! ## structural invariant of the thread model -/

structure Inv (s : St) : Prop where
  actReg : ∀ t ∈ s.active, t ∈ s.registered
  regLive : ∀ t ∈ s.registered, t ∈ s.alive ∨ t ∈ s.dead
  actNodup : s.active.Nodup
  calledOk : ∀ t ∈ s.called, t ∈ s.registered ∧ t ∈ s.dead
  restOk : ∀ rest, s.pc = .calling rest →
    rest.Nodup ∧ (∀ t ∈ rest, t ∈ s.done) ∧ (∀ t ∈ s.done, t ∈ rest ∨ t ∈ s.called)
  doneOk : (s.pc = .remove ∨ ∃ rest, s.pc = .calling rest) → ∀ t ∈ s.done, t ∈ s.active ∧ t ∈ s.dead
  removeOk : s.pc = .remove → ∀ t ∈ s.done, t ∈ s.called
  notLost : ∀ t ∈ s.registered, t ∈ s.active ∨ t ∈ s.called
  excs1 : ∀ t ∈ s.excs, t ∈ s.called ∧ t ∈ s.raising
  excs2 : ∀ t ∈ s.called, t ∈ s.raising → t ∈ s.excs
  retExit : s.closeReturned = true → s.pc = .exited ∧ s.reraised = s.excs.head?
  exitClosed : s.pc = .exited → s.closed = true
  chkClosed : s.pc = .checkActive true → s.closed = true   -- the monitor's local `closed` was read from `_closed`

theorem inv_init (r : List Nat) : Inv { raising := r } := by
  constructor <;> simp

theorem inv_step (s : St) (l : Label) (s' : St) (h : Inv s) (hs : step s l = some s') : Inv s' := by
  obtain ⟨h1, h2, h3, h4, h5, h6, h7, h8, h9, h10, h11, h12, h13⟩ := h
  obtain ⟨alive, dead, active, done, pc, closed, cr, raising, excs, reraised, registered, called⟩ := s
  dsimp only at h1 h2 h3 h4 h5 h6 h7 h8 h9 h10 h11 h12 h13
  cases l with
  | start t =>
    simp only [step] at hs
    split at hs
    · simp at hs
    · simp only [Option.some.injEq] at hs; subst hs
      constructor <;> dsimp only <;> try assumption
      case regLive =>
        intro a ha
        rcases h2 a ha with h | h
        · exact Or.inl (List.mem_append_left _ h)
        · exact Or.inr h
  | die t =>
    simp only [step] at hs
    split at hs
    · simp only [Option.some.injEq] at hs; subst hs
      constructor <;> dsimp only <;> try assumption
      case regLive =>
        intro a ha
        rcases h2 a ha with h | h
        · by_cases hat : a = t
          · subst hat; exact Or.inr (by simp)
          · exact Or.inl ((List.mem_erase_of_ne hat).2 h)
        · exact Or.inr (List.mem_append_left _ h)
      case calledOk =>
        intro a ha; exact ⟨(h4 a ha).1, List.mem_append_left _ (h4 a ha).2⟩
      case doneOk =>
        intro hp a ha; exact ⟨(h6 hp a ha).1, List.mem_append_left _ (h6 hp a ha).2⟩
    · simp at hs
  | register t =>
    simp only [step] at hs
    split at hs
    · next hlive =>
      simp only [Option.some.injEq] at hs; subst hs
      constructor <;> dsimp only <;> try assumption
      case actReg =>
        intro a ha
        rcases mem_addSet.1 ha with h | h
        · exact mem_addSet.2 (Or.inl (h1 a h))
        · exact mem_addSet.2 (Or.inr h)
      case regLive =>
        intro a ha
        rcases mem_addSet.1 ha with h | h
        · exact h2 a h
        · subst h; exact hlive
      case actNodup => exact nodup_addSet h3
      case calledOk =>
        intro a ha; exact ⟨mem_addSet.2 (Or.inl (h4 a ha).1), (h4 a ha).2⟩
      case doneOk =>
        intro hp a ha; exact ⟨mem_addSet.2 (Or.inl (h6 hp a ha).1), (h6 hp a ha).2⟩
      case notLost =>
        intro a ha
        rcases mem_addSet.1 ha with h | h
        · rcases h8 a h with h' | h'
          · exact Or.inl (mem_addSet.2 (Or.inl h'))
          · exact Or.inr h'
        · exact Or.inl (mem_addSet.2 (Or.inr h))
    · simp at hs
  | mon =>
    cases pc with
    | scan =>
      have hcr : cr = false := by
        cases cr
        · rfl
        · exact absurd (h11 rfl).1 (by simp)
      simp only [step] at hs
      split at hs
      · simp only [Option.some.injEq] at hs; subst hs
        constructor <;> dsimp only <;> try assumption
        all_goals simp [hcr]
      · simp only [Option.some.injEq] at hs; subst hs
        constructor <;> dsimp only <;> try assumption
        case restOk =>
          intro rest hr
          simp only [PC.calling.injEq] at hr; subst hr
          exact ⟨h3.filter _, fun _ h => h, fun _ h => Or.inl h⟩
        case doneOk =>
          intro _ a ha
          simp only [List.mem_filter, decide_eq_true_eq] at ha
          refine ⟨ha.1, ?_⟩
          rcases h2 a (h1 a ha.1) with h | h
          · exact absurd h ha.2
          · exact h
        all_goals simp [hcr]
    | calling rest =>
      have hcr : cr = false := by
        cases cr
        · rfl
        · exact absurd (h11 rfl).1 (by simp)
      cases rest with
      | nil =>
        simp only [step, Option.some.injEq] at hs; subst hs
        constructor <;> dsimp only <;> try assumption
        case doneOk => intro _; exact h6 (Or.inr ⟨_, rfl⟩)
        case removeOk =>
          intro _ a ha
          rcases (h5 [] rfl).2.2 a ha with h | h
          · simp at h
          · exact h
        all_goals simp [hcr]
      | cons a r => simp [step] at hs
    | remove =>
      have hcr : cr = false := by
        cases cr
        · rfl
        · exact absurd (h11 rfl).1 (by simp)
      simp only [step, Option.some.injEq] at hs; subst hs
      constructor <;> dsimp only <;> try assumption
      case actReg => intro a ha; exact h1 a (List.mem_filter.1 ha).1
      case actNodup => exact h3.filter _
      case notLost =>
        intro a ha
        by_cases hd : a ∈ done
        · exact Or.inr (h7 rfl a hd)
        · rcases h8 a ha with h | h
          · exact Or.inl (List.mem_filter.2 ⟨h, by simpa using hd⟩)
          · exact Or.inr h
      all_goals simp [hcr]
    | readClosed =>
      have hcr : cr = false := by
        cases cr
        · rfl
        · exact absurd (h11 rfl).1 (by simp)
      simp only [step, Option.some.injEq] at hs; subst hs
      constructor <;> dsimp only <;> try assumption
      all_goals simp [hcr]
    | checkActive c =>
      have hcr : cr = false := by
        cases cr
        · rfl
        · exact absurd (h11 rfl).1 (by simp)
      simp only [step] at hs
      split at hs
      · simp only [Option.some.injEq] at hs; subst hs
        constructor <;> dsimp only <;> try assumption
        all_goals simp [hcr]
      · split at hs
        · next hc =>
          subst hc
          simp only [Option.some.injEq] at hs; subst hs
          constructor <;> dsimp only <;> try assumption
          case exitClosed => intro _; exact h13 rfl
          all_goals simp [hcr]
        · simp only [Option.some.injEq] at hs; subst hs
          constructor <;> dsimp only <;> try assumption
          all_goals simp [hcr]
    | exited => simp [step] at hs
  | call t =>
    cases pc with
    | calling rest =>
      have hcr : cr = false := by
        cases cr
        · rfl
        · exact absurd (h11 rfl).1 (by simp)
      simp only [step] at hs
      split at hs
      · next htr =>
        simp only [Option.some.injEq] at hs; subst hs
        obtain ⟨hnd, hrd, hdr⟩ := h5 rest rfl
        have hd := h6 (Or.inr ⟨rest, rfl⟩)
        have htd := hd t (hrd t htr)
        constructor <;> dsimp only <;> try assumption
        case calledOk =>
          intro a ha
          rcases List.mem_append.1 ha with h | h
          · exact h4 a h
          · simp only [List.mem_singleton] at h; subst h
            exact ⟨h1 a htd.1, htd.2⟩
        case restOk =>
          intro r hr
          simp only [PC.calling.injEq] at hr; subst hr
          refine ⟨hnd.erase t, fun a ha => hrd a (List.mem_of_mem_erase ha), ?_⟩
          intro a ha
          rcases hdr a ha with h | h
          · by_cases hat : a = t
            · subst hat; exact Or.inr (by simp)
            · exact Or.inl ((List.mem_erase_of_ne hat).2 h)
          · exact Or.inr (List.mem_append_left _ h)
        case doneOk => intro _; exact hd
        case notLost =>
          intro a ha
          rcases h8 a ha with h | h
          · exact Or.inl h
          · exact Or.inr (List.mem_append_left _ h)
        case excs1 =>
          intro a ha
          split at ha
          · next hr =>
            rcases List.mem_append.1 ha with h | h
            · exact ⟨List.mem_append_left _ (h9 a h).1, (h9 a h).2⟩
            · simp only [List.mem_singleton] at h; subst h
              exact ⟨by simp, hr⟩
          · exact ⟨List.mem_append_left _ (h9 a ha).1, (h9 a ha).2⟩
        case excs2 =>
          intro a ha har
          rcases List.mem_append.1 ha with h | h
          · have := h10 a h har
            split
            · exact List.mem_append_left _ this
            · exact this
          · simp only [List.mem_singleton] at h; subst h
            simp [har]
        all_goals simp [hcr]
      · simp at hs
    | scan => simp [step] at hs
    | remove => simp [step] at hs
    | readClosed => simp [step] at hs
    | checkActive c => simp [step] at hs
    | exited => simp [step] at hs
  | closeCall =>
    simp only [step] at hs
    split at hs
    · simp at hs
    · simp only [Option.some.injEq] at hs; subst hs
      constructor <;> dsimp only <;> try assumption
      case exitClosed => intro _; rfl
      case chkClosed => intro _; rfl
  | closeRet =>
    simp only [step] at hs
    split at hs
    · next hc =>
      simp only [Option.some.injEq] at hs; subst hs
      constructor <;> dsimp only <;> try assumption
      case retExit => intro _; exact ⟨hc.2.1, rfl⟩
    · simp at hs

theorem inv_run {s0 s : St} {ls : List Label} (h0 : Inv s0) (h : run s0 ls = some s) : Inv s :=
  run_induction inv_step h0 h

/-! ## counting registrations against callbacks

`Pot s n t`: `n` registrations of `t` so far pay for the callbacks made for `t`, and one more is still owed whenever `t`
is in the active set and has not been called in the current round of the monitor. -/

def Pot (s : St) (n t : Nat) : Prop :=
  calls s t ≤ n ∧
  (t ∈ s.active → (∀ rest, s.pc = .calling rest → t ∈ s.done → t ∈ rest) → (s.pc = .remove → t ∉ s.done) →
    calls s t < n)

theorem pot_step (s : St) (l : Label) (s' : St) (n t : Nat) (h : Inv s) (hp : Pot s n t)
    (hs : step s l = some s') : Pot s' (n + if l = .register t then 1 else 0) t := by
  obtain ⟨h1, h2, h3, h4, h5, h6, h7, h8, h9, h10, h11, h12, h13⟩ := h
  obtain ⟨alive, dead, active, done, pc, closed, cr, raising, excs, reraised, registered, called⟩ := s
  obtain ⟨p1, p2⟩ := hp
  dsimp only [calls] at h1 h2 h3 h4 h5 h6 h7 h8 h9 h10 h11 h12 h13 p1 p2
  cases l with
  | start u =>
    simp only [step] at hs
    split at hs
    · simp at hs
    · simp only [Option.some.injEq] at hs; subst hs
      exact ⟨by simpa [calls] using p1, by simpa [calls] using p2⟩
  | die u =>
    simp only [step] at hs
    split at hs
    · simp only [Option.some.injEq] at hs; subst hs
      exact ⟨by simpa [calls] using p1, by simpa [calls] using p2⟩
    · simp at hs
  | closeCall =>
    simp only [step] at hs
    split at hs
    · simp at hs
    · simp only [Option.some.injEq] at hs; subst hs
      exact ⟨by simpa [calls] using p1, by simpa [calls] using p2⟩
  | closeRet =>
    simp only [step] at hs
    split at hs
    · simp only [Option.some.injEq] at hs; subst hs
      exact ⟨by simpa [calls] using p1, by simpa [calls] using p2⟩
    · simp at hs
  | register u =>
    simp only [step] at hs
    split at hs
    · simp only [Option.some.injEq] at hs; subst hs
      by_cases hut : u = t
      · subst hut
        simp only [if_true]
        exact ⟨Nat.le_succ_of_le p1, fun _ _ _ => Nat.lt_succ_of_le p1⟩
      · have hne : Label.register u ≠ Label.register t := by simpa using hut
        simp only [hne, if_false, Nat.add_zero]
        refine ⟨p1, ?_⟩
        dsimp only [calls]
        intro ha
        rcases mem_addSet.1 ha with h | h
        · exact p2 h
        · exact absurd h.symm hut
    · simp at hs
  | mon =>
    simp only [reduceCtorEq, if_false, Nat.add_zero]
    cases pc with
    | scan =>
      simp only [step] at hs
      split at hs
      · simp only [Option.some.injEq] at hs; subst hs
        refine ⟨p1, ?_⟩
        dsimp only [calls]
        intro ha _ _
        exact p2 ha (by simp) (by simp)
      · simp only [Option.some.injEq] at hs; subst hs
        refine ⟨p1, ?_⟩
        dsimp only [calls]
        intro ha _ _
        exact p2 ha (by simp) (by simp)
    | calling rest =>
      cases rest with
      | nil =>
        simp only [step, Option.some.injEq] at hs; subst hs
        refine ⟨p1, ?_⟩
        dsimp only [calls]
        intro ha _ hd
        refine p2 ha ?_ (by simp)
        intro r _ htd
        exact absurd htd (hd rfl)
      | cons a r => simp [step] at hs
    | remove =>
      simp only [step, Option.some.injEq] at hs; subst hs
      refine ⟨p1, ?_⟩
      dsimp only [calls]
      intro ha _ _
      simp only [List.mem_filter, decide_eq_true_eq] at ha
      exact p2 ha.1 (by simp) (fun _ => ha.2)
    | readClosed =>
      simp only [step, Option.some.injEq] at hs; subst hs
      refine ⟨p1, ?_⟩
      dsimp only [calls]
      intro ha _ _
      exact p2 ha (by simp) (by simp)
    | checkActive c =>
      simp only [step] at hs
      split at hs
      · simp only [Option.some.injEq] at hs; subst hs
        refine ⟨p1, ?_⟩
        dsimp only [calls]
        intro ha _ _
        exact p2 ha (by simp) (by simp)
      · split at hs
        · simp only [Option.some.injEq] at hs; subst hs
          refine ⟨p1, ?_⟩
          dsimp only [calls]
          intro ha _ _
          exact p2 ha (by simp) (by simp)
        · simp only [Option.some.injEq] at hs; subst hs
          refine ⟨p1, ?_⟩
          dsimp only [calls]
          intro ha _ _
          exact p2 ha (by simp) (by simp)
    | exited => simp [step] at hs
  | call u =>
    simp only [reduceCtorEq, if_false, Nat.add_zero]
    cases pc with
    | calling rest =>
      simp only [step] at hs
      split at hs
      · next hur =>
        simp only [Option.some.injEq] at hs; subst hs
        obtain ⟨hnd, hrd, hdr⟩ := h5 rest rfl
        have hd := h6 (Or.inr ⟨rest, rfl⟩)
        unfold Pot calls
        dsimp only
        by_cases hut : u = t
        · subst hut
          have hlt : List.count u called < n :=
            p2 (hd u (hrd u hur)).1 (fun r hr _ => by simp only [PC.calling.injEq] at hr; subst hr; exact hur)
              (by simp)
          refine ⟨by simp only [List.count_append, List.count_singleton_self]; omega, ?_⟩
          intro _ hr _
          have := hr _ rfl (hrd u hur)
          rw [hnd.mem_erase_iff] at this
          exact absurd rfl this.1
        · have hc : List.count t (called ++ [u]) = List.count t called := by
            simp [List.count_append, hut]
          rw [hc]
          refine ⟨p1, ?_⟩
          intro ha hr _
          refine p2 ha ?_ (by simp)
          intro r hrr htd
          simp only [PC.calling.injEq] at hrr; subst hrr
          exact List.mem_of_mem_erase (hr _ rfl htd)
      · simp at hs
    | scan => simp [step] at hs
    | remove => simp [step] at hs
    | readClosed => simp [step] at hs
    | checkActive c => simp [step] at hs
    | exited => simp [step] at hs

theorem pot_run {s0 s : St} {ls : List Label} {n t : Nat} (h0 : Inv s0) (hp : Pot s0 n t)
    (h : run s0 ls = some s) : Pot s (n + ls.count (.register t)) t := by
  induction ls generalizing s0 n with
  | nil => simp only [run, Option.some.injEq] at h; subst h; simpa using hp
  | cons l ls ih =>
    simp only [run] at h
    split at h
    · next s1 hs =>
      have := ih (inv_step _ _ _ h0 hs) (pot_step _ _ _ _ _ h0 hp hs) h
      rw [List.count_cons]
      have e : (l == Label.register t) = decide (l = Label.register t) := by
        by_cases hl : l = Label.register t <;> simp [hl]
      rw [e]
      by_cases hl : l = Label.register t
      · simp only [hl, if_true, decide_true] at this ⊢
        rw [Nat.add_comm (List.count _ _) 1, ← Nat.add_assoc]; exact this
      · simp only [hl, if_false, decide_false, Nat.add_zero] at this ⊢
        exact this
    · exact absurd h (by simp)

/-! ## `close()` -/

/-- only `closeCall` changes `_closed` -/
theorem step_closed {s s' : St} {l : Label} (hs : step s l = some s') (hl : l ≠ .closeCall) : s'.closed = s.closed := by
  obtain ⟨alive, dead, active, done, pc, closed, cr, raising, excs, reraised, registered, called⟩ := s
  cases l with
  | closeCall => exact absurd rfl hl
  | mon =>
    cases pc with
    | calling rest => cases rest <;> simp [step] at hs; subst hs; rfl
    | exited => simp [step] at hs
    | _ =>
      simp only [step] at hs
      repeat' split at hs
      all_goals first | (simp only [Option.some.injEq] at hs; subst hs; rfl) | simp at hs
  | call u =>
    cases pc with
    | calling rest =>
      simp only [step] at hs
      split at hs
      · simp only [Option.some.injEq] at hs; subst hs; rfl
      · simp at hs
    | _ => simp [step] at hs
  | _ =>
    simp only [step] at hs
    split at hs
    all_goals first | (simp only [Option.some.injEq] at hs; subst hs; rfl) | simp at hs

/-- `raising` is a scenario parameter: no step changes it -/
theorem step_raising {s s' : St} {l : Label} (hs : step s l = some s') : s'.raising = s.raising := by
  obtain ⟨alive, dead, active, done, pc, closed, cr, raising, excs, reraised, registered, called⟩ := s
  cases l with
  | mon =>
    cases pc with
    | calling rest => cases rest <;> simp [step] at hs; subst hs; rfl
    | exited => simp [step] at hs
    | _ =>
      simp only [step] at hs
      repeat' split at hs
      all_goals first | (simp only [Option.some.injEq] at hs; subst hs; rfl) | simp at hs
  | call u =>
    cases pc with
    | calling rest =>
      simp only [step] at hs
      split at hs
      · simp only [Option.some.injEq] at hs; subst hs; rfl
      · simp at hs
    | _ => simp [step] at hs
  | _ =>
    simp only [step] at hs
    split at hs
    all_goals first | (simp only [Option.some.injEq] at hs; subst hs; rfl) | simp at hs

theorem run_raising {s0 s : St} {ls : List Label} (h : run s0 ls = some s) : s.raising = s0.raising :=
  run_induction (P := fun x => x.raising = s0.raising) (fun _ _ _ hp hs => (step_raising hs).trans hp) rfl h

theorem step_closeCall {s s' : St} (hs : step s .closeCall = some s') : s'.closed = true := by
  simp only [step] at hs
  split at hs
  · simp at hs
  · simp only [Option.some.injEq] at hs; subst hs; rfl

/-- once the monitor has exited the active set is empty — as long as nothing registers after `close()` -/
theorem exitEmpty_step {s s' : St} {l : Label} (h : Inv s) (he : s.pc = .exited → s.active = [])
    (hl : s.closed = true → ∀ u, l ≠ .register u) (hs : step s l = some s') :
    s'.pc = .exited → s'.active = [] := by
  have h12 := h.exitClosed
  obtain ⟨alive, dead, active, done, pc, closed, cr, raising, excs, reraised, registered, called⟩ := s
  dsimp only at he hl h12
  cases l with
  | register u =>
    simp only [step] at hs
    split at hs
    · simp only [Option.some.injEq] at hs; subst hs
      dsimp only
      intro hp
      exact absurd rfl (hl (h12 hp) u)
    · simp at hs
  | mon =>
    cases pc with
    | calling rest => cases rest <;> simp [step] at hs; subst hs; simp
    | exited => simp [step] at hs
    | checkActive c =>
      simp only [step] at hs
      split at hs
      · simp only [Option.some.injEq] at hs; subst hs; simp
      · next hemp =>
        split at hs
        · simp only [Option.some.injEq] at hs; subst hs
          intro _
          simpa using hemp
        · simp only [Option.some.injEq] at hs; subst hs; simp
    | _ =>
      simp only [step] at hs
      repeat' split at hs
      all_goals first | (simp only [Option.some.injEq] at hs; subst hs; simp) | simp at hs
  | call u =>
    cases pc with
    | calling rest =>
      simp only [step] at hs
      split at hs
      · simp only [Option.some.injEq] at hs; subst hs; simp
      · simp at hs
    | _ => simp [step] at hs
  | _ =>
    simp only [step] at hs
    split at hs
    all_goals first | (simp only [Option.some.injEq] at hs; subst hs; exact he) | simp at hs

/-! ## structural invariant of the task model -/

structure TInv (s : TSt) : Prop where
  actReg : ∀ t ∈ s.active, t ∈ s.registered
  actNodup : s.active.Nodup
  schedAct : ∀ t ∈ s.scheduled, t ∈ s.active
  schedFin : ∀ t ∈ s.scheduled, t ∈ s.finished
  schedNodup : s.scheduled.Nodup
  calledOk : ∀ t ∈ s.called, t ∈ s.registered ∧ t ∈ s.finished
  actFin : ∀ t ∈ s.active, t ∈ s.finished → t ∈ s.scheduled
  notLost : ∀ t ∈ s.registered, t ∈ s.active ∨ t ∈ s.called

theorem tinv_init : TInv {} := by
  constructor <;> simp

theorem nodup_snoc {l : List Nat} {t : Nat} (h : l.Nodup) (ht : t ∉ l) : (l ++ [t]).Nodup := by
  have := nodup_addSet (t := t) h
  simpa [addSet, ht] using this

theorem tinv_step (s : TSt) (l : TLabel) (s' : TSt) (h : TInv s) (hs : tstep s l = some s') : TInv s' := by
  obtain ⟨h1, h2, h3, h4, h5, h6, h7, h8⟩ := h
  obtain ⟨finished, active, scheduled, called, registered⟩ := s
  dsimp only at h1 h2 h3 h4 h5 h6 h7 h8
  cases l with
  | register t =>
    simp only [tstep] at hs
    split at hs
    · simp only [Option.some.injEq] at hs; subst hs
      exact ⟨h1, h2, h3, h4, h5, h6, h7, h8⟩
    · next hta =>
      simp only [Option.some.injEq] at hs; subst hs
      constructor <;> dsimp only
      case actReg =>
        intro a ha
        rcases List.mem_append.1 ha with h | h
        · exact mem_addSet.2 (Or.inl (h1 a h))
        · exact mem_addSet.2 (Or.inr (by simpa using h))
      case actNodup => exact nodup_snoc h2 hta
      case schedAct =>
        intro a ha
        split at ha
        · rcases List.mem_append.1 ha with h | h
          · exact List.mem_append_left _ (h3 a h)
          · exact List.mem_append_right _ h
        · exact List.mem_append_left _ (h3 a ha)
      case schedFin =>
        intro a ha
        split at ha
        · next hf =>
          rcases List.mem_append.1 ha with h | h
          · exact h4 a h
          · simp only [List.mem_singleton] at h; subst h; exact hf
        · exact h4 a ha
      case schedNodup =>
        split
        · exact nodup_snoc h5 (fun h => hta (h3 t h))
        · exact h5
      case calledOk =>
        intro a ha; exact ⟨mem_addSet.2 (Or.inl (h6 a ha).1), (h6 a ha).2⟩
      case actFin =>
        intro a ha haf
        rcases List.mem_append.1 ha with h | h
        · have := h7 a h haf
          split
          · exact List.mem_append_left _ this
          · exact this
        · simp only [List.mem_singleton] at h; subst h
          simp [haf]
      case notLost =>
        intro a ha
        rcases mem_addSet.1 ha with h | h
        · rcases h8 a h with h' | h'
          · exact Or.inl (List.mem_append_left _ h')
          · exact Or.inr h'
        · subst h; exact Or.inl (by simp)
  | finish t =>
    simp only [tstep] at hs
    split at hs
    · simp at hs
    · next htf =>
      simp only [Option.some.injEq] at hs; subst hs
      constructor <;> dsimp only <;> try assumption
      case schedAct =>
        intro a ha
        split at ha
        · next hact =>
          rcases List.mem_append.1 ha with h | h
          · exact h3 a h
          · simp only [List.mem_singleton] at h; subst h; exact hact
        · exact h3 a ha
      case schedFin =>
        intro a ha
        split at ha
        · rcases List.mem_append.1 ha with h | h
          · exact List.mem_append_left _ (h4 a h)
          · exact List.mem_append_right _ h
        · exact List.mem_append_left _ (h4 a ha)
      case schedNodup =>
        split
        · exact nodup_snoc h5 (fun h => htf (h4 t h))
        · exact h5
      case calledOk =>
        intro a ha; exact ⟨(h6 a ha).1, List.mem_append_left _ (h6 a ha).2⟩
      case actFin =>
        intro a ha haf
        rcases List.mem_append.1 haf with h | h
        · have := h7 a ha h
          split
          · exact List.mem_append_left _ this
          · exact this
        · simp only [List.mem_singleton] at h; subst h
          simp [ha]
  | callback t =>
    simp only [tstep] at hs
    split at hs
    · next hts =>
      simp only [Option.some.injEq] at hs; subst hs
      constructor <;> dsimp only <;> try assumption
      case actReg => intro a ha; exact h1 a (List.mem_of_mem_erase ha)
      case actNodup => exact h2.erase t
      case schedAct =>
        intro a ha
        rw [h5.mem_erase_iff] at ha
        exact (List.mem_erase_of_ne ha.1).2 (h3 a ha.2)
      case schedFin => intro a ha; exact h4 a (List.mem_of_mem_erase ha)
      case schedNodup => exact h5.erase t
      case calledOk =>
        intro a ha
        rcases List.mem_append.1 ha with h | h
        · exact h6 a h
        · simp only [List.mem_singleton] at h; subst h
          exact ⟨h1 a (h3 a hts), h4 a hts⟩
      case actFin =>
        intro a ha haf
        rw [h2.mem_erase_iff] at ha
        exact (List.mem_erase_of_ne ha.1).2 (h7 a ha.2 haf)
      case notLost =>
        intro a ha
        by_cases hat : a = t
        · subst hat; exact Or.inr (by simp)
        · rcases h8 a ha with h | h
          · exact Or.inl ((List.mem_erase_of_ne hat).2 h)
          · exact Or.inr (List.mem_append_left _ h)
    · simp at hs

theorem tinv_run {s : TSt} {ls : List TLabel} (h : trun {} ls = some s) : TInv s :=
  trun_induction tinv_step tinv_init h

/-- registrations pay for callbacks made and for membership of the active set -/
theorem tpot_step (s : TSt) (l : TLabel) (s' : TSt) (n t : Nat) (h : TInv s)
    (hp : s.called.count t + s.active.count t ≤ n) (hs : tstep s l = some s') :
    s'.called.count t + s'.active.count t ≤ n + if l = .register t then 1 else 0 := by
  obtain ⟨h1, h2, h3, h4, h5, h6, h7, h8⟩ := h
  obtain ⟨finished, active, scheduled, called, registered⟩ := s
  dsimp only at h1 h2 h3 h4 h5 h6 h7 h8 hp
  cases l with
  | register u =>
    simp only [tstep] at hs
    split at hs
    · simp only [Option.some.injEq] at hs; subst hs
      exact Nat.le_trans hp (Nat.le_add_right _ _)
    · simp only [Option.some.injEq] at hs; subst hs
      dsimp only
      by_cases hut : u = t
      · subst hut
        simp only [if_true, List.count_append, List.count_singleton_self]
        omega
      · have hne : TLabel.register u ≠ TLabel.register t := by simpa using hut
        have hc : List.count t (active ++ [u]) = List.count t active := by
          simp [List.count_append, hut]
        simp only [hne, if_false, hc]
        exact hp
  | finish u =>
    simp only [tstep] at hs
    split at hs
    · simp at hs
    · simp only [Option.some.injEq] at hs; subst hs
      simpa using hp
  | callback u =>
    simp only [tstep] at hs
    split at hs
    · next hus =>
      simp only [Option.some.injEq] at hs; subst hs
      simp only [reduceCtorEq, if_false, Nat.add_zero]
      by_cases hut : u = t
      · subst hut
        have hpos : 0 < List.count u active := List.count_pos_iff.2 (h3 u hus)
        simp only [List.count_append, List.count_singleton_self, List.count_erase_self]
        omega
      · have hc : List.count t (called ++ [u]) = List.count t called := by
          simp [List.count_append, hut]
        rw [hc, List.count_erase_of_ne (fun h => hut h.symm)]
        exact hp
    · simp at hs

theorem tpot_run {s0 s : TSt} {ls : List TLabel} {n t : Nat} (h0 : TInv s0)
    (hp : s0.called.count t + s0.active.count t ≤ n) (h : trun s0 ls = some s) :
    s.called.count t + s.active.count t ≤ n + ls.count (.register t) := by
  induction ls generalizing s0 n with
  | nil => simp only [trun, Option.some.injEq] at h; subst h; simpa using hp
  | cons l ls ih =>
    simp only [trun] at h
    split at h
    · next s1 hs =>
      have := ih (tinv_step _ _ _ h0 hs) (tpot_step _ _ _ _ _ h0 hp hs) h
      rw [List.count_cons]
      have e : (l == TLabel.register t) = decide (l = TLabel.register t) := by
        by_cases hl : l = TLabel.register t <;> simp [hl]
      rw [e]
      by_cases hl : l = TLabel.register t
      · simp only [hl, if_true, decide_true] at this ⊢
        rw [Nat.add_comm (List.count _ _) 1, ← Nat.add_assoc]; exact this
      · simp only [hl, if_false, decide_false, Nat.add_zero] at this ⊢
        exact this
    · exact absurd h (by simp)

end NLV.Done
