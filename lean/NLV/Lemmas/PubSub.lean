import NLV.Model.PubSub
/-! Helper lemmas and the invariant of model B.  Core Lean only. -/
namespace NLV.PubSub
variable {α : Type}

@[simp] theorem vals_nil : vals ([] : List (Int × Val α)) = [] := rfl
@[simp] theorem vals_cons_item (i : Int) (a : α) (q) : vals ((i, Val.item a) :: q) = a :: vals q := rfl
@[simp] theorem vals_cons_stop (i : Int) (q : List (Int × Val α)) : vals ((i, Val.stop) :: q) = vals q := rfl
@[simp] theorem vals_append (p q : List (Int × Val α)) : vals (p ++ q) = vals p ++ vals q := by
  induction p with
  | nil => simp
  | cons h t ih => obtain ⟨i, v⟩ := h; cases v <;> simp [ih]

theorem vals_of_items (l : List (Int × Val α)) (xs : List α)
    (h : l.map (·.2) = xs.map Val.item) : vals l = xs := by
  induction l generalizing xs with
  | nil => cases xs <;> simp_all
  | cons e t ih =>
    obtain ⟨i, v⟩ := e
    cases xs with
    | nil => simp at h
    | cons x xs =>
      simp only [List.map_cons, List.cons.injEq] at h
      obtain ⟨h1, h2⟩ := h
      subst h1
      simp [ih xs h2]

theorem takeWhile_lt_last (l : List (Int × Val α)) (m : Int) (v : Val α)
    (h : ∀ e ∈ l, e.1 < m) :
    (l ++ [(m, v)]).takeWhile (fun e => decide (e.1 < m)) = l := by
  induction l with
  | nil => simp [List.takeWhile]
  | cons e t ih =>
    have he : e.1 < m := h e (by simp)
    simp only [List.cons_append, List.takeWhile_cons, he, decide_true, if_true]
    rw [ih (fun e' he' => h e' (by simp [he']))]

theorem drop_append_of_le {l : List α} {n : Nat} (h : n ≤ l.length) (a : α) :
    (l ++ [a]).drop n = l.drop n ++ [a] := by
  rw [List.drop_append_of_le_length h]

/-- what the *specification* says a new subscriber gets first -/
def specBase (s : Item α) (last cache : Bool) : List α :=
  if last then
    (if cache && s.cache.isSome then s.since else s.since.getLast?.toList)
  else []

/-- the end marker, if any, is the last queue entry, and it is there iff the item is closed -/
def StopOk (closed : Bool) (q : List (Int × Val α)) : Prop :=
  if closed then ∃ q0 j, q = q0 ++ [(j, Val.stop)] ∧ ∀ e ∈ q0, e.2 ≠ Val.stop
  else ∀ e ∈ q, e.2 ≠ Val.stop

structure SubOk (s : Item α) (q : Subscr α) : Prop where
  pos : q.startPos ≤ s.log.length
  prefix_ : q.got <+: q.base ++ s.log.drop q.startPos
  created : q.phase = .created → q.got = [] ∧ q.pre = [] ∧ q.queue = [] ∧ q.base = [] ∧ q.startPos = 0
  live_eq : q.phase = .live → q.got ++ q.pre ++ vals q.queue = q.base ++ s.log.drop q.startPos
  live_new : q.phase = .live → ∀ e ∈ q.queue, q.lastIdx < e.1
  live_le : q.phase = .live → ∀ e ∈ q.queue, e.1 ≤ s.idx
  live_idx : q.phase = .live → q.lastIdx ≤ s.idx
  live_stop : q.phase = .live → StopOk s.closed q.queue

structure ItemOk (s : Item α) : Prop where
  lastLe : s.lastEnumIdx ≤ s.idx
  latest : s.lastItem = s.since.getLast?
  lastVal : s.closed = false →
    s.lastEnumVal = (match s.since.getLast? with | some a => LastV.item a | none => LastV.start)
  lastStop : s.closed = true → s.lastEnumVal = LastV.stop
  cacheLe : ∀ c, s.cache = some c → ∀ e ∈ c, e.1 ≤ s.idx
  cacheShape : ∀ c, s.cache = some c →
    c = [] ∨ ∃ l' v, c = l' ++ [(s.lastEnumIdx, v)] ∧ ∀ e ∈ l', e.1 < s.lastEnumIdx
  cacheVals : ∀ c, s.cache = some c → s.closed = false → c.map (·.2) = s.since.map Val.item
  sinceSuffix : s.since <:+ s.log

structure Inv (s : Item α) : Prop where
  item : ItemOk s
  subs : ∀ q ∈ s.subs, SubOk s q

theorem inv_new (c : Bool) : Inv (Item.new c : Item α) := by
  refine ⟨⟨?_, ?_, ?_, ?_, ?_, ?_, ?_, ?_⟩, ?_⟩ <;> cases c <;> simp [Item.new]

/-! ### `preOf` computes the specified base on every state satisfying the invariant -/

theorem truthy_append {β : Type} (l : List β) (x : β) : truthy (some (l ++ [x])) = true := by
  cases l <;> rfl

theorem preOf_eq_specBase (s : Item α) (h : ItemOk s) (hc : s.closed = false) (last cache : Bool) :
    preOf s last cache = specBase s last cache := by
  unfold preOf specBase
  have hlv := h.lastVal hc
  cases last with
  | false => simp
  | true =>
    simp only [Bool.and_true, if_true]
    cases hcache : s.cache with
    | none => cases hsl : s.since.getLast? <;> simp [hlv, hsl, truthy, LastV.toList]
    | some c =>
      have hv := h.cacheVals c hcache hc
      rcases h.cacheShape c hcache with rfl | ⟨l', v, rfl, hl'⟩
      · -- empty cache: nothing published since the last clear
        have hsince : s.since = [] := by
          cases hs : s.since with
          | nil => rfl
          | cons a t => simp [hs] at hv
        cases cache <;> simp [hsince, hlv, truthy, LastV.toList]
      · cases cache with
        | false => cases hsl : s.since.getLast? <;> simp [hlv, hsl, LastV.toList]
        | true =>
          simp only [Bool.true_and, truthy_append, if_true, Option.isSome_some, Option.getD_some]
          rw [takeWhile_lt_last l' _ v hl']
          have hvals := vals_of_items _ _ hv
          cases v with
          | stop =>
            simp only [List.map_append, List.map_cons, List.map_nil] at hv
            have := congrArg List.getLast? hv
            simp at this
            cases hs : s.since.getLast? <;> simp [hs] at this
          | item a =>
            simp only [vals_append, vals_cons_item, vals_nil] at hvals
            have hlast : s.since.getLast? = some a := by rw [← hvals]; simp
            rw [← hvals, hlv, hlast]
            rfl

/-! ### preservation -/

theorem StopOk_append_item {q : List (Int × Val α)} (h : StopOk false q) (i : Int) (a : α) :
    StopOk false (q ++ [(i, Val.item a)]) := by
  simp only [StopOk, Bool.false_eq_true, if_false] at *
  intro e he
  simp only [List.mem_append, List.mem_singleton] at he
  rcases he with he | rfl
  · exact h e he
  · simp

theorem StopOk_append_stop {q : List (Int × Val α)} (h : StopOk false q) (i : Int) :
    StopOk true (q ++ [(i, Val.stop)]) := by
  simp only [StopOk, Bool.false_eq_true, if_false, if_true] at *
  exact ⟨q, i, rfl, h⟩

theorem subOk_log_irrel {s s' : Item α} {q : Subscr α} (h : SubOk s q)
    (hlog : s'.log = s.log) (hidx : s.idx ≤ s'.idx) (hcl : s'.closed = s.closed) : SubOk s' q := by
  refine ⟨?_, ?_, h.created, ?_, h.live_new, ?_, ?_, ?_⟩
  · rw [hlog]; exact h.pos
  · rw [hlog]; exact h.prefix_
  · rw [hlog]; exact h.live_eq
  · intro hl e he; have := h.live_le hl e he; omega
  · intro hl; have := h.live_idx hl; omega
  · rw [hcl]; exact h.live_stop

theorem prefix_append_right {l m : List α} (h : l <+: m) (r : List α) : l <+: m ++ r := by
  obtain ⟨t, rfl⟩ := h
  exact ⟨t ++ r, by simp⟩

theorem inv_publish (s : Item α) (a : α) (h : Inv s) : Inv (step' s (.publish a)) := by
  unfold step' step
  by_cases hc : s.closed = true
  · simpa [hc] using h
  · have hc' : s.closed = false := by simpa using hc
    simp only [hc, if_false, Bool.false_eq_true]
    have hi := h.item
    refine ⟨⟨?_, ?_, ?_, ?_, ?_, ?_, ?_, ?_⟩, ?_⟩
    · simp [enumerate]
    · simp [enumerate]
    · intro _; simp [enumerate]
    · intro hcl; simp [enumerate, hc'] at hcl
    · intro c hcache e he
      simp only [enumerate, Option.map_eq_some_iff] at hcache
      obtain ⟨c0, hc0, rfl⟩ := hcache
      simp only [List.mem_append, List.mem_singleton] at he
      rcases he with he | rfl
      · have := hi.cacheLe c0 hc0 e he; simp [enumerate]; omega
      · simp [enumerate]
    · intro c hcache
      simp only [enumerate, Option.map_eq_some_iff] at hcache
      obtain ⟨c0, hc0, rfl⟩ := hcache
      right
      refine ⟨c0, Val.item a, rfl, ?_⟩
      intro e he
      have := hi.cacheLe c0 hc0 e he
      show e.1 < s.idx + 1
      omega
    · intro c hcache _
      simp only [enumerate, Option.map_eq_some_iff] at hcache
      obtain ⟨c0, hc0, rfl⟩ := hcache
      simp [hi.cacheVals c0 hc0 hc']
    · obtain ⟨t, ht⟩ := hi.sinceSuffix
      exact ⟨t, by simp [← ht]⟩
    · intro q hq
      simp only [enumerate, List.mem_map] at hq
      obtain ⟨q0, hq0, rfl⟩ := hq
      have h0 := h.subs q0 hq0
      by_cases hl : q0.phase = .live
      · simp only [hl, if_true]
        refine ⟨?_, ?_, ?_, ?_, ?_, ?_, ?_, ?_⟩
        · simp; have := h0.pos; omega
        · show q0.got <+: q0.base ++ (s.log ++ [a]).drop q0.startPos
          rw [drop_append_of_le h0.pos, ← List.append_assoc]
          exact prefix_append_right h0.prefix_ _
        · intro hcr; simp [hl] at hcr
        · intro _
          show q0.got ++ q0.pre ++ vals (q0.queue ++ [(s.idx + 1, Val.item a)])
              = q0.base ++ (s.log ++ [a]).drop q0.startPos
          rw [drop_append_of_le h0.pos, vals_append, ← List.append_assoc, ← List.append_assoc,
            ← h0.live_eq hl]
          simp
        · intro _ e he
          simp only [List.mem_append, List.mem_singleton] at he
          rcases he with he | rfl
          · exact h0.live_new hl e he
          · have := h0.live_idx hl; show q0.lastIdx < s.idx + 1; omega
        · intro _ e he
          simp only [List.mem_append, List.mem_singleton] at he
          rcases he with he | rfl
          · have := h0.live_le hl e he; show e.1 ≤ s.idx + 1; omega
          · show s.idx + 1 ≤ s.idx + 1; omega
        · intro _; have := h0.live_idx hl; show q0.lastIdx ≤ s.idx + 1; omega
        · intro _
          have := h0.live_stop hl
          rw [hc'] at this
          show StopOk s.closed _
          rw [hc']
          exact StopOk_append_item this _ _
      · simp only [hl, if_false]
        refine ⟨?_, ?_, h0.created, ?_, ?_, ?_, ?_, ?_⟩
        · simp; have := h0.pos; omega
        · show q0.got <+: q0.base ++ (s.log ++ [a]).drop q0.startPos
          rw [drop_append_of_le h0.pos, ← List.append_assoc]
          exact prefix_append_right h0.prefix_ _
        all_goals (intro hl'; exact absurd hl' hl)

theorem inv_clear (s : Item α) (h : Inv s) : Inv (step' s .clear) := by
  unfold step' step
  by_cases hc : s.closed = true
  · simpa [hc] using h
  · have hc' : s.closed = false := by simpa using hc
    simp only [hc, if_false, Bool.false_eq_true]
    have hi := h.item
    refine ⟨⟨?_, ?_, ?_, ?_, ?_, ?_, ?_, ?_⟩, ?_⟩
    · simp
    · simp
    · intro _; simp
    · intro hcl; simp [hc'] at hcl
    · intro c hcache e he
      simp only [Option.map_eq_some_iff] at hcache
      obtain ⟨c0, _, rfl⟩ := hcache
      simp at he
    · intro c hcache
      simp only [Option.map_eq_some_iff] at hcache
      obtain ⟨c0, _, rfl⟩ := hcache
      left; rfl
    · intro c hcache _
      simp only [Option.map_eq_some_iff] at hcache
      obtain ⟨c0, _, rfl⟩ := hcache
      simp
    · exact ⟨s.log, by simp⟩
    · intro q hq
      exact subOk_log_irrel (h.subs q hq) rfl (by show s.idx ≤ s.idx + 1; omega) (by simp [hc'])

theorem inv_aclose (s : Item α) (h : Inv s) : Inv (step' s .aclose) := by
  unfold step' step
  by_cases hc : s.closed = true
  · simpa [hc] using h
  · have hc' : s.closed = false := by simpa using hc
    simp only [hc, if_false, Bool.false_eq_true]
    have hi := h.item
    refine ⟨⟨?_, ?_, ?_, ?_, ?_, ?_, ?_, ?_⟩, ?_⟩
    · simp [enumerate]
    · simpa [enumerate] using hi.latest
    · intro hcl; simp at hcl
    · intro _; simp [enumerate]
    · intro c hcache e he
      simp only [enumerate, Option.map_eq_some_iff] at hcache
      obtain ⟨c0, hc0, rfl⟩ := hcache
      simp only [List.mem_append, List.mem_singleton] at he
      rcases he with he | rfl
      · have := hi.cacheLe c0 hc0 e he; simp [enumerate]; omega
      · simp [enumerate]
    · intro c hcache
      simp only [enumerate, Option.map_eq_some_iff] at hcache
      obtain ⟨c0, hc0, rfl⟩ := hcache
      right
      refine ⟨c0, Val.stop, rfl, ?_⟩
      intro e he
      have := hi.cacheLe c0 hc0 e he
      show e.1 < s.idx + 1
      omega
    · intro c _ hcl; simp at hcl
    · simpa [enumerate] using hi.sinceSuffix
    · intro q hq
      simp only [enumerate, List.mem_map] at hq
      obtain ⟨q0, hq0, rfl⟩ := hq
      have h0 := h.subs q0 hq0
      by_cases hl : q0.phase = .live
      · simp only [hl, if_true]
        refine ⟨h0.pos, h0.prefix_, ?_, ?_, ?_, ?_, ?_, ?_⟩
        · intro hcr; simp [hl] at hcr
        · intro _
          show q0.got ++ q0.pre ++ vals (q0.queue ++ [(s.idx + 1, Val.stop)])
            = q0.base ++ s.log.drop q0.startPos
          rw [vals_append]; simpa using h0.live_eq hl
        · intro _ e he
          simp only [List.mem_append, List.mem_singleton] at he
          rcases he with he | rfl
          · exact h0.live_new hl e he
          · have := h0.live_idx hl; show q0.lastIdx < s.idx + 1; omega
        · intro _ e he
          simp only [List.mem_append, List.mem_singleton] at he
          rcases he with he | rfl
          · have := h0.live_le hl e he; show e.1 ≤ s.idx + 1; omega
          · show s.idx + 1 ≤ s.idx + 1; omega
        · intro _; have := h0.live_idx hl; show q0.lastIdx ≤ s.idx + 1; omega
        · intro _
          have := h0.live_stop hl
          rw [hc'] at this
          exact StopOk_append_stop this _
      · simp only [hl, if_false]
        refine ⟨h0.pos, h0.prefix_, h0.created, ?_, ?_, ?_, ?_, ?_⟩
        all_goals (intro hl'; exact absurd hl' hl)

theorem inv_subNew (s : Item α) (l c : Bool) (h : Inv s) : Inv (step' s (.subNew l c)) := by
  unfold step' step
  refine ⟨?_, ?_⟩
  · have hi := h.item
    exact ⟨hi.lastLe, hi.latest, hi.lastVal, hi.lastStop, hi.cacheLe, hi.cacheShape, hi.cacheVals,
      hi.sinceSuffix⟩
  · intro q hq
    simp only [List.mem_append, List.mem_singleton] at hq
    rcases hq with hq | rfl
    · have h0 := h.subs q hq
      exact ⟨h0.pos, h0.prefix_, h0.created, h0.live_eq, h0.live_new, h0.live_le, h0.live_idx,
        h0.live_stop⟩
    · refine ⟨by simp, by simp, by simp, ?_, ?_, ?_, ?_, ?_⟩ <;> (intro hl; simp at hl)

theorem subOk_pullLive (s : Item α) (q : Subscr α) (h : SubOk s q) (hl : q.phase = .live) :
    SubOk s (pullLive q).1 := by
  unfold pullLive
  cases hp : q.pre with
  | cons a pre' =>
    have heq := h.live_eq hl
    simp only [hp] at heq
    refine ⟨h.pos, ?_, ?_, ?_, h.live_new, h.live_le, h.live_idx, h.live_stop⟩
    · show q.got ++ [a] <+: _
      rw [← heq]
      exact ⟨pre' ++ vals q.queue, by simp⟩
    · intro hcr; simp [hl] at hcr
    · intro _; show q.got ++ [a] ++ pre' ++ vals q.queue = _; rw [← heq]; simp
  | nil =>
    cases hqq : q.queue with
    | nil => simpa [hp, hqq] using h
    | cons e rest =>
      obtain ⟨i, v⟩ := e
      cases v with
      | stop =>
        refine ⟨h.pos, h.prefix_, ?_, ?_, ?_, ?_, ?_, ?_⟩ <;> (intro hcr; simp at hcr)
      | item a =>
        have hlt : q.lastIdx < i := h.live_new hl (i, .item a) (by simp [hqq])
        have heq := h.live_eq hl
        simp only [hp, hqq, vals_cons_item, List.append_nil] at heq
        simp only [hlt, if_true]
        refine ⟨h.pos, ?_, ?_, ?_, ?_, ?_, h.live_idx, ?_⟩
        · show q.got ++ [a] <+: _
          rw [← heq]
          exact ⟨vals rest, by simp⟩
        · intro hcr; simp [hl] at hcr
        · intro _; show q.got ++ [a] ++ [] ++ vals rest = _; rw [← heq]; simp
        · intro _ e he; exact h.live_new hl e (by simp [hqq, he])
        · intro _ e he; exact h.live_le hl e (by simp [hqq, he])
        · intro _
          have hs := h.live_stop hl
          rw [hqq] at hs
          show StopOk s.closed rest
          unfold StopOk at *
          cases hcl : s.closed with
          | false =>
            simp only [hcl, Bool.false_eq_true, if_false] at hs ⊢
            intro e he; exact hs e (by simp [he])
          | true =>
            simp only [hcl, if_true] at hs ⊢
            obtain ⟨q0, j, hq0, hns⟩ := hs
            cases q0 with
            | nil => simp at hq0
            | cons e0 q0' =>
              simp only [List.cons_append, List.cons.injEq] at hq0
              exact ⟨q0', j, hq0.2, fun e he => hns e (by simp [he])⟩

theorem subOk_startSub (s : Item α) (hs : ItemOk s) (q : Subscr α) (h : SubOk s q)
    (hc : q.phase = .created) : SubOk s (startSub s q) := by
  unfold startSub
  obtain ⟨hgot, hpre, hqueue, hbase, hstart⟩ := h.created hc
  cases hv : s.lastEnumVal with
  | stop =>
    refine ⟨h.pos, h.prefix_, ?_, ?_, ?_, ?_, ?_, ?_⟩ <;> (intro hcr; simp at hcr)
  | start =>
    have hcl : s.closed = false := by
      cases hcl : s.closed with
      | false => rfl
      | true => have := hs.lastStop hcl; simp [hv] at this
    refine ⟨by simp, ?_, ?_, ?_, ?_, ?_, ?_, ?_⟩
    · simp [hgot]
    · intro hcr; simp at hcr
    · intro _; simp [hgot]
    · intro _ e he; simp at he
    · intro _ e he; simp at he
    · intro _; exact hs.lastLe
    · intro _; simp [StopOk, hcl]
  | item a =>
    have hcl : s.closed = false := by
      cases hcl : s.closed with
      | false => rfl
      | true => have := hs.lastStop hcl; simp [hv] at this
    refine ⟨by simp, ?_, ?_, ?_, ?_, ?_, ?_, ?_⟩
    · simp [hgot]
    · intro hcr; simp at hcr
    · intro _; simp [hgot]
    · intro _ e he; simp at he
    · intro _ e he; simp at he
    · intro _; exact hs.lastLe
    · intro _; simp [StopOk, hcl]

theorem subOk_pullSub (s : Item α) (hs : ItemOk s) (q : Subscr α) (h : SubOk s q) :
    SubOk s (pullSub s q).1 := by
  unfold pullSub
  cases hp : q.phase with
  | done => simpa using h
  | live => exact subOk_pullLive s q h hp
  | created =>
    have h' := subOk_startSub s hs q h hp
    simp only
    cases hp' : (startSub s q).phase with
    | live => exact subOk_pullLive s _ h' hp'
    | done => exact h'
    | created => exact h'

theorem subOk_leave (s : Item α) (q : Subscr α) (h : SubOk s q) : SubOk s (leaveSub q) := by
  unfold leaveSub
  refine ⟨h.pos, h.prefix_, ?_, ?_, ?_, ?_, ?_, ?_⟩ <;> (intro hcr; simp at hcr)

theorem mem_set {β} {l : List β} {i : Nat} {x y : β} (h : y ∈ l.set i x) : y ∈ l ∨ y = x := by
  rcases List.mem_or_eq_of_mem_set h with h | h
  · exact Or.inl h
  · exact Or.inr h

theorem itemOk_subs_irrel {s : Item α} (h : ItemOk s) (subs : List (Subscr α)) :
    ItemOk { s with subs := subs } :=
  ⟨h.lastLe, h.latest, h.lastVal, h.lastStop, h.cacheLe, h.cacheShape, h.cacheVals, h.sinceSuffix⟩

theorem subOk_subs_irrel {s : Item α} {q : Subscr α} (h : SubOk s q) (subs : List (Subscr α)) :
    SubOk { s with subs := subs } q :=
  ⟨h.pos, h.prefix_, h.created, h.live_eq, h.live_new, h.live_le, h.live_idx, h.live_stop⟩

theorem inv_pull (s : Item α) (i : Nat) (h : Inv s) : Inv (step' s (.pull i)) := by
  show Inv (step s (.pull i)).1
  simp only [step]
  cases hq : s.subs[i]? with
  | none => exact h
  | some q =>
    have hqm : q ∈ s.subs := List.mem_of_getElem? hq
    refine ⟨itemOk_subs_irrel h.item _, ?_⟩
    intro q' hq'
    rcases mem_set hq' with hq' | rfl
    · exact subOk_subs_irrel (h.subs q' hq') _
    · exact subOk_subs_irrel (subOk_pullSub s h.item q (h.subs q hqm)) _

theorem inv_leave (s : Item α) (i : Nat) (h : Inv s) : Inv (step' s (.leave i)) := by
  show Inv (step s (.leave i)).1
  simp only [step]
  cases hq : s.subs[i]? with
  | none => exact h
  | some q =>
    have hqm : q ∈ s.subs := List.mem_of_getElem? hq
    refine ⟨itemOk_subs_irrel h.item _, ?_⟩
    intro q' hq'
    rcases mem_set hq' with hq' | rfl
    · exact subOk_subs_irrel (h.subs q' hq') _
    · exact subOk_subs_irrel (subOk_leave s q (h.subs q hqm)) _

theorem inv_step (s : Item α) (op : Op α) (h : Inv s) : Inv (step' s op) := by
  cases op with
  | publish a => exact inv_publish s a h
  | clear => exact inv_clear s h
  | aclose => exact inv_aclose s h
  | subNew l c => exact inv_subNew s l c h
  | pull i => exact inv_pull s i h
  | leave i => exact inv_leave s i h

theorem inv_run (s : Item α) (ops : List (Op α)) (h : Inv s) : Inv (run s ops) := by
  induction ops generalizing s with
  | nil => exact h
  | cons op ops ih => exact ih _ (inv_step s op h)

end NLV.PubSub
