import NLV.Model.Aio
/-! Helper lemmas for model J (async-iterator helpers): list look-ups after a step, step inversion. -/
namespace NLV.Aio

/-! ## look-ups -/

theorem getElem?_setFlight (l : List Src) (i j : Nat) (f : Flight) :
    (setFlight l i f)[j]? = if i = j then (l[j]?).map (fun s => { s with flight := f }) else l[j]? := by
  unfold setFlight
  rw [List.getElem?_modify]
  by_cases h : i = j <;> cases l[j]? <;> simp [h]

theorem setFlight_cases {l : List Src} {i j : Nat} {f : Flight} {s' : Src}
    (h : (setFlight l i f)[j]? = some s') :
    (i = j ∧ ∃ s, l[j]? = some s ∧ s' = { s with flight := f }) ∨ (i ≠ j ∧ l[j]? = some s') := by
  rw [getElem?_setFlight] at h
  by_cases hij : i = j
  · left
    simp only [hij, if_true, Option.map_eq_some_iff] at h
    obtain ⟨s, hs, rfl⟩ := h
    exact ⟨hij, s, hs, rfl⟩
  · right
    simp only [hij, if_false] at h
    exact ⟨hij, h⟩

theorem setFlight_ne {l : List Src} {i j : Nat} {f : Flight} (h : i ≠ j) :
    (setFlight l i f)[j]? = l[j]? := by
  rw [getElem?_setFlight]; simp [h]

@[simp] theorem length_setFlight (l : List Src) (i : Nat) (f : Flight) :
    (setFlight l i f).length = l.length := by
  simp [setFlight]

theorem modify_cases {l : List Src} {i j : Nat} {g : Src → Src} {s' : Src}
    (h : (l.modify i g)[j]? = some s') :
    (i = j ∧ ∃ s, l[j]? = some s ∧ s' = g s) ∨ (i ≠ j ∧ l[j]? = some s') := by
  rw [List.getElem?_modify] at h
  cases hl : l[j]? with
  | none => simp [hl] at h
  | some s =>
    by_cases hij : i = j
    · left
      simp [hl, hij] at h
      exact ⟨hij, s, rfl, h.symm⟩
    · right
      simp [hl, hij] at h
      exact ⟨hij, by rw [h]⟩

theorem modify_ne {l : List Src} {i j : Nat} {g : Src → Src} (h : i ≠ j) :
    (l.modify i g)[j]? = l[j]? := by
  rw [List.getElem?_modify]; cases l[j]? <;> simp [h]

theorem modify_eq {l : List Src} {i : Nat} {g : Src → Src} {s : Src} (h : l[i]? = some s) :
    (l.modify i g)[i]? = some (g s) := by
  rw [List.getElem?_modify]; simp [h]

theorem map_cases {l : List Src} {j : Nat} {g : Src → Src} {s' : Src}
    (h : (l.map g)[j]? = some s') : ∃ s, l[j]? = some s ∧ s' = g s := by
  simp only [List.getElem?_map, Option.map_eq_some_iff] at h
  obtain ⟨s, hs, rfl⟩ := h
  exact ⟨s, hs, rfl⟩

/-! ## `completeSrc` on a pending source -/

section complete
variable {s : Src} (hp : s.flight = Flight.pend)
include hp

theorem completeSrc_all : (completeSrc s).all = s.all := by
  unfold completeSrc; rw [hp]; cases s.rem <;> rfl

theorem completeSrc_parked : parked (completeSrc s).flight ++ (completeSrc s).rem = s.rem := by
  unfold completeSrc; rw [hp]; cases s.rem <;> simp [parked]

theorem completeSrc_isDone : isDone (completeSrc s) = true := by
  unfold completeSrc; rw [hp]; cases s.rem <;> rfl

theorem completeSrc_hasTask : hasTask (completeSrc s) = true := by
  unfold completeSrc; rw [hp]; cases s.rem <;> rfl

theorem completeSrc_ne_none : (completeSrc s).flight ≠ Flight.none := by
  unfold completeSrc; rw [hp]; cases s.rem <;> simp

theorem completeSrc_stop (h : (completeSrc s).flight = Flight.stop) : (completeSrc s).rem = [] := by
  unfold completeSrc at h ⊢; rw [hp] at h ⊢
  cases hr : s.rem with
  | nil => simp
  | cons x r => simp [hr] at h

end complete

/-! ## `doneIdx` -/

theorem mem_doneIdx {l : List Src} {j : Nat} (h : j ∈ doneIdx l) : ∃ s, l[j]? = some s ∧ isDone s = true := by
  simp only [doneIdx, List.mem_filter, List.mem_range] at h
  cases hs : l[j]? with
  | none => simp [hs] at h
  | some s => simp only [hs] at h; exact ⟨s, rfl, h.2⟩

theorem mem_doneIdx_of {l : List Src} {j : Nat} {s : Src} (h : l[j]? = some s) (hd : isDone s = true) :
    j ∈ doneIdx l := by
  simp only [doneIdx, List.mem_filter, List.mem_range]
  exact ⟨(List.getElem?_eq_some_iff.mp h).1, by simp [h, hd]⟩

theorem doneIdx_nodup (l : List Src) : (doneIdx l).Nodup :=
  List.Nodup.sublist List.filter_sublist List.nodup_range

/-! ## `proj` -/

theorem proj_append (out : List (Nat × Nat)) (i j x : Nat) :
    proj (out ++ [(j, x)]) i = if j = i then proj out i ++ [x] else proj out i := by
  unfold proj
  by_cases h : j = i <;> simp [List.filter_append, h]

@[simp] theorem proj_nil (i : Nat) : proj [] i = [] := rfl

/-! ## step inversion -/

theorem mstep_start_inv {m m' : M} (h : mstep m .start = some m') :
    m.phase = .init ∧
      ((m.srcs = [] ∧ m' = { m with phase := .ended }) ∨
       (m.srcs ≠ [] ∧ m' = { m with srcs := m.srcs.map fun s => { s with flight := .pend }, phase := .waiting })) := by
  simp only [mstep] at h
  split at h
  · refine ⟨by assumption, ?_⟩
    split at h
    · rename_i he
      left; exact ⟨by simpa using he, by cases h; rfl⟩
    · rename_i he
      right; exact ⟨by simpa using he, by cases h; rfl⟩
  · cases h

theorem mstep_complete_inv {m m' : M} {i : Nat} (h : mstep m (.complete i) = some m') :
    ∃ s, m.srcs[i]? = some s ∧ s.flight = .pend ∧ m' = { m with srcs := m.srcs.modify i completeSrc } := by
  simp only [mstep] at h
  split at h
  · rename_i s hs
    split at h
    · rename_i hp; exact ⟨s, hs, hp, by cases h; rfl⟩
    · cases h
  · cases h

theorem mstep_wake_inv {m m' : M} (h : mstep m .wake = some m') :
    m.phase = .waiting ∧ doneIdx m.srcs ≠ [] ∧ m' = { m with phase := .processing (doneIdx m.srcs) } := by
  simp only [mstep] at h
  split at h
  · refine ⟨by assumption, ?_⟩
    split at h
    · cases h
    · rename_i he
      exact ⟨by simpa using he, by cases h; rfl⟩
  · cases h

theorem mstep_popStop_inv {m m' : M} {i : Nat} (h : mstep m (.popStop i) = some m') :
    ∃ d s, m.phase = .processing d ∧ i ∈ d ∧ m.srcs[i]? = some s ∧ s.flight = .stop ∧
      m' = { m with srcs := setFlight m.srcs i .none, phase := .processing (d.erase i) } := by
  simp only [mstep] at h
  split at h
  · rename_i d hp
    split at h
    · rename_i hid
      split at h
      · rename_i s hs
        split at h
        · rename_i hf; exact ⟨d, s, hp, hid, hs, hf, by cases h; rfl⟩
        · cases h
      · cases h
    · cases h
  · cases h

theorem mstep_recv_inv {m m' : M} {i : Nat} (h : mstep m (.recv i) = some m') :
    ∃ d s x, m.phase = .processing d ∧ i ∈ d ∧ m.srcs[i]? = some s ∧ s.flight = .item x ∧
      m' = { m with srcs := setFlight m.srcs i .none, phase := .yielded i (d.erase i), out := m.out ++ [(i, x)] } := by
  simp only [mstep] at h
  split at h
  · rename_i d hp
    split at h
    · rename_i hid
      split at h
      · rename_i s hs
        split at h
        · rename_i x hf; exact ⟨d, s, x, hp, hid, hs, hf, by cases h; rfl⟩
        · cases h
      · cases h
    · cases h
  · cases h

theorem mstep_next_inv {m m' : M} (h : mstep m .next = some m') :
    ∃ i d, m.phase = .yielded i d ∧ m' = { m with srcs := setFlight m.srcs i .pend, phase := .processing d } := by
  simp only [mstep] at h
  split at h
  · rename_i i d hp; exact ⟨i, d, hp, by cases h; rfl⟩
  · cases h

theorem mstep_loop_inv {m m' : M} (h : mstep m .loop = some m') :
    m.phase = .processing [] ∧
      ((m.srcs.any hasTask = true ∧ m' = { m with phase := .waiting }) ∨
       (m.srcs.any hasTask = false ∧ m' = { m with phase := .ended })) := by
  simp only [mstep] at h
  split at h
  · refine ⟨by assumption, ?_⟩
    split at h
    · rename_i ha; left; exact ⟨ha, by cases h; rfl⟩
    · rename_i ha; right; exact ⟨by simpa using ha, by cases h; rfl⟩
  · cases h

/-! ## `agen_with_wait` -/

theorem wstep_wake_inv {w w' : Wt} (h : wstep w .wake = some w') :
    w.phase = .waiting ∧
    ((w.pending.filter (taskDone w.tasks)).any (fun i => (taskExc w.tasks i).isSome) = false) ∧
    ((∃ x dn pd, w.anext = .item x ∧
        w' = { w with done := dn, pending := pd, anext := .none, phase := .yieldedItem, out := w.out ++ [x] }) ∨
     (w.anext = .stop ∧ w' = { w with anext := .none, phase := .ended }) ∨
     (∃ dn, w' = { w with done := dn })) := by
  cases hp : w.phase <;> simp only [wstep, hp] at h <;> try cases h
  refine ⟨rfl, ?_⟩
  cases ha : w.anext <;> simp only [ha] at h <;> split at h <;> try cases h
  all_goals split at h <;> try cases h
  all_goals rename_i hany
  all_goals refine ⟨by simpa using hany, ?_⟩
  · exact Or.inr (Or.inr ⟨_, rfl⟩)
  · exact Or.inr (Or.inr ⟨_, rfl⟩)
  · exact Or.inl ⟨_, _, _, rfl, rfl⟩
  · exact Or.inr (Or.inl ⟨rfl, rfl⟩)
end NLV.Aio
