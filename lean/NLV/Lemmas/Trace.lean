import NLV.Model.Trace
import NLV.Lemmas.Registrars
/-! Helper lemmas for model D1 (the event-emitting trace pipeline): a case analysis of `step` into a per-trace local
transition (`Local`) plus the creation of a new trace (`addTrace`), and the invariants of reachable states:
`TrInv` (trace numbers), `IdInv` (thread/task numbers), `WInv` (simulation by the registrars' grammar), `NumInv` (counters). -/
namespace NLV.Trace
open NLV.Reg

/-! ### definitions used by the statements of C09 / C06 -/

def callNos (o : List Ev) : List Nat := o.filterMap fun | .startCall _ c => some c.callNo | _ => none
def promptNos (o : List Ev) : List Nat := o.filterMap fun | .startPrompt _ _ p _ => some p | _ => none
def traceNos (o : List Ev) : List Nat := o.filterMap fun | .startTrace t _ _ => some t | _ => none
/-- the trace number an event carries -/
def evTrace : Ev → Nat
  | .startTrace t _ _ | .endTrace t | .startCall t _ | .endCall t _ | .startCmdloop t _ | .endCmdloop t _
  | .startPrompt t _ _ _ | .endPrompt t _ _ | .stdout t _ => t
/-- the events an action added -/
def newEvents (s s' : St) : List Ev := s'.out.drop s.out.length

/-! ### association lists (additions to `NLV/Lemmas/Registrars.lean`) -/

section al
variable {β : Type}

theorem alGet_alSet_self (l : List (Nat × β)) (k : Nat) (v : β) : alGet (alSet l k v) k = some v := by
  induction l with
  | nil => simp [alSet, alGet]
  | cons e t ih =>
    obtain ⟨k', v'⟩ := e
    by_cases h : k' = k
    · simp [alSet, alGet, h]
    · simp only [alSet, h, if_false]
      simp only [alGet, List.find?_cons, h, decide_false] at ih ⊢
      exact ih

theorem alGet_alSet_ne (l : List (Nat × β)) (k k' : Nat) (v : β) (hne : k' ≠ k) :
    alGet (alSet l k v) k' = alGet l k' := by
  induction l with
  | nil =>
    have : ¬ k = k' := fun h => hne h.symm
    simp [alSet, alGet, this]
  | cons e t ih =>
    obtain ⟨k0, v0⟩ := e
    by_cases h : k0 = k
    · subst h
      have : ¬ k0 = k' := fun h => hne h.symm
      simp [alSet, alGet, this]
    · simp only [alSet, h, if_false]
      by_cases h2 : k0 = k'
      · simp [alGet, h2]
      · simp only [alGet, List.find?_cons, h2, decide_false] at ih ⊢
        exact ih

theorem mem_alSet {l : List (Nat × β)} {k : Nat} {v : β} {e : Nat × β} (h : e ∈ alSet l k v) :
    e = (k, v) ∨ e ∈ l := by
  induction l with
  | nil => simp only [alSet, List.mem_singleton] at h; exact Or.inl h
  | cons a t ih =>
    obtain ⟨k0, v0⟩ := a
    by_cases hk : k0 = k
    · simp only [alSet, hk, if_true, List.mem_cons] at h
      rcases h with h | h
      · exact Or.inl h
      · exact Or.inr (List.mem_cons_of_mem _ h)
    · simp only [alSet, hk, if_false, List.mem_cons] at h
      rcases h with h | h
      · exact Or.inr (h ▸ List.mem_cons_self ..)
      · rcases ih h with h | h
        · exact Or.inl h
        · exact Or.inr (List.mem_cons_of_mem _ h)

theorem alGet_alErase_self (l : List (Nat × β)) (k : Nat) : alGet (alErase l k) k = none := by
  rw [alGet_none_iff, keysOf_alErase]
  simp

theorem alGet_alErase_ne (l : List (Nat × β)) (k k' : Nat) (hne : k' ≠ k) :
    alGet (alErase l k) k' = alGet l k' := by
  induction l with
  | nil => rfl
  | cons e t ih =>
    obtain ⟨k0, v0⟩ := e
    by_cases h : k0 = k
    · subst h
      have h2 : ¬ k0 = k' := fun h => hne h.symm
      simp only [alErase, alGet, List.filter_cons, ne_eq, not_true_eq_false, decide_false, List.find?_cons, h2] at ih ⊢
      exact ih
    · by_cases h2 : k0 = k'
      · subst h2
        simp [alErase, alGet, h]
      · simp only [alErase, alGet, List.filter_cons, ne_eq, h, not_false_eq_true, decide_true, List.find?_cons, h2,
          decide_false, if_true] at ih ⊢
        exact ih

theorem alGet_append_some {l : List (Nat × β)} {k : Nat} {v : β} (x : List (Nat × β)) (h : alGet l k = some v) :
    alGet (l ++ x) k = some v := by
  unfold alGet at h ⊢
  rw [List.find?_append]
  cases hf : l.find? (fun e => e.1 = k) with
  | none => simp [hf] at h
  | some e => simpa [hf] using h

theorem alGet_append_none {l : List (Nat × β)} {k : Nat} (x : List (Nat × β)) (h : alGet l k = none) :
    alGet (l ++ x) k = alGet x k := by
  unfold alGet at h ⊢
  rw [List.find?_append]
  cases hf : l.find? (fun e => e.1 = k) with
  | none => simp
  | some e => simp [hf] at h

theorem alGet_mapUpd (l : List (Nat × β)) (k k' : Nat) (v : β) :
    alGet (l.map fun x => if x.1 = k then (k, v) else x) k' =
      if k' = k then (alGet l k').map (fun _ => v) else alGet l k' := by
  induction l with
  | nil => simp [alGet]
  | cons e t ih =>
    obtain ⟨k0, v0⟩ := e
    by_cases h : k0 = k
    · subst h
      by_cases h2 : k0 = k'
      · subst h2; simp [alGet]
      · have h3 : ¬ k' = k0 := fun h => h2 h.symm
        simp only [alGet, List.map_cons, if_true, List.find?_cons, h2, decide_false, h3, if_false] at ih ⊢
        exact ih
    · by_cases h2 : k0 = k'
      · subst h2
        simp [alGet, h]
      · simp only [alGet, List.map_cons, h, if_false, List.find?_cons, h2, decide_false] at ih ⊢
        exact ih

end al

/-! ### the grammar run over an appended stream -/

theorem wrun_append (w : W) (l1 l2 : List Ev) : wrun w (l1 ++ l2) = (wrun w l1).bind fun w' => wrun w' l2 := by
  induction l1 generalizing w with
  | nil => rfl
  | cons e es ih =>
    simp only [List.cons_append, wrun]
    cases wstep w e with
    | none => rfl
    | some w' => exact ih w'

/-! ### `setTrace`, `findTrace` -/

theorem mem_setTrace {ts : List TraceSt} {t' x : TraceSt} :
    x ∈ setTrace ts t' ↔ (x = t' ∧ ∃ y ∈ ts, y.traceNo = t'.traceNo) ∨ (x ∈ ts ∧ x.traceNo ≠ t'.traceNo) := by
  simp only [setTrace, List.mem_map]
  constructor
  · rintro ⟨y, hy, rfl⟩
    by_cases h : y.traceNo = t'.traceNo
    · rw [if_pos h]; exact Or.inl ⟨rfl, y, hy, h⟩
    · rw [if_neg h]; exact Or.inr ⟨hy, h⟩
  · rintro (⟨rfl, y, hy, h⟩ | ⟨hx, h⟩)
    · exact ⟨y, hy, by simp [h]⟩
    · exact ⟨x, hx, by simp [h]⟩

theorem setTrace_traceNos (ts : List TraceSt) (t' : TraceSt) :
    (setTrace ts t').map (·.traceNo) = ts.map (·.traceNo) := by
  simp only [setTrace, List.map_map]
  apply List.map_congr_left
  intro x _
  by_cases h : x.traceNo = t'.traceNo <;> simp [h]

theorem setTrace_setTrace (ts : List TraceSt) (t1 t2 : TraceSt) (h : t1.traceNo = t2.traceNo) :
    setTrace (setTrace ts t1) t2 = setTrace ts t2 := by
  simp only [setTrace, List.map_map]
  apply List.map_congr_left
  intro x _
  by_cases hx : x.traceNo = t1.traceNo
  · have hx2 : x.traceNo = t2.traceNo := hx.trans h
    simp [hx, h]
  · have hx2 : ¬ x.traceNo = t2.traceNo := fun h' => hx (h'.trans h.symm)
    simp [hx, hx2]

theorem findTrace_some {ts : List TraceSt} {e : Ent} {tr : TraceSt} (h : findTrace ts e = some tr) :
    tr ∈ ts ∧ tr.ent = e ∧ tr.ended = false := by
  have h1 := List.find?_some h
  have h2 := List.mem_of_find?_eq_some h
  simp only [Bool.decide_and, Bool.and_eq_true, decide_eq_true_eq, Bool.not_eq_eq_eq_not, Bool.not_true] at h1
  exact ⟨h2, h1.1, by simpa using h1.2⟩

theorem findTrace_none {ts : List TraceSt} {e : Ent} (h : findTrace ts e = none) :
    ∀ x ∈ ts, x.ent = e → x.ended = true := by
  intro x hx he
  have := List.find?_eq_none.mp h x hx
  simp only [Bool.decide_and, Bool.and_eq_true, decide_eq_true_eq, not_and] at this
  have := this he
  simpa using this

/-- the first live trace of `e` stays the first one when it is replaced by a live trace of `e` with the same number -/
theorem findTrace_setTrace_self {ts : List TraceSt} {e : Ent} {tr tr' : TraceSt} (h : findTrace ts e = some tr)
    (he : tr'.ent = e) (hl : tr'.ended = false) (hn : tr'.traceNo = tr.traceNo) :
    findTrace (setTrace ts tr') e = some tr' := by
  induction ts with
  | nil => simp [findTrace] at h
  | cons x xs ih =>
    simp only [findTrace, setTrace, List.map_cons, List.find?_cons] at h ⊢
    have hp' : (decide (tr'.ent = e ∧ (!tr'.ended) = true)) = true := by simp [he, hl]
    by_cases hx : x.traceNo = tr'.traceNo
    · simp only [hx, if_true, hp']
    · simp only [hx, if_false]
      cases hpx : decide (x.ent = e ∧ (!x.ended) = true) with
      | true =>
        simp only [hpx, Option.some.injEq] at h
        subst h
        exact absurd hn.symm hx
      | false =>
        simp only [hpx] at h
        exact ih h

/-- replacing a trace of another entity does not change which trace an entity finds -/
theorem findTrace_setTrace_other {ts : List TraceSt} {e : Ent} {tr' : TraceSt} (hne : tr'.ent ≠ e)
    (huniq : ∀ x ∈ ts, x.traceNo = tr'.traceNo → x.ent ≠ e) :
    findTrace (setTrace ts tr') e = findTrace ts e := by
  induction ts with
  | nil => rfl
  | cons x xs ih =>
    have ih' := ih (fun y hy => huniq y (List.mem_cons_of_mem _ hy))
    simp only [findTrace, setTrace, List.map_cons, List.find?_cons] at ih' ⊢
    by_cases hx : x.traceNo = tr'.traceNo
    · have hxe := huniq x (List.mem_cons_self ..) hx
      simp only [hx, if_true, hne, hxe, false_and, decide_false]
      exact ih'
    · simp only [hx, if_false]
      cases decide (x.ent = e ∧ (!x.ended) = true) with
      | true => rfl
      | false => exact ih'

theorem findTrace_append_new {ts : List TraceSt} {e : Ent} {t0 : TraceSt} (h : findTrace ts e = none)
    (he : t0.ent = e) (hl : t0.ended = false) : findTrace (ts ++ [t0]) e = some t0 := by
  unfold findTrace at h ⊢
  rw [List.find?_append, h]
  simp [he, hl]

theorem nodup_map_inj {α β : Type} {f : α → β} {l : List α} (h : (l.map f).Nodup) {a b : α} (ha : a ∈ l) (hb : b ∈ l)
    (hab : f a = f b) : a = b := by
  induction l with
  | nil => cases ha
  | cons x xs ih =>
    simp only [List.map_cons, List.nodup_cons, List.mem_map, not_exists, not_and] at h
    simp only [List.mem_cons] at ha hb
    rcases ha with rfl | ha <;> rcases hb with rfl | hb
    · rfl
    · exact absurd hab.symm (h.1 b hb)
    · exact absurd hab (h.1 a ha)
    · exact ih h.2 ha hb

/-! ### `step` as: (create the trace) ; (local transition of the entity's trace) -/

/-- thread number and task number a new trace of `e` gets -/
def newThreadNo (s : St) (e : Ent) : Nat := (threadNoOf s e.thread).1
def newTaskNo (s : St) (e : Ent) : Option Nat :=
  match e.task with
  | none => none
  | some _ => some (taskNoOf (threadNoOf s e.thread).2 (threadNoOf s e.thread).1).1
/-- the state after the thread/task numbering of a new trace of `e` -/
def numbered (s : St) (e : Ent) : St :=
  match e.task with
  | none => (threadNoOf s e.thread).2
  | some _ => (taskNoOf (threadNoOf s e.thread).2 (threadNoOf s e.thread).1).2

def newTrace (s : St) (e : Ent) : TraceSt :=
  { ent := e, traceNo := s.nextTrace, threadNo := newThreadNo s e, taskNo := newTaskNo s e }

/-- the first event of an entity: number it, emit `OnStartTrace` -/
def addTrace (s : St) (e : Ent) : St :=
  { numbered s e with traces := s.traces ++ [newTrace s e], nextTrace := s.nextTrace + 1,
                      out := s.out ++ [.startTrace s.nextTrace (newThreadNo s e) (newTaskNo s e)] }

theorem threadNoOf_frame (s : St) (th : Nat) :
    (threadNoOf s th).2.traces = s.traces ∧ (threadNoOf s th).2.nextTrace = s.nextTrace ∧
    (threadNoOf s th).2.nextCall = s.nextCall ∧ (threadNoOf s th).2.nextPrompt = s.nextPrompt ∧
    (threadNoOf s th).2.out = s.out ∧ (threadNoOf s th).2.taskCounters = s.taskCounters := by
  unfold threadNoOf
  split <;> simp

theorem taskNoOf_frame (s : St) (tn : Nat) :
    (taskNoOf s tn).2.traces = s.traces ∧ (taskNoOf s tn).2.nextTrace = s.nextTrace ∧
    (taskNoOf s tn).2.nextCall = s.nextCall ∧ (taskNoOf s tn).2.nextPrompt = s.nextPrompt ∧
    (taskNoOf s tn).2.out = s.out ∧ (taskNoOf s tn).2.threadNos = s.threadNos ∧
    (taskNoOf s tn).2.nextThreadNo = s.nextThreadNo := by
  unfold taskNoOf
  split <;> simp

theorem numbered_frame (s : St) (e : Ent) :
    (numbered s e).traces = s.traces ∧ (numbered s e).nextTrace = s.nextTrace ∧
    (numbered s e).nextCall = s.nextCall ∧ (numbered s e).nextPrompt = s.nextPrompt ∧ (numbered s e).out = s.out := by
  unfold numbered
  have h1 := threadNoOf_frame s e.thread
  split
  · exact ⟨h1.1, h1.2.1, h1.2.2.1, h1.2.2.2.1, h1.2.2.2.2.1⟩
  · have h2 := taskNoOf_frame (threadNoOf s e.thread).2 (threadNoOf s e.thread).1
    exact ⟨h2.1.trans h1.1, h2.2.1.trans h1.2.1, h2.2.2.1.trans h1.2.2.1, h2.2.2.2.1.trans h1.2.2.2.1,
      h2.2.2.2.2.1.trans h1.2.2.2.2.1⟩

@[simp] theorem addTrace_traces (s : St) (e : Ent) : (addTrace s e).traces = s.traces ++ [newTrace s e] := rfl
@[simp] theorem addTrace_nextTrace (s : St) (e : Ent) : (addTrace s e).nextTrace = s.nextTrace + 1 := rfl
@[simp] theorem addTrace_out (s : St) (e : Ent) :
    (addTrace s e).out = s.out ++ [.startTrace s.nextTrace (newThreadNo s e) (newTaskNo s e)] := rfl
@[simp] theorem addTrace_nextCall (s : St) (e : Ent) : (addTrace s e).nextCall = s.nextCall := (numbered_frame s e).2.2.1
@[simp] theorem addTrace_nextPrompt (s : St) (e : Ent) : (addTrace s e).nextPrompt = s.nextPrompt :=
  (numbered_frame s e).2.2.2.1

/-- the local transition of one trace: `Local t nc np ph a ph' ended' evs nc' np'` — in phase `ph`, with counters `nc`
(trace calls) and `np` (prompts), action `a` leads to phase `ph'` and ended flag `ended'`, emits `evs`, and leaves the
counters at `nc'`, `np'` -/
inductive Local (t nc np : Nat) : Phase → Act → Phase → Bool → List Ev → Nat → Nat → Prop
  | enter (f l fr ev : Nat) :
      Local t nc np .idle (.enter f l fr ev) (.call ⟨nc, f, l, fr, ev⟩) false [.startCall t ⟨nc, f, l, fr, ev⟩] (nc + 1) np
  | stop (c : CallInfo) : Local t nc np (.call c) .stop (.cmdloop c false) false [.startCmdloop t c.callNo] nc np
  | prompt (c : CallInfo) (b : Bool) (text : Nat) :
      Local t nc np (.cmdloop c b) (.prompt text) (.prompt c np) false [.startPrompt t c.callNo np text] nc (np + 1)
  | answerT (c : CallInfo) (p cmd : Nat) :
      Local t nc np (.prompt c p) (.answer cmd true) (.call c) false [.endPrompt t p cmd, .endCmdloop t c.callNo] nc np
  | answerF (c : CallInfo) (p cmd : Nat) :
      Local t nc np (.prompt c p) (.answer cmd false) (.cmdloop c true) false [.endPrompt t p cmd] nc np
  | leave (c : CallInfo) : Local t nc np (.call c) .leave .idle false [.endCall t c.callNo] nc np
  | abort (ph : Phase) (h : ph ≠ .idle) : Local t nc np ph .abort .idle false (unwind t ph) nc np
  | finish : Local t nc np .idle .finish .idle true [.endTrace t] nc np

/-- `s' ` results from `s` by a local transition of the live trace of `e` -/
def LStep (s : St) (e : Ent) (a : Act) (s' : St) : Prop :=
  ∃ tr ph' en' evs nc' np', findTrace s.traces e = some tr ∧
    Local tr.traceNo s.nextCall s.nextPrompt tr.phase a ph' en' evs nc' np' ∧
    s' = { s with traces := setTrace s.traces { tr with phase := ph', ended := en' }, nextCall := nc', nextPrompt := np',
                  out := s.out ++ evs }

theorem step_enter_some {s : St} {e : Ent} {tr : TraceSt} (hf : findTrace s.traces e = some tr) (f l fr ev : Nat) :
    step s e (.enter f l fr ev) =
      match tr.phase with
      | .idle => some { s with traces := setTrace s.traces { tr with phase := .call ⟨s.nextCall, f, l, fr, ev⟩ },
                               nextCall := s.nextCall + 1, out := s.out ++ [.startCall tr.traceNo ⟨s.nextCall, f, l, fr, ev⟩] }
      | _ => none := by
  simp only [step, hf]
  obtain ⟨_, _, _, _, ph, _⟩ := tr
  cases ph <;> rfl

theorem step_enter_none {s : St} {e : Ent} (hf : findTrace s.traces e = none) (f l fr ev : Nat) :
    step s e (.enter f l fr ev) =
      some { addTrace s e with
        traces := setTrace (addTrace s e).traces
          { newTrace s e with phase := .call ⟨(addTrace s e).nextCall, f, l, fr, ev⟩, ended := false },
        nextCall := (addTrace s e).nextCall + 1, nextPrompt := (addTrace s e).nextPrompt,
        out := (addTrace s e).out ++ [.startCall (newTrace s e).traceNo ⟨(addTrace s e).nextCall, f, l, fr, ev⟩] } := by
  obtain ⟨th, ta⟩ := e
  have h1 := threadNoOf_frame s th
  cases ta with
  | none =>
    simp only [step, hf]
    simp [addTrace, newTrace, numbered, newTaskNo, newThreadNo, h1]
  | some k =>
    have h2 := taskNoOf_frame (threadNoOf s th).2 (threadNoOf s th).1
    simp only [step, hf]
    simp [addTrace, newTrace, numbered, newTaskNo, newThreadNo, h1, h2]

/-- every enabled action is: a local transition of the entity's live trace; or the creation of its trace followed by the
local `enter`; or a no-op (`stopRefused`, or `write` without a trace); or a `write` of a traced entity -/
theorem step_cases {s : St} {e : Ent} {a : Act} {s' : St} (h : step s e a = some s') :
    LStep s e a s'
    ∨ (findTrace s.traces e = none ∧ (∃ f l fr ev, a = .enter f l fr ev) ∧ LStep (addTrace s e) e a s')
    ∨ (s' = s ∧ a = .stopRefused ∧ ∃ tr, findTrace s.traces e = some tr ∧ tr.phase = .idle)
    ∨ (s' = s ∧ findTrace s.traces e = none ∧ (a = .stopRefused ∨ ∃ t, a = .write t))
    ∨ (∃ tr text, findTrace s.traces e = some tr ∧ a = .write text ∧
        s' = { s with out := s.out ++ [.stdout tr.traceNo text] }) := by
  cases hf : findTrace s.traces e with
  | none =>
    cases a with
    | enter f l fr ev =>
      rw [step_enter_none hf] at h
      injection h with h
      subst h
      refine Or.inr (Or.inl ⟨rfl, ⟨_, _, _, _, rfl⟩, newTrace s e, _, _, _, _, _, ?_, Local.enter f l fr ev, rfl⟩)
      exact findTrace_append_new hf rfl rfl
    | stopRefused =>
      simp only [step, hf, Option.some.injEq] at h
      exact Or.inr (Or.inr (Or.inr (Or.inl ⟨h.symm, rfl, Or.inl rfl⟩)))
    | write t =>
      simp only [step, hf, Option.some.injEq] at h
      exact Or.inr (Or.inr (Or.inr (Or.inl ⟨h.symm, rfl, Or.inr ⟨t, rfl⟩⟩)))
    | _ => simp [step, hf] at h
  | some tr =>
    obtain ⟨hm, he, hen⟩ := findTrace_some hf
    obtain ⟨ent, no, thn, tkn, ph, en⟩ := tr
    simp only at hen; subst hen
    cases a with
    | enter f l fr ev =>
      rw [step_enter_some hf] at h
      cases ph <;> simp only [Option.some.injEq, reduceCtorEq] at h
      subst h
      exact Or.inl ⟨_, _, _, _, _, _, hf, Local.enter f l fr ev, rfl⟩
    | stop =>
      simp only [step, hf] at h
      cases ph <;> simp only [Option.some.injEq, reduceCtorEq] at h
      subst h
      exact Or.inl ⟨_, _, _, _, _, _, hf, Local.stop _, rfl⟩
    | stopRefused =>
      simp only [step, hf] at h
      cases ph <;> simp only [Option.some.injEq, reduceCtorEq] at h
      exact Or.inr (Or.inr (Or.inl ⟨h.symm, rfl, _, rfl, rfl⟩))
    | prompt text =>
      simp only [step, hf] at h
      cases ph <;> simp only [Option.some.injEq, reduceCtorEq] at h
      subst h
      exact Or.inl ⟨_, _, _, _, _, _, hf, Local.prompt _ _ text, rfl⟩
    | answer cmd resumes =>
      simp only [step, hf] at h
      cases ph <;> simp only [reduceCtorEq] at h
      cases resumes <;> simp only [if_true, if_false, Bool.false_eq_true, Option.some.injEq] at h <;> subst h
      · exact Or.inl ⟨_, _, _, _, _, _, hf, Local.answerF _ _ cmd, rfl⟩
      · exact Or.inl ⟨_, _, _, _, _, _, hf, Local.answerT _ _ cmd, rfl⟩
    | leave =>
      simp only [step, hf] at h
      cases ph <;> simp only [Option.some.injEq, reduceCtorEq] at h
      subst h
      exact Or.inl ⟨_, _, _, _, _, _, hf, Local.leave _, rfl⟩
    | abort =>
      simp only [step, hf] at h
      cases ph <;> simp only [Option.some.injEq, reduceCtorEq] at h <;> subst h
      all_goals exact Or.inl ⟨_, _, _, _, _, _, hf, Local.abort _ (by simp), rfl⟩
    | finish =>
      simp only [step, hf] at h
      cases ph <;> simp only [Option.some.injEq, reduceCtorEq] at h
      subst h
      exact Or.inl ⟨_, _, _, _, _, _, hf, Local.finish, rfl⟩
    | write text =>
      simp only [step, hf, Option.some.injEq] at h
      exact Or.inr (Or.inr (Or.inr (Or.inr ⟨_, text, rfl, rfl, h.symm⟩)))

/-! ### invariant: trace numbers -/

structure TrInv (s : St) : Prop where
  lt : ∀ tr ∈ s.traces, tr.traceNo < s.nextTrace
  nodup : (s.traces.map (·.traceNo)).Nodup
  live : ∀ t1 ∈ s.traces, ∀ t2 ∈ s.traces, t1.ent = t2.ent → t1.ended = false → t2.ended = false → t1 = t2

theorem TrInv.uniq {s : St} (h : TrInv s) : ∀ t1 ∈ s.traces, ∀ t2 ∈ s.traces, t1.traceNo = t2.traceNo → t1 = t2 :=
  fun _ h1 _ h2 h12 => nodup_map_inj h.nodup h1 h2 h12

theorem trInv_init : TrInv {} := ⟨by simp, by simp, by simp⟩

theorem trInv_addTrace {s : St} {e : Ent} (h : TrInv s) (hf : findTrace s.traces e = none) : TrInv (addTrace s e) := by
  refine ⟨?_, ?_, ?_⟩
  · intro x hx
    simp only [addTrace_traces, List.mem_append, List.mem_singleton, addTrace_nextTrace] at hx ⊢
    rcases hx with hx | rfl
    · exact Nat.lt_succ_of_lt (h.lt x hx)
    · exact Nat.lt_succ_self _
  · simp only [addTrace_traces, List.map_append, List.map_cons, List.map_nil]
    refine List.nodup_append.mpr ⟨h.nodup, by simp, ?_⟩
    intro a ha b hb hab
    simp only [List.mem_singleton] at hb
    simp only [List.mem_map] at ha
    obtain ⟨x, hx, rfl⟩ := ha
    have := h.lt x hx
    rw [hab, hb] at this
    exact Nat.lt_irrefl _ this
  · intro t1 h1 t2 h2 he l1 l2
    simp only [addTrace_traces, List.mem_append, List.mem_singleton] at h1 h2
    rcases h1 with h1 | rfl <;> rcases h2 with h2 | rfl
    · exact h.live t1 h1 t2 h2 he l1 l2
    · have := findTrace_none hf t1 h1 he
      rw [this] at l1; cases l1
    · have := findTrace_none hf t2 h2 he.symm
      rw [this] at l2; cases l2
    · rfl

theorem trInv_setTrace {s s' : St} (h : TrInv s) {tr tr' : TraceSt} (hm : tr ∈ s.traces) (hl : tr.ended = false)
    (he : tr'.ent = tr.ent) (hn : tr'.traceNo = tr.traceNo) (hts : s'.traces = setTrace s.traces tr')
    (hnt : s'.nextTrace = s.nextTrace) : TrInv s' := by
  refine ⟨?_, ?_, ?_⟩
  · intro x hx
    rw [hts, mem_setTrace] at hx
    rw [hnt]
    rcases hx with ⟨rfl, _⟩ | ⟨hx, _⟩
    · rw [hn]; exact h.lt tr hm
    · exact h.lt x hx
  · rw [hts, setTrace_traceNos]; exact h.nodup
  · intro t1 h1 t2 h2 he12 l1 l2
    rw [hts, mem_setTrace] at h1 h2
    rcases h1 with ⟨rfl, _⟩ | ⟨h1, n1⟩ <;> rcases h2 with ⟨rfl, _⟩ | ⟨h2, n2⟩
    · rfl
    · have := h.live tr hm t2 h2 (he.symm.trans he12) hl l2
      subst this
      exact absurd hn.symm n2
    · have := h.live t1 h1 tr hm (he12.trans he) l1 hl
      subst this
      exact absurd hn.symm n1
    · exact h.live t1 h1 t2 h2 he12 l1 l2

theorem trInv_lstep {s s' : St} {e : Ent} {a : Act} (h : TrInv s) (hs : LStep s e a s') : TrInv s' := by
  obtain ⟨tr, ph', en', evs, nc', np', hf, _, rfl⟩ := hs
  obtain ⟨hm, _, hl⟩ := findTrace_some hf
  exact trInv_setTrace (tr' := { tr with phase := ph', ended := en' }) h hm hl rfl rfl rfl rfl

theorem trInv_step {s s' : St} {e : Ent} {a : Act} (h : TrInv s) (hs : step s e a = some s') : TrInv s' := by
  rcases step_cases hs with hl | ⟨hf, _, hl⟩ | ⟨rfl, _⟩ | ⟨rfl, _⟩ | ⟨tr, text, _, _, rfl⟩
  · exact trInv_lstep h hl
  · exact trInv_lstep (trInv_addTrace h hf) hl
  · exact h
  · exact h
  · exact ⟨h.lt, h.nodup, h.live⟩

/-! ### invariant: thread numbers and task numbers -/

structure IdInv (s : St) : Prop where
  thrGet : ∀ tr ∈ s.traces, alGet s.threadNos tr.ent.thread = some tr.threadNo
  thrInj : ∀ e1 ∈ s.threadNos, ∀ e2 ∈ s.threadNos, e1.2 = e2.2 → e1.1 = e2.1
  thrLt : ∀ e ∈ s.threadNos, e.2 < s.nextThreadNo
  taskSome : ∀ tr ∈ s.traces, tr.taskNo.isSome = tr.ent.task.isSome
  taskLt : ∀ tr ∈ s.traces, ∀ k, tr.taskNo = some k → ∃ n, alGet s.taskCounters tr.threadNo = some n ∧ k < n
  taskInj : ∀ t1 ∈ s.traces, ∀ t2 ∈ s.traces, t1.threadNo = t2.threadNo → t1.taskNo = t2.taskNo →
    t1.taskNo.isSome = true → t1.traceNo = t2.traceNo

theorem idInv_init : IdInv {} := ⟨by simp, by simp, by simp, by simp, by simp, by simp⟩

/-- the invariant only looks at the entity and the three numbers of each trace -/
theorem idInv_of_core {s s' : St} (h : IdInv s)
    (hc : ∀ x ∈ s'.traces, ∃ y ∈ s.traces, y.ent = x.ent ∧ y.traceNo = x.traceNo ∧ y.threadNo = x.threadNo ∧ y.taskNo = x.taskNo)
    (h1 : s'.threadNos = s.threadNos) (h2 : s'.taskCounters = s.taskCounters) (h3 : s'.nextThreadNo = s.nextThreadNo) :
    IdInv s' := by
  refine ⟨?_, ?_, ?_, ?_, ?_, ?_⟩
  · intro x hx
    obtain ⟨y, hy, e1, _, e3, _⟩ := hc x hx
    rw [h1, ← e1, ← e3]; exact h.thrGet y hy
  · rw [h1]; exact h.thrInj
  · rw [h1, h3]; exact h.thrLt
  · intro x hx
    obtain ⟨y, hy, e1, _, _, e4⟩ := hc x hx
    rw [← e1, ← e4]; exact h.taskSome y hy
  · intro x hx k hk
    obtain ⟨y, hy, _, _, e3, e4⟩ := hc x hx
    rw [h2, ← e3]; exact h.taskLt y hy k (e4.trans hk)
  · intro x1 hx1 x2 hx2 a b c
    obtain ⟨y1, hy1, _, f2, f3, f4⟩ := hc x1 hx1
    obtain ⟨y2, hy2, _, g2, g3, g4⟩ := hc x2 hx2
    rw [← f2, ← g2]
    exact h.taskInj y1 hy1 y2 hy2 (by rw [f3, g3, a]) (by rw [f4, g4, b]) (by rw [f4, c])

theorem idInv_lstep {s s' : St} {e : Ent} {a : Act} (h : IdInv s) (hs : LStep s e a s') : IdInv s' := by
  obtain ⟨tr, ph', en', evs, nc', np', hf, _, rfl⟩ := hs
  obtain ⟨hm, _, hl⟩ := findTrace_some hf
  refine idInv_of_core h ?_ rfl rfl rfl
  intro x hx
  rcases mem_setTrace.mp hx with ⟨rfl, _⟩ | ⟨hx, _⟩
  · exact ⟨tr, hm, rfl, rfl, rfl, rfl⟩
  · exact ⟨x, hx, rfl, rfl, rfl, rfl⟩

theorem threadNoOf_spec (s : St) (th : Nat) (hInj : ∀ e1 ∈ s.threadNos, ∀ e2 ∈ s.threadNos, e1.2 = e2.2 → e1.1 = e2.1)
    (hLt : ∀ e ∈ s.threadNos, e.2 < s.nextThreadNo) :
    alGet (threadNoOf s th).2.threadNos th = some (threadNoOf s th).1 ∧
    (∀ k v, alGet s.threadNos k = some v → alGet (threadNoOf s th).2.threadNos k = some v) ∧
    (∀ e1 ∈ (threadNoOf s th).2.threadNos, ∀ e2 ∈ (threadNoOf s th).2.threadNos, e1.2 = e2.2 → e1.1 = e2.1) ∧
    (∀ e ∈ (threadNoOf s th).2.threadNos, e.2 < (threadNoOf s th).2.nextThreadNo) := by
  unfold threadNoOf
  cases hf : s.threadNos.find? (fun e => e.1 = th) with
  | some e0 =>
    refine ⟨?_, fun _ _ h => h, hInj, hLt⟩
    simp [alGet, hf]
  | none =>
    have hn : alGet s.threadNos th = none := by simp [alGet, hf]
    refine ⟨?_, fun k v h => alGet_append_some _ h, ?_, ?_⟩
    · show alGet (s.threadNos ++ [(th, s.nextThreadNo)]) th = some s.nextThreadNo
      rw [alGet_append_none _ hn]; simp [alGet]
    · intro e1 h1 e2 h2 h12
      simp only [List.mem_append, List.mem_singleton] at h1 h2
      rcases h1 with h1 | rfl <;> rcases h2 with h2 | rfl
      · exact hInj e1 h1 e2 h2 h12
      · have := hLt e1 h1; simp only at h12; omega
      · have := hLt e2 h2; simp only at h12; omega
      · rfl
    · intro e0 h0
      simp only [List.mem_append, List.mem_singleton] at h0
      show e0.2 < s.nextThreadNo + 1
      rcases h0 with h0 | rfl
      · exact Nat.lt_succ_of_lt (hLt e0 h0)
      · exact Nat.lt_succ_self _

theorem taskNoOf_spec (s : St) (tn : Nat) :
    alGet (taskNoOf s tn).2.taskCounters tn = some ((taskNoOf s tn).1 + 1) ∧
    (∀ n, alGet s.taskCounters tn = some n → n = (taskNoOf s tn).1) ∧
    (∀ t', t' ≠ tn → alGet (taskNoOf s tn).2.taskCounters t' = alGet s.taskCounters t') := by
  unfold taskNoOf
  cases hf : s.taskCounters.find? (fun e => e.1 = tn) with
  | some e0 =>
    have hg : alGet s.taskCounters tn = some e0.2 := by simp [alGet, hf]
    refine ⟨?_, ?_, ?_⟩
    · show alGet (s.taskCounters.map fun x => if x.1 = tn then (tn, e0.2 + 1) else x) tn = some (e0.2 + 1)
      rw [alGet_mapUpd, if_pos rfl, hg]; rfl
    · intro n hn; rw [hg] at hn; injection hn with hn; exact hn.symm
    · intro t' ht'
      show alGet (s.taskCounters.map fun x => if x.1 = tn then (tn, e0.2 + 1) else x) t' = _
      rw [alGet_mapUpd, if_neg ht']
  | none =>
    have hg : alGet s.taskCounters tn = none := by simp [alGet, hf]
    refine ⟨?_, ?_, ?_⟩
    · show alGet (s.taskCounters ++ [(tn, 2)]) tn = some 2
      rw [alGet_append_none _ hg]; simp [alGet]
    · intro n hn; rw [hg] at hn; cases hn
    · intro t' ht'
      show alGet (s.taskCounters ++ [(tn, 2)]) t' = _
      cases hg' : alGet s.taskCounters t' with
      | some v => exact alGet_append_some _ hg'
      | none =>
        rw [alGet_append_none _ hg']
        have : ¬ tn = t' := fun h => ht' h.symm
        simp [alGet, this]

theorem idInv_append {s s1 : St} (h : IdInv s) (t0 : TraceSt) (hts : s1.traces = s.traces ++ [t0])
    (hT1 : alGet s1.threadNos t0.ent.thread = some t0.threadNo)
    (hT2 : ∀ k v, alGet s.threadNos k = some v → alGet s1.threadNos k = some v)
    (hInj : ∀ e1 ∈ s1.threadNos, ∀ e2 ∈ s1.threadNos, e1.2 = e2.2 → e1.1 = e2.1)
    (hLt : ∀ e ∈ s1.threadNos, e.2 < s1.nextThreadNo)
    (hsome : t0.taskNo.isSome = t0.ent.task.isSome)
    (hcnt : (t0.taskNo = none ∧ s1.taskCounters = s.taskCounters) ∨
      ∃ k, t0.taskNo = some k ∧ alGet s1.taskCounters t0.threadNo = some (k + 1) ∧
        (∀ n, alGet s.taskCounters t0.threadNo = some n → n = k) ∧
        ∀ t', t' ≠ t0.threadNo → alGet s1.taskCounters t' = alGet s.taskCounters t') : IdInv s1 := by
  refine ⟨?_, hInj, hLt, ?_, ?_, ?_⟩
  · intro x hx
    rw [hts] at hx
    simp only [List.mem_append, List.mem_singleton] at hx
    rcases hx with hx | rfl
    · exact hT2 _ _ (h.thrGet x hx)
    · exact hT1
  · intro x hx
    rw [hts] at hx
    simp only [List.mem_append, List.mem_singleton] at hx
    rcases hx with hx | rfl
    · exact h.taskSome x hx
    · exact hsome
  · intro x hx k hk
    rw [hts] at hx
    simp only [List.mem_append, List.mem_singleton] at hx
    rcases hcnt with ⟨hn, hc⟩ | ⟨k0, hk0, hg, hold, hoth⟩
    · rcases hx with hx | rfl
      · rw [hc]; exact h.taskLt x hx k hk
      · rw [hn] at hk; cases hk
    · rcases hx with hx | rfl
      · obtain ⟨n, hn, hlt⟩ := h.taskLt x hx k hk
        by_cases hxt : x.threadNo = t0.threadNo
        · rw [hxt] at hn ⊢
          have := hold n hn
          exact ⟨k0 + 1, hg, by omega⟩
        · rw [hoth _ hxt]; exact ⟨n, hn, hlt⟩
      · rw [hk0] at hk; injection hk with hk
        exact ⟨k0 + 1, hg, by omega⟩
  · intro x1 hx1 x2 hx2 a b c
    rw [hts] at hx1 hx2
    simp only [List.mem_append, List.mem_singleton] at hx1 hx2
    rcases hx1 with hx1 | rfl <;> rcases hx2 with hx2 | rfl
    · exact h.taskInj x1 hx1 x2 hx2 a b c
    · exfalso
      rcases hcnt with ⟨hn, _⟩ | ⟨k0, hk0, _, hold, _⟩
      · rw [b, hn] at c; cases c
      · obtain ⟨n, hn, hlt⟩ := h.taskLt x1 hx1 k0 (b.trans hk0)
        rw [a] at hn
        have := hold n hn
        omega
    · exfalso
      rcases hcnt with ⟨hn, _⟩ | ⟨k0, hk0, _, hold, _⟩
      · rw [hn] at c; cases c
      · obtain ⟨n, hn, hlt⟩ := h.taskLt x2 hx2 k0 (b.symm.trans hk0)
        rw [← a] at hn
        have := hold n hn
        omega
    · rfl

theorem idInv_addTrace {s : St} {e : Ent} (h : IdInv s) : IdInv (addTrace s e) := by
  obtain ⟨th, ta⟩ := e
  have hsp := threadNoOf_spec s th h.thrInj h.thrLt
  have hfr := threadNoOf_frame s th
  cases ta with
  | none =>
    refine idInv_append h (newTrace s ⟨th, none⟩) rfl hsp.1 hsp.2.1 hsp.2.2.1 hsp.2.2.2 rfl (Or.inl ⟨rfl, ?_⟩)
    exact hfr.2.2.2.2.2
  | some j =>
    have hk := taskNoOf_spec (threadNoOf s th).2 (threadNoOf s th).1
    have hfr2 := taskNoOf_frame (threadNoOf s th).2 (threadNoOf s th).1
    have e1 : (addTrace s ⟨th, some j⟩).threadNos = (threadNoOf s th).2.threadNos := hfr2.2.2.2.2.2.1
    have e2 : (addTrace s ⟨th, some j⟩).nextThreadNo = (threadNoOf s th).2.nextThreadNo := hfr2.2.2.2.2.2.2
    refine idInv_append h (newTrace s ⟨th, some j⟩) rfl ?_ ?_ ?_ ?_ rfl (Or.inr ⟨_, rfl, hk.1, ?_, ?_⟩)
    · rw [e1]; exact hsp.1
    · rw [e1]; exact hsp.2.1
    · rw [e1]; exact hsp.2.2.1
    · rw [e1, e2]; exact hsp.2.2.2
    · intro n hn; rw [← hfr.2.2.2.2.2] at hn; exact hk.2.1 n hn
    · intro t' ht'; rw [← hfr.2.2.2.2.2]; exact hk.2.2 t' ht'

theorem idInv_step {s s' : St} {e : Ent} {a : Act} (h : IdInv s) (hs : step s e a = some s') : IdInv s' := by
  rcases step_cases hs with hl | ⟨_, _, hl⟩ | ⟨rfl, _⟩ | ⟨rfl, _⟩ | ⟨tr, text, _, _, rfl⟩
  · exact idInv_lstep h hl
  · exact idInv_lstep (idInv_addTrace h) hl
  · exact h
  · exact h
  · exact ⟨h.thrGet, h.thrInj, h.thrLt, h.taskSome, h.taskLt, h.taskInj⟩

/-! ### invariant: the grammar state reached by the emitted stream mirrors the phases of the traces -/

/-- the trace call a phase is in -/
def phaseCall : Phase → Option CallInfo
  | .idle => none
  | .call c => some c
  | .cmdloop c _ => some c
  | .prompt c _ => some c

def notPrompt (ph : Phase) : Prop := ∀ c p, ph ≠ .prompt c p

/-- traces `ts` (with trace counter `nt`, prompt counter `np`) are mirrored by grammar state `w` -/
structure Sim (ts : List TraceSt) (nt np : Nat) (w : W) : Prop where
  uniq : ∀ t1 ∈ ts, ∀ t2 ∈ ts, t1.traceNo = t2.traceNo → t1 = t2
  active : ∀ x ∈ ts, x.ended = false → x.traceNo ∈ w.active
  calls : ∀ x ∈ ts, alGet w.calls x.traceNo = phaseCall x.phase
  prompts1 : ∀ e ∈ w.prompts, ∃ x ∈ ts, x.traceNo = e.2 ∧ ∃ c, x.phase = .prompt c e.1
  prompts2 : ∀ x ∈ ts, ∀ c p, x.phase = .prompt c p → alGet w.prompts p = some x.traceNo
  ltT : ∀ x ∈ ts, x.traceNo < nt
  started : ∀ t ∈ w.started, t < nt
  callsLt : ∀ t c, alGet w.calls t = some c → t < nt
  ever : ∀ p ∈ w.promptsEver, p < np
  promptsEver : ∀ e ∈ w.prompts, e.1 ∈ w.promptsEver

theorem sim_init : Sim [] 1 1 {} :=
  ⟨by simp, by simp, by simp, by simp, by simp, by simp, by simp, by simp [alGet], by simp, by simp⟩

theorem Sim.noPrompt {ts : List TraceSt} {nt np : Nat} {w : W} (h : Sim ts nt np w) {tr : TraceSt} (hm : tr ∈ ts)
    (hp : notPrompt tr.phase) : ∀ e ∈ w.prompts, e.2 ≠ tr.traceNo := by
  intro e he heq
  obtain ⟨x, hx, hxt, c, hc⟩ := h.prompts1 e he
  have := h.uniq x hx tr hm (hxt.trans heq)
  subst this
  exact hp c e.1 hc

theorem uniq_setTrace {ts : List TraceSt} (hu : ∀ t1 ∈ ts, ∀ t2 ∈ ts, t1.traceNo = t2.traceNo → t1 = t2) (t' : TraceSt) :
    ∀ t1 ∈ setTrace ts t', ∀ t2 ∈ setTrace ts t', t1.traceNo = t2.traceNo → t1 = t2 := by
  intro t1 h1 t2 h2 h12
  rcases mem_setTrace.mp h1 with ⟨rfl, _⟩ | ⟨h1, n1⟩ <;> rcases mem_setTrace.mp h2 with ⟨rfl, _⟩ | ⟨h2, n2⟩
  · rfl
  · exact absurd h12.symm n2
  · exact absurd h12 n1
  · exact hu t1 h1 t2 h2 h12

/-- a change of trace `tr` into `tr'` and of the grammar state `w` into `w'` that agree with each other and leave
everything about other trace numbers alone -/
theorem sim_frame {ts : List TraceSt} {nt np np' : Nat} {w w' : W} (h : Sim ts nt np w) {tr tr' : TraceSt}
    (hm : tr ∈ ts) (hno : tr'.traceNo = tr.traceNo)
    (hact : ∀ t, t ≠ tr.traceNo → t ∈ w.active → t ∈ w'.active)
    (hcalls : ∀ t, t ≠ tr.traceNo → alGet w'.calls t = alGet w.calls t)
    (hp1 : ∀ e ∈ w'.prompts, (e ∈ w.prompts ∧ e.2 ≠ tr.traceNo) ∨ (e.2 = tr.traceNo ∧ ∃ c, tr'.phase = .prompt c e.1))
    (hp2 : ∀ p t, t ≠ tr.traceNo → alGet w.prompts p = some t → alGet w'.prompts p = some t)
    (ha' : tr'.ended = false → tr.traceNo ∈ w'.active)
    (hc' : alGet w'.calls tr.traceNo = phaseCall tr'.phase)
    (hp' : ∀ c p, tr'.phase = .prompt c p → alGet w'.prompts p = some tr.traceNo)
    (hst : w'.started = w.started)
    (hev : ∀ p ∈ w'.promptsEver, p < np')
    (hpe : ∀ e ∈ w'.prompts, e.1 ∈ w'.promptsEver) : Sim (setTrace ts tr') nt np' w' := by
  have hmem : ∀ x ∈ setTrace ts tr', x = tr' ∨ (x ∈ ts ∧ x.traceNo ≠ tr.traceNo) := by
    intro x hx
    rcases mem_setTrace.mp hx with ⟨rfl, _⟩ | ⟨hx, n⟩
    · exact Or.inl rfl
    · exact Or.inr ⟨hx, hno ▸ n⟩
  refine ⟨uniq_setTrace h.uniq tr', ?_, ?_, ?_, ?_, ?_, ?_, ?_, hev, hpe⟩
  · intro x hx hl
    rcases hmem x hx with rfl | ⟨hx, n⟩
    · rw [hno]; exact ha' hl
    · exact hact _ n (h.active x hx hl)
  · intro x hx
    rcases hmem x hx with rfl | ⟨hx, n⟩
    · rw [hno]; exact hc'
    · rw [hcalls _ n]; exact h.calls x hx
  · intro e he
    rcases hp1 e he with ⟨he, n⟩ | ⟨heq, c, hc⟩
    · obtain ⟨x, hx, hxt, hc⟩ := h.prompts1 e he
      refine ⟨x, mem_setTrace.mpr (Or.inr ⟨hx, ?_⟩), hxt, hc⟩
      rw [hno, hxt]; exact n
    · exact ⟨tr', mem_setTrace.mpr (Or.inl ⟨rfl, tr, hm, hno.symm⟩), hno.trans heq.symm, c, hc⟩
  · intro x hx c p hph
    rcases hmem x hx with rfl | ⟨hx, n⟩
    · rw [hno]; exact hp' c p hph
    · exact hp2 p _ n (h.prompts2 x hx c p hph)
  · intro x hx
    rcases hmem x hx with rfl | ⟨hx, n⟩
    · rw [hno]; exact h.ltT tr hm
    · exact h.ltT x hx
  · rw [hst]; exact h.started
  · intro t c hc
    by_cases ht : t = tr.traceNo
    · rw [ht]; exact h.ltT tr hm
    · rw [hcalls t ht] at hc; exact h.callsLt t c hc

/-- `Sim` together with a distinguished member -/
structure Good (ts : List TraceSt) (nt np : Nat) (w : W) (tr : TraceSt) : Prop where
  sim : Sim ts nt np w
  mem : tr ∈ ts

theorem good_of_frame {ts : List TraceSt} {nt np' : Nat} {w' : W} {tr tr' : TraceSt} (hm : tr ∈ ts)
    (hno : tr'.traceNo = tr.traceNo) (h : Sim (setTrace ts tr') nt np' w') : Good (setTrace ts tr') nt np' w' tr' :=
  ⟨h, mem_setTrace.mpr (Or.inl ⟨rfl, tr, hm, hno.symm⟩)⟩

section events
variable {ts : List TraceSt} {nt np : Nat} {w : W} {tr tr' : TraceSt}

theorem notPrompt_idle : notPrompt .idle := fun _ _ h => by cases h
theorem notPrompt_call (c : CallInfo) : notPrompt (.call c) := fun _ _ h => by cases h
theorem notPrompt_cmdloop (c : CallInfo) (b : Bool) : notPrompt (.cmdloop c b) := fun _ _ h => by cases h

theorem ev_startCall (h : Good ts nt np w tr) (hph : tr.phase = .idle) (hl : tr.ended = false)
    (hno : tr'.traceNo = tr.traceNo) (c : CallInfo) (hph' : tr'.phase = .call c) :
    ∃ w', wstep w (.startCall tr.traceNo c) = some w' ∧ Good (setTrace ts tr') nt np w' tr' := by
  have hidle : alGet w.calls tr.traceNo = none := by rw [h.sim.calls tr h.mem, hph]; rfl
  have hact : tr.traceNo ∈ w.active := h.sim.active tr h.mem hl
  refine ⟨{ w with calls := alSet w.calls tr.traceNo c }, by simp [wstep, hidle, hact], good_of_frame h.mem hno ?_⟩
  refine sim_frame h.sim h.mem hno (fun _ _ h => h) (fun t ht => alGet_alSet_ne _ _ _ _ ht) ?_ (fun _ _ _ h => h)
    (fun _ => hact) ?_ ?_ rfl h.sim.ever h.sim.promptsEver
  · intro e he
    exact Or.inl ⟨he, h.sim.noPrompt h.mem (hph ▸ notPrompt_idle) e he⟩
  · rw [hph']; exact alGet_alSet_self ..
  · intro c' p hc; rw [hph'] at hc; cases hc

/-- the command-loop events do not move the grammar state; the phase may change between non-prompt phases of the same call -/
theorem ev_cmdloop (h : Good ts nt np w tr) (c : CallInfo) (hph : phaseCall tr.phase = some c) (hnp : notPrompt tr.phase)
    (hno : tr'.traceNo = tr.traceNo) (hph' : phaseCall tr'.phase = some c) (hnp' : notPrompt tr'.phase)
    (hen : tr'.ended = false → tr.ended = false) :
    wstep w (.startCmdloop tr.traceNo c.callNo) = some w ∧ wstep w (.endCmdloop tr.traceNo c.callNo) = some w ∧
    Good (setTrace ts tr') nt np w tr' := by
  have hcall : alGet w.calls tr.traceNo = some c := by rw [h.sim.calls tr h.mem, hph]
  refine ⟨by simp [wstep, hcall], by simp [wstep, hcall], good_of_frame h.mem hno ?_⟩
  refine sim_frame h.sim h.mem hno (fun _ _ h => h) (fun _ _ => rfl) ?_ (fun _ _ _ h => h)
    (fun hl => h.sim.active tr h.mem (hen hl)) ?_ ?_ rfl h.sim.ever h.sim.promptsEver
  · intro e he
    exact Or.inl ⟨he, h.sim.noPrompt h.mem hnp e he⟩
  · rw [hph']; exact hcall
  · intro c' p hc; exact absurd hc (hnp' c' p)

theorem ev_startPrompt (h : Good ts nt np w tr) (c : CallInfo) (b : Bool) (hph : tr.phase = .cmdloop c b)
    (hno : tr'.traceNo = tr.traceNo) (hph' : tr'.phase = .prompt c np) (hen : tr'.ended = false → tr.ended = false)
    (text : Nat) :
    ∃ w', wstep w (.startPrompt tr.traceNo c.callNo np text) = some w' ∧ Good (setTrace ts tr') nt (np + 1) w' tr' := by
  have hcall : alGet w.calls tr.traceNo = some c := by rw [h.sim.calls tr h.mem, hph]; rfl
  have hnone := h.sim.noPrompt h.mem (hph ▸ notPrompt_cmdloop c b)
  have hfresh : np ∉ w.promptsEver := fun hin => Nat.lt_irrefl _ (h.sim.ever np hin)
  refine ⟨{ w with prompts := alSet w.prompts np tr.traceNo, promptsEver := w.promptsEver ++ [np] }, ?_,
    good_of_frame h.mem hno ?_⟩
  · simp only [wstep, hcall]
    rw [if_pos ⟨trivial, hfresh, hnone⟩]
  refine sim_frame h.sim h.mem hno (fun _ _ h => h) (fun _ _ => rfl) ?_ ?_
    (fun hl => h.sim.active tr h.mem (hen hl)) ?_ ?_ rfl ?_ ?_
  · intro e he
    rcases mem_alSet he with rfl | he
    · exact Or.inr ⟨rfl, c, hph'⟩
    · exact Or.inl ⟨he, hnone e he⟩
  · intro p t _ hg
    have hp : p ≠ np := by
      intro hp; subst hp
      exact hfresh (h.sim.promptsEver _ (alGet_some_mem hg))
    show alGet (alSet w.prompts np tr.traceNo) p = some t
    rw [alGet_alSet_ne _ _ _ _ hp]; exact hg
  · rw [hph']; exact hcall
  · intro c' p hc
    rw [hph'] at hc; injection hc with _ hp; subst hp
    exact alGet_alSet_self ..
  · intro p hp
    simp only [List.mem_append, List.mem_singleton] at hp
    rcases hp with hp | rfl
    · exact Nat.lt_succ_of_lt (h.sim.ever p hp)
    · exact Nat.lt_succ_self _
  · intro e he
    simp only [List.mem_append, List.mem_singleton]
    rcases mem_alSet he with rfl | he
    · exact Or.inr rfl
    · exact Or.inl (h.sim.promptsEver e he)

theorem ev_endPrompt (h : Good ts nt np w tr) (c : CallInfo) (p : Nat) (hph : tr.phase = .prompt c p)
    (hno : tr'.traceNo = tr.traceNo) (hph' : phaseCall tr'.phase = some c) (hnp' : notPrompt tr'.phase)
    (hen : tr'.ended = false → tr.ended = false) (cmd : Nat) :
    ∃ w', wstep w (.endPrompt tr.traceNo p cmd) = some w' ∧ Good (setTrace ts tr') nt np w' tr' := by
  have hcall : alGet w.calls tr.traceNo = some c := by rw [h.sim.calls tr h.mem, hph]; rfl
  have hpr : alGet w.prompts p = some tr.traceNo := h.sim.prompts2 tr h.mem c p hph
  refine ⟨{ w with prompts := alErase w.prompts p }, by simp [wstep, hpr], good_of_frame h.mem hno ?_⟩
  refine sim_frame h.sim h.mem hno (fun _ _ h => h) (fun _ _ => rfl) ?_ ?_
    (fun hl => h.sim.active tr h.mem (hen hl)) ?_ ?_ rfl h.sim.ever ?_
  · intro e he
    obtain ⟨he, hne⟩ := mem_alErase he
    refine Or.inl ⟨he, ?_⟩
    intro heq
    obtain ⟨x, hx, hxt, c', hc'⟩ := h.sim.prompts1 e he
    have := h.sim.uniq x hx tr h.mem (hxt.trans heq)
    subst this
    rw [hph] at hc'; injection hc' with _ hp
    exact hne hp.symm
  · intro p' t ht hg
    have hp : p' ≠ p := by
      intro hp; subst hp
      rw [hpr] at hg; injection hg with hg
      exact ht hg.symm
    show alGet (alErase w.prompts p) p' = some t
    rw [alGet_alErase_ne _ _ _ hp]; exact hg
  · rw [hph']; exact hcall
  · intro c' p' hc; exact absurd hc (hnp' c' p')
  · intro e he; exact h.sim.promptsEver e (mem_alErase he).1

theorem ev_endCall (h : Good ts nt np w tr) (c : CallInfo) (hph : tr.phase = .call c)
    (hno : tr'.traceNo = tr.traceNo) (hph' : tr'.phase = .idle) (hen : tr'.ended = false → tr.ended = false) :
    ∃ w', wstep w (.endCall tr.traceNo c.callNo) = some w' ∧ Good (setTrace ts tr') nt np w' tr' := by
  have hcall : alGet w.calls tr.traceNo = some c := by rw [h.sim.calls tr h.mem, hph]; rfl
  have hnone := h.sim.noPrompt h.mem (hph ▸ notPrompt_call c)
  refine ⟨{ w with calls := alErase w.calls tr.traceNo }, ?_, good_of_frame h.mem hno ?_⟩
  · simp only [wstep, hcall]
    rw [if_pos ⟨trivial, hnone⟩]
  refine sim_frame h.sim h.mem hno (fun _ _ h => h) (fun t ht => alGet_alErase_ne _ _ _ ht) ?_ (fun _ _ _ h => h)
    (fun hl => h.sim.active tr h.mem (hen hl)) ?_ ?_ rfl h.sim.ever h.sim.promptsEver
  · intro e he
    exact Or.inl ⟨he, hnone e he⟩
  · rw [hph']; exact alGet_alErase_self ..
  · intro c' p hc; rw [hph'] at hc; cases hc

theorem ev_endTrace (h : Good ts nt np w tr) (hph : tr.phase = .idle) (hl : tr.ended = false)
    (hno : tr'.traceNo = tr.traceNo) (hph' : tr'.phase = .idle) (hen : tr'.ended = true) :
    ∃ w', wstep w (.endTrace tr.traceNo) = some w' ∧ Good (setTrace ts tr') nt np w' tr' := by
  have hidle : alGet w.calls tr.traceNo = none := by rw [h.sim.calls tr h.mem, hph]; rfl
  have hact : tr.traceNo ∈ w.active := h.sim.active tr h.mem hl
  refine ⟨{ w with active := w.active.erase tr.traceNo }, by simp [wstep, hidle, hact], good_of_frame h.mem hno ?_⟩
  refine sim_frame h.sim h.mem hno ?_ (fun _ _ => rfl) ?_ (fun _ _ _ h => h)
    (fun hl' => by rw [hen] at hl'; cases hl') ?_ ?_ rfl h.sim.ever h.sim.promptsEver
  · intro t ht hin
    exact (List.mem_erase_of_ne ht).mpr hin
  · intro e he
    exact Or.inl ⟨he, h.sim.noPrompt h.mem (hph ▸ notPrompt_idle) e he⟩
  · rw [hph']; exact hidle
  · intro c' p hc; rw [hph'] at hc; cases hc

end events

theorem wrun_cons_of {w w' : W} {e : Ev} (h : wstep w e = some w') (es : List Ev) : wrun w (e :: es) = wrun w' es := by
  simp only [wrun, h]

/-- a local transition of a live trace is accepted by the grammar, and the simulation is kept -/
theorem sim_local {ts : List TraceSt} {nt np : Nat} {w : W} {tr : TraceSt} (h : Good ts nt np w tr)
    (hl : tr.ended = false) {nc : Nat} {a : Act} {ph' : Phase} {en' : Bool} {evs : List Ev} {nc' np' : Nat}
    (hL : Local tr.traceNo nc np tr.phase a ph' en' evs nc' np') :
    ∃ w', wrun w evs = some w' ∧ Sim (setTrace ts { tr with phase := ph', ended := en' }) nt np' w' := by
  obtain ⟨ent, no, thn, tkn, ph, en⟩ := tr
  simp only at hl; subst hl
  simp only at hL
  cases hL with
  | enter f l fr ev =>
    obtain ⟨w1, hw1, g1⟩ := ev_startCall (tr' := ⟨ent, no, thn, tkn, .call ⟨nc, f, l, fr, ev⟩, false⟩) h rfl rfl rfl _ rfl
    exact ⟨w1, (wrun_cons_of hw1 _).trans rfl, g1.sim⟩
  | stop c =>
    obtain ⟨hw1, _, g1⟩ := ev_cmdloop (tr' := ⟨ent, no, thn, tkn, .cmdloop c false, false⟩) h c rfl (notPrompt_call c)
      rfl rfl (notPrompt_cmdloop c false) (fun _ => rfl)
    exact ⟨w, (wrun_cons_of hw1 _).trans rfl, g1.sim⟩
  | prompt c b text =>
    obtain ⟨w1, hw1, g1⟩ := ev_startPrompt (tr' := ⟨ent, no, thn, tkn, .prompt c np, false⟩) h c b rfl rfl rfl
      (fun _ => rfl) text
    exact ⟨w1, (wrun_cons_of hw1 _).trans rfl, g1.sim⟩
  | answerT c p cmd =>
    obtain ⟨w1, hw1, g1⟩ := ev_endPrompt (tr' := ⟨ent, no, thn, tkn, .cmdloop c true, false⟩) h c p rfl rfl rfl
      (notPrompt_cmdloop c true) (fun _ => rfl) cmd
    obtain ⟨_, hw2, g2⟩ := ev_cmdloop (tr' := ⟨ent, no, thn, tkn, .call c, false⟩) g1 c rfl (notPrompt_cmdloop c true)
      rfl rfl (notPrompt_call c) (fun _ => rfl)
    rw [setTrace_setTrace ts (⟨ent, no, thn, tkn, .cmdloop c true, false⟩ : TraceSt) (⟨ent, no, thn, tkn, .call c, false⟩ : TraceSt) rfl] at g2
    exact ⟨w1, (wrun_cons_of hw1 _).trans ((wrun_cons_of hw2 _).trans rfl), g2.sim⟩
  | answerF c p cmd =>
    obtain ⟨w1, hw1, g1⟩ := ev_endPrompt (tr' := ⟨ent, no, thn, tkn, .cmdloop c true, false⟩) h c p rfl rfl rfl
      (notPrompt_cmdloop c true) (fun _ => rfl) cmd
    exact ⟨w1, (wrun_cons_of hw1 _).trans rfl, g1.sim⟩
  | leave c =>
    obtain ⟨w1, hw1, g1⟩ := ev_endCall (tr' := ⟨ent, no, thn, tkn, .idle, false⟩) h c rfl rfl rfl (fun _ => rfl)
    exact ⟨w1, (wrun_cons_of hw1 _).trans rfl, g1.sim⟩
  | abort _ hne =>
    cases ph with
    | idle => exact absurd rfl hne
    | call c =>
      obtain ⟨w1, hw1, g1⟩ := ev_endCall (tr' := ⟨ent, no, thn, tkn, .idle, false⟩) h c rfl rfl rfl (fun _ => rfl)
      exact ⟨w1, (wrun_cons_of hw1 _).trans rfl, g1.sim⟩
    | cmdloop c b =>
      obtain ⟨_, hw1, g1⟩ := ev_cmdloop (tr' := ⟨ent, no, thn, tkn, .call c, false⟩) h c rfl (notPrompt_cmdloop c b)
        rfl rfl (notPrompt_call c) (fun _ => rfl)
      obtain ⟨w2, hw2, g2⟩ := ev_endCall (tr' := ⟨ent, no, thn, tkn, .idle, false⟩) g1 c rfl rfl rfl (fun _ => rfl)
      rw [setTrace_setTrace ts (⟨ent, no, thn, tkn, .call c, false⟩ : TraceSt) (⟨ent, no, thn, tkn, .idle, false⟩ : TraceSt) rfl] at g2
      exact ⟨w2, (wrun_cons_of hw1 _).trans ((wrun_cons_of hw2 _).trans rfl), g2.sim⟩
    | prompt c p =>
      obtain ⟨w1, hw1, g1⟩ := ev_endPrompt (tr' := ⟨ent, no, thn, tkn, .cmdloop c true, false⟩) h c p rfl rfl rfl
        (notPrompt_cmdloop c true) (fun _ => rfl) 0
      obtain ⟨_, hw2, g2⟩ := ev_cmdloop (tr' := ⟨ent, no, thn, tkn, .call c, false⟩) g1 c rfl (notPrompt_cmdloop c true)
        rfl rfl (notPrompt_call c) (fun _ => rfl)
      rw [setTrace_setTrace ts (⟨ent, no, thn, tkn, .cmdloop c true, false⟩ : TraceSt) (⟨ent, no, thn, tkn, .call c, false⟩ : TraceSt) rfl] at g2
      obtain ⟨w3, hw3, g3⟩ := ev_endCall (tr' := ⟨ent, no, thn, tkn, .idle, false⟩) g2 c rfl rfl rfl (fun _ => rfl)
      rw [setTrace_setTrace ts (⟨ent, no, thn, tkn, .call c, false⟩ : TraceSt) (⟨ent, no, thn, tkn, .idle, false⟩ : TraceSt) rfl] at g3
      exact ⟨w3, (wrun_cons_of hw1 _).trans ((wrun_cons_of hw2 _).trans ((wrun_cons_of hw3 _).trans rfl)), g3.sim⟩
  | finish =>
    obtain ⟨w1, hw1, g1⟩ := ev_endTrace (tr' := ⟨ent, no, thn, tkn, .idle, true⟩) h rfl rfl rfl rfl rfl
    exact ⟨w1, (wrun_cons_of hw1 _).trans rfl, g1.sim⟩

/-- the stream emitted so far is accepted by the grammar, in a state that mirrors the traces -/
def WInv (s : St) : Prop := ∃ w, wrun {} s.out = some w ∧ Sim s.traces s.nextTrace s.nextPrompt w

theorem wInv_init : WInv {} := ⟨{}, rfl, sim_init⟩

theorem wInv_lstep {s s' : St} {e : Ent} {a : Act} (h : WInv s) (hs : LStep s e a s') : WInv s' := by
  obtain ⟨tr, ph', en', evs, nc', np', hf, hL, rfl⟩ := hs
  obtain ⟨hm, _, hl⟩ := findTrace_some hf
  obtain ⟨w, hw, hsim⟩ := h
  obtain ⟨w', hw', hsim'⟩ := sim_local ⟨hsim, hm⟩ hl hL
  refine ⟨w', ?_, hsim'⟩
  show wrun {} (s.out ++ evs) = some w'
  rw [wrun_append, hw]; exact hw'

theorem wInv_addTrace {s : St} {e : Ent} (h : WInv s) : WInv (addTrace s e) := by
  obtain ⟨w, hw, hsim⟩ := h
  have hns : s.nextTrace ∉ w.started := fun hin => Nat.lt_irrefl _ (hsim.started _ hin)
  refine ⟨{ w with started := w.started ++ [s.nextTrace], active := w.active ++ [s.nextTrace] }, ?_, ?_⟩
  · rw [addTrace_out, wrun_append, hw]
    simp [wrun, wstep, hns]
  · rw [addTrace_traces, addTrace_nextTrace, addTrace_nextPrompt]
    have hnew : ∀ x ∈ s.traces ++ [newTrace s e], x ∈ s.traces ∨ x = newTrace s e := by
      intro x hx; simpa using hx
    refine ⟨?_, ?_, ?_, ?_, ?_, ?_, ?_, ?_, hsim.ever, hsim.promptsEver⟩
    · intro t1 h1 t2 h2 h12
      rcases hnew t1 h1 with h1 | rfl <;> rcases hnew t2 h2 with h2 | rfl
      · exact hsim.uniq t1 h1 t2 h2 h12
      · have := hsim.ltT t1 h1; rw [h12] at this; exact absurd this (Nat.lt_irrefl _)
      · have := hsim.ltT t2 h2; rw [← h12] at this; exact absurd this (Nat.lt_irrefl _)
      · rfl
    · intro x hx hl
      simp only [List.mem_append, List.mem_singleton]
      rcases hnew x hx with hx | rfl
      · exact Or.inl (hsim.active x hx hl)
      · exact Or.inr rfl
    · intro x hx
      rcases hnew x hx with hx | rfl
      · exact hsim.calls x hx
      · show alGet w.calls s.nextTrace = none
        cases hc : alGet w.calls s.nextTrace with
        | none => rfl
        | some c => exact absurd (hsim.callsLt _ c hc) (Nat.lt_irrefl _)
    · intro p hp
      obtain ⟨x, hx, h1, h2⟩ := hsim.prompts1 p hp
      exact ⟨x, List.mem_append_left _ hx, h1, h2⟩
    · intro x hx c p hph
      rcases hnew x hx with hx | rfl
      · exact hsim.prompts2 x hx c p hph
      · cases hph
    · intro x hx
      rcases hnew x hx with hx | rfl
      · exact Nat.lt_succ_of_lt (hsim.ltT x hx)
      · exact Nat.lt_succ_self _
    · intro t ht
      simp only [List.mem_append, List.mem_singleton] at ht
      rcases ht with ht | rfl
      · exact Nat.lt_succ_of_lt (hsim.started t ht)
      · exact Nat.lt_succ_self _
    · intro t c hc
      exact Nat.lt_succ_of_lt (hsim.callsLt t c hc)

theorem wInv_step {s s' : St} {e : Ent} {a : Act} (h : WInv s) (hs : step s e a = some s') : WInv s' := by
  rcases step_cases hs with hl | ⟨_, _, hl⟩ | ⟨rfl, _⟩ | ⟨rfl, _⟩ | ⟨tr, text, _, _, rfl⟩
  · exact wInv_lstep h hl
  · exact wInv_lstep (wInv_addTrace h) hl
  · exact h
  · exact h
  · obtain ⟨w, hw, hsim⟩ := h
    refine ⟨w, ?_, hsim⟩
    show wrun {} (s.out ++ [.stdout tr.traceNo text]) = some w
    rw [wrun_append, hw]; rfl

/-! ### invariant: the numbers in the stream -/

theorem callNos_append (a b : List Ev) : callNos (a ++ b) = callNos a ++ callNos b := by simp [callNos]
theorem promptNos_append (a b : List Ev) : promptNos (a ++ b) = promptNos a ++ promptNos b := by simp [promptNos]
theorem traceNos_append (a b : List Ev) : traceNos (a ++ b) = traceNos a ++ traceNos b := by simp [traceNos]

/-- what a local transition contributes to the three number sequences -/
theorem local_numbers {t nc np : Nat} {ph : Phase} {a : Act} {ph' : Phase} {en' : Bool} {evs : List Ev} {nc' np' : Nat}
    (hL : Local t nc np ph a ph' en' evs nc' np') :
    traceNos evs = [] ∧ ((callNos evs = [] ∧ nc' = nc) ∨ (callNos evs = [nc] ∧ nc' = nc + 1)) ∧
    ((promptNos evs = [] ∧ np' = np) ∨ (promptNos evs = [np] ∧ np' = np + 1)) := by
  cases hL with
  | abort ph _ => cases ph <;> simp [traceNos, callNos, promptNos, unwind]
  | _ => simp [traceNos, callNos, promptNos]

/-- every event of a local transition carries the trace number -/
theorem local_evTrace {t nc np : Nat} {ph : Phase} {a : Act} {ph' : Phase} {en' : Bool} {evs : List Ev} {nc' np' : Nat}
    (hL : Local t nc np ph a ph' en' evs nc' np') : ∀ ev ∈ evs, evTrace ev = t := by
  cases hL with
  | abort ph _ => cases ph <;> simp [evTrace, unwind]
  | _ => simp [evTrace]

structure NumInv (s : St) : Prop where
  tr : traceNos s.out = (List.range (s.nextTrace - 1)).map (· + 1)
  trPos : 1 ≤ s.nextTrace
  callLt : ∀ c ∈ callNos s.out, c < s.nextCall
  callInc : (callNos s.out).Pairwise (· < ·)
  prLt : ∀ p ∈ promptNos s.out, p < s.nextPrompt
  prInc : (promptNos s.out).Pairwise (· < ·)

theorem numInv_init : NumInv {} := ⟨rfl, Nat.le_refl _, by simp [callNos], by simp [callNos], by simp [promptNos],
  by simp [promptNos]⟩

theorem pairwise_lt_snoc {l : List Nat} {n : Nat} (h : l.Pairwise (· < ·)) (hl : ∀ x ∈ l, x < n) :
    (l ++ [n]).Pairwise (· < ·) := by
  rw [List.pairwise_append]
  refine ⟨h, by simp, ?_⟩
  intro a ha b hb
  simp only [List.mem_singleton] at hb
  subst hb
  exact hl a ha

theorem numInv_lstep {s s' : St} {e : Ent} {a : Act} (h : NumInv s) (hs : LStep s e a s') : NumInv s' := by
  obtain ⟨tr, ph', en', evs, nc', np', hf, hL, rfl⟩ := hs
  obtain ⟨ht, hc, hp⟩ := local_numbers hL
  refine ⟨?_, h.trPos, ?_, ?_, ?_, ?_⟩
  · show traceNos (s.out ++ evs) = _
    rw [traceNos_append, ht, List.append_nil]; exact h.tr
  · show ∀ c ∈ callNos (s.out ++ evs), c < nc'
    rw [callNos_append]
    rcases hc with ⟨hc, rfl⟩ | ⟨hc, rfl⟩ <;> rw [hc]
    · simpa using h.callLt
    · intro c hc'
      simp only [List.mem_append, List.mem_singleton] at hc'
      rcases hc' with hc' | rfl
      · exact Nat.lt_succ_of_lt (h.callLt c hc')
      · exact Nat.lt_succ_self _
  · show (callNos (s.out ++ evs)).Pairwise (· < ·)
    rw [callNos_append]
    rcases hc with ⟨hc, _⟩ | ⟨hc, _⟩ <;> rw [hc]
    · simpa using h.callInc
    · exact pairwise_lt_snoc h.callInc h.callLt
  · show ∀ c ∈ promptNos (s.out ++ evs), c < np'
    rw [promptNos_append]
    rcases hp with ⟨hp, rfl⟩ | ⟨hp, rfl⟩ <;> rw [hp]
    · simpa using h.prLt
    · intro c hc'
      simp only [List.mem_append, List.mem_singleton] at hc'
      rcases hc' with hc' | rfl
      · exact Nat.lt_succ_of_lt (h.prLt c hc')
      · exact Nat.lt_succ_self _
  · show (promptNos (s.out ++ evs)).Pairwise (· < ·)
    rw [promptNos_append]
    rcases hp with ⟨hp, _⟩ | ⟨hp, _⟩ <;> rw [hp]
    · simpa using h.prInc
    · exact pairwise_lt_snoc h.prInc h.prLt

theorem numInv_addTrace {s : St} {e : Ent} (h : NumInv s) : NumInv (addTrace s e) := by
  refine ⟨?_, ?_, ?_, ?_, ?_, ?_⟩
  · rw [addTrace_out, addTrace_nextTrace, traceNos_append, h.tr]
    have hp := h.trPos
    have e1 : s.nextTrace + 1 - 1 = (s.nextTrace - 1) + 1 := by omega
    rw [e1, List.range_succ, List.map_append]
    have e2 : s.nextTrace - 1 + 1 = s.nextTrace := by omega
    simp [traceNos, e2]
  · rw [addTrace_nextTrace]; exact Nat.le_add_left _ _
  · rw [addTrace_out, addTrace_nextCall, callNos_append]; simpa [callNos] using h.callLt
  · rw [addTrace_out, callNos_append]; simpa [callNos] using h.callInc
  · rw [addTrace_out, addTrace_nextPrompt, promptNos_append]; simpa [promptNos] using h.prLt
  · rw [addTrace_out, promptNos_append]; simpa [promptNos] using h.prInc

theorem numInv_step {s s' : St} {e : Ent} {a : Act} (h : NumInv s) (hs : step s e a = some s') : NumInv s' := by
  rcases step_cases hs with hl | ⟨_, _, hl⟩ | ⟨rfl, _⟩ | ⟨rfl, _⟩ | ⟨tr, text, _, _, rfl⟩
  · exact numInv_lstep h hl
  · exact numInv_lstep (numInv_addTrace h) hl
  · exact h
  · exact h
  · refine ⟨?_, h.trPos, ?_, ?_, ?_, ?_⟩
    · show traceNos (s.out ++ _) = _
      rw [traceNos_append]; simpa [traceNos] using h.tr
    · show ∀ c ∈ callNos (s.out ++ _), c < s.nextCall
      rw [callNos_append]; simpa [callNos] using h.callLt
    · show (callNos (s.out ++ _)).Pairwise (· < ·)
      rw [callNos_append]; simpa [callNos] using h.callInc
    · show ∀ c ∈ promptNos (s.out ++ _), c < s.nextPrompt
      rw [promptNos_append]; simpa [promptNos] using h.prLt
    · show (promptNos (s.out ++ _)).Pairwise (· < ·)
      rw [promptNos_append]; simpa [promptNos] using h.prInc

/-! ### all invariants hold in every reachable state -/

structure Inv (s : St) : Prop where
  tr : TrInv s
  id : IdInv s
  w : WInv s
  num : NumInv s

theorem inv_init : Inv {} := ⟨trInv_init, idInv_init, wInv_init, numInv_init⟩

theorem inv_step {s s' : St} {e : Ent} {a : Act} (h : Inv s) (hs : step s e a = some s') : Inv s' :=
  ⟨trInv_step h.tr hs, idInv_step h.id hs, wInv_step h.w hs, numInv_step h.num hs⟩

theorem inv_run {s0 s : St} {ls : List (Ent × Act)} (h : Inv s0) (hr : run s0 ls = some s) : Inv s := by
  induction ls generalizing s0 with
  | nil => simp only [run, Option.some.injEq] at hr; subst hr; exact h
  | cons l ls ih =>
    obtain ⟨e, a⟩ := l
    simp only [run] at hr
    split at hr
    · next s1 hs => exact ih (inv_step h hs) hr
    · cases hr

theorem inv_of_run {ls : List (Ent × Act)} {s : St} (h : run {} ls = some s) : Inv s := inv_run inv_init h

/-! ### an action only looks at the entity's own trace -/

theorem threadNoOf_traces (s : St) (ts2 : List TraceSt) (th : Nat) :
    threadNoOf { s with traces := ts2 } th = ((threadNoOf s th).1, { (threadNoOf s th).2 with traces := ts2 }) := by
  unfold threadNoOf
  show (match s.threadNos.find? fun e => e.1 = th with | some e => _ | none => _) = _
  cases s.threadNos.find? fun e => e.1 = th <;> rfl

theorem taskNoOf_traces (s : St) (ts2 : List TraceSt) (tn : Nat) :
    taskNoOf { s with traces := ts2 } tn = ((taskNoOf s tn).1, { (taskNoOf s tn).2 with traces := ts2 }) := by
  unfold taskNoOf
  show (match s.taskCounters.find? fun e => e.1 = tn with | some e => _ | none => _) = _
  cases s.taskCounters.find? fun e => e.1 = tn <;> rfl

theorem newThreadNo_traces (s : St) (ts2 : List TraceSt) (e : Ent) :
    newThreadNo { s with traces := ts2 } e = newThreadNo s e := by
  simp only [newThreadNo, threadNoOf_traces]

theorem newTaskNo_traces (s : St) (ts2 : List TraceSt) (e : Ent) :
    newTaskNo { s with traces := ts2 } e = newTaskNo s e := by
  obtain ⟨th, ta⟩ := e
  cases ta with
  | none => rfl
  | some j => simp only [newTaskNo, threadNoOf_traces, taskNoOf_traces]

local macro "congr_close" : tactic =>
  `(tactic| exact ⟨by first | rfl | trivial,
      fun s' s2' h1 h2 => by first | (cases h1; done) | (cases h1; cases h2; rfl)⟩)

/-- enabledness and emitted events of an action of `e` depend on the traces only through `findTrace · e` -/
theorem step_congr (s : St) (ts2 : List TraceSt) (e : Ent) (a : Act) (hf : findTrace ts2 e = findTrace s.traces e) :
    (step s e a).isSome = (step { s with traces := ts2 } e a).isSome ∧
    ∀ s' s2', step s e a = some s' → step { s with traces := ts2 } e a = some s2' → s'.out = s2'.out := by
  cases hf1 : findTrace s.traces e with
  | none =>
    have hf2 : findTrace ({ s with traces := ts2 } : St).traces e = none := hf.trans hf1
    cases a with
    | enter f l fr ev =>
      rw [step_enter_none hf1, step_enter_none hf2]
      refine ⟨rfl, ?_⟩
      intro s' s2' h1 h2
      cases h1; cases h2
      show (addTrace s e).out ++ _ = (addTrace _ e).out ++ _
      simp only [addTrace_out, addTrace_nextCall, newThreadNo_traces, newTaskNo_traces]
      rfl
    | stopRefused =>
      simp only [step, hf1, hf2]
      congr_close
    | write t =>
      simp only [step, hf1, hf2]
      congr_close
    | _ =>
      simp only [step, hf1, hf2]
      congr_close
  | some tr =>
    have hf2 : findTrace ({ s with traces := ts2 } : St).traces e = some tr := hf.trans hf1
    obtain ⟨ent, no, thn, tkn, ph, en⟩ := tr
    cases a with
    | enter f l fr ev =>
      rw [step_enter_some hf1, step_enter_some hf2]
      cases ph <;> congr_close
    | answer cmd resumes =>
      simp only [step, hf1, hf2]
      cases ph <;> cases resumes <;> congr_close
    | _ =>
      simp only [step, hf1, hf2]
      first
        | congr_close
        | (cases ph <;> congr_close)

end NLV.Trace
