import NLV.Model.Trace
import NLV.Lemmas.Registrars
/-! Helper lemmas for model D1 (the event-emitting trace pipeline, numbers drawn in hidden steps and emitted later): a case
analysis of `step` into a per-trace local transition (`Local`, at most one event), the creation of a newcomer
(`addNewcomer`), the move of a newcomer into `traces` (`moveNewcomer`), or a no-op; and the invariants of reachable states:
`TrInv` (trace numbers, newcomers), `IdInv` (thread/task numbers of traces and newcomers), `NumInv` (numbers held by a
phase vs. numbers in the stream), `WInv` (simulation by the registrars' grammar). -/
namespace NLV.Trace
open NLV.Reg

/-! ### definitions used by the statements of C09 / C06 -/

def callNos (o : List Ev) : List Nat := o.filterMap fun | .startCall _ c => some c.callNo | _ => none
def promptNos (o : List Ev) : List Nat := o.filterMap fun | .startPrompt _ _ p _ => some p | _ => none
def traceNos (o : List Ev) : List Nat := o.filterMap fun | .startTrace t _ _ => some t | _ => none
/-- call numbers of the start-call events of trace `t`, in stream order -/
def callNosOf (t : Nat) (o : List Ev) : List Nat :=
  o.filterMap fun | .startCall t' c => if t' = t then some c.callNo else none | _ => none
/-- prompt numbers of the start-prompt events of trace `t`, in stream order -/
def promptNosOf (t : Nat) (o : List Ev) : List Nat :=
  o.filterMap fun | .startPrompt t' _ p _ => if t' = t then some p else none | _ => none
/-- the trace number an event carries -/
def evTrace : Ev → Nat
  | .startTrace t _ _ | .endTrace t | .startCall t _ | .endCall t _ | .startCmdloop t _ | .endCmdloop t _
  | .startPrompt t _ _ _ | .endPrompt t _ _ | .stdout t _ => t
/-- the events an action added -/
def newEvents (s s' : St) : List Ev := s'.out.drop s.out.length

/-! ### association lists (additions to `NLV/Lemmas/Registrars.lean`) -/

section al
variable {β : Type}

theorem alGet_alSet_self (l : List (Nat × β)) (k : Nat) (v : β) : alGet (alSet l k v) k = some v := by
  induction l with
  | nil => simp [alSet, alGet]
  | cons e t ih =>
    obtain ⟨k', v'⟩ := e
    by_cases h : k' = k
    · simp [alSet, alGet, h]
    · simp only [alSet, h, if_false]
      simp only [alGet, List.find?_cons, h, decide_false] at ih ⊢
      exact ih

theorem alGet_alSet_ne (l : List (Nat × β)) (k k' : Nat) (v : β) (hne : k' ≠ k) :
    alGet (alSet l k v) k' = alGet l k' := by
  induction l with
  | nil =>
    have : ¬ k = k' := fun h => hne h.symm
    simp [alSet, alGet, this]
  | cons e t ih =>
    obtain ⟨k0, v0⟩ := e
    by_cases h : k0 = k
    · subst h
      have : ¬ k0 = k' := fun h => hne h.symm
      simp [alSet, alGet, this]
    · simp only [alSet, h, if_false]
      by_cases h2 : k0 = k'
      · simp [alGet, h2]
      · simp only [alGet, List.find?_cons, h2, decide_false] at ih ⊢
        exact ih

theorem mem_alSet {l : List (Nat × β)} {k : Nat} {v : β} {e : Nat × β} (h : e ∈ alSet l k v) :
    e = (k, v) ∨ e ∈ l := by
  induction l with
  | nil => simp only [alSet, List.mem_singleton] at h; exact Or.inl h
  | cons a t ih =>
    obtain ⟨k0, v0⟩ := a
    by_cases hk : k0 = k
    · simp only [alSet, hk, if_true, List.mem_cons] at h
      rcases h with h | h
      · exact Or.inl h
      · exact Or.inr (List.mem_cons_of_mem _ h)
    · simp only [alSet, hk, if_false, List.mem_cons] at h
      rcases h with h | h
      · exact Or.inr (h ▸ List.mem_cons_self ..)
      · rcases ih h with h | h
        · exact Or.inl h
        · exact Or.inr (List.mem_cons_of_mem _ h)

theorem alGet_alErase_self (l : List (Nat × β)) (k : Nat) : alGet (alErase l k) k = none := by
  rw [alGet_none_iff, keysOf_alErase]
  simp

theorem alGet_alErase_ne (l : List (Nat × β)) (k k' : Nat) (hne : k' ≠ k) :
    alGet (alErase l k) k' = alGet l k' := by
  induction l with
  | nil => rfl
  | cons e t ih =>
    obtain ⟨k0, v0⟩ := e
    by_cases h : k0 = k
    · subst h
      have h2 : ¬ k0 = k' := fun h => hne h.symm
      simp only [alErase, alGet, List.filter_cons, ne_eq, not_true_eq_false, decide_false, List.find?_cons, h2] at ih ⊢
      exact ih
    · by_cases h2 : k0 = k'
      · subst h2
        simp [alErase, alGet, h]
      · simp only [alErase, alGet, List.filter_cons, ne_eq, h, not_false_eq_true, decide_true, List.find?_cons, h2,
          decide_false, if_true] at ih ⊢
        exact ih

theorem alGet_append_some {l : List (Nat × β)} {k : Nat} {v : β} (x : List (Nat × β)) (h : alGet l k = some v) :
    alGet (l ++ x) k = some v := by
  unfold alGet at h ⊢
  rw [List.find?_append]
  cases hf : l.find? (fun e => e.1 = k) with
  | none => simp [hf] at h
  | some e => simpa [hf] using h

theorem alGet_append_none {l : List (Nat × β)} {k : Nat} (x : List (Nat × β)) (h : alGet l k = none) :
    alGet (l ++ x) k = alGet x k := by
  unfold alGet at h ⊢
  rw [List.find?_append]
  cases hf : l.find? (fun e => e.1 = k) with
  | none => simp
  | some e => simp [hf] at h

theorem alGet_mapUpd (l : List (Nat × β)) (k k' : Nat) (v : β) :
    alGet (l.map fun x => if x.1 = k then (k, v) else x) k' =
      if k' = k then (alGet l k').map (fun _ => v) else alGet l k' := by
  induction l with
  | nil => simp [alGet]
  | cons e t ih =>
    obtain ⟨k0, v0⟩ := e
    by_cases h : k0 = k
    · subst h
      by_cases h2 : k0 = k'
      · subst h2; simp [alGet]
      · have h3 : ¬ k' = k0 := fun h => h2 h.symm
        simp only [alGet, List.map_cons, if_true, List.find?_cons, h2, decide_false, h3, if_false] at ih ⊢
        exact ih
    · by_cases h2 : k0 = k'
      · subst h2
        simp [alGet, h]
      · simp only [alGet, List.map_cons, h, if_false, List.find?_cons, h2, decide_false] at ih ⊢
        exact ih

end al

/-! ### the grammar run over an appended stream -/

theorem wrun_append (w : W) (l1 l2 : List Ev) : wrun w (l1 ++ l2) = (wrun w l1).bind fun w' => wrun w' l2 := by
  induction l1 generalizing w with
  | nil => rfl
  | cons e es ih =>
    simp only [List.cons_append, wrun]
    cases wstep w e with
    | none => rfl
    | some w' => exact ih w'

/-! ### `setTrace`, `findTrace` -/

theorem mem_setTrace {ts : List TraceSt} {t' x : TraceSt} :
    x ∈ setTrace ts t' ↔ (x = t' ∧ ∃ y ∈ ts, y.traceNo = t'.traceNo) ∨ (x ∈ ts ∧ x.traceNo ≠ t'.traceNo) := by
  simp only [setTrace, List.mem_map]
  constructor
  · rintro ⟨y, hy, rfl⟩
    by_cases h : y.traceNo = t'.traceNo
    · rw [if_pos h]; exact Or.inl ⟨rfl, y, hy, h⟩
    · rw [if_neg h]; exact Or.inr ⟨hy, h⟩
  · rintro (⟨rfl, y, hy, h⟩ | ⟨hx, h⟩)
    · exact ⟨y, hy, by simp [h]⟩
    · exact ⟨x, hx, by simp [h]⟩

theorem setTrace_traceNos (ts : List TraceSt) (t' : TraceSt) :
    (setTrace ts t').map (·.traceNo) = ts.map (·.traceNo) := by
  simp only [setTrace, List.map_map]
  apply List.map_congr_left
  intro x _
  by_cases h : x.traceNo = t'.traceNo <;> simp [h]

theorem setTrace_setTrace (ts : List TraceSt) (t1 t2 : TraceSt) (h : t1.traceNo = t2.traceNo) :
    setTrace (setTrace ts t1) t2 = setTrace ts t2 := by
  simp only [setTrace, List.map_map]
  apply List.map_congr_left
  intro x _
  by_cases hx : x.traceNo = t1.traceNo
  · have hx2 : x.traceNo = t2.traceNo := hx.trans h
    simp [hx, h]
  · have hx2 : ¬ x.traceNo = t2.traceNo := fun h' => hx (h'.trans h.symm)
    simp [hx, hx2]

theorem findTrace_some {ts : List TraceSt} {e : Ent} {tr : TraceSt} (h : findTrace ts e = some tr) :
    tr ∈ ts ∧ tr.ent = e ∧ tr.ended = false := by
  have h1 := List.find?_some h
  have h2 := List.mem_of_find?_eq_some h
  simp only [Bool.decide_and, Bool.and_eq_true, decide_eq_true_eq, Bool.not_eq_eq_eq_not, Bool.not_true] at h1
  exact ⟨h2, h1.1, by simpa using h1.2⟩

theorem findTrace_none {ts : List TraceSt} {e : Ent} (h : findTrace ts e = none) :
    ∀ x ∈ ts, x.ent = e → x.ended = true := by
  intro x hx he
  have := List.find?_eq_none.mp h x hx
  simp only [Bool.decide_and, Bool.and_eq_true, decide_eq_true_eq, not_and] at this
  have := this he
  simpa using this

/-- the first live trace of `e` stays the first one when it is replaced by a live trace of `e` with the same number -/
theorem findTrace_setTrace_self {ts : List TraceSt} {e : Ent} {tr tr' : TraceSt} (h : findTrace ts e = some tr)
    (he : tr'.ent = e) (hl : tr'.ended = false) (hn : tr'.traceNo = tr.traceNo) :
    findTrace (setTrace ts tr') e = some tr' := by
  induction ts with
  | nil => simp [findTrace] at h
  | cons x xs ih =>
    simp only [findTrace, setTrace, List.map_cons, List.find?_cons] at h ⊢
    have hp' : (decide (tr'.ent = e ∧ (!tr'.ended) = true)) = true := by simp [he, hl]
    by_cases hx : x.traceNo = tr'.traceNo
    · simp only [hx, if_true, hp']
    · simp only [hx, if_false]
      cases hpx : decide (x.ent = e ∧ (!x.ended) = true) with
      | true =>
        simp only [hpx, Option.some.injEq] at h
        subst h
        exact absurd hn.symm hx
      | false =>
        simp only [hpx] at h
        exact ih h

/-- replacing a trace of another entity does not change which trace an entity finds -/
theorem findTrace_setTrace_other {ts : List TraceSt} {e : Ent} {tr' : TraceSt} (hne : tr'.ent ≠ e)
    (huniq : ∀ x ∈ ts, x.traceNo = tr'.traceNo → x.ent ≠ e) :
    findTrace (setTrace ts tr') e = findTrace ts e := by
  induction ts with
  | nil => rfl
  | cons x xs ih =>
    have ih' := ih (fun y hy => huniq y (List.mem_cons_of_mem _ hy))
    simp only [findTrace, setTrace, List.map_cons, List.find?_cons] at ih' ⊢
    by_cases hx : x.traceNo = tr'.traceNo
    · have hxe := huniq x (List.mem_cons_self ..) hx
      simp only [hx, if_true, hne, hxe, false_and, decide_false]
      exact ih'
    · simp only [hx, if_false]
      cases decide (x.ent = e ∧ (!x.ended) = true) with
      | true => rfl
      | false => exact ih'

theorem findTrace_append_new {ts : List TraceSt} {e : Ent} {t0 : TraceSt} (h : findTrace ts e = none)
    (he : t0.ent = e) (hl : t0.ended = false) : findTrace (ts ++ [t0]) e = some t0 := by
  unfold findTrace at h ⊢
  rw [List.find?_append, h]
  simp [he, hl]

theorem nodup_map_inj {α β : Type} {f : α → β} {l : List α} (h : (l.map f).Nodup) {a b : α} (ha : a ∈ l) (hb : b ∈ l)
    (hab : f a = f b) : a = b := by
  induction l with
  | nil => cases ha
  | cons x xs ih =>
    simp only [List.map_cons, List.nodup_cons, List.mem_map, not_exists, not_and] at h
    simp only [List.mem_cons] at ha hb
    rcases ha with rfl | ha <;> rcases hb with rfl | hb
    · rfl
    · exact absurd hab.symm (h.1 b hb)
    · exact absurd hab (h.1 a ha)
    · exact ih h.2 ha hb

theorem newEvents_of_out {s s' : St} {l : List Ev} (h : s'.out = s.out ++ l) : newEvents s s' = l := by
  simp only [newEvents, h, List.drop_left]

/-! ### `step` as: a local transition of the entity's trace, the creation of a newcomer, its move into `traces`, or a no-op -/

/-- thread number and task number a newcomer `e` gets -/
def newThreadNo (s : St) (e : Ent) : Nat := (threadNoOf s e.thread).1
def newTaskNo (s : St) (e : Ent) : Option Nat :=
  match e.task with
  | none => none
  | some _ => some (taskNoOf (threadNoOf s e.thread).2 (threadNoOf s e.thread).1).1
/-- the state after the thread/task numbering of `e` -/
def idState (s : St) (e : Ent) : St :=
  match e.task with
  | none => (threadNoOf s e.thread).2
  | some _ => (taskNoOf (threadNoOf s e.thread).2 (threadNoOf s e.thread).1).2

def newNewcomer (s : St) (e : Ent) : Newcomer := { ent := e, threadNo := newThreadNo s e, taskNo := newTaskNo s e }

/-- `drawIds`: number the thread / task, remember the entity as a newcomer -/
def addNewcomer (s : St) (e : Ent) : St := { idState s e with newcomers := s.newcomers ++ [newNewcomer s e] }

def mkTrace (s : St) (e : Ent) (n : Newcomer) : TraceSt :=
  { ent := e, traceNo := s.nextTrace, threadNo := n.threadNo, taskNo := n.taskNo }

/-- `drawTrace`: the newcomer gets its trace number -/
def moveNewcomer (s : St) (e : Ent) (n : Newcomer) : St :=
  { s with newcomers := s.newcomers.filter (fun x => x.ent ≠ e), traces := s.traces ++ [mkTrace s e n],
           nextTrace := s.nextTrace + 1 }

theorem threadNoOf_frame (s : St) (th : Nat) :
    (threadNoOf s th).2.traces = s.traces ∧ (threadNoOf s th).2.nextTrace = s.nextTrace ∧
    (threadNoOf s th).2.nextCall = s.nextCall ∧ (threadNoOf s th).2.nextPrompt = s.nextPrompt ∧
    (threadNoOf s th).2.out = s.out ∧ (threadNoOf s th).2.taskCounters = s.taskCounters ∧
    (threadNoOf s th).2.newcomers = s.newcomers := by
  unfold threadNoOf
  split <;> simp

theorem taskNoOf_frame (s : St) (tn : Nat) :
    (taskNoOf s tn).2.traces = s.traces ∧ (taskNoOf s tn).2.nextTrace = s.nextTrace ∧
    (taskNoOf s tn).2.nextCall = s.nextCall ∧ (taskNoOf s tn).2.nextPrompt = s.nextPrompt ∧
    (taskNoOf s tn).2.out = s.out ∧ (taskNoOf s tn).2.threadNos = s.threadNos ∧
    (taskNoOf s tn).2.nextThreadNo = s.nextThreadNo ∧ (taskNoOf s tn).2.newcomers = s.newcomers := by
  unfold taskNoOf
  split <;> simp

theorem idState_frame (s : St) (e : Ent) :
    (idState s e).traces = s.traces ∧ (idState s e).nextTrace = s.nextTrace ∧
    (idState s e).nextCall = s.nextCall ∧ (idState s e).nextPrompt = s.nextPrompt ∧ (idState s e).out = s.out ∧
    (idState s e).newcomers = s.newcomers := by
  unfold idState
  have h1 := threadNoOf_frame s e.thread
  split
  · exact ⟨h1.1, h1.2.1, h1.2.2.1, h1.2.2.2.1, h1.2.2.2.2.1, h1.2.2.2.2.2.2⟩
  · have h2 := taskNoOf_frame (threadNoOf s e.thread).2 (threadNoOf s e.thread).1
    exact ⟨h2.1.trans h1.1, h2.2.1.trans h1.2.1, h2.2.2.1.trans h1.2.2.1, h2.2.2.2.1.trans h1.2.2.2.1,
      h2.2.2.2.2.1.trans h1.2.2.2.2.1, h2.2.2.2.2.2.2.2.trans h1.2.2.2.2.2.2⟩

@[simp] theorem addNewcomer_traces (s : St) (e : Ent) : (addNewcomer s e).traces = s.traces := (idState_frame s e).1
@[simp] theorem addNewcomer_nextTrace (s : St) (e : Ent) : (addNewcomer s e).nextTrace = s.nextTrace :=
  (idState_frame s e).2.1
@[simp] theorem addNewcomer_nextCall (s : St) (e : Ent) : (addNewcomer s e).nextCall = s.nextCall :=
  (idState_frame s e).2.2.1
@[simp] theorem addNewcomer_nextPrompt (s : St) (e : Ent) : (addNewcomer s e).nextPrompt = s.nextPrompt :=
  (idState_frame s e).2.2.2.1
@[simp] theorem addNewcomer_out (s : St) (e : Ent) : (addNewcomer s e).out = s.out := (idState_frame s e).2.2.2.2.1
@[simp] theorem addNewcomer_newcomers (s : St) (e : Ent) :
    (addNewcomer s e).newcomers = s.newcomers ++ [newNewcomer s e] := rfl

/-- the local transition of one trace: `Local t thn tkn nc np ph a ph' ended' evs nc' np'` — in phase `ph`, with counters
`nc` (trace calls) and `np` (prompts), action `a` leads to phase `ph'` and ended flag `ended'`, emits `evs` (at most one
event), and leaves the counters at `nc'`, `np'` -/
inductive Local (t thn : Nat) (tkn : Option Nat) (nc np : Nat) : Phase → Act → Phase → Bool → List Ev → Nat → Nat → Prop
  | emitStart : Local t thn tkn nc np .numbered .emitStart .idle false [.startTrace t thn tkn] nc np
  | drawCall (f l fr ev : Nat) :
      Local t thn tkn nc np .idle (.drawCall f l fr ev) (.callDrawn ⟨nc, f, l, fr, ev⟩) false [] (nc + 1) np
  | emitCall (c : CallInfo) : Local t thn tkn nc np (.callDrawn c) .emitCall (.call c) false [.startCall t c] nc np
  | stop (c : CallInfo) : Local t thn tkn nc np (.call c) .stop (.cmdloop c) false [.startCmdloop t c.callNo] nc np
  | drawPrompt (c : CallInfo) : Local t thn tkn nc np (.cmdloop c) .drawPrompt (.promptDrawn c np) false [] nc (np + 1)
  | emitPrompt (c : CallInfo) (p text : Nat) :
      Local t thn tkn nc np (.promptDrawn c p) (.emitPrompt text) (.prompt c p) false [.startPrompt t c.callNo p text] nc np
  | answer (c : CallInfo) (p cmd : Nat) :
      Local t thn tkn nc np (.prompt c p) (.answer cmd) (.cmdloop c) false [.endPrompt t p cmd] nc np
  | endLoop (c : CallInfo) : Local t thn tkn nc np (.cmdloop c) .endLoop (.call c) false [.endCmdloop t c.callNo] nc np
  | endLoopD (c : CallInfo) (p : Nat) :
      Local t thn tkn nc np (.promptDrawn c p) .endLoop (.call c) false [.endCmdloop t c.callNo] nc np
  | leave (c : CallInfo) : Local t thn tkn nc np (.call c) .leave .idle false [.endCall t c.callNo] nc np
  | finish : Local t thn tkn nc np .idle .finish .idle true [.endTrace t] nc np

/-- `s'` results from `s` by a local transition of the live trace of `e` -/
def LStep (s : St) (e : Ent) (a : Act) (s' : St) : Prop :=
  ∃ tr ph' en' evs nc' np', findTrace s.traces e = some tr ∧
    Local tr.traceNo tr.threadNo tr.taskNo s.nextCall s.nextPrompt tr.phase a ph' en' evs nc' np' ∧
    s' = { s with traces := setTrace s.traces { tr with phase := ph', ended := en' }, nextCall := nc', nextPrompt := np',
                  out := s.out ++ evs }

theorem findNewcomer_some {ns : List Newcomer} {e : Ent} {n : Newcomer} (h : findNewcomer ns e = some n) :
    n ∈ ns ∧ n.ent = e := by
  have h1 := List.find?_some h
  exact ⟨List.mem_of_find?_eq_some h, by simpa using h1⟩

theorem findNewcomer_none {ns : List Newcomer} {e : Ent} (h : findNewcomer ns e = none) : ∀ n ∈ ns, n.ent ≠ e := by
  intro n hn
  have := List.find?_eq_none.mp h n hn
  simpa using this

theorem step_drawIds {s : St} {e : Ent} (hf : findTrace s.traces e = none) (hn : findNewcomer s.newcomers e = none) :
    step s e .drawIds = some (addNewcomer s e) := by
  obtain ⟨th, ta⟩ := e
  have h1 := threadNoOf_frame s th
  cases ta with
  | none =>
    simp only [step, hf, hn]
    simp [addNewcomer, newNewcomer, idState, newTaskNo, newThreadNo, h1]
  | some k =>
    have h2 := taskNoOf_frame (threadNoOf s th).2 (threadNoOf s th).1
    simp only [step, hf, hn]
    simp [addNewcomer, newNewcomer, idState, newTaskNo, newThreadNo, h1, h2]

theorem step_drawIds_isSome (s : St) (e : Ent) :
    (step s e .drawIds).isSome = ((findTrace s.traces e).isNone && (findNewcomer s.newcomers e).isNone) := by
  cases hf : findTrace s.traces e with
  | some tr => simp [step, hf]
  | none =>
    cases hn : findNewcomer s.newcomers e with
    | some n => simp [step, hf, hn]
    | none => rw [step_drawIds hf hn]; rfl

/-- every enabled action is: a local transition of the entity's live trace; the numbering of a newcomer; the move of a
newcomer into `traces`; a no-op (`stopRefused`, or `write` without a trace); or a `write` of a traced entity -/
theorem step_cases {s : St} {e : Ent} {a : Act} {s' : St} (h : step s e a = some s') :
    LStep s e a s'
    ∨ (a = .drawIds ∧ findTrace s.traces e = none ∧ findNewcomer s.newcomers e = none ∧ s' = addNewcomer s e)
    ∨ (a = .drawTrace ∧ ∃ n, findNewcomer s.newcomers e = some n ∧ s' = moveNewcomer s e n)
    ∨ (s' = s ∧ a = .stopRefused ∧ ∃ tr, findTrace s.traces e = some tr ∧ tr.phase = .idle)
    ∨ (s' = s ∧ findTrace s.traces e = none ∧ (a = .stopRefused ∨ ∃ t, a = .write t))
    ∨ (∃ tr text, findTrace s.traces e = some tr ∧ a = .write text ∧
        s' = { s with out := s.out ++ [.stdout tr.traceNo text] }) := by
  by_cases hids : a = .drawIds
  · subst hids
    have hs := step_drawIds_isSome s e
    rw [h] at hs
    cases hf : findTrace s.traces e with
    | some tr => simp [hf] at hs
    | none =>
      cases hn : findNewcomer s.newcomers e with
      | some n => simp [hf, hn] at hs
      | none =>
        rw [step_drawIds hf hn] at h
        injection h with h
        exact Or.inr (Or.inl ⟨rfl, rfl, rfl, h.symm⟩)
  by_cases htr : a = .drawTrace
  · subst htr
    cases hn : findNewcomer s.newcomers e with
    | none => simp [step, hn] at h
    | some n =>
      simp only [step, hn, Option.some.injEq] at h
      exact Or.inr (Or.inr (Or.inl ⟨rfl, n, rfl, h.symm⟩))
  cases hf : findTrace s.traces e with
  | none =>
    cases a with
    | drawIds => exact absurd rfl hids
    | drawTrace => exact absurd rfl htr
    | stopRefused =>
      simp only [step, hf, Option.some.injEq] at h
      exact Or.inr (Or.inr (Or.inr (Or.inr (Or.inl ⟨h.symm, rfl, Or.inl rfl⟩))))
    | write t =>
      simp only [step, hf, Option.some.injEq] at h
      exact Or.inr (Or.inr (Or.inr (Or.inr (Or.inl ⟨h.symm, rfl, Or.inr ⟨t, rfl⟩⟩))))
    | _ => simp [step, hf] at h
  | some tr =>
    obtain ⟨hm, he, hen⟩ := findTrace_some hf
    obtain ⟨ent, no, thn, tkn, ph, en⟩ := tr
    simp only at hen; subst hen
    cases a with
    | drawIds => exact absurd rfl hids
    | drawTrace => exact absurd rfl htr
    | emitStart =>
      simp only [step, hf] at h
      cases ph <;> simp only [Option.some.injEq, reduceCtorEq] at h
      subst h
      exact Or.inl ⟨_, _, _, _, _, _, hf, Local.emitStart, rfl⟩
    | drawCall f l fr ev =>
      simp only [step, hf] at h
      cases ph <;> simp only [Option.some.injEq, reduceCtorEq] at h
      subst h
      exact Or.inl ⟨_, _, _, _, _, _, hf, Local.drawCall f l fr ev, by simp⟩
    | emitCall =>
      simp only [step, hf] at h
      cases ph <;> simp only [Option.some.injEq, reduceCtorEq] at h
      subst h
      exact Or.inl ⟨_, _, _, _, _, _, hf, Local.emitCall _, rfl⟩
    | stop =>
      simp only [step, hf] at h
      cases ph <;> simp only [Option.some.injEq, reduceCtorEq] at h
      subst h
      exact Or.inl ⟨_, _, _, _, _, _, hf, Local.stop _, rfl⟩
    | stopRefused =>
      simp only [step, hf] at h
      cases ph <;> simp only [Option.some.injEq, reduceCtorEq] at h
      exact Or.inr (Or.inr (Or.inr (Or.inl ⟨h.symm, rfl, _, rfl, rfl⟩)))
    | drawPrompt =>
      simp only [step, hf] at h
      cases ph <;> simp only [Option.some.injEq, reduceCtorEq] at h
      subst h
      exact Or.inl ⟨_, _, _, _, _, _, hf, Local.drawPrompt _, by simp⟩
    | emitPrompt text =>
      simp only [step, hf] at h
      cases ph <;> simp only [Option.some.injEq, reduceCtorEq] at h
      subst h
      exact Or.inl ⟨_, _, _, _, _, _, hf, Local.emitPrompt _ _ text, rfl⟩
    | answer cmd =>
      simp only [step, hf] at h
      cases ph <;> simp only [Option.some.injEq, reduceCtorEq] at h
      subst h
      exact Or.inl ⟨_, _, _, _, _, _, hf, Local.answer _ _ cmd, rfl⟩
    | endLoop =>
      simp only [step, hf] at h
      cases ph <;> simp only [Option.some.injEq, reduceCtorEq] at h <;> subst h
      · exact Or.inl ⟨_, _, _, _, _, _, hf, Local.endLoop _, rfl⟩
      · exact Or.inl ⟨_, _, _, _, _, _, hf, Local.endLoopD _ _, rfl⟩
    | leave =>
      simp only [step, hf] at h
      cases ph <;> simp only [Option.some.injEq, reduceCtorEq] at h
      subst h
      exact Or.inl ⟨_, _, _, _, _, _, hf, Local.leave _, rfl⟩
    | finish =>
      simp only [step, hf] at h
      cases ph <;> simp only [Option.some.injEq, reduceCtorEq] at h
      subst h
      exact Or.inl ⟨_, _, _, _, _, _, hf, Local.finish, rfl⟩
    | write text =>
      simp only [step, hf, Option.some.injEq] at h
      exact Or.inr (Or.inr (Or.inr (Or.inr (Or.inr ⟨_, text, rfl, rfl, h.symm⟩))))

/-! ### invariant: trace numbers, newcomers -/

structure TrInv (s : St) : Prop where
  lt : ∀ tr ∈ s.traces, tr.traceNo < s.nextTrace
  nodup : (s.traces.map (·.traceNo)).Nodup
  live : ∀ t1 ∈ s.traces, ∀ t2 ∈ s.traces, t1.ent = t2.ent → t1.ended = false → t2.ended = false → t1 = t2
  seq : s.traces.map (·.traceNo) = (List.range s.traces.length).map (· + 1)
  next : s.nextTrace = s.traces.length + 1
  /-- a newcomer's entity has no live trace -/
  newc : ∀ n ∈ s.newcomers, ∀ x ∈ s.traces, x.ent = n.ent → x.ended = true

theorem TrInv.uniq {s : St} (h : TrInv s) : ∀ t1 ∈ s.traces, ∀ t2 ∈ s.traces, t1.traceNo = t2.traceNo → t1 = t2 :=
  fun _ h1 _ h2 h12 => nodup_map_inj h.nodup h1 h2 h12

theorem trInv_init : TrInv {} := ⟨by simp, by simp, by simp, by simp, rfl, by simp⟩

theorem setTrace_length (ts : List TraceSt) (t' : TraceSt) : (setTrace ts t').length = ts.length := by
  simp [setTrace]

theorem trInv_setTrace {s s' : St} (h : TrInv s) {tr tr' : TraceSt} (hm : tr ∈ s.traces) (hl : tr.ended = false)
    (he : tr'.ent = tr.ent) (hn : tr'.traceNo = tr.traceNo) (hts : s'.traces = setTrace s.traces tr')
    (hnt : s'.nextTrace = s.nextTrace) (hnc : s'.newcomers = s.newcomers) : TrInv s' := by
  refine ⟨?_, ?_, ?_, ?_, ?_, ?_⟩
  · intro x hx
    rw [hts, mem_setTrace] at hx
    rw [hnt]
    rcases hx with ⟨rfl, _⟩ | ⟨hx, _⟩
    · rw [hn]; exact h.lt tr hm
    · exact h.lt x hx
  · rw [hts, setTrace_traceNos]; exact h.nodup
  · intro t1 h1 t2 h2 he12 l1 l2
    rw [hts, mem_setTrace] at h1 h2
    rcases h1 with ⟨rfl, _⟩ | ⟨h1, n1⟩ <;> rcases h2 with ⟨rfl, _⟩ | ⟨h2, n2⟩
    · rfl
    · have := h.live tr hm t2 h2 (he.symm.trans he12) hl l2
      subst this
      exact absurd hn.symm n2
    · have := h.live t1 h1 tr hm (he12.trans he) l1 hl
      subst this
      exact absurd hn.symm n1
    · exact h.live t1 h1 t2 h2 he12 l1 l2
  · rw [hts, setTrace_traceNos, setTrace_length]; exact h.seq
  · rw [hts, hnt, setTrace_length]; exact h.next
  · intro n hn' x hx hxe
    rw [hnc] at hn'
    rw [hts, mem_setTrace] at hx
    rcases hx with ⟨rfl, _⟩ | ⟨hx, _⟩
    · have := h.newc n hn' tr hm (he.symm.trans hxe)
      rw [this] at hl; cases hl
    · exact h.newc n hn' x hx hxe

theorem trInv_lstep {s s' : St} {e : Ent} {a : Act} (h : TrInv s) (hs : LStep s e a s') : TrInv s' := by
  obtain ⟨tr, ph', en', evs, nc', np', hf, _, rfl⟩ := hs
  obtain ⟨hm, _, hl⟩ := findTrace_some hf
  exact trInv_setTrace (tr' := { tr with phase := ph', ended := en' }) h hm hl rfl rfl rfl rfl rfl

theorem trInv_addNewcomer {s : St} {e : Ent} (h : TrInv s) (hf : findTrace s.traces e = none) :
    TrInv (addNewcomer s e) := by
  refine ⟨?_, ?_, ?_, ?_, ?_, ?_⟩
  · rw [addNewcomer_traces, addNewcomer_nextTrace]; exact h.lt
  · rw [addNewcomer_traces]; exact h.nodup
  · rw [addNewcomer_traces]; exact h.live
  · rw [addNewcomer_traces]; exact h.seq
  · rw [addNewcomer_traces, addNewcomer_nextTrace]; exact h.next
  · intro n hn x hx hxe
    rw [addNewcomer_traces] at hx
    rw [addNewcomer_newcomers] at hn
    simp only [List.mem_append, List.mem_singleton] at hn
    rcases hn with hn | rfl
    · exact h.newc n hn x hx hxe
    · exact findTrace_none hf x hx hxe

theorem trInv_moveNewcomer {s : St} {e : Ent} {n : Newcomer} (h : TrInv s) (hn : findNewcomer s.newcomers e = some n) :
    TrInv (moveNewcomer s e n) := by
  obtain ⟨hnm, hne⟩ := findNewcomer_some hn
  have hmem : ∀ x ∈ (moveNewcomer s e n).traces, x ∈ s.traces ∨ x = mkTrace s e n := by
    intro x hx
    simpa [moveNewcomer] using hx
  refine ⟨?_, ?_, ?_, ?_, ?_, ?_⟩
  · intro x hx
    show x.traceNo < s.nextTrace + 1
    rcases hmem x hx with hx | rfl
    · exact Nat.lt_succ_of_lt (h.lt x hx)
    · exact Nat.lt_succ_self _
  · show ((s.traces ++ [mkTrace s e n]).map (·.traceNo)).Nodup
    simp only [List.map_append, List.map_cons, List.map_nil]
    refine List.nodup_append.mpr ⟨h.nodup, by simp, ?_⟩
    intro a ha b hb hab
    simp only [List.mem_singleton] at hb
    simp only [List.mem_map] at ha
    obtain ⟨x, hx, rfl⟩ := ha
    have := h.lt x hx
    rw [hab, hb] at this
    exact Nat.lt_irrefl _ this
  · intro t1 h1 t2 h2 he l1 l2
    rcases hmem t1 h1 with h1 | rfl <;> rcases hmem t2 h2 with h2 | rfl
    · exact h.live t1 h1 t2 h2 he l1 l2
    · have := h.newc n hnm t1 h1 (he.trans hne.symm)
      rw [this] at l1; cases l1
    · have := h.newc n hnm t2 h2 (he.symm.trans hne.symm)
      rw [this] at l2; cases l2
    · rfl
  · show (s.traces ++ [mkTrace s e n]).map (·.traceNo) = (List.range (s.traces ++ [mkTrace s e n]).length).map (· + 1)
    rw [List.map_append, List.length_append, List.length_singleton, List.range_succ, List.map_append, ← h.seq]
    simp [mkTrace, h.next]
  · show s.nextTrace + 1 = (s.traces ++ [mkTrace s e n]).length + 1
    rw [List.length_append, List.length_singleton, h.next]
  · intro n' hn' x hx hxe
    have hn'' : n' ∈ s.newcomers ∧ n'.ent ≠ e := by simpa [moveNewcomer] using hn'
    rcases hmem x hx with hx | rfl
    · exact h.newc n' hn''.1 x hx hxe
    · exact absurd hxe.symm hn''.2

theorem trInv_step {s s' : St} {e : Ent} {a : Act} (h : TrInv s) (hs : step s e a = some s') : TrInv s' := by
  rcases step_cases hs with hl | ⟨_, hf, _, rfl⟩ | ⟨_, n, hn, rfl⟩ | ⟨rfl, _⟩ | ⟨rfl, _⟩ | ⟨tr, text, _, _, rfl⟩
  · exact trInv_lstep h hl
  · exact trInv_addNewcomer h hf
  · exact trInv_moveNewcomer h hn
  · exact h
  · exact h
  · exact ⟨h.lt, h.nodup, h.live, h.seq, h.next, h.newc⟩

/-! ### invariant: thread numbers and task numbers (of traces and of newcomers) -/

/-- who holds a thread / task number: a trace (`key = some traceNo`) or a newcomer (`key = none`) -/
structure Holder where
  key : Option Nat
  ent : Ent
  thn : Nat
  tk : Option Nat

def holders (s : St) : List Holder :=
  s.traces.map (fun t => ⟨some t.traceNo, t.ent, t.threadNo, t.taskNo⟩) ++
  s.newcomers.map (fun n => ⟨none, n.ent, n.threadNo, n.taskNo⟩)

theorem mem_holders {s : St} {x : Holder} :
    x ∈ holders s ↔ (∃ t ∈ s.traces, x = ⟨some t.traceNo, t.ent, t.threadNo, t.taskNo⟩) ∨
      (∃ n ∈ s.newcomers, x = ⟨none, n.ent, n.threadNo, n.taskNo⟩) := by
  simp only [holders, List.mem_append, List.mem_map]
  constructor
  · rintro (⟨t, ht, rfl⟩ | ⟨n, hn, rfl⟩)
    · exact Or.inl ⟨t, ht, rfl⟩
    · exact Or.inr ⟨n, hn, rfl⟩
  · rintro (⟨t, ht, rfl⟩ | ⟨n, hn, rfl⟩)
    · exact Or.inl ⟨t, ht, rfl⟩
    · exact Or.inr ⟨n, hn, rfl⟩

structure IdInv (s : St) : Prop where
  thrGet : ∀ x ∈ holders s, alGet s.threadNos x.ent.thread = some x.thn
  thrInj : ∀ e1 ∈ s.threadNos, ∀ e2 ∈ s.threadNos, e1.2 = e2.2 → e1.1 = e2.1
  thrLt : ∀ e ∈ s.threadNos, e.2 < s.nextThreadNo
  taskSome : ∀ x ∈ holders s, x.tk.isSome = x.ent.task.isSome
  taskLt : ∀ x ∈ holders s, ∀ k, x.tk = some k → ∃ n, alGet s.taskCounters x.thn = some n ∧ k < n
  taskInj : ∀ x1 ∈ holders s, ∀ x2 ∈ holders s, x1.thn = x2.thn → x1.tk = x2.tk → x1.tk.isSome = true →
    x1.key = x2.key ∧ x1.ent = x2.ent

theorem idInv_init : IdInv {} := ⟨by simp [holders], by simp, by simp, by simp [holders], by simp [holders], by simp [holders]⟩

/-- no new holders, counters untouched -/
theorem idInv_of_sub {s s' : St} (h : IdInv s) (hc : ∀ x ∈ holders s', x ∈ holders s)
    (h1 : s'.threadNos = s.threadNos) (h2 : s'.taskCounters = s.taskCounters) (h3 : s'.nextThreadNo = s.nextThreadNo) :
    IdInv s' := by
  refine ⟨?_, ?_, ?_, ?_, ?_, ?_⟩
  · intro x hx; rw [h1]; exact h.thrGet x (hc x hx)
  · rw [h1]; exact h.thrInj
  · rw [h1, h3]; exact h.thrLt
  · intro x hx; exact h.taskSome x (hc x hx)
  · intro x hx k hk; rw [h2]; exact h.taskLt x (hc x hx) k hk
  · intro x1 hx1 x2 hx2; exact h.taskInj x1 (hc x1 hx1) x2 (hc x2 hx2)

theorem idInv_lstep {s s' : St} {e : Ent} {a : Act} (h : IdInv s) (hs : LStep s e a s') : IdInv s' := by
  obtain ⟨tr, ph', en', evs, nc', np', hf, _, rfl⟩ := hs
  obtain ⟨hm, _, hl⟩ := findTrace_some hf
  refine idInv_of_sub h ?_ rfl rfl rfl
  intro x hx
  rw [mem_holders] at hx ⊢
  rcases hx with ⟨t, ht, rfl⟩ | ⟨n, hn, rfl⟩
  · rcases mem_setTrace.mp ht with ⟨rfl, _⟩ | ⟨ht, _⟩
    · exact Or.inl ⟨tr, hm, rfl⟩
    · exact Or.inl ⟨t, ht, rfl⟩
  · exact Or.inr ⟨n, hn, rfl⟩

theorem threadNoOf_spec (s : St) (th : Nat) (hInj : ∀ e1 ∈ s.threadNos, ∀ e2 ∈ s.threadNos, e1.2 = e2.2 → e1.1 = e2.1)
    (hLt : ∀ e ∈ s.threadNos, e.2 < s.nextThreadNo) :
    alGet (threadNoOf s th).2.threadNos th = some (threadNoOf s th).1 ∧
    (∀ k v, alGet s.threadNos k = some v → alGet (threadNoOf s th).2.threadNos k = some v) ∧
    (∀ e1 ∈ (threadNoOf s th).2.threadNos, ∀ e2 ∈ (threadNoOf s th).2.threadNos, e1.2 = e2.2 → e1.1 = e2.1) ∧
    (∀ e ∈ (threadNoOf s th).2.threadNos, e.2 < (threadNoOf s th).2.nextThreadNo) := by
  unfold threadNoOf
  cases hf : s.threadNos.find? (fun e => e.1 = th) with
  | some e0 =>
    refine ⟨?_, fun _ _ h => h, hInj, hLt⟩
    simp [alGet, hf]
  | none =>
    have hn : alGet s.threadNos th = none := by simp [alGet, hf]
    refine ⟨?_, fun k v h => alGet_append_some _ h, ?_, ?_⟩
    · show alGet (s.threadNos ++ [(th, s.nextThreadNo)]) th = some s.nextThreadNo
      rw [alGet_append_none _ hn]; simp [alGet]
    · intro e1 h1 e2 h2 h12
      simp only [List.mem_append, List.mem_singleton] at h1 h2
      rcases h1 with h1 | rfl <;> rcases h2 with h2 | rfl
      · exact hInj e1 h1 e2 h2 h12
      · have := hLt e1 h1; simp only at h12; omega
      · have := hLt e2 h2; simp only at h12; omega
      · rfl
    · intro e0 h0
      simp only [List.mem_append, List.mem_singleton] at h0
      show e0.2 < s.nextThreadNo + 1
      rcases h0 with h0 | rfl
      · exact Nat.lt_succ_of_lt (hLt e0 h0)
      · exact Nat.lt_succ_self _

theorem taskNoOf_spec (s : St) (tn : Nat) :
    alGet (taskNoOf s tn).2.taskCounters tn = some ((taskNoOf s tn).1 + 1) ∧
    (∀ n, alGet s.taskCounters tn = some n → n = (taskNoOf s tn).1) ∧
    (∀ t', t' ≠ tn → alGet (taskNoOf s tn).2.taskCounters t' = alGet s.taskCounters t') := by
  unfold taskNoOf
  cases hf : s.taskCounters.find? (fun e => e.1 = tn) with
  | some e0 =>
    have hg : alGet s.taskCounters tn = some e0.2 := by simp [alGet, hf]
    refine ⟨?_, ?_, ?_⟩
    · show alGet (s.taskCounters.map fun x => if x.1 = tn then (tn, e0.2 + 1) else x) tn = some (e0.2 + 1)
      rw [alGet_mapUpd, if_pos rfl, hg]; rfl
    · intro n hn; rw [hg] at hn; injection hn with hn; exact hn.symm
    · intro t' ht'
      show alGet (s.taskCounters.map fun x => if x.1 = tn then (tn, e0.2 + 1) else x) t' = _
      rw [alGet_mapUpd, if_neg ht']
  | none =>
    have hg : alGet s.taskCounters tn = none := by simp [alGet, hf]
    refine ⟨?_, ?_, ?_⟩
    · show alGet (s.taskCounters ++ [(tn, 2)]) tn = some 2
      rw [alGet_append_none _ hg]; simp [alGet]
    · intro n hn; rw [hg] at hn; cases hn
    · intro t' ht'
      show alGet (s.taskCounters ++ [(tn, 2)]) t' = _
      cases hg' : alGet s.taskCounters t' with
      | some v => exact alGet_append_some _ hg'
      | none =>
        rw [alGet_append_none _ hg']
        have : ¬ tn = t' := fun h => ht' h.symm
        simp [alGet, this]


theorem idInv_append {s s1 : St} (h : IdInv s) (h0 : Holder) (hmem : ∀ x ∈ holders s1, x ∈ holders s ∨ x = h0)
    (hT1 : alGet s1.threadNos h0.ent.thread = some h0.thn)
    (hT2 : ∀ k v, alGet s.threadNos k = some v → alGet s1.threadNos k = some v)
    (hInj : ∀ e1 ∈ s1.threadNos, ∀ e2 ∈ s1.threadNos, e1.2 = e2.2 → e1.1 = e2.1)
    (hLt : ∀ e ∈ s1.threadNos, e.2 < s1.nextThreadNo)
    (hsome : h0.tk.isSome = h0.ent.task.isSome)
    (hcnt : (h0.tk = none ∧ s1.taskCounters = s.taskCounters) ∨
      ∃ k, h0.tk = some k ∧ alGet s1.taskCounters h0.thn = some (k + 1) ∧
        (∀ n, alGet s.taskCounters h0.thn = some n → n = k) ∧
        ∀ t', t' ≠ h0.thn → alGet s1.taskCounters t' = alGet s.taskCounters t') : IdInv s1 := by
  refine ⟨?_, hInj, hLt, ?_, ?_, ?_⟩
  · intro x hx
    rcases hmem x hx with hx | rfl
    · exact hT2 _ _ (h.thrGet x hx)
    · exact hT1
  · intro x hx
    rcases hmem x hx with hx | rfl
    · exact h.taskSome x hx
    · exact hsome
  · intro x hx k hk
    rcases hcnt with ⟨hn, hc⟩ | ⟨k0, hk0, hg, hold, hoth⟩
    · rcases hmem x hx with hx | rfl
      · rw [hc]; exact h.taskLt x hx k hk
      · rw [hn] at hk; cases hk
    · rcases hmem x hx with hx | rfl
      · obtain ⟨n, hn, hlt⟩ := h.taskLt x hx k hk
        by_cases hxt : x.thn = h0.thn
        · rw [hxt] at hn ⊢
          have := hold n hn
          exact ⟨k0 + 1, hg, by omega⟩
        · rw [hoth _ hxt]; exact ⟨n, hn, hlt⟩
      · rw [hk0] at hk; injection hk with hk
        exact ⟨k0 + 1, hg, by omega⟩
  · intro x1 hx1 x2 hx2 a b c
    rcases hmem x1 hx1 with hx1 | rfl <;> rcases hmem x2 hx2 with hx2 | rfl
    · exact h.taskInj x1 hx1 x2 hx2 a b c
    · exfalso
      rcases hcnt with ⟨hn, _⟩ | ⟨k0, hk0, _, hold, _⟩
      · rw [b, hn] at c; cases c
      · obtain ⟨n, hn, hlt⟩ := h.taskLt x1 hx1 k0 (b.trans hk0)
        rw [a] at hn
        have := hold n hn
        omega
    · exfalso
      rcases hcnt with ⟨hn, _⟩ | ⟨k0, hk0, _, hold, _⟩
      · rw [hn] at c; cases c
      · obtain ⟨n, hn, hlt⟩ := h.taskLt x2 hx2 k0 (b.symm.trans hk0)
        rw [← a] at hn
        have := hold n hn
        omega
    · exact ⟨rfl, rfl⟩

theorem holders_addNewcomer {s : St} {e : Ent} :
    ∀ x ∈ holders (addNewcomer s e), x ∈ holders s ∨ x = ⟨none, e, newThreadNo s e, newTaskNo s e⟩ := by
  intro x hx
  rw [mem_holders] at hx
  rcases hx with ⟨t, ht, rfl⟩ | ⟨n, hn, rfl⟩
  · rw [addNewcomer_traces] at ht
    exact Or.inl (mem_holders.mpr (Or.inl ⟨t, ht, rfl⟩))
  · rw [addNewcomer_newcomers] at hn
    simp only [List.mem_append, List.mem_singleton] at hn
    rcases hn with hn | rfl
    · exact Or.inl (mem_holders.mpr (Or.inr ⟨n, hn, rfl⟩))
    · exact Or.inr rfl

theorem idInv_addNewcomer {s : St} {e : Ent} (h : IdInv s) : IdInv (addNewcomer s e) := by
  have hmem := holders_addNewcomer (s := s) (e := e)
  obtain ⟨th, ta⟩ := e
  have hsp := threadNoOf_spec s th h.thrInj h.thrLt
  have hfr := threadNoOf_frame s th
  cases ta with
  | none =>
    refine idInv_append h _ hmem hsp.1 hsp.2.1 hsp.2.2.1 hsp.2.2.2 rfl (Or.inl ⟨rfl, ?_⟩)
    exact hfr.2.2.2.2.2.1
  | some j =>
    have hk := taskNoOf_spec (threadNoOf s th).2 (threadNoOf s th).1
    have hfr2 := taskNoOf_frame (threadNoOf s th).2 (threadNoOf s th).1
    have e1 : (addNewcomer s ⟨th, some j⟩).threadNos = (threadNoOf s th).2.threadNos := hfr2.2.2.2.2.2.1
    have e2 : (addNewcomer s ⟨th, some j⟩).nextThreadNo = (threadNoOf s th).2.nextThreadNo := hfr2.2.2.2.2.2.2.1
    refine idInv_append h _ hmem ?_ ?_ ?_ ?_ rfl (Or.inr ⟨_, rfl, hk.1, ?_, ?_⟩)
    · rw [e1]; exact hsp.1
    · rw [e1]; exact hsp.2.1
    · rw [e1]; exact hsp.2.2.1
    · rw [e1, e2]; exact hsp.2.2.2
    · intro n hn; rw [← hfr.2.2.2.2.2.1] at hn; exact hk.2.1 n hn
    · intro t' ht'; rw [← hfr.2.2.2.2.2.1]; exact hk.2.2 t' ht'

theorem idInv_moveNewcomer {s : St} {e : Ent} {n : Newcomer} (h : IdInv s) (hn : findNewcomer s.newcomers e = some n) :
    IdInv (moveNewcomer s e n) := by
  obtain ⟨hnm, hne⟩ := findNewcomer_some hn
  have horig : ∀ x ∈ holders (moveNewcomer s e n),
      (x ∈ holders s ∧ (x.key = none → x.ent ≠ e)) ∨
      (x.key = some s.nextTrace ∧ (⟨none, x.ent, x.thn, x.tk⟩ : Holder) ∈ holders s ∧ x.ent = e) := by
    intro x hx
    rw [mem_holders] at hx
    rcases hx with ⟨t, ht, rfl⟩ | ⟨n', hn', rfl⟩
    · have ht' : t ∈ s.traces ∨ t = mkTrace s e n := by simpa [moveNewcomer] using ht
      rcases ht' with ht' | rfl
      · exact Or.inl ⟨mem_holders.mpr (Or.inl ⟨t, ht', rfl⟩), fun hk => by cases hk⟩
      · refine Or.inr ⟨rfl, mem_holders.mpr (Or.inr ⟨n, hnm, ?_⟩), rfl⟩
        simp [mkTrace, hne]
    · have hn'' : n' ∈ s.newcomers ∧ n'.ent ≠ e := by simpa [moveNewcomer] using hn'
      exact Or.inl ⟨mem_holders.mpr (Or.inr ⟨n', hn''.1, rfl⟩), fun _ => hn''.2⟩
  have hsame : ∀ x ∈ holders (moveNewcomer s e n), ∃ y ∈ holders s, y.ent = x.ent ∧ y.thn = x.thn ∧ y.tk = x.tk := by
    intro x hx
    rcases horig x hx with ⟨hx, _⟩ | ⟨_, hx, _⟩
    · exact ⟨x, hx, rfl, rfl, rfl⟩
    · exact ⟨_, hx, rfl, rfl, rfl⟩
  refine ⟨?_, h.thrInj, h.thrLt, ?_, ?_, ?_⟩
  · intro x hx
    obtain ⟨y, hy, e1, e2, _⟩ := hsame x hx
    rw [← e1, ← e2]; exact h.thrGet y hy
  · intro x hx
    obtain ⟨y, hy, e1, _, e3⟩ := hsame x hx
    rw [← e1, ← e3]; exact h.taskSome y hy
  · intro x hx k hk
    obtain ⟨y, hy, _, e2, e3⟩ := hsame x hx
    rw [← e2]; exact h.taskLt y hy k (e3.trans hk)
  · intro x1 hx1 x2 hx2 a b c
    rcases horig x1 hx1 with ⟨o1, k1⟩ | ⟨k1, o1, en1⟩ <;> rcases horig x2 hx2 with ⟨o2, k2⟩ | ⟨k2, o2, en2⟩
    · exact h.taskInj x1 o1 x2 o2 a b c
    · have := h.taskInj x1 o1 _ o2 a b c
      exact absurd (this.2.trans en2) (k1 this.1)
    · have := h.taskInj _ o1 x2 o2 a b c
      exact absurd (this.2.symm.trans en1) (k2 this.1.symm)
    · exact ⟨k1.trans k2.symm, en1.trans en2.symm⟩

theorem idInv_step {s s' : St} {e : Ent} {a : Act} (h : IdInv s) (hs : step s e a = some s') : IdInv s' := by
  rcases step_cases hs with hl | ⟨_, _, _, rfl⟩ | ⟨_, n, hn, rfl⟩ | ⟨rfl, _⟩ | ⟨rfl, _⟩ | ⟨tr, text, _, _, rfl⟩
  · exact idInv_lstep h hl
  · exact idInv_addNewcomer h
  · exact idInv_moveNewcomer h hn
  · exact h
  · exact h
  · exact ⟨h.thrGet, h.thrInj, h.thrLt, h.taskSome, h.taskLt, h.taskInj⟩

/-! ### invariant: the numbers in the stream, the numbers held (drawn, not yet emitted) by a phase -/

theorem callNos_append (a b : List Ev) : callNos (a ++ b) = callNos a ++ callNos b := by simp [callNos]
theorem promptNos_append (a b : List Ev) : promptNos (a ++ b) = promptNos a ++ promptNos b := by simp [promptNos]
theorem traceNos_append (a b : List Ev) : traceNos (a ++ b) = traceNos a ++ traceNos b := by simp [traceNos]
theorem callNosOf_append (t : Nat) (a b : List Ev) : callNosOf t (a ++ b) = callNosOf t a ++ callNosOf t b := by
  simp [callNosOf]
theorem promptNosOf_append (t : Nat) (a b : List Ev) : promptNosOf t (a ++ b) = promptNosOf t a ++ promptNosOf t b := by
  simp [promptNosOf]

theorem pairwise_lt_snoc {l : List Nat} {n : Nat} (h : l.Pairwise (· < ·)) (hl : ∀ x ∈ l, x < n) :
    (l ++ [n]).Pairwise (· < ·) := by
  rw [List.pairwise_append]
  refine ⟨h, by simp, ?_⟩
  intro a ha b hb
  simp only [List.mem_singleton] at hb
  subst hb
  exact hl a ha

/-- the trace-call number a phase has drawn but not yet emitted -/
def heldCall : Phase → Option Nat
  | .callDrawn c => some c.callNo
  | _ => none
/-- the prompt number a phase has drawn but not yet emitted -/
def heldPrompt : Phase → Option Nat
  | .promptDrawn _ p => some p
  | _ => none

/-- one counter `next`, the numbers `nos` it has handed out that are in the stream, per trace `nosOf t`, and the numbers
held by the phases of the traces `ts` -/
structure HInv (hd : Phase → Option Nat) (ts : List TraceSt) (next : Nat) (nos : List Nat) (nosOf : Nat → List Nat) :
    Prop where
  sub : ∀ t, ∀ k ∈ nosOf t, k ∈ nos
  lt : ∀ k ∈ nos, k < next
  nd : nos.Nodup
  inc : ∀ t, (nosOf t).Pairwise (· < ·)
  hLt : ∀ x ∈ ts, ∀ k, hd x.phase = some k → k < next
  hFresh : ∀ x ∈ ts, ∀ k, hd x.phase = some k → k ∉ nos
  hDist : ∀ x ∈ ts, ∀ y ∈ ts, ∀ k, hd x.phase = some k → hd y.phase = some k → x.traceNo = y.traceNo
  hGt : ∀ x ∈ ts, ∀ k, hd x.phase = some k → ∀ k' ∈ nosOf x.traceNo, k' < k

section hinv
variable {hd : Phase → Option Nat} {ts : List TraceSt} {next : Nat} {nos : List Nat} {nosOf : Nat → List Nat}

theorem hinv_init : HInv hd [] 1 [] (fun _ => []) :=
  ⟨by simp, by simp, by simp, by simp, by simp, by simp, by simp, by simp⟩

theorem HInv.congr (H : HInv hd ts next nos nosOf) {nos' : List Nat} {nosOf' : Nat → List Nat} (h1 : nos' = nos)
    (h2 : ∀ t, nosOf' t = nosOf t) : HInv hd ts next nos' nosOf' := by
  obtain rfl := h1
  obtain rfl : nosOf' = nosOf := funext h2
  exact H

theorem mem_setTrace_cases {ts : List TraceSt} {t' x : TraceSt} (h : x ∈ setTrace ts t') :
    x = t' ∨ (x ∈ ts ∧ x.traceNo ≠ t'.traceNo) := by
  rcases mem_setTrace.mp h with ⟨rfl, _⟩ | h
  · exact Or.inl rfl
  · exact Or.inr h

/-- the changed trace holds nothing afterwards, nothing is emitted -/
theorem hinv_keep (H : HInv hd ts next nos nosOf) {tr' : TraceSt} (hk : hd tr'.phase = none) :
    HInv hd (setTrace ts tr') next nos nosOf := by
  refine ⟨H.sub, H.lt, H.nd, H.inc, ?_, ?_, ?_, ?_⟩
  · intro x hx k hxk
    rcases mem_setTrace_cases hx with rfl | ⟨hx, _⟩
    · rw [hk] at hxk; cases hxk
    · exact H.hLt x hx k hxk
  · intro x hx k hxk
    rcases mem_setTrace_cases hx with rfl | ⟨hx, _⟩
    · rw [hk] at hxk; cases hxk
    · exact H.hFresh x hx k hxk
  · intro x hx y hy k hxk hyk
    rcases mem_setTrace_cases hx with rfl | ⟨hx, _⟩
    · rw [hk] at hxk; cases hxk
    · rcases mem_setTrace_cases hy with rfl | ⟨hy, _⟩
      · rw [hk] at hyk; cases hyk
      · exact H.hDist x hx y hy k hxk hyk
  · intro x hx k hxk
    rcases mem_setTrace_cases hx with rfl | ⟨hx, _⟩
    · rw [hk] at hxk; cases hxk
    · exact H.hGt x hx k hxk

/-- the changed trace draws the next number, nothing is emitted -/
theorem hinv_draw (H : HInv hd ts next nos nosOf) {tr' : TraceSt} (hk : hd tr'.phase = some next) :
    HInv hd (setTrace ts tr') (next + 1) nos nosOf := by
  refine ⟨H.sub, fun k hk' => Nat.lt_succ_of_lt (H.lt k hk'), H.nd, H.inc, ?_, ?_, ?_, ?_⟩
  · intro x hx k hxk
    rcases mem_setTrace_cases hx with rfl | ⟨hx, _⟩
    · rw [hk] at hxk; injection hxk with hxk; omega
    · exact Nat.lt_succ_of_lt (H.hLt x hx k hxk)
  · intro x hx k hxk
    rcases mem_setTrace_cases hx with rfl | ⟨hx, _⟩
    · rw [hk] at hxk; injection hxk with hxk
      intro hin
      have := H.lt k hin
      omega
    · exact H.hFresh x hx k hxk
  · intro x hx y hy k hxk hyk
    rcases mem_setTrace_cases hx with rfl | ⟨hx', _⟩
    · rcases mem_setTrace_cases hy with rfl | ⟨hy, _⟩
      · rfl
      · rw [hk] at hxk; injection hxk with hxk
        have := H.hLt y hy k hyk
        omega
    · rcases mem_setTrace_cases hy with rfl | ⟨hy, _⟩
      · rw [hk] at hyk; injection hyk with hyk
        have := H.hLt x hx' k hxk
        omega
      · exact H.hDist x hx' y hy k hxk hyk
  · intro x hx k hxk
    rcases mem_setTrace_cases hx with rfl | ⟨hx, _⟩
    · rw [hk] at hxk; injection hxk with hxk
      intro k' hk'
      have := H.lt k' (H.sub _ k' hk')
      omega
    · exact H.hGt x hx k hxk

/-- the changed trace emits the number it holds -/
theorem hinv_emit (H : HInv hd ts next nos nosOf) {tr tr' : TraceSt} (hm : tr ∈ ts) (hno : tr'.traceNo = tr.traceNo)
    (k : Nat) (hk0 : hd tr.phase = some k) (hk : hd tr'.phase = none) :
    HInv hd (setTrace ts tr') next (nos ++ [k]) (fun t => if t = tr.traceNo then nosOf t ++ [k] else nosOf t) := by
  refine ⟨?_, ?_, ?_, ?_, ?_, ?_, ?_, ?_⟩
  · intro t k' hk'
    simp only [List.mem_append, List.mem_singleton]
    by_cases ht : t = tr.traceNo
    · simp only [ht, if_true, List.mem_append, List.mem_singleton] at hk'
      rcases hk' with hk' | rfl
      · exact Or.inl (H.sub _ k' hk')
      · exact Or.inr rfl
    · simp only [ht, if_false] at hk'
      exact Or.inl (H.sub _ k' hk')
  · intro k' hk'
    simp only [List.mem_append, List.mem_singleton] at hk'
    rcases hk' with hk' | rfl
    · exact H.lt k' hk'
    · exact H.hLt tr hm _ hk0
  · refine List.nodup_append.mpr ⟨H.nd, by simp, ?_⟩
    intro a ha b hb hab
    simp only [List.mem_singleton] at hb
    subst hb; subst hab
    exact H.hFresh tr hm _ hk0 ha
  · intro t
    by_cases ht : t = tr.traceNo
    · simp only [ht, if_true]
      exact pairwise_lt_snoc (H.inc _) (H.hGt tr hm k hk0)
    · simp only [ht, if_false]
      exact H.inc t
  · intro x hx k' hxk
    rcases mem_setTrace_cases hx with rfl | ⟨hx, _⟩
    · rw [hk] at hxk; cases hxk
    · exact H.hLt x hx k' hxk
  · intro x hx k' hxk
    rcases mem_setTrace_cases hx with rfl | ⟨hx, hxn⟩
    · rw [hk] at hxk; cases hxk
    · simp only [List.mem_append, List.mem_singleton, not_or]
      refine ⟨H.hFresh x hx k' hxk, ?_⟩
      intro hkk
      subst hkk
      exact hxn ((H.hDist x hx tr hm _ hxk hk0).trans hno.symm)
  · intro x hx y hy k' hxk hyk
    rcases mem_setTrace_cases hx with rfl | ⟨hx, _⟩
    · rw [hk] at hxk; cases hxk
    · rcases mem_setTrace_cases hy with rfl | ⟨hy, _⟩
      · rw [hk] at hyk; cases hyk
      · exact H.hDist x hx y hy k' hxk hyk
  · intro x hx k' hxk
    rcases mem_setTrace_cases hx with rfl | ⟨hx, hxn⟩
    · rw [hk] at hxk; cases hxk
    · have hne : ¬ x.traceNo = tr.traceNo := fun h => hxn (h.trans hno.symm)
      simp only [hne, if_false]
      exact H.hGt x hx k' hxk

theorem hinv_append (H : HInv hd ts next nos nosOf) {t0 : TraceSt} (hk : hd t0.phase = none) :
    HInv hd (ts ++ [t0]) next nos nosOf := by
  have hmem : ∀ x ∈ ts ++ [t0], x ∈ ts ∨ x = t0 := by intro x hx; simpa using hx
  refine ⟨H.sub, H.lt, H.nd, H.inc, ?_, ?_, ?_, ?_⟩
  · intro x hx k hxk
    rcases hmem x hx with hx | rfl
    · exact H.hLt x hx k hxk
    · rw [hk] at hxk; cases hxk
  · intro x hx k hxk
    rcases hmem x hx with hx | rfl
    · exact H.hFresh x hx k hxk
    · rw [hk] at hxk; cases hxk
  · intro x hx y hy k hxk hyk
    rcases hmem x hx with hx | rfl
    · rcases hmem y hy with hy | rfl
      · exact H.hDist x hx y hy k hxk hyk
      · rw [hk] at hyk; cases hyk
    · rw [hk] at hxk; cases hxk
  · intro x hx k hxk
    rcases hmem x hx with hx | rfl
    · exact H.hGt x hx k hxk
    · rw [hk] at hxk; cases hxk

end hinv

/-- a local transition keeps the trace-call numbers in order -/
theorem callInv_local {ts : List TraceSt} {tr : TraceSt} {o : List Ev} {thn : Nat} {tkn : Option Nat} {nc np : Nat}
    {a : Act} {ph' : Phase} {en' : Bool} {evs : List Ev} {nc' np' : Nat}
    (H : HInv heldCall ts nc (callNos o) (fun t => callNosOf t o)) (hm : tr ∈ ts)
    (hL : Local tr.traceNo thn tkn nc np tr.phase a ph' en' evs nc' np') :
    HInv heldCall (setTrace ts { tr with phase := ph', ended := en' }) nc' (callNos (o ++ evs))
      (fun t => callNosOf t (o ++ evs)) := by
  obtain ⟨ent, no, thn', tkn', ph, en⟩ := tr
  simp only at hL
  cases hL with
  | drawCall f l fr ev =>
    exact (hinv_draw H rfl).congr (by simp) (fun t => by simp)
  | emitCall c =>
    refine (hinv_emit (tr' := ⟨ent, no, thn', tkn', .call c, false⟩) H hm rfl c.callNo rfl rfl).congr (by simp [callNos]) (fun t => ?_)
    by_cases ht : t = no
    · simp [callNosOf, ht]
    · have ht' : ¬ no = t := fun h => ht h.symm
      simp [callNosOf, ht, ht']
  | _ => exact (hinv_keep H rfl).congr (by simp [callNos]) (fun t => by simp [callNosOf])

/-- a local transition keeps the prompt numbers in order -/
theorem promptInv_local {ts : List TraceSt} {tr : TraceSt} {o : List Ev} {thn : Nat} {tkn : Option Nat} {nc np : Nat}
    {a : Act} {ph' : Phase} {en' : Bool} {evs : List Ev} {nc' np' : Nat}
    (H : HInv heldPrompt ts np (promptNos o) (fun t => promptNosOf t o)) (hm : tr ∈ ts)
    (hL : Local tr.traceNo thn tkn nc np tr.phase a ph' en' evs nc' np') :
    HInv heldPrompt (setTrace ts { tr with phase := ph', ended := en' }) np' (promptNos (o ++ evs))
      (fun t => promptNosOf t (o ++ evs)) := by
  obtain ⟨ent, no, thn', tkn', ph, en⟩ := tr
  simp only at hL
  cases hL with
  | drawPrompt c =>
    exact (hinv_draw H rfl).congr (by simp) (fun t => by simp)
  | emitPrompt c p text =>
    refine (hinv_emit (tr' := ⟨ent, no, thn', tkn', .prompt c p, false⟩) H hm rfl p rfl rfl).congr (by simp [promptNos]) (fun t => ?_)
    by_cases ht : t = no
    · simp [promptNosOf, ht]
    · have ht' : ¬ no = t := fun h => ht h.symm
      simp [promptNosOf, ht, ht']
  | _ => exact (hinv_keep H rfl).congr (by simp [promptNos]) (fun t => by simp [promptNosOf])

/-- what a local transition contributes to the trace numbers in the stream -/
theorem local_traceNos {t thn : Nat} {tkn : Option Nat} {nc np : Nat} {ph : Phase} {a : Act} {ph' : Phase} {en' : Bool}
    {evs : List Ev} {nc' np' : Nat} (hL : Local t thn tkn nc np ph a ph' en' evs nc' np') :
    ph' ≠ .numbered ∧ (traceNos evs = [] ∨ (ph = .numbered ∧ traceNos evs = [t])) := by
  cases hL <;> simp [traceNos]

/-- every event of a local transition carries the trace number; there is at most one -/
theorem local_evTrace {t thn : Nat} {tkn : Option Nat} {nc np : Nat} {ph : Phase} {a : Act} {ph' : Phase} {en' : Bool}
    {evs : List Ev} {nc' np' : Nat} (hL : Local t thn tkn nc np ph a ph' en' evs nc' np') :
    (∀ ev ∈ evs, evTrace ev = t) ∧ evs.length ≤ 1 ∧ (a.hidden = true → evs = []) := by
  cases hL <;> simp [evTrace, Act.hidden]

structure NumInv (s : St) : Prop where
  call : HInv heldCall s.traces s.nextCall (callNos s.out) (fun t => callNosOf t s.out)
  prompt : HInv heldPrompt s.traces s.nextPrompt (promptNos s.out) (fun t => promptNosOf t s.out)
  trND : (traceNos s.out).Nodup
  /-- a trace whose number is in the stream has left the phase `numbered` -/
  trSrc : ∀ t ∈ traceNos s.out, ∃ x ∈ s.traces, x.traceNo = t ∧ x.phase ≠ .numbered

theorem numInv_init : NumInv {} := ⟨hinv_init, hinv_init, by simp [traceNos], by simp [traceNos]⟩

theorem numInv_lstep {s s' : St} {e : Ent} {a : Act} (ht : TrInv s) (h : NumInv s) (hs : LStep s e a s') : NumInv s' := by
  obtain ⟨tr, ph', en', evs, nc', np', hf, hL, rfl⟩ := hs
  obtain ⟨hm, _, _⟩ := findTrace_some hf
  obtain ⟨hnn, htn⟩ := local_traceNos hL
  have hsrc : ∀ t ∈ traceNos s.out, ∃ x ∈ setTrace s.traces { tr with phase := ph', ended := en' },
      x.traceNo = t ∧ x.phase ≠ .numbered := by
    intro t ht'
    obtain ⟨x, hx, hxt, hxp⟩ := h.trSrc t ht'
    by_cases hxn : x.traceNo = tr.traceNo
    · exact ⟨_, mem_setTrace.mpr (Or.inl ⟨rfl, tr, hm, rfl⟩), hxn.symm.trans hxt, hnn⟩
    · exact ⟨x, mem_setTrace.mpr (Or.inr ⟨hx, hxn⟩), hxt, hxp⟩
  refine ⟨callInv_local h.call hm hL, promptInv_local h.prompt hm hL, ?_, ?_⟩
  · show (traceNos (s.out ++ evs)).Nodup
    rw [traceNos_append]
    rcases htn with htn | ⟨hph, htn⟩ <;> rw [htn]
    · simpa using h.trND
    · refine List.nodup_append.mpr ⟨h.trND, by simp, ?_⟩
      intro a' ha b hb hab
      simp only [List.mem_singleton] at hb
      subst hb; subst hab
      obtain ⟨x, hx, hxt, hxp⟩ := h.trSrc _ ha
      have := ht.uniq x hx tr hm hxt
      subst this
      exact hxp hph
  · show ∀ t ∈ traceNos (s.out ++ evs), _
    intro t ht'
    rw [traceNos_append, List.mem_append] at ht'
    rcases ht' with ht' | ht'
    · exact hsrc t ht'
    · rcases htn with htn | ⟨_, htn⟩ <;> rw [htn] at ht'
      · cases ht'
      · simp only [List.mem_singleton] at ht'
        exact ⟨_, mem_setTrace.mpr (Or.inl ⟨rfl, tr, hm, rfl⟩), ht'.symm, hnn⟩

theorem numInv_moveNewcomer {s : St} {e : Ent} {n : Newcomer} (h : NumInv s) : NumInv (moveNewcomer s e n) := by
  refine ⟨hinv_append h.call rfl, hinv_append h.prompt rfl, h.trND, ?_⟩
  intro t ht
  obtain ⟨x, hx, hxt, hxp⟩ := h.trSrc t ht
  exact ⟨x, List.mem_append_left _ hx, hxt, hxp⟩

theorem numInv_addNewcomer {s : St} {e : Ent} (h : NumInv s) : NumInv (addNewcomer s e) := by
  refine ⟨?_, ?_, ?_, ?_⟩
  · rw [addNewcomer_traces, addNewcomer_nextCall, addNewcomer_out]; exact h.call
  · rw [addNewcomer_traces, addNewcomer_nextPrompt, addNewcomer_out]; exact h.prompt
  · rw [addNewcomer_out]; exact h.trND
  · rw [addNewcomer_traces, addNewcomer_out]; exact h.trSrc

theorem numInv_step {s s' : St} {e : Ent} {a : Act} (ht : TrInv s) (h : NumInv s) (hs : step s e a = some s') :
    NumInv s' := by
  rcases step_cases hs with hl | ⟨_, _, _, rfl⟩ | ⟨_, n, hn, rfl⟩ | ⟨rfl, _⟩ | ⟨rfl, _⟩ | ⟨tr, text, _, _, rfl⟩
  · exact numInv_lstep ht h hl
  · exact numInv_addNewcomer h
  · exact numInv_moveNewcomer h
  · exact h
  · exact h
  · refine ⟨h.call.congr (by simp [callNos]) (fun t => by simp [callNosOf]),
      h.prompt.congr (by simp [promptNos]) (fun t => by simp [promptNosOf]), ?_, ?_⟩
    · show (traceNos (s.out ++ _)).Nodup
      rw [traceNos_append]; simpa [traceNos] using h.trND
    · show ∀ t ∈ traceNos (s.out ++ _), _
      rw [traceNos_append]; simpa [traceNos] using h.trSrc

/-! ### invariant: the grammar state reached by the emitted stream mirrors the phases of the traces -/

/-- the trace call a phase is in, as far as the stream shows -/
def phaseCall : Phase → Option CallInfo
  | .numbered | .idle | .callDrawn _ => none
  | .call c | .cmdloop c | .promptDrawn c _ | .prompt c _ => some c

def notPrompt (ph : Phase) : Prop := ∀ c p, ph ≠ .prompt c p

/-- traces `ts` (with trace counter `nt`) are mirrored by grammar state `w`: a `numbered` trace is not yet known to the
grammar, a `callDrawn` one is idle there, a `promptDrawn` one is in its command loop -/
structure Sim (ts : List TraceSt) (nt : Nat) (w : W) : Prop where
  uniq : ∀ t1 ∈ ts, ∀ t2 ∈ ts, t1.traceNo = t2.traceNo → t1 = t2
  active : ∀ x ∈ ts, x.ended = false → x.phase ≠ .numbered → x.traceNo ∈ w.active
  fresh : ∀ x ∈ ts, x.phase = .numbered → x.traceNo ∉ w.started
  calls : ∀ x ∈ ts, alGet w.calls x.traceNo = phaseCall x.phase
  prompts1 : ∀ e ∈ w.prompts, ∃ x ∈ ts, x.traceNo = e.2 ∧ ∃ c, x.phase = .prompt c e.1
  prompts2 : ∀ x ∈ ts, ∀ c p, x.phase = .prompt c p → alGet w.prompts p = some x.traceNo
  ltT : ∀ x ∈ ts, x.traceNo < nt
  started : ∀ t ∈ w.started, t < nt
  callsLt : ∀ t c, alGet w.calls t = some c → t < nt
  promptsEver : ∀ e ∈ w.prompts, e.1 ∈ w.promptsEver

theorem sim_init : Sim [] 1 {} :=
  ⟨by simp, by simp, by simp, by simp, by simp, by simp, by simp, by simp, by simp [alGet], by simp⟩

theorem Sim.noPrompt {ts : List TraceSt} {nt : Nat} {w : W} (h : Sim ts nt w) {tr : TraceSt} (hm : tr ∈ ts)
    (hp : notPrompt tr.phase) : ∀ e ∈ w.prompts, e.2 ≠ tr.traceNo := by
  intro e he heq
  obtain ⟨x, hx, hxt, c, hc⟩ := h.prompts1 e he
  have := h.uniq x hx tr hm (hxt.trans heq)
  subst this
  exact hp c e.1 hc

theorem uniq_setTrace {ts : List TraceSt} (hu : ∀ t1 ∈ ts, ∀ t2 ∈ ts, t1.traceNo = t2.traceNo → t1 = t2) (t' : TraceSt) :
    ∀ t1 ∈ setTrace ts t', ∀ t2 ∈ setTrace ts t', t1.traceNo = t2.traceNo → t1 = t2 := by
  intro t1 h1 t2 h2 h12
  rcases mem_setTrace.mp h1 with ⟨rfl, _⟩ | ⟨h1, n1⟩ <;> rcases mem_setTrace.mp h2 with ⟨rfl, _⟩ | ⟨h2, n2⟩
  · rfl
  · exact absurd h12.symm n2
  · exact absurd h12 n1
  · exact hu t1 h1 t2 h2 h12

/-- a change of trace `tr` into `tr'` (not `numbered`) and of the grammar state `w` into `w'` that agree with each other and
leave everything about other trace numbers alone -/
theorem sim_frame {ts : List TraceSt} {nt : Nat} {w w' : W} (h : Sim ts nt w) {tr tr' : TraceSt}
    (hm : tr ∈ ts) (hno : tr'.traceNo = tr.traceNo) (hnn : tr'.phase ≠ .numbered)
    (hact : ∀ t, t ≠ tr.traceNo → t ∈ w.active → t ∈ w'.active)
    (hcalls : ∀ t, t ≠ tr.traceNo → alGet w'.calls t = alGet w.calls t)
    (hp1 : ∀ e ∈ w'.prompts, (e ∈ w.prompts ∧ e.2 ≠ tr.traceNo) ∨ (e.2 = tr.traceNo ∧ ∃ c, tr'.phase = .prompt c e.1))
    (hp2 : ∀ p t, t ≠ tr.traceNo → alGet w.prompts p = some t → alGet w'.prompts p = some t)
    (ha' : tr'.ended = false → tr.traceNo ∈ w'.active)
    (hc' : alGet w'.calls tr.traceNo = phaseCall tr'.phase)
    (hp' : ∀ c p, tr'.phase = .prompt c p → alGet w'.prompts p = some tr.traceNo)
    (hst : ∀ t ∈ w'.started, t ∈ w.started ∨ t = tr.traceNo)
    (hpe : ∀ e ∈ w'.prompts, e.1 ∈ w'.promptsEver) : Sim (setTrace ts tr') nt w' := by
  have hmem : ∀ x ∈ setTrace ts tr', x = tr' ∨ (x ∈ ts ∧ x.traceNo ≠ tr.traceNo) := by
    intro x hx
    rcases mem_setTrace.mp hx with ⟨rfl, _⟩ | ⟨hx, n⟩
    · exact Or.inl rfl
    · exact Or.inr ⟨hx, hno ▸ n⟩
  refine ⟨uniq_setTrace h.uniq tr', ?_, ?_, ?_, ?_, ?_, ?_, ?_, ?_, hpe⟩
  · intro x hx hl hxn
    rcases hmem x hx with rfl | ⟨hx, n⟩
    · rw [hno]; exact ha' hl
    · exact hact _ n (h.active x hx hl hxn)
  · intro x hx hxn hin
    rcases hmem x hx with rfl | ⟨hx, n⟩
    · exact hnn hxn
    · rcases hst _ hin with hin | hin
      · exact h.fresh x hx hxn hin
      · exact n hin
  · intro x hx
    rcases hmem x hx with rfl | ⟨hx, n⟩
    · rw [hno]; exact hc'
    · rw [hcalls _ n]; exact h.calls x hx
  · intro e he
    rcases hp1 e he with ⟨he, n⟩ | ⟨heq, c, hc⟩
    · obtain ⟨x, hx, hxt, hc⟩ := h.prompts1 e he
      refine ⟨x, mem_setTrace.mpr (Or.inr ⟨hx, ?_⟩), hxt, hc⟩
      rw [hno, hxt]; exact n
    · exact ⟨tr', mem_setTrace.mpr (Or.inl ⟨rfl, tr, hm, hno.symm⟩), hno.trans heq.symm, c, hc⟩
  · intro x hx c p hph
    rcases hmem x hx with rfl | ⟨hx, n⟩
    · rw [hno]; exact hp' c p hph
    · exact hp2 p _ n (h.prompts2 x hx c p hph)
  · intro x hx
    rcases hmem x hx with rfl | ⟨hx, n⟩
    · rw [hno]; exact h.ltT tr hm
    · exact h.ltT x hx
  · intro t ht
    rcases hst t ht with ht | rfl
    · exact h.started t ht
    · exact h.ltT tr hm
  · intro t c hc
    by_cases ht : t = tr.traceNo
    · rw [ht]; exact h.ltT tr hm
    · rw [hcalls t ht] at hc; exact h.callsLt t c hc

section events
variable {ts : List TraceSt} {nt : Nat} {w : W} {tr tr' : TraceSt}

theorem notPrompt_of_call {ph : Phase} (h : phaseCall ph = none) : notPrompt ph := by
  intro c p hp; rw [hp] at h; cases h

/-- the grammar state does not move: hidden steps, command-loop events -/
theorem sim_same (h : Sim ts nt w) (hm : tr ∈ ts) (hno : tr'.traceNo = tr.traceNo)
    (hpc : phaseCall tr'.phase = phaseCall tr.phase) (hnp : notPrompt tr.phase) (hnp' : notPrompt tr'.phase)
    (hn : tr.phase ≠ .numbered) (hnn : tr'.phase ≠ .numbered) (hen : tr'.ended = false → tr.ended = false) :
    Sim (setTrace ts tr') nt w := by
  refine sim_frame h hm hno hnn (fun _ _ h => h) (fun _ _ => rfl) ?_ (fun _ _ _ h => h)
    (fun hl => h.active tr hm (hen hl) hn) ?_ ?_ (fun _ h => Or.inl h) h.promptsEver
  · intro e he
    exact Or.inl ⟨he, h.noPrompt hm hnp e he⟩
  · rw [hpc]; exact h.calls tr hm
  · intro c' p hc; exact absurd hc (hnp' c' p)

theorem ev_startTrace (h : Sim ts nt w) (hm : tr ∈ ts) (hph : tr.phase = .numbered)
    (hno : tr'.traceNo = tr.traceNo) (hph' : tr'.phase = .idle) (thn : Nat) (tkn : Option Nat) :
    ∃ w', wstep w (.startTrace tr.traceNo thn tkn) = some w' ∧ Sim (setTrace ts tr') nt w' ∧
      w'.promptsEver = w.promptsEver := by
  have hfr : tr.traceNo ∉ w.started := h.fresh tr hm hph
  have hidle : alGet w.calls tr.traceNo = none := by rw [h.calls tr hm, hph]; rfl
  refine ⟨{ w with started := w.started ++ [tr.traceNo], active := w.active ++ [tr.traceNo] }, by simp [wstep, hfr], ?_, rfl⟩
  refine sim_frame h hm hno (by rw [hph']; simp) (fun _ _ h => List.mem_append_left _ h) (fun _ _ => rfl) ?_
    (fun _ _ _ h => h) (fun _ => by simp) ?_ ?_ ?_ h.promptsEver
  · intro e he
    exact Or.inl ⟨he, h.noPrompt hm (hph ▸ fun _ _ hp => by cases hp) e he⟩
  · rw [hph']; exact hidle
  · intro c' p hc; rw [hph'] at hc; cases hc
  · intro t ht
    simpa using ht

theorem ev_startCall (h : Sim ts nt w) (hm : tr ∈ ts) (c : CallInfo) (hph : tr.phase = .callDrawn c) (hl : tr.ended = false)
    (hno : tr'.traceNo = tr.traceNo) (hph' : tr'.phase = .call c) :
    ∃ w', wstep w (.startCall tr.traceNo c) = some w' ∧ Sim (setTrace ts tr') nt w' ∧ w'.promptsEver = w.promptsEver := by
  have hidle : alGet w.calls tr.traceNo = none := by rw [h.calls tr hm, hph]; rfl
  have hact : tr.traceNo ∈ w.active := h.active tr hm hl (by rw [hph]; simp)
  refine ⟨{ w with calls := alSet w.calls tr.traceNo c }, by simp [wstep, hidle, hact], ?_, rfl⟩
  refine sim_frame h hm hno (by rw [hph']; simp) (fun _ _ h => h) (fun t ht => alGet_alSet_ne _ _ _ _ ht) ?_
    (fun _ _ _ h => h) (fun _ => hact) ?_ ?_ (fun _ h => Or.inl h) h.promptsEver
  · intro e he
    exact Or.inl ⟨he, h.noPrompt hm (hph ▸ fun _ _ hp => by cases hp) e he⟩
  · rw [hph']; exact alGet_alSet_self ..
  · intro c' p hc; rw [hph'] at hc; cases hc

/-- the command-loop events do not move the grammar state -/
theorem ev_cmdloop (h : Sim ts nt w) (hm : tr ∈ ts) (c : CallInfo) (hph : phaseCall tr.phase = some c) :
    wstep w (.startCmdloop tr.traceNo c.callNo) = some w ∧ wstep w (.endCmdloop tr.traceNo c.callNo) = some w := by
  have hcall : alGet w.calls tr.traceNo = some c := by rw [h.calls tr hm, hph]
  exact ⟨by simp [wstep, hcall], by simp [wstep, hcall]⟩

theorem ev_startPrompt (h : Sim ts nt w) (hm : tr ∈ ts) (c : CallInfo) (p : Nat) (hph : tr.phase = .promptDrawn c p)
    (hfresh : p ∉ w.promptsEver) (hl : tr.ended = false)
    (hno : tr'.traceNo = tr.traceNo) (hph' : tr'.phase = .prompt c p) (text : Nat) :
    ∃ w', wstep w (.startPrompt tr.traceNo c.callNo p text) = some w' ∧ Sim (setTrace ts tr') nt w' ∧
      w'.promptsEver = w.promptsEver ++ [p] := by
  have hcall : alGet w.calls tr.traceNo = some c := by rw [h.calls tr hm, hph]; rfl
  have hnone := h.noPrompt hm (hph ▸ fun _ _ hp => by cases hp)
  refine ⟨{ w with prompts := alSet w.prompts p tr.traceNo, promptsEver := w.promptsEver ++ [p] }, ?_, ?_, rfl⟩
  · simp only [wstep, hcall]
    rw [if_pos ⟨trivial, hfresh, hnone⟩]
  refine sim_frame h hm hno (by rw [hph']; simp) (fun _ _ h => h) (fun _ _ => rfl) ?_ ?_
    (fun _ => h.active tr hm hl (by rw [hph]; simp)) ?_ ?_ (fun _ h => Or.inl h) ?_
  · intro e he
    rcases mem_alSet he with rfl | he
    · exact Or.inr ⟨rfl, c, hph'⟩
    · exact Or.inl ⟨he, hnone e he⟩
  · intro p' t _ hg
    have hp : p' ≠ p := by
      intro hp; subst hp
      exact hfresh (h.promptsEver _ (alGet_some_mem hg))
    show alGet (alSet w.prompts p tr.traceNo) p' = some t
    rw [alGet_alSet_ne _ _ _ _ hp]; exact hg
  · rw [hph']; exact hcall
  · intro c' p' hc
    rw [hph'] at hc; injection hc with _ hp; subst hp
    exact alGet_alSet_self ..
  · intro e he
    simp only [List.mem_append, List.mem_singleton]
    rcases mem_alSet he with rfl | he
    · exact Or.inr rfl
    · exact Or.inl (h.promptsEver e he)

theorem ev_endPrompt (h : Sim ts nt w) (hm : tr ∈ ts) (c : CallInfo) (p : Nat) (hph : tr.phase = .prompt c p)
    (hl : tr.ended = false) (hno : tr'.traceNo = tr.traceNo) (hph' : tr'.phase = .cmdloop c) (cmd : Nat) :
    ∃ w', wstep w (.endPrompt tr.traceNo p cmd) = some w' ∧ Sim (setTrace ts tr') nt w' ∧
      w'.promptsEver = w.promptsEver := by
  have hcall : alGet w.calls tr.traceNo = some c := by rw [h.calls tr hm, hph]; rfl
  have hpr : alGet w.prompts p = some tr.traceNo := h.prompts2 tr hm c p hph
  refine ⟨{ w with prompts := alErase w.prompts p }, by simp [wstep, hpr], ?_, rfl⟩
  refine sim_frame h hm hno (by rw [hph']; simp) (fun _ _ h => h) (fun _ _ => rfl) ?_ ?_
    (fun _ => h.active tr hm hl (by rw [hph]; simp)) ?_ ?_ (fun _ h => Or.inl h) ?_
  · intro e he
    obtain ⟨he, hne⟩ := mem_alErase he
    refine Or.inl ⟨he, ?_⟩
    intro heq
    obtain ⟨x, hx, hxt, c', hc'⟩ := h.prompts1 e he
    have := h.uniq x hx tr hm (hxt.trans heq)
    subst this
    rw [hph] at hc'; injection hc' with _ hp
    exact hne hp.symm
  · intro p' t ht hg
    have hp : p' ≠ p := by
      intro hp; subst hp
      rw [hpr] at hg; injection hg with hg
      exact ht hg.symm
    show alGet (alErase w.prompts p) p' = some t
    rw [alGet_alErase_ne _ _ _ hp]; exact hg
  · rw [hph']; exact hcall
  · intro c' p' hc; rw [hph'] at hc; cases hc
  · intro e he; exact h.promptsEver e (mem_alErase he).1

theorem ev_endCall (h : Sim ts nt w) (hm : tr ∈ ts) (c : CallInfo) (hph : tr.phase = .call c) (hl : tr.ended = false)
    (hno : tr'.traceNo = tr.traceNo) (hph' : tr'.phase = .idle) :
    ∃ w', wstep w (.endCall tr.traceNo c.callNo) = some w' ∧ Sim (setTrace ts tr') nt w' ∧
      w'.promptsEver = w.promptsEver := by
  have hcall : alGet w.calls tr.traceNo = some c := by rw [h.calls tr hm, hph]; rfl
  have hnone := h.noPrompt hm (hph ▸ fun _ _ hp => by cases hp)
  refine ⟨{ w with calls := alErase w.calls tr.traceNo }, ?_, ?_, rfl⟩
  · simp only [wstep, hcall]
    rw [if_pos ⟨trivial, hnone⟩]
  refine sim_frame h hm hno (by rw [hph']; simp) (fun _ _ h => h) (fun t ht => alGet_alErase_ne _ _ _ ht) ?_
    (fun _ _ _ h => h) (fun _ => h.active tr hm hl (by rw [hph]; simp)) ?_ ?_ (fun _ h => Or.inl h) h.promptsEver
  · intro e he
    exact Or.inl ⟨he, hnone e he⟩
  · rw [hph']; exact alGet_alErase_self ..
  · intro c' p hc; rw [hph'] at hc; cases hc

theorem ev_endTrace (h : Sim ts nt w) (hm : tr ∈ ts) (hph : tr.phase = .idle) (hl : tr.ended = false)
    (hno : tr'.traceNo = tr.traceNo) (hph' : tr'.phase = .idle) (hen : tr'.ended = true) :
    ∃ w', wstep w (.endTrace tr.traceNo) = some w' ∧ Sim (setTrace ts tr') nt w' ∧ w'.promptsEver = w.promptsEver := by
  have hidle : alGet w.calls tr.traceNo = none := by rw [h.calls tr hm, hph]; rfl
  have hact : tr.traceNo ∈ w.active := h.active tr hm hl (by rw [hph]; simp)
  refine ⟨{ w with active := w.active.erase tr.traceNo }, by simp [wstep, hidle, hact], ?_, rfl⟩
  refine sim_frame h hm hno (by rw [hph']; simp) ?_ (fun _ _ => rfl) ?_ (fun _ _ _ h => h)
    (fun hl' => by rw [hen] at hl'; cases hl') ?_ ?_ (fun _ h => Or.inl h) h.promptsEver
  · intro t ht hin
    exact (List.mem_erase_of_ne ht).mpr hin
  · intro e he
    exact Or.inl ⟨he, h.noPrompt hm (hph ▸ fun _ _ hp => by cases hp) e he⟩
  · rw [hph']; exact hidle
  · intro c' p hc; rw [hph'] at hc; cases hc

end events

theorem wrun_single {w w' : W} {e : Ev} (h : wstep w e = some w') : wrun w [e] = some w' := by
  simp only [wrun, h]

/-- a local transition of a live trace is accepted by the grammar, and the simulation is kept -/
theorem sim_local {ts : List TraceSt} {nt : Nat} {w : W} {tr : TraceSt} (h : Sim ts nt w) (hm : tr ∈ ts)
    (hl : tr.ended = false) (hfresh : ∀ c p, tr.phase = .promptDrawn c p → p ∉ w.promptsEver)
    {nc np : Nat} {a : Act} {ph' : Phase} {en' : Bool} {evs : List Ev} {nc' np' : Nat}
    (hL : Local tr.traceNo tr.threadNo tr.taskNo nc np tr.phase a ph' en' evs nc' np') :
    ∃ w', wrun w evs = some w' ∧ Sim (setTrace ts { tr with phase := ph', ended := en' }) nt w' ∧
      w'.promptsEver = w.promptsEver ++ promptNos evs := by
  obtain ⟨ent, no, thn, tkn, ph, en⟩ := tr
  simp only at hl; subst hl
  simp only at hL hfresh
  have np0 : ∀ {ph : Phase}, phaseCall ph = none → notPrompt ph := notPrompt_of_call
  cases hL with
  | emitStart =>
    obtain ⟨w1, hw1, g1, e1⟩ := ev_startTrace (tr' := ⟨ent, no, thn, tkn, .idle, false⟩) h hm rfl rfl rfl thn tkn
    exact ⟨w1, wrun_single hw1, g1, by simpa [promptNos] using e1⟩
  | drawCall f l fr ev =>
    exact ⟨w, rfl, sim_same (tr' := ⟨ent, no, thn, tkn, .callDrawn ⟨nc, f, l, fr, ev⟩, false⟩) h hm rfl rfl
      (np0 rfl) (np0 rfl) (by simp) (by simp) (fun _ => rfl), by simp [promptNos]⟩
  | emitCall c =>
    obtain ⟨w1, hw1, g1, e1⟩ := ev_startCall (tr' := ⟨ent, no, thn, tkn, .call c, false⟩) h hm c rfl rfl rfl rfl
    exact ⟨w1, wrun_single hw1, g1, by simpa [promptNos] using e1⟩
  | stop c =>
    have hw1 := (ev_cmdloop h hm c rfl).1
    exact ⟨w, wrun_single hw1, sim_same (tr' := ⟨ent, no, thn, tkn, .cmdloop c, false⟩) h hm rfl rfl
      (fun _ _ hp => by cases hp) (fun _ _ hp => by cases hp) (by simp) (by simp) (fun _ => rfl), by simp [promptNos]⟩
  | drawPrompt c =>
    exact ⟨w, rfl, sim_same (tr' := ⟨ent, no, thn, tkn, .promptDrawn c np, false⟩) h hm rfl rfl
      (fun _ _ hp => by cases hp) (fun _ _ hp => by cases hp) (by simp) (by simp) (fun _ => rfl), by simp [promptNos]⟩
  | emitPrompt c p text =>
    obtain ⟨w1, hw1, g1, e1⟩ := ev_startPrompt (tr' := ⟨ent, no, thn, tkn, .prompt c p, false⟩) h hm c p rfl
      (hfresh c p rfl) rfl rfl rfl text
    exact ⟨w1, wrun_single hw1, g1, by simpa [promptNos] using e1⟩
  | answer c p cmd =>
    obtain ⟨w1, hw1, g1, e1⟩ := ev_endPrompt (tr' := ⟨ent, no, thn, tkn, .cmdloop c, false⟩) h hm c p rfl rfl rfl rfl cmd
    exact ⟨w1, wrun_single hw1, g1, by simpa [promptNos] using e1⟩
  | endLoop c =>
    have hw1 := (ev_cmdloop h hm c rfl).2
    exact ⟨w, wrun_single hw1, sim_same (tr' := ⟨ent, no, thn, tkn, .call c, false⟩) h hm rfl rfl
      (fun _ _ hp => by cases hp) (fun _ _ hp => by cases hp) (by simp) (by simp) (fun _ => rfl), by simp [promptNos]⟩
  | endLoopD c p =>
    have hw1 := (ev_cmdloop h hm c rfl).2
    exact ⟨w, wrun_single hw1, sim_same (tr' := ⟨ent, no, thn, tkn, .call c, false⟩) h hm rfl rfl
      (fun _ _ hp => by cases hp) (fun _ _ hp => by cases hp) (by simp) (by simp) (fun _ => rfl), by simp [promptNos]⟩
  | leave c =>
    obtain ⟨w1, hw1, g1, e1⟩ := ev_endCall (tr' := ⟨ent, no, thn, tkn, .idle, false⟩) h hm c rfl rfl rfl rfl
    exact ⟨w1, wrun_single hw1, g1, by simpa [promptNos] using e1⟩
  | finish =>
    obtain ⟨w1, hw1, g1, e1⟩ := ev_endTrace (tr' := ⟨ent, no, thn, tkn, .idle, true⟩) h hm rfl rfl rfl rfl rfl
    exact ⟨w1, wrun_single hw1, g1, by simpa [promptNos] using e1⟩

/-- the stream emitted so far is accepted by the grammar, in a state that mirrors the traces -/
def WInv (s : St) : Prop :=
  ∃ w, wrun {} s.out = some w ∧ Sim s.traces s.nextTrace w ∧ w.promptsEver = promptNos s.out

theorem wInv_init : WInv {} := ⟨{}, rfl, sim_init, rfl⟩

theorem wInv_lstep {s s' : St} {e : Ent} {a : Act} (hn : NumInv s) (h : WInv s) (hs : LStep s e a s') : WInv s' := by
  obtain ⟨tr, ph', en', evs, nc', np', hf, hL, rfl⟩ := hs
  obtain ⟨hm, _, hl⟩ := findTrace_some hf
  obtain ⟨w, hw, hsim, hpe⟩ := h
  have hfresh : ∀ c p, tr.phase = .promptDrawn c p → p ∉ w.promptsEver := by
    intro c p hph
    rw [hpe]
    exact hn.prompt.hFresh tr hm p (by rw [hph]; rfl)
  obtain ⟨w', hw', hsim', hpe'⟩ := sim_local hsim hm hl hfresh hL
  refine ⟨w', ?_, hsim', ?_⟩
  · show wrun {} (s.out ++ evs) = some w'
    rw [wrun_append, hw]; exact hw'
  · show w'.promptsEver = promptNos (s.out ++ evs)
    rw [hpe', hpe, promptNos_append]

theorem wInv_moveNewcomer {s : St} {e : Ent} {n : Newcomer} (h : WInv s) : WInv (moveNewcomer s e n) := by
  obtain ⟨w, hw, hsim, hpe⟩ := h
  refine ⟨w, hw, ?_, hpe⟩
  show Sim (s.traces ++ [mkTrace s e n]) (s.nextTrace + 1) w
  have hnew : ∀ x ∈ s.traces ++ [mkTrace s e n], x ∈ s.traces ∨ x = mkTrace s e n := by
    intro x hx; simpa using hx
  refine ⟨?_, ?_, ?_, ?_, ?_, ?_, ?_, ?_, ?_, hsim.promptsEver⟩
  · intro t1 h1 t2 h2 h12
    rcases hnew t1 h1 with h1 | rfl <;> rcases hnew t2 h2 with h2 | rfl
    · exact hsim.uniq t1 h1 t2 h2 h12
    · have := hsim.ltT t1 h1; rw [h12] at this; exact absurd this (Nat.lt_irrefl _)
    · have := hsim.ltT t2 h2; rw [← h12] at this; exact absurd this (Nat.lt_irrefl _)
    · rfl
  · intro x hx hl hxn
    rcases hnew x hx with hx | rfl
    · exact hsim.active x hx hl hxn
    · exact absurd rfl hxn
  · intro x hx hxn hin
    rcases hnew x hx with hx | rfl
    · exact hsim.fresh x hx hxn hin
    · exact Nat.lt_irrefl _ (hsim.started _ hin)
  · intro x hx
    rcases hnew x hx with hx | rfl
    · exact hsim.calls x hx
    · show alGet w.calls s.nextTrace = none
      cases hc : alGet w.calls s.nextTrace with
      | none => rfl
      | some c => exact absurd (hsim.callsLt _ c hc) (Nat.lt_irrefl _)
  · intro p hp
    obtain ⟨x, hx, h1, h2⟩ := hsim.prompts1 p hp
    exact ⟨x, List.mem_append_left _ hx, h1, h2⟩
  · intro x hx c p hph
    rcases hnew x hx with hx | rfl
    · exact hsim.prompts2 x hx c p hph
    · cases hph
  · intro x hx
    rcases hnew x hx with hx | rfl
    · exact Nat.lt_succ_of_lt (hsim.ltT x hx)
    · exact Nat.lt_succ_self _
  · intro t ht
    exact Nat.lt_succ_of_lt (hsim.started t ht)
  · intro t c hc
    exact Nat.lt_succ_of_lt (hsim.callsLt t c hc)

theorem wInv_addNewcomer {s : St} {e : Ent} (h : WInv s) : WInv (addNewcomer s e) := by
  obtain ⟨w, hw, hsim, hpe⟩ := h
  refine ⟨w, ?_, ?_, ?_⟩
  · rw [addNewcomer_out]; exact hw
  · rw [addNewcomer_traces, addNewcomer_nextTrace]; exact hsim
  · rw [addNewcomer_out]; exact hpe

theorem wInv_step {s s' : St} {e : Ent} {a : Act} (hn : NumInv s) (h : WInv s) (hs : step s e a = some s') : WInv s' := by
  rcases step_cases hs with hl | ⟨_, _, _, rfl⟩ | ⟨_, n, _, rfl⟩ | ⟨rfl, _⟩ | ⟨rfl, _⟩ | ⟨tr, text, _, _, rfl⟩
  · exact wInv_lstep hn h hl
  · exact wInv_addNewcomer h
  · exact wInv_moveNewcomer h
  · exact h
  · exact h
  · obtain ⟨w, hw, hsim, hpe⟩ := h
    refine ⟨w, ?_, hsim, ?_⟩
    · show wrun {} (s.out ++ [.stdout tr.traceNo text]) = some w
      rw [wrun_append, hw]; rfl
    · show w.promptsEver = promptNos (s.out ++ [.stdout tr.traceNo text])
      rw [hpe, promptNos_append]; simp [promptNos]

/-! ### all invariants hold in every reachable state -/

structure Inv (s : St) : Prop where
  tr : TrInv s
  id : IdInv s
  num : NumInv s
  w : WInv s

theorem inv_init : Inv {} := ⟨trInv_init, idInv_init, numInv_init, wInv_init⟩

theorem inv_step {s s' : St} {e : Ent} {a : Act} (h : Inv s) (hs : step s e a = some s') : Inv s' :=
  ⟨trInv_step h.tr hs, idInv_step h.id hs, numInv_step h.tr h.num hs, wInv_step h.num h.w hs⟩

theorem inv_run {s0 s : St} {ls : List (Ent × Act)} (h : Inv s0) (hr : run s0 ls = some s) : Inv s := by
  induction ls generalizing s0 with
  | nil => simp only [run, Option.some.injEq] at hr; subst hr; exact h
  | cons l ls ih =>
    obtain ⟨e, a⟩ := l
    simp only [run] at hr
    split at hr
    · next s1 hs => exact ih (inv_step h hs) hr
    · cases hr

theorem inv_of_run {ls : List (Ent × Act)} {s : St} (h : run {} ls = some s) : Inv s := inv_run inv_init h

/-! ### what one step adds to the stream -/

/-- a step appends at most one event; a hidden step none; every event carries the trace number of the acting entity's
live trace; an entity without a live trace emits nothing -/
theorem step_out {s : St} {e : Ent} {a : Act} {s' : St} (h : step s e a = some s') :
    ∃ evs, s'.out = s.out ++ evs ∧ evs.length ≤ 1 ∧ (a.hidden = true → evs = []) ∧
      (∀ ev ∈ evs, ∃ tr, findTrace s.traces e = some tr ∧ evTrace ev = tr.traceNo) ∧
      (findTrace s.traces e = none → evs = []) := by
  rcases step_cases h with hl | ⟨rfl, _, _, rfl⟩ | ⟨rfl, n, _, rfl⟩ | ⟨rfl, _⟩ | ⟨rfl, _⟩ | ⟨tr, text, hf, rfl, rfl⟩
  · obtain ⟨tr, ph', en', evs, nc', np', hf, hL, rfl⟩ := hl
    obtain ⟨h1, h2, h3⟩ := local_evTrace hL
    exact ⟨evs, rfl, h2, h3, fun ev hev => ⟨tr, hf, h1 ev hev⟩, fun hn => by rw [hn] at hf; cases hf⟩
  · exact ⟨[], by simp, by simp, fun _ => rfl, by simp, fun _ => rfl⟩
  · exact ⟨[], by simp [moveNewcomer], by simp, fun _ => rfl, by simp, fun _ => rfl⟩
  · exact ⟨[], by simp, by simp, fun _ => rfl, by simp, fun _ => rfl⟩
  · exact ⟨[], by simp, by simp, fun _ => rfl, by simp, fun _ => rfl⟩
  · refine ⟨[.stdout tr.traceNo text], rfl, by simp, by simp [Act.hidden], ?_, fun hn => by rw [hn] at hf; cases hf⟩
    intro ev hev
    simp only [List.mem_singleton] at hev
    subst hev
    exact ⟨tr, hf, rfl⟩

/-! ### an action only looks at the entity's own trace -/

local macro "congr_close" : tactic =>
  `(tactic| exact ⟨by first | rfl | trivial,
      fun s' s2' h1 h2 => by first | (cases h1; done) | (cases h1; cases h2; rfl)⟩)

/-- enabledness and emitted events of an action of `e` depend on the traces only through `findTrace · e` -/
theorem step_congr (s : St) (ts2 : List TraceSt) (e : Ent) (a : Act) (hf : findTrace ts2 e = findTrace s.traces e) :
    (step s e a).isSome = (step { s with traces := ts2 } e a).isSome ∧
    ∀ s' s2', step s e a = some s' → step { s with traces := ts2 } e a = some s2' → s'.out = s2'.out := by
  by_cases hids : a = .drawIds
  · subst hids
    refine ⟨?_, ?_⟩
    · rw [step_drawIds_isSome, step_drawIds_isSome, hf]
    · intro s' s2' h1 h2
      obtain ⟨evs1, ho1, _, hh1, _⟩ := step_out h1
      obtain ⟨evs2, ho2, _, hh2, _⟩ := step_out h2
      rw [ho1, ho2, hh1 rfl, hh2 rfl]
  by_cases htr : a = .drawTrace
  · subst htr
    simp only [step]
    cases findNewcomer s.newcomers e <;> congr_close
  cases hf1 : findTrace s.traces e with
  | none =>
    have hf2 : findTrace ({ s with traces := ts2 } : St).traces e = none := hf.trans hf1
    cases a with
    | drawIds => exact absurd rfl hids
    | drawTrace => exact absurd rfl htr
    | _ =>
      simp only [step, hf1, hf2]
      congr_close
  | some tr =>
    have hf2 : findTrace ({ s with traces := ts2 } : St).traces e = some tr := hf.trans hf1
    obtain ⟨ent, no, thn, tkn, ph, en⟩ := tr
    cases a with
    | drawIds => exact absurd rfl hids
    | drawTrace => exact absurd rfl htr
    | _ =>
      simp only [step, hf1, hf2]
      first
        | congr_close
        | (cases ph <;> congr_close)

/-! ### unwinding the open blocks of a trace -/

theorem step_leave {s : St} {e : Ent} {tr : TraceSt} {c : CallInfo} (hf : findTrace s.traces e = some tr)
    (hph : tr.phase = .call c) :
    step s e .leave = some { s with traces := setTrace s.traces { tr with phase := .idle },
                                    out := s.out ++ [.endCall tr.traceNo c.callNo] } := by
  simp only [step, hf, hph]

theorem step_endLoop {s : St} {e : Ent} {tr : TraceSt} {c : CallInfo} (hf : findTrace s.traces e = some tr)
    (hph : tr.phase = .cmdloop c ∨ ∃ p, tr.phase = .promptDrawn c p) :
    step s e .endLoop = some { s with traces := setTrace s.traces { tr with phase := .call c },
                                      out := s.out ++ [.endCmdloop tr.traceNo c.callNo] } := by
  rcases hph with hph | ⟨p, hph⟩ <;> simp only [step, hf, hph]

theorem step_answer {s : St} {e : Ent} {tr : TraceSt} {c : CallInfo} {p : Nat} (hf : findTrace s.traces e = some tr)
    (hph : tr.phase = .prompt c p) (cmd : Nat) :
    step s e (.answer cmd) = some { s with traces := setTrace s.traces { tr with phase := .cmdloop c },
                                           out := s.out ++ [.endPrompt tr.traceNo p cmd] } := by
  simp only [step, hf, hph]

theorem unwind_call {s : St} {e : Ent} {tr : TraceSt} {c : CallInfo} (hf : findTrace s.traces e = some tr)
    (hph : tr.phase = .call c) :
    ∃ s', run s [(e, .leave)] = some s' ∧ s'.out = s.out ++ [.endCall tr.traceNo c.callNo] ∧
      findTrace s'.traces e = some { tr with phase := .idle } := by
  obtain ⟨_, he, hl⟩ := findTrace_some hf
  refine ⟨{ s with traces := setTrace s.traces { tr with phase := .idle },
                   out := s.out ++ [.endCall tr.traceNo c.callNo] }, by simp only [run, step_leave hf hph], rfl, ?_⟩
  exact findTrace_setTrace_self hf he hl rfl

theorem unwind_loop {s : St} {e : Ent} {tr : TraceSt} {c : CallInfo} (hf : findTrace s.traces e = some tr)
    (hph : tr.phase = .cmdloop c ∨ ∃ p, tr.phase = .promptDrawn c p) :
    ∃ s', run s [(e, .endLoop), (e, .leave)] = some s' ∧
      s'.out = s.out ++ [.endCmdloop tr.traceNo c.callNo, .endCall tr.traceNo c.callNo] ∧
      findTrace s'.traces e = some { tr with phase := .idle } := by
  obtain ⟨_, he, hl⟩ := findTrace_some hf
  have hf1 : findTrace (setTrace s.traces { tr with phase := .call c }) e = some { tr with phase := .call c } :=
    findTrace_setTrace_self hf he hl rfl
  obtain ⟨s', hr, ho, hf'⟩ := unwind_call
    (s := { s with traces := setTrace s.traces { tr with phase := .call c },
                   out := s.out ++ [.endCmdloop tr.traceNo c.callNo] }) hf1 rfl
  refine ⟨s', ?_, ?_, hf'⟩
  · rw [run, step_endLoop hf hph]; exact hr
  · rw [ho]; simp

theorem unwind_prompt {s : St} {e : Ent} {tr : TraceSt} {c : CallInfo} {p : Nat} (hf : findTrace s.traces e = some tr)
    (hph : tr.phase = .prompt c p) :
    ∃ s', run s [(e, .answer 0), (e, .endLoop), (e, .leave)] = some s' ∧
      s'.out = s.out ++ [.endPrompt tr.traceNo p 0, .endCmdloop tr.traceNo c.callNo, .endCall tr.traceNo c.callNo] ∧
      findTrace s'.traces e = some { tr with phase := .idle } := by
  obtain ⟨_, he, hl⟩ := findTrace_some hf
  have hf1 : findTrace (setTrace s.traces { tr with phase := .cmdloop c }) e = some { tr with phase := .cmdloop c } :=
    findTrace_setTrace_self hf he hl rfl
  obtain ⟨s', hr, ho, hf'⟩ := unwind_loop
    (s := { s with traces := setTrace s.traces { tr with phase := .cmdloop c },
                   out := s.out ++ [.endPrompt tr.traceNo p 0] }) (c := c) hf1 (Or.inl rfl)
  refine ⟨s', ?_, ?_, hf'⟩
  · rw [run, step_answer hf hph]; exact hr
  · rw [ho]; simp

/-- an exception unwinds every open block, innermost first, one event per step, and leaves the trace idle -/
theorem unwind_run {s : St} {e : Ent} {tr : TraceSt} (hf : findTrace s.traces e = some tr)
    (ho : tr.phase.isOpen = true) :
    ∃ s', run s ((unwindActs tr.phase).map fun a => (e, a)) = some s' ∧
      s'.out = s.out ++ unwind tr.traceNo tr.phase ∧ findTrace s'.traces e = some { tr with phase := .idle } := by
  cases hph : tr.phase with
  | numbered => rw [hph] at ho; cases ho
  | idle => rw [hph] at ho; cases ho
  | callDrawn c => rw [hph] at ho; cases ho
  | call c => exact unwind_call hf hph
  | cmdloop c => exact unwind_loop hf (Or.inl hph)
  | promptDrawn c p => exact unwind_loop hf (Or.inr ⟨p, hph⟩)
  | prompt c p => exact unwind_prompt hf hph

/-- a concrete run with a given observation exists -/
theorem exists_run_of_map {α : Type} {f : St → α} {ls : List (Ent × Act)} {v : α}
    (h : (run {} ls).map f = some v) : ∃ s, run {} ls = some s ∧ f s = v := by
  cases hr : run {} ls with
  | none => rw [hr] at h; cases h
  | some s => rw [hr] at h; exact ⟨s, rfl, by simpa using h⟩

end NLV.Trace
