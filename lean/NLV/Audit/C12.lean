import NLV.Props.C12
#print axioms NLV.C12.hooks_follow_protocol_partial
#print axioms NLV.C12.hooks_follow_protocol_false
#print axioms NLV.C12.protoX_vs_protoOf
#print axioms NLV.C12.history_hooks_accepted_partial
#print axioms NLV.C12.history_hooks_accepted_exact
#print axioms NLV.C12.history_hooks_accepted_false
#print axioms NLV.C12.refused_no_hooks
#print axioms NLV.C12.run_arg_window_partial
#print axioms NLV.C12.run_arg_window_false
