import NLV.Props.C03
#print axioms NLV.C03.close_never_raises
#print axioms NLV.C03.close_idempotent
#print axioms NLV.C03.close_completes_when_idle
#print axioms NLV.C03.close_completes_when_running
