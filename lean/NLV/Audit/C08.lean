import NLV.Props.C08
open NLV.C08
#print axioms NLV.C08.reach_inv
#print axioms NLV.C08.receives_exactly_once_in_order
#print axioms NLV.C08.all_agree_on_order
#print axioms NLV.C08.subscription_start_spec
#print axioms NLV.C08.never_skips
#print axioms NLV.C08.ends_cleanly
#print axioms NLV.C08.started_after_end_yields_nothing
#print axioms NLV.C08.latest_is_last_of_lifetime
#print axioms NLV.C08.latest_after_publish
#print axioms NLV.C08.latest_after_clear
#print axioms NLV.C08.publish_on_ended_refused
#print axioms NLV.C08.early_leaver_frame
#print axioms NLV.C08.pull_frame
#print axioms NLV.C08.binv_reachable
#print axioms NLV.C08.end_starts_new_lifetime
#print axioms NLV.C08.close_ends_every_key
#print axioms NLV.C08.dinv_init
#print axioms NLV.C08.dinv_cstep
#print axioms NLV.C08.dinv_csteps
#print axioms NLV.C08.close_is_closeSteps
#print axioms NLV.C08.left_dict_closed
#print axioms NLV.C08.closed_stays_closed
#print axioms NLV.C08.close_in_flight_ends_every_key
#print axioms NLV.C08.close_in_flight_ends_later_keys
#print axioms NLV.C08.closeStep_empty
