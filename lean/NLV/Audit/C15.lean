import NLV.Props.C15
#print axioms NLV.C15.child_alive_iff_running
#print axioms NLV.C15.second_run_refused
#print axioms NLV.C15.at_most_one_child
#print axioms NLV.C15.finished_implies_exited
