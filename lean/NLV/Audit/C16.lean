import NLV.Props.C16
#print axioms NLV.C16.enabled_iff_continuous_run_in_flight
#print axioms NLV.C16.refused_request_restores
#print axioms NLV.C16.plain_run_never_auto_answered
