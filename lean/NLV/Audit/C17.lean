import NLV.Props.C17
#print axioms NLV.C17.await_never_raises
#print axioms NLV.C17.not_both
#print axioms NLV.C17.outcome_table
#print axioms NLV.C17.cleaned_up_on_every_path
