import NLV.Props.C09
#print axioms NLV.C09.stream_wf
#print axioms NLV.C09.numbers_unique_increasing
#print axioms NLV.C09.numbers_drawn_in_order
#print axioms NLV.C09.stream_order_is_not_number_order
#print axioms NLV.C09.output_monotone
#print axioms NLV.C09.hidden_silent
#print axioms NLV.C09.abort_unwinds
#print axioms NLV.C09.every_event_has_run_no
