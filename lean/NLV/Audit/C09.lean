import NLV.Props.C09
#print axioms NLV.C09.stream_wf
#print axioms NLV.C09.numbers_unique_increasing
#print axioms NLV.C09.output_monotone
#print axioms NLV.C09.abort_unwinds
#print axioms NLV.C09.every_event_has_run_no
