import NLV.Props.C06
#print axioms NLV.C06.trace_numbers_injective
#print axioms NLV.C06.ids_consistent
#print axioms NLV.C06.task_numbers_fresh
#print axioms NLV.C06.attribution
#print axioms NLV.C06.untraced_emits_nothing
#print axioms NLV.C06.other_traces_untouched
#print axioms NLV.C06.open_prompt_does_not_block_others
