import NLV.Props.C18
#print axioms NLV.C18.callback_only_after_end
#print axioms NLV.C18.calls_le_registrations
#print axioms NLV.C18.registered_not_lost
#print axioms NLV.C18.close_returns_after_all
#print axioms NLV.C18.callback_exception_reraised
#print axioms NLV.C18.monitor_no_deadlock
#print axioms NLV.C18.task_callback_after_finish
#print axioms NLV.C18.task_calls_le_registrations
#print axioms NLV.C18.task_quiescent_complete
#print axioms NLV.C18.callback_exception_reraised_raising
#print axioms NLV.C18.close_returns_after_all_raising
#print axioms NLV.C18T.close_waits
#print axioms NLV.C18T.closed_stays
#print axioms NLV.C18T.no_trace_starts_after_close
#print axioms NLV.C18T.after_close_only_a_trace_end
#print axioms NLV.C18T.evInv_step
#print axioms NLV.C18T.every_started_trace_ended
