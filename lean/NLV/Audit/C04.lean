import NLV.Props.C04
#print axioms NLV.C04.traceback_cleaned_user
#print axioms NLV.C04.traceback_cleaned_interrupt
#print axioms NLV.C04.traceback_cleaned_syntax
#print axioms NLV.C04.no_nextline_frames
#print axioms NLV.C04.stdout_passthrough
