import NLV.Props.C19
#print axioms NLV.C19.inv_run
#print axioms NLV.C19.merge_exact
#print axioms NLV.C19.merge_tags
#print axioms NLV.C19.merge_no_deadlock
#print axioms NLV.C19.wait_exact
#print axioms NLV.C19.wait_surfaces_exception
#print axioms NLV.C19.wait_raise_is_real
#print axioms NLV.C19.to_aiter_exact
