import NLV.Props.C01
#print axioms NLV.C01.config_edges_documented
#print axioms NLV.C01.refused_changes_nothing
#print axioms NLV.C01.refusal_table
#print axioms NLV.C01.published_walks_edges
#print axioms NLV.C01.closed_never_left
