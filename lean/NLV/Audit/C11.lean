import NLV.Props.C11
#print axioms NLV.Reg.sim_step
#print axioms NLV.Reg.liveKeys_onEvent
#print axioms NLV.Reg.infoSeq_step
#print axioms NLV.C11.run_events
#print axioms NLV.C11.closed_out_at_end
#print axioms NLV.C11.wf_prefix_closed
