import NLV.Props.C14
#print axioms NLV.C14.run_no_consecutive
#print axioms NLV.C14.executes_displayed
#print axioms NLV.C14.reset_all_or_nothing
