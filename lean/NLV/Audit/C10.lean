import NLV.Props.C10
#print axioms NLV.C10.delivered_prefix
#print axioms NLV.C10.nothing_lost_without_kill
#print axioms NLV.C10.delivered_all_at_end_run
#print axioms NLV.C10.none_after_end_run
#print axioms NLV.C10.end_run_is_final
#print axioms NLV.C10.after_start_run
#print axioms NLV.C10.after_start_run_needs_premise
#print axioms NLV.C10.relay_no_deadlock
#print axioms NLV.C10.end_run_monitor_exited
#print axioms NLV.C10.end_run_terminal
