import NLV.Props.C02
#print axioms NLV.C02.run_starts
#print axioms NLV.C02.run_always_finishes
#print axioms NLV.C02.run_info_once
#print axioms NLV.C02.no_result_while_running
#print axioms NLV.C02.exit_once
#print axioms NLV.C02.blocked_only_while_running
