import NLV.Props.C07
#print axioms NLV.C07.executed_is_addressed
#print axioms NLV.C07.at_most_once
#print axioms NLV.C07.prompt_answered_once
#print axioms NLV.C07.consume_executes_open
#print axioms NLV.C07.mismatch_discarded
#print axioms NLV.C07.stale_never_executes
#print axioms NLV.C07.unknown_trace_harmless
#print axioms NLV.C07.fifo
