import NLV.Props.C13
#print axioms NLV.C13.splitLast_none
#print axioms NLV.C13.splitLast_some
#print axioms NLV.C13.inv_run
#print axioms NLV.C13.pieces_end_with_newline
#print axioms NLV.C13.per_key_prefix_in_order
#print axioms NLV.C13.up_to_last_newline
#print axioms NLV.C13.real_stdout_gets_all
#print axioms NLV.C13.no_key_not_reported
#print axioms NLV.C13.other_keys_untouched
