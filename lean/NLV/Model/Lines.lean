/-!
# Model K — stdout capture: `ReadLinesByKey`, `AssignKey`, `peek_textio`
(`nextline/spawned/plugin/plugins/peek.py`, `nextline/utils/peek.py`)

Text is a list of code points; `nl = 10` is `'\n'`.  Keys are trace numbers.
-/
namespace NLV.Lines

abbrev Text := List Nat
def nl : Nat := 10

/-- `s.rpartition('\n')`: `some (upToAndIncludingLastNewline, remainder)`, `none` if no newline -/
def splitLast : Text → Option (Text × Text)
  | [] => none
  | c :: t =>
    match splitLast t with
    | some (a, r) => some (c :: a, r)
    | none => if c = nl then some ([c], t) else none

/-- the `defaultdict(str)` buffer as an association list (absent key = empty string) -/
abbrev Buf := List (Nat × Text)

def Buf.get (b : Buf) (k : Nat) : Text :=
  match b with
  | [] => []
  | (k', t) :: rest => if k' = k then t else Buf.get rest k

def Buf.set (b : Buf) (k : Nat) (t : Text) : Buf :=
  match b with
  | [] => [(k, t)]
  | (k', t') :: rest => if k' = k then (k, t) :: rest else (k', t') :: Buf.set rest k t

/-- `read_lines_by_key(key, s)`: returns the new buffer and the piece handed to the callback, if any -/
def readLines (b : Buf) (k : Nat) (s : Text) : Buf × Option Text :=
  let cur := b.get k ++ s
  match splitLast cur with
  | some (lines, rest) => (b.set k rest, some lines)
  | none => (b.set k cur, none)

structure St where
  buf : Buf := []
  emitted : List (Nat × Text) := []    -- callback invocations `(trace_no, piece)`, in order
  real : List Text := []               -- what the original `write` received, in order

/-- one `sys.stdout.write(s)` inside the `peek_stdout_by_key` context; `key = none` models a falsy
`key_factory()` (no current trace): `AssignKey` drops it, the original `write` still gets it -/
def write (st : St) (key : Option Nat) (s : Text) : St :=
  let st := { st with real := st.real ++ [s] }    -- `org_write(s)` (after the callback; order irrelevant here)
  match key with
  | none => st
  | some k =>
    let (b, out) := readLines st.buf k s
    match out with
    | some piece => { st with buf := b, emitted := st.emitted ++ [(k, piece)] }
    | none => { st with buf := b }

def run (st : St) (ws : List (Option Nat × Text)) : St := ws.foldl (fun st w => write st w.1 w.2) st

/-- all text written under key `k`, concatenated -/
def written (ws : List (Option Nat × Text)) (k : Nat) : Text :=
  (ws.filter fun w => w.1 = some k).flatMap (·.2)

/-- all pieces reported for key `k`, concatenated -/
def reported (e : List (Nat × Text)) (k : Nat) : Text :=
  (e.filter fun p => p.1 = k).flatMap (·.2)

end NLV.Lines
