import NLV.Model.Registrars
/-!
# Model D1 — the event-emitting trace pipeline of the child
(`spawned/plugin/plugins/{concurrency,local_,repeat}.py`, `pdb_/factory.py`, `utils/thread_task_id.py`, `count.py`)

Entities are threads and asyncio tasks.  Per entity the pipeline keeps a nesting phase that mirrors the nested
`with` blocks of the code: idle → in a trace call (`on_trace_call`) → in a command loop (`on_cmdloop`) → at a
prompt (`on_prompt`); every block emits its end event in `finally`, so an abort (KeyboardInterrupt delivered
into a prompt, `BdbQuit`, …) unwinds whatever is open.  Counters are global: trace numbers, trace-call numbers
and prompt numbers each come from one `itertools.count` (atomic under the GIL).
A run is a list of labels `(entity, action)`: every interleaving of threads is a label list.
The emitted events reuse the event type of model C, so that "the stream is well formed" is literally "the
registrars' grammar `Reg.wrun` accepts it".
-/
namespace NLV.Trace
open NLV.Reg

/-- a thread or a task: `thread` identifies the OS thread, `task` the asyncio task inside it (if any) -/
structure Ent where
  thread : Nat
  task : Option Nat
  deriving DecidableEq, Repr

inductive Phase where
  | idle
  | call (c : CallInfo)
  | cmdloop (c : CallInfo) (prompted : Bool)
  | prompt (c : CallInfo) (p : Nat)
  deriving DecidableEq, Repr

structure TraceSt where
  ent : Ent
  traceNo : Nat
  threadNo : Nat
  taskNo : Option Nat
  phase : Phase := .idle
  ended : Bool := false
  deriving DecidableEq, Repr

structure St where
  traces : List TraceSt := []
  nextTrace : Nat := 1
  nextCall : Nat := 1
  nextPrompt : Nat := 1
  nextThreadNo : Nat := 1
  threadNos : List (Nat × Nat) := []                -- OS thread ↦ thread number
  taskCounters : List (Nat × Nat) := []             -- thread number ↦ next task number
  out : List Ev := []                               -- emitted events, in order
  deriving DecidableEq, Repr

inductive Act where
  | enter (file line frame event : Nat)   -- the trace function is invoked for an accepted frame event
  | stop                                  -- Pdb decides to stop: `cmdloop()` inside the trace call
  | stopRefused                           -- `cmdloop()` outside a trace call (patched `f_trace`): refused, nothing emitted
  | prompt (text : Nat)                   -- Pdb asks for a command
  | answer (cmd : Nat) (resumes : Bool)   -- a command arrives; a resuming command ends the command loop
  | leave                                 -- the trace function returns
  | abort                                 -- an exception unwinds the open blocks (KeyboardInterrupt at a prompt, …)
  | finish                                -- the entity has ended: done-callback (or the main thread at context exit)
  | write (text : Nat)                    -- the entity writes a whole line to stdout
  deriving DecidableEq, Repr

def findTrace (ts : List TraceSt) (e : Ent) : Option TraceSt := ts.find? fun t => t.ent = e ∧ !t.ended

def setTrace (ts : List TraceSt) (t : TraceSt) : List TraceSt :=
  ts.map fun x => if x.traceNo = t.traceNo then t else x

/-- `ThreadTaskIdComposer`: thread number of an OS thread (new threads get the next number) -/
def threadNoOf (s : St) (th : Nat) : Nat × St :=
  match s.threadNos.find? fun e => e.1 = th with
  | some e => (e.2, s)
  | none => (s.nextThreadNo, { s with nextThreadNo := s.nextThreadNo + 1, threadNos := s.threadNos ++ [(th, s.nextThreadNo)] })

/-- task number of a new task within thread number `tn` -/
def taskNoOf (s : St) (tn : Nat) : Nat × St :=
  match s.taskCounters.find? fun e => e.1 = tn with
  | some e => (e.2, { s with taskCounters := s.taskCounters.map fun x => if x.1 = tn then (tn, e.2 + 1) else x })
  | none => (1, { s with taskCounters := s.taskCounters ++ [(tn, 2)] })

/-- events emitted while unwinding the open blocks of a phase (innermost first) -/
def unwind (t : Nat) : Phase → List Ev
  | .idle => []
  | .call c => [.endCall t c.callNo]
  | .cmdloop c _ => [.endCmdloop t c.callNo, .endCall t c.callNo]
  | .prompt c p => [.endPrompt t p 0, .endCmdloop t c.callNo, .endCall t c.callNo]      -- `command = ''`

def step (s : St) (e : Ent) : Act → Option St
  | .enter file line frame event =>
    -- first event of an entity: number it and emit OnStartTrace
    let (tr, s1) : TraceSt × St :=
      match findTrace s.traces e with
      | some tr => (tr, s)
      | none =>
        let (tn, sa) := threadNoOf s e.thread
        let (tk, sb) : Option Nat × St := match e.task with
          | none => (none, sa)
          | some _ => let (k, sb) := taskNoOf sa tn; (some k, sb)
        let tr : TraceSt := { ent := e, traceNo := sb.nextTrace, threadNo := tn, taskNo := tk }
        (tr, { sb with traces := sb.traces ++ [tr], nextTrace := sb.nextTrace + 1,
                       out := sb.out ++ [.startTrace tr.traceNo tn tk] })
    match tr.phase with
    | .idle =>
      let c : CallInfo := { callNo := s1.nextCall, file := file, line := line, frame := frame, event := event }
      some { s1 with traces := setTrace s1.traces { tr with phase := .call c }, nextCall := s1.nextCall + 1,
                     out := s1.out ++ [.startCall tr.traceNo c] }
    | _ => none                                        -- no nested trace calls within one trace
  | .stop =>
    match findTrace s.traces e with
    | some tr => (match tr.phase with
      | .call c => some { s with traces := setTrace s.traces { tr with phase := .cmdloop c false },
                                  out := s.out ++ [.startCmdloop tr.traceNo c.callNo] }
      | _ => none)
    | none => none
  | .stopRefused =>
    match findTrace s.traces e with
    | some tr => (match tr.phase with | .idle => some s | _ => none)
    | none => some s
  | .prompt text =>
    match findTrace s.traces e with
    | some tr => (match tr.phase with
      | .cmdloop c _ => some { s with traces := setTrace s.traces { tr with phase := .prompt c s.nextPrompt },
                                       nextPrompt := s.nextPrompt + 1,
                                       out := s.out ++ [.startPrompt tr.traceNo c.callNo s.nextPrompt text] }
      | _ => none)
    | none => none
  | .answer cmd resumes =>
    match findTrace s.traces e with
    | some tr => (match tr.phase with
      | .prompt c p =>
        if resumes then
          some { s with traces := setTrace s.traces { tr with phase := .call c },
                        out := s.out ++ [.endPrompt tr.traceNo p cmd, .endCmdloop tr.traceNo c.callNo] }
        else
          some { s with traces := setTrace s.traces { tr with phase := .cmdloop c true },
                        out := s.out ++ [.endPrompt tr.traceNo p cmd] }
      | _ => none)
    | none => none
  | .leave =>
    match findTrace s.traces e with
    | some tr => (match tr.phase with
      | .call c => some { s with traces := setTrace s.traces { tr with phase := .idle }, out := s.out ++ [.endCall tr.traceNo c.callNo] }
      | _ => none)
    | none => none
  | .abort =>
    match findTrace s.traces e with
    | some tr => (match tr.phase with
      | .idle => none
      | ph => some { s with traces := setTrace s.traces { tr with phase := .idle }, out := s.out ++ unwind tr.traceNo ph })
    | none => none
  | .finish =>
    match findTrace s.traces e with
    | some tr => (match tr.phase with
      | .idle => some { s with traces := setTrace s.traces { tr with ended := true }, out := s.out ++ [.endTrace tr.traceNo] }
      | _ => none)
    | none => none
  | .write text =>
    match findTrace s.traces e with
    | some tr => some { s with out := s.out ++ [.stdout tr.traceNo text] }
    | none => some s                                   -- no current trace: not reported

def run (s : St) : List (Ent × Act) → Option St
  | [] => some s
  | (e, a) :: ls => match step s e a with
    | some s' => run s' ls
    | none => none

end NLV.Trace
