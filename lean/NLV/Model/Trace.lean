import NLV.Model.Registrars
/-!
# Model D1 — the event-emitting trace pipeline of the child
(`spawned/plugin/plugins/{concurrency,local_,repeat}.py`, `pdb_/factory.py`, `utils/thread_task_id.py`, `count.py`)

Entities are threads and asyncio tasks.  Per entity the pipeline keeps a nesting phase that mirrors the nested
`with` blocks of the code: idle → in a trace call (`on_trace_call`) → in a command loop (`on_cmdloop`) → at a
prompt (`on_prompt`); every block emits its end event in `finally`, so an abort (KeyboardInterrupt delivered
into a prompt, `BdbQuit`, …) unwinds whatever is open.  Counters are global: trace numbers, trace-call numbers
and prompt numbers each come from one `itertools.count`; drawing a number is atomic under the GIL, but drawing it and
emitting the event that carries it are two steps, and other threads may run in between.
A run is a list of labels `(entity, action)`: every interleaving of threads is a label list.
The emitted events reuse the event type of model C, so that "the stream is well formed" is literally "the
registrars' grammar `Reg.wrun` accepts it".
-/
namespace NLV.Trace
open NLV.Reg

/-- a thread or a task: `thread` identifies the OS thread, `task` the asyncio task inside it (if any) -/
structure Ent where
  thread : Nat
  task : Option Nat
  deriving DecidableEq, Repr

inductive Phase where
  | numbered                              -- thread/task numbers and trace number drawn; `OnStartTrace` not yet emitted
  | idle
  | callDrawn (c : CallInfo)              -- trace-call number drawn; `OnStartTraceCall` not yet emitted
  | call (c : CallInfo)
  | cmdloop (c : CallInfo)
  | promptDrawn (c : CallInfo) (p : Nat)  -- prompt number drawn; `OnStartPrompt` not yet emitted
  | prompt (c : CallInfo) (p : Nat)
  deriving DecidableEq, Repr

/-- inside at least one `with` block whose end event is still to come -/
def Phase.isOpen : Phase → Bool
  | .call _ | .cmdloop _ | .promptDrawn _ _ | .prompt _ _ => true
  | _ => false

structure TraceSt where
  ent : Ent
  traceNo : Nat
  threadNo : Nat
  taskNo : Option Nat
  phase : Phase := .numbered
  ended : Bool := false
  deriving DecidableEq, Repr

/-- an entity that has drawn its thread / task numbers (`ThreadTaskIdComposer`) but not yet its trace number -/
structure Newcomer where
  ent : Ent
  threadNo : Nat
  taskNo : Option Nat
  deriving DecidableEq, Repr

structure St where
  traces : List TraceSt := []
  newcomers : List Newcomer := []
  nextTrace : Nat := 1
  nextCall : Nat := 1
  nextPrompt : Nat := 1
  nextThreadNo : Nat := 1
  threadNos : List (Nat × Nat) := []                -- OS thread ↦ thread number
  taskCounters : List (Nat × Nat) := []             -- thread number ↦ next task number
  out : List Ev := []                               -- emitted events, in order
  deriving DecidableEq, Repr

/-- Every number is *drawn* from its counter in one step (atomic under the GIL) and *used* — put into an event that is
handed to the queue — in a later step of the same entity; other entities may act in between, so the order in which
numbers appear in the stream is not the order in which they were drawn.  The drawing steps emit nothing: an observer of
the stream does not see them.  Every step emits at most one event: the events one entity emits back to back (leaving
nested blocks) can be separated in the stream by events of other entities. -/
inductive Act where
  | drawIds                               -- hidden: `ThreadTaskIdComposer()` numbers the thread / task
  | drawTrace                             -- hidden: `TraceNoCounter()`; the entity is mapped to its trace number
  | emitStart                             -- `on_start_trace`: `OnStartTrace` is emitted
  | drawCall (file line frame event : Nat)   -- hidden: the trace function is invoked for an accepted frame event; `TraceCallNoCounter()`
  | emitCall                              -- `with on_trace_call`: `OnStartTraceCall` is emitted
  | stop                                  -- Pdb decides to stop: `cmdloop()` inside the trace call
  | stopRefused                           -- `cmdloop()` outside a trace call (patched `f_trace`): refused, nothing emitted
  | drawPrompt                            -- hidden: Pdb asks for a command; `PromptNoCounter()`
  | emitPrompt (text : Nat)               -- `with on_prompt`: `OnStartPrompt` is emitted
  | answer (cmd : Nat)                    -- `on_prompt` is left: a command arrived, or an exception unwinds the block (command `''`)
  | endLoop                               -- `on_cmdloop` is left: Pdb resumes the script, or an exception unwinds the block
  | leave                                 -- `on_trace_call` is left: the trace function returns or an exception unwinds the block
  | finish                                -- the entity has ended: done-callback (or the main thread at context exit)
  | write (text : Nat)                    -- the entity writes a whole line to stdout
  deriving DecidableEq, Repr

/-- the actions an observer of the stream cannot see -/
def Act.hidden : Act → Bool
  | .drawIds | .drawTrace | .drawCall .. | .drawPrompt => true
  | _ => false

def findTrace (ts : List TraceSt) (e : Ent) : Option TraceSt := ts.find? fun t => t.ent = e ∧ !t.ended

def findNewcomer (ns : List Newcomer) (e : Ent) : Option Newcomer := ns.find? fun n => n.ent = e

def setTrace (ts : List TraceSt) (t : TraceSt) : List TraceSt :=
  ts.map fun x => if x.traceNo = t.traceNo then t else x

/-- `ThreadTaskIdComposer`: thread number of an OS thread (new threads get the next number) -/
def threadNoOf (s : St) (th : Nat) : Nat × St :=
  match s.threadNos.find? fun e => e.1 = th with
  | some e => (e.2, s)
  | none => (s.nextThreadNo, { s with nextThreadNo := s.nextThreadNo + 1, threadNos := s.threadNos ++ [(th, s.nextThreadNo)] })

/-- task number of a new task within thread number `tn` -/
def taskNoOf (s : St) (tn : Nat) : Nat × St :=
  match s.taskCounters.find? fun e => e.1 = tn with
  | some e => (e.2, { s with taskCounters := s.taskCounters.map fun x => if x.1 = tn then (tn, e.2 + 1) else x })
  | none => (1, { s with taskCounters := s.taskCounters ++ [(tn, 2)] })

/-- events emitted while an exception unwinds the open blocks of a phase (innermost first) -/
def unwind (t : Nat) : Phase → List Ev
  | .numbered | .idle | .callDrawn _ => []
  | .call c => [.endCall t c.callNo]
  | .cmdloop c | .promptDrawn c _ => [.endCmdloop t c.callNo, .endCall t c.callNo]
  | .prompt c p => [.endPrompt t p 0, .endCmdloop t c.callNo, .endCall t c.callNo]      -- `command = ''`

/-- the actions by which an exception (KeyboardInterrupt delivered into a prompt, `BdbQuit`, …) unwinds a phase: every
`with` block emits its end event on the way out, one event per step — other entities may act in between -/
def unwindActs : Phase → List Act
  | .numbered | .idle | .callDrawn _ => []
  | .call _ => [.leave]
  | .cmdloop _ | .promptDrawn _ _ => [.endLoop, .leave]
  | .prompt _ _ => [.answer 0, .endLoop, .leave]

def step (s : St) (e : Ent) : Act → Option St
  | .drawIds =>
    -- first accepted frame event of an entity that has no live trace
    match findTrace s.traces e, findNewcomer s.newcomers e with
    | none, none =>
      let (tn, sa) := threadNoOf s e.thread
      let (tk, sb) : Option Nat × St := match e.task with
        | none => (none, sa)
        | some _ => let (k, sb) := taskNoOf sa tn; (some k, sb)
      some { sb with newcomers := sb.newcomers ++ [{ ent := e, threadNo := tn, taskNo := tk }] }
    | _, _ => none
  | .drawTrace =>
    match findNewcomer s.newcomers e with
    | some n =>
      let tr : TraceSt := { ent := e, traceNo := s.nextTrace, threadNo := n.threadNo, taskNo := n.taskNo }
      some { s with newcomers := s.newcomers.filter (fun x => x.ent ≠ e), traces := s.traces ++ [tr], nextTrace := s.nextTrace + 1 }
    | none => none
  | .emitStart =>
    match findTrace s.traces e with
    | some tr => (match tr.phase with
      | .numbered => some { s with traces := setTrace s.traces { tr with phase := .idle },
                                   out := s.out ++ [.startTrace tr.traceNo tr.threadNo tr.taskNo] }
      | _ => none)
    | none => none
  | .drawCall file line frame event =>
    match findTrace s.traces e with
    | some tr => (match tr.phase with
      | .idle =>
        let c : CallInfo := { callNo := s.nextCall, file := file, line := line, frame := frame, event := event }
        some { s with traces := setTrace s.traces { tr with phase := .callDrawn c }, nextCall := s.nextCall + 1 }
      | _ => none)                                       -- no nested trace calls within one trace
    | none => none
  | .emitCall =>
    match findTrace s.traces e with
    | some tr => (match tr.phase with
      | .callDrawn c => some { s with traces := setTrace s.traces { tr with phase := .call c }, out := s.out ++ [.startCall tr.traceNo c] }
      | _ => none)
    | none => none
  | .stop =>
    match findTrace s.traces e with
    | some tr => (match tr.phase with
      | .call c => some { s with traces := setTrace s.traces { tr with phase := .cmdloop c },
                                  out := s.out ++ [.startCmdloop tr.traceNo c.callNo] }
      | _ => none)
    | none => none
  | .stopRefused =>
    match findTrace s.traces e with
    | some tr => (match tr.phase with | .idle => some s | _ => none)
    | none => some s
  | .drawPrompt =>
    match findTrace s.traces e with
    | some tr => (match tr.phase with
      | .cmdloop c => some { s with traces := setTrace s.traces { tr with phase := .promptDrawn c s.nextPrompt },
                                       nextPrompt := s.nextPrompt + 1 }
      | _ => none)
    | none => none
  | .emitPrompt text =>
    match findTrace s.traces e with
    | some tr => (match tr.phase with
      | .promptDrawn c p => some { s with traces := setTrace s.traces { tr with phase := .prompt c p },
                                          out := s.out ++ [.startPrompt tr.traceNo c.callNo p text] }
      | _ => none)
    | none => none
  | .answer cmd =>
    match findTrace s.traces e with
    | some tr => (match tr.phase with
      | .prompt c p => some { s with traces := setTrace s.traces { tr with phase := .cmdloop c },
                                      out := s.out ++ [.endPrompt tr.traceNo p cmd] }
      | _ => none)
    | none => none
  | .endLoop =>
    match findTrace s.traces e with
    | some tr => (match tr.phase with
      | .cmdloop c | .promptDrawn c _ =>
        some { s with traces := setTrace s.traces { tr with phase := .call c }, out := s.out ++ [.endCmdloop tr.traceNo c.callNo] }
      | _ => none)
    | none => none
  | .leave =>
    match findTrace s.traces e with
    | some tr => (match tr.phase with
      | .call c => some { s with traces := setTrace s.traces { tr with phase := .idle }, out := s.out ++ [.endCall tr.traceNo c.callNo] }
      | _ => none)
    | none => none
  | .finish =>
    match findTrace s.traces e with
    | some tr => (match tr.phase with
      | .idle => some { s with traces := setTrace s.traces { tr with ended := true }, out := s.out ++ [.endTrace tr.traceNo] }
      | _ => none)
    | none => none
  | .write text =>
    match findTrace s.traces e with
    | some tr => some { s with out := s.out ++ [.stdout tr.traceNo text] }
    | none => some s                                   -- no current trace: not reported

def run (s : St) : List (Ent × Act) → Option St
  | [] => some s
  | (e, a) :: ls => match step s e a with
    | some s' => run s' ls
    | none => none

end NLV.Trace
