/-!
# Model I — done-callbacks (`nextline/utils/done_callback/{thread,task,union}.py`)

`ThreadDoneCallback`: a monitor thread scans the set of registered threads; other threads register
and die at arbitrary moments.  The monitor is split at every access to shared state; the two
`with self._lock:` blocks are atomic steps (the lock is held only there and by `register`).
`TaskDoneCallback`: registration is idempotent; asyncio invokes the done-callback of a finished task once.

Threads and tasks are identified by natural numbers.
-/
namespace NLV.Done

/-- monitor program counter -/
inductive PC where
  | scan                          -- about to take the lock and compute `done`
  | calling (rest : List Nat)     -- calling `self._done(d)` for the remaining members of `done`
  | remove                        -- about to take the lock and do `self._active = self._active - done`
  | readClosed                    -- `time.sleep`, then `closed = self._closed` (read BEFORE `_active`, see fix F-I2)
  | checkActive (closed : Bool)   -- `if self._active: continue`, else `if closed: break`
  | exited
  deriving DecidableEq, Repr, BEq

structure St where
  alive : List Nat := []          -- threads that have been started and have not ended
  dead : List Nat := []           -- threads that have ended
  active : List Nat := []         -- `self._active`
  done : List Nat := []           -- the monitor's local `done`
  pc : PC := .scan
  closed : Bool := false          -- `self._closed`
  closeReturned : Bool := false
  raising : List Nat := []        -- threads for which the callback raises (scenario parameter)
  excs : List Nat := []           -- exceptions collected by the monitor
  reraised : Option Nat := none   -- what `close()` raised
  -- ghost
  registered : List Nat := []     -- every thread ever registered, in order
  called : List Nat := []         -- callback invocations, in order
  deriving DecidableEq, Repr, BEq

inductive Label where
  | start (t : Nat)               -- a thread starts running
  | die (t : Nat)                 -- a thread ends
  | register (t : Nat)            -- `register(t)` (under the lock)
  | mon                           -- the monitor thread takes its next step (other than a callback)
  | call (t : Nat)                -- the monitor calls `self._done(t)` for some member of `done` (set order is arbitrary)
  | closeCall                     -- `close()` sets `_closed`
  | closeRet                      -- `close()` returns: the monitor thread has been joined
  deriving DecidableEq, Repr

def addSet (l : List Nat) (t : Nat) : List Nat := if t ∈ l then l else l ++ [t]

def step (s : St) : Label → Option St
  | .start t => if t ∈ s.alive ∨ t ∈ s.dead then none else some { s with alive := s.alive ++ [t] }
  | .die t => if t ∈ s.alive then some { s with alive := s.alive.erase t, dead := s.dead ++ [t] } else none
  | .register t =>
    if t ∈ s.alive ∨ t ∈ s.dead then
      some { s with active := addSet s.active t, registered := addSet s.registered t }
    else none
  | .mon =>
    match s.pc with
    | .scan =>
      let d := s.active.filter fun t => t ∉ s.alive       -- `not t.is_alive()`
      if d.isEmpty then some { s with done := [], pc := .readClosed }
      else some { s with done := d, pc := .calling d }
    | .calling [] => some { s with pc := .remove }
    | .calling _ => none
    | .remove => some { s with active := s.active.filter (fun t => t ∉ s.done), pc := .readClosed }
    | .readClosed => some { s with pc := .checkActive s.closed }
    | .checkActive c =>
      if !s.active.isEmpty then some { s with pc := .scan }
      else if c then some { s with pc := .exited }
      else some { s with pc := .scan }
    | .exited => none
  | .call t =>
    match s.pc with
    | .calling rest =>
      if t ∈ rest then
        some { s with called := s.called ++ [t], excs := if t ∈ s.raising then s.excs ++ [t] else s.excs,
                      pc := .calling (rest.erase t) }
      else none
    | _ => none
  | .closeCall => if s.closed then none else some { s with closed := true }
  | .closeRet =>
    if s.closed ∧ s.pc = .exited ∧ !s.closeReturned then
      some { s with closeReturned := true, reraised := s.excs.head? }
    else none

def run (s : St) : List Label → Option St
  | [] => some s
  | l :: ls => match step s l with
    | some s' => run s' ls
    | none => none

/-- number of callback invocations for `t` -/
def calls (s : St) (t : Nat) : Nat := s.called.count t

/-! ## `TaskDoneCallback` -/

structure TSt where
  finished : List Nat := []       -- tasks that are done
  active : List Nat := []         -- `self._active`
  scheduled : List Nat := []      -- done-callbacks asyncio still has to invoke
  called : List Nat := []
  registered : List Nat := []
  deriving DecidableEq, Repr, BEq

inductive TLabel where
  | register (t : Nat)
  | finish (t : Nat)              -- the task completes: asyncio schedules its done-callbacks
  | callback (t : Nat)            -- the event loop invokes `_callback(task)`
  deriving DecidableEq, Repr

def tstep (s : TSt) : TLabel → Option TSt
  | .register t =>
    if t ∈ s.active then some s                    -- idempotent
    else
      some { s with active := s.active ++ [t], registered := addSet s.registered t,
                    -- `add_done_callback` on a task that is already done schedules the callback at once
                    scheduled := if t ∈ s.finished then s.scheduled ++ [t] else s.scheduled }
  | .finish t =>
    if t ∈ s.finished then none
    else some { s with finished := s.finished ++ [t],
                       scheduled := if t ∈ s.active then s.scheduled ++ [t] else s.scheduled }
  | .callback t =>
    if t ∈ s.scheduled then
      some { s with scheduled := s.scheduled.erase t, active := s.active.erase t, called := s.called ++ [t] }
    else none

def trun (s : TSt) : List TLabel → Option TSt
  | [] => some s
  | l :: ls => match tstep s l with
    | some s' => trun s' ls
    | none => none

end NLV.Done
