/-!
# Model H — `nextline.utils.run.run_in_process` / `RunningProcess.__await__`

What awaiting the handle yields for each way the child can end, and what has been cleaned up by then.
The control flow of `_run` (an `AsyncExitStack` with the optional logging listener, the executor, `await future`
with its three `except` arms, `executor.shutdown` in a thread in `finally`) is modelled as a function from the
outcome class of the child to the list of actions performed and the pair `(ret, exc)`.
`concurrent.futures`/`multiprocessing` behaviour (what the future resolves to for each way of dying) is
*modelled, not verified* — it is what the real-process sweep of the C17 check exercises.
-/
namespace NLV.RunProc

/-- how the function in the child ends -/
inductive Outcome where
  | returned (picklable : Bool)         -- func returns a value
  | raised (picklable : Bool)           -- func raises an exception (picklable or not: a dynamic class)
  | systemExit                          -- func calls sys.exit()
  | keyboardInterruptUncaught           -- SIGINT while func runs, not caught by func
  | hardExit (code : Nat)               -- os._exit(code)
  | killedBySignal (sig : Nat)          -- SIGTERM / SIGKILL, or SIGINT outside func (boot, idle)
  deriving DecidableEq, Repr

/-- what `await future` does in the parent -/
inductive FutureResult where
  | value                               -- the result arrives
  | exception (cls : String)            -- an exception is set on the future
  | brokenPool                          -- `BrokenProcessPool`: the worker died
  deriving DecidableEq, Repr

/-- concurrent.futures: how the future resolves (modelled) -/
def futureOf : Outcome → FutureResult
  | .returned true => .value
  | .returned false => .exception "PicklingError"          -- the worker cannot send the result
  | .raised true => .exception "UserException"
  | .raised false => .exception "PicklingError"
  | .systemExit => .exception "SystemExit"                  -- `_process_worker` catches BaseException and sends it back
  | .keyboardInterruptUncaught => .exception "KeyboardInterrupt"
  | .hardExit _ => .brokenPool
  | .killedBySignal _ => .brokenPool

inductive Action where
  | startListener | createExecutor | submit | awaitFuture | shutdownInThread | stopListener
  deriving DecidableEq, Repr

structure Result where
  ret : Bool              -- `returned` is not None
  exc : Option String     -- class of `raised`
  actions : List Action
  raisedOut : Bool        -- awaiting the handle raised (never)
  deriving DecidableEq, Repr

/-- `_run()` followed by `RunningProcess.__await__` -/
def await (logging : Bool) (o : Outcome) : Result :=
  let pre := (if logging then [Action.startListener] else []) ++ [.createExecutor, .submit, .awaitFuture]
  let post := [Action.shutdownInThread] ++ (if logging then [Action.stopListener] else [])
  match futureOf o with
  | .value => { ret := true, exc := none, actions := pre ++ post, raisedOut := false }
  | .exception c => { ret := false, exc := some c, actions := pre ++ post, raisedOut := false }      -- `except BaseException as e`
  | .brokenPool => { ret := false, exc := none, actions := pre ++ post, raisedOut := false }       -- `except BrokenProcessPool: pass`

end NLV.RunProc
