import NLV.Generated.Config
/-!
# Model A (serial) — lifecycle of a `Nextline` object at the level of its public API
(`main.py`, `imp.py`, `continuous.py`, `fsm/machine.py`, `fsm/callback.py`, `plugin/plugins/argument.py`,
`plugin/plugins/session/session.py`, the state/run registrars)

One operation = one API call (or one action of the environment: the child emits a prompt, the child exits)
run to quiescence.  This is the model of **serial histories**: a lifecycle call is issued only when no other
lifecycle call is in progress — except that a call may *block* on the environment (`close()` while running and
`run_continue_and_wait()` wait for the child to exit) and completes during a later environment operation.
Which (trigger, source) pairs are valid, and their destinations, come from `NLV.Generated.Config`, regenerated
from `nextline/fsm/config.py` on every run.
-/
namespace NLV.Life
open NLV.Generated

/-- machine states are indices into `Generated.states`; the names used below -/
def sCreated := "created"
def sInitialized := "initialized"
def sRunning := "running"
def sFinished := "finished"
def sClosed := "closed"

/-- destination of a trigger from a state according to the generated table (`none` = invalid: `MachineError`);
`some none` = internal transition -/
def dest (trigger src : String) : Option (Option String) :=
  (Generated.transitions.find? fun t => t.trigger = trigger ∧ t.source = src).map (·.dest)

inductive Err where
  | machineError | assertionError | runtimeError | lookupError
  deriving DecidableEq, Repr

/-- observations produced by an operation, in order -/
inductive Obs where
  | ret (call : String) (err : Option Err)        -- a call returned (normally / with an exception)
  | blocked (call : String)                       -- the call is waiting for the environment
  | pubState (s : String)                         -- `state_name`
  | pubRunNo (n : Nat)
  | pubRunInfo (n : Nat) (state : String)
  | pubStatement (stmt : Nat)
  | pubCont (b : Bool)                            -- continuous-enabled flag
  | hook (name state : String) (runArg : Bool)    -- seen by a plugin registered through `Nextline.register`
  | childStart (runNo stmt : Nat) (tt tm : Bool)  -- the arguments the child was started with
  | childSignal (kind : String)
  | command                                       -- a Pdb command reached the child's incoming queue
  | brokerClosed                                  -- `pubsub.close()`: every subscription handed out so far ends
  deriving DecidableEq, Repr

structure RunArg where
  runNo : Nat
  stmt : Nat
  tt : Bool
  tm : Bool
  deriving DecidableEq, Repr

structure St where
  ms : String := sCreated
  started : Bool := false
  closedFlag : Bool := false
  -- RunArgComposer
  stmt : Nat := 0
  nextRunNo : Nat := 1
  tt : Bool := false
  tm : Bool := false
  runArg : Option RunArg := none
  -- Continuous
  cont : Option Bool := none           -- latest published flag (`none`: nothing published yet)
  contClosed : Bool := false
  contPlugins : Nat := 0               -- registered `Continue` plugins
  -- session
  childAlive : Bool := false
  everRan : Bool := false              -- `context.send_command` is set from the first run on
  lastResult : Option (Option Nat) := none   -- `exited_process`: none = no finished run; some r = its result
  -- blocked calls
  waitBlocked : Bool := false          -- `run_continue_and_wait()` waits for the run to finish
  closeBlocked : Bool := false         -- `close()` waits for the run to finish
  -- ghost
  children : Nat := 0                  -- children ever started
  deriving DecidableEq, Repr

inductive Op where
  | start | run | runAndContinue | runContinueAndWait
  | reset (stmt : Option Nat) (runNoFrom : Option Nat) (tt tm : Option Bool)
  | close
  | signal (kind : String)             -- interrupt / terminate / kill
  | sendCommand
  | childPrompt                        -- environment: the child emits a prompt (start of a trace call etc.)
  | childExit (result : Option Nat)    -- environment: the child exits (`none`: killed / hard exit, no result)
  deriving DecidableEq, Repr

abbrev Out := List Obs

/-- `initialize_run` + `on_initialize_run` + the `after` publication -/
def enterInitialized (s : St) : St × Out :=
  let ra : RunArg := { runNo := s.nextRunNo, stmt := s.stmt, tt := s.tt, tm := s.tm }
  ({ s with ms := sInitialized, runArg := some ra, nextRunNo := s.nextRunNo + 1 },
   [.pubRunNo ra.runNo, .pubRunInfo ra.runNo sInitialized, .hook "on_initialize_run" sInitialized true,
    .pubState sInitialized])

/-- `start_run`: spawn the child, `on_start_run`, publish `running` -/
def enterRunning (s : St) : St × Out :=
  match s.runArg with
  | none => (s, [])      -- unreachable in serial histories (`assert context.run_arg`)
  | some ra =>
    ({ s with ms := sRunning, childAlive := true, everRan := true, lastResult := none, children := s.children + 1 },
     [.childStart ra.runNo ra.stmt ra.tt ra.tm, .pubRunInfo ra.runNo sRunning, .hook "on_start_run" sRunning true,
      .pubState sRunning])

/-- the run ends: `on_end_run`, `finish` trigger, `on_finished` (the `Continue` plugins unregister themselves
and publish `False`), publication of `finished` -/
def finishRun (s : St) (result : Option Nat) : St × Out :=
  let rn := match s.runArg with | some ra => ra.runNo | none => 0
  let contOut : Out := (List.replicate s.contPlugins (Obs.pubCont false))
  ({ s with ms := sFinished, childAlive := false, runArg := none, lastResult := some result,
            contPlugins := 0, cont := if s.contPlugins > 0 then some false else s.cont },
   [.pubRunInfo rn sFinished, .hook "on_end_run" sRunning true, .hook "on_finished" sFinished false] ++ contOut ++
   [.pubState sFinished])

/-- the part of `close()` after the run (if any) has finished: the `close` trigger and `Continuous.close()` -/
def doCloseTrigger (s : St) : St × Out :=
  match dest "close" s.ms with
  | none => (s, [.ret "close" (some .machineError)])
  | some none => ({ s with contClosed := true }, [.ret "close" none])          -- internal transition from `closed`
  | some (some d) => ({ s with ms := d, contClosed := true }, [.pubState d, .ret "close" none])

/-- `Continuous._enable()` … `run()`; `wait`: `run_continue_and_wait` -/
def contRun (s : St) (call : String) (wait : Bool) : St × Out :=
  if s.contClosed then (s, [.ret call (some .runtimeError)]) else       -- publish on a closed item
  let was := s.cont.getD false
  let s1 := { s with cont := some true, contPlugins := s.contPlugins + 1 }
  match dest "run" s1.ms with
  | some (some _) =>
    let (s2, o) := enterRunning s1
    if wait then ({ s2 with waitBlocked := true }, [.pubCont true] ++ o ++ [.blocked call])
    else (s2, [.pubCont true] ++ o ++ [.ret call none])
  | _ =>
    -- refused: undo the registration; publish False unless another continuous run is in progress
    let s2 := { s1 with contPlugins := s.contPlugins, cont := if was then some true else some false }
    (s2, [.pubCont true] ++ (if was then [] else [.pubCont false]) ++ [.ret call (some .machineError)])

def step (s : St) : Op → St × Out
  | .start =>
    if s.started then (s, [.ret "start" none]) else
    let s := { s with started := true }
    if s.contClosed then (s, [.ret "start" (some .runtimeError)]) else
    let s := { s with cont := some false }
    match dest "initialize" s.ms with
    | some (some _) =>
      let (s', o) := enterInitialized s
      (s', [.pubCont false, .pubStatement s.stmt] ++ o ++ [.ret "start" none])
    | _ => (s, [.pubCont false, .ret "start" (some .machineError)])
  | .run =>
    match dest "run" s.ms with
    | some (some _) => let (s', o) := enterRunning s; (s', o ++ [.ret "run" none])
    | _ => (s, [.ret "run" (some .machineError)])
  | .runAndContinue => contRun s "run_and_continue" false
  | .runContinueAndWait => contRun s "run_continue_and_wait" true
  | .reset st rn tt tm =>
    match dest "reset" s.ms with
    | some (some _) =>
      let s1 := { s with stmt := st.getD s.stmt, nextRunNo := rn.getD s.nextRunNo, tt := tt.getD s.tt, tm := tm.getD s.tm }
      let (s2, o) := enterInitialized s1
      (s2, (match st with | some x => [Obs.pubStatement x] | none => []) ++ o ++ [.ret "reset" none])
    | _ => (s, [.ret "reset" (some .machineError)])
  | .close =>
    if s.closedFlag then (s, [.ret "close" none]) else
    let s := { s with closedFlag := true }
    if s.ms = sRunning then ({ s with closeBlocked := true }, [.brokerClosed, .blocked "close"])
    else let (s', o) := doCloseTrigger s; (s', [.brokerClosed] ++ o)
  | .signal kind =>
    if s.childAlive then (s, [.childSignal kind, .ret kind none])
    else (s, [.ret kind (some .assertionError)])
  | .sendCommand =>
    if s.everRan then (s, [.command, .ret "send_pdb_command" none])
    else (s, [.ret "send_pdb_command" (some .assertionError)])
  | .childPrompt =>
    if s.childAlive then
      -- every registered `Continue` plugin answers the prompt
      (s, [.hook "on_start_prompt" sRunning true] ++ List.replicate s.contPlugins Obs.command)
    else (s, [])
  | .childExit result =>
    if !s.childAlive then (s, []) else
    let (s1, o1) := finishRun s result
    let (s2, o2) := if s1.waitBlocked then ({ s1 with waitBlocked := false }, [Obs.ret "run_continue_and_wait" none]) else (s1, [])
    let (s3, o3) := if s2.closeBlocked then
        let (s', o) := doCloseTrigger { s2 with closeBlocked := false }; (s', o)
      else (s2, [])
    (s3, o1 ++ o2 ++ o3)

def run (s : St) : List Op → St × Out
  | [] => (s, [])
  | op :: ops => let (s1, o1) := step s op; let (s2, o2) := run s1 ops; (s2, o1 ++ o2)

/-- lifecycle calls (as opposed to environment actions, signals and commands) -/
def Op.isLifecycle : Op → Bool
  | .start | .run | .runAndContinue | .runContinueAndWait | .reset _ _ _ _ | .close => true
  | _ => false

/-- a history is serial if no lifecycle call is issued while another one is blocked -/
def serialFrom (s : St) : List Op → Bool
  | [] => true
  | op :: ops => (!(op.isLifecycle && (s.waitBlocked || s.closeBlocked))) && serialFrom (step s op).1 ops

end NLV.Life
