/-!
# Model K2 — cleaning of the traceback of an uncaught exception
(`spawned/runner.py:_remove_frame`, `plugins/compose.py:CallableComposer.clean_exception`,
 `plugins/local_.py:LocalTraceFunc.clean_exception`)

A traceback is the list of its frames, outermost first; a frame is represented by the module it belongs to.
-/
namespace NLV.Tb

inductive Mod where
  | runner        -- `nextline.spawned.runner` (the frame of `_compile_and_run`)
  | compose       -- `nextline.spawned.plugin.plugins.compose` (where the script is compiled)
  | utils         -- `nextline.spawned.utils` (`WithContext`: the first frame of the trace function)
  | nextline      -- any other Nextline / pluggy / pdb / queue frame below the trace function
  | user          -- the user's script or callable (and whatever it calls)
  deriving DecidableEq, Repr

inductive ExcKind where
  | syntaxError | keyboardInterrupt | other
  deriving DecidableEq, Repr

abbrev Traceback := List Mod

/-- `_remove_frame(exc, frame=currentframe())`: drop the head if it is the runner's own frame -/
def removeFrame : Traceback → Traceback
  | .runner :: rest => rest
  | tb => tb

/-- `CallableComposer.clean_exception`: a SyntaxError whose traceback passes through the compose module loses its
(Nextline-only) traceback: `exc.__traceback__ = tb.tb_next` at the last node, i.e. `None` -/
def cleanSyntax (k : ExcKind) (tb : Traceback) : Traceback :=
  if k = .syntaxError ∧ .compose ∈ tb then [] else tb

/-- `LocalTraceFunc.clean_exception`: a KeyboardInterrupt is cut before the first frame of the trace function:
walk while the *next* frame is not in the `WithContext` module -/
def cutAtUtils : Traceback → Traceback
  | [] => []
  | [f] => [f]
  | f :: g :: rest => if g = .utils then [f] else f :: cutAtUtils (g :: rest)

def cleanKbd (k : ExcKind) (tb : Traceback) : Traceback :=
  if k = .keyboardInterrupt then cutAtUtils tb else tb

/-- `_compile_and_run`'s `except BaseException` arm: `_remove_frame` then the `clean_exception` hook (both
implementations run; their order does not matter because they act on disjoint exception kinds) -/
def clean (k : ExcKind) (tb : Traceback) : Traceback :=
  cleanKbd k (cleanSyntax k (removeFrame tb))

def isNextline : Mod → Bool
  | .user => false
  | _ => true

end NLV.Tb
