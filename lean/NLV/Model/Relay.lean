/-!
# Model F — relay of the child's events to the main-process plugins
(`plugin/plugins/session/session.py`: `RunSession.run`, `relay_events`; `session/monitor.py`)

The channel is a FIFO.  The monitor task takes one event at a time and awaits the whole hook fan-out before it
takes the next.  The session issues `on_start_run` after the child has been created, waits for the child, then
leaves `relay_events`: the drain loop spins while the channel is non-empty (it may give up on a time-out), the
sentinel is queued *behind* whatever is still in the channel, the monitor task is awaited, and only then
`on_end_run` is issued.  A kill cuts the channel: what the child had not yet written is lost.
Events are natural numbers (their position in the child's emission order is what matters).
-/
namespace NLV.Relay

inductive Item where
  | ev (n : Nat)
  | sentinel
  deriving DecidableEq, Repr

inductive Mon where
  | idle                      -- blocked in `queue.get()`
  | handling (n : Nat)        -- awaiting `on_event_in_process` for event `n`
  | exited
  deriving DecidableEq, Repr

inductive Sess where
  | creating                  -- inside `relay_events`, before `run_in_process` returned
  | childCreated              -- child exists, `on_start_run` not yet issued
  | started                   -- `on_start_run` issued; waiting for the child (`yield` … `await running_process`)
  | draining                  -- child exited; `while not queue.empty()` loop
  | sentinelQueued            -- `queue.put(None)` done; `await task`
  | endRunIssued              -- monitor joined; `on_end_run` issued
  deriving DecidableEq, Repr

inductive Obs where
  | startRun | deliver (n : Nat) | endRun
  deriving DecidableEq, Repr

structure St where
  chan : List Item := []          -- the queue, head first
  emitted : List Nat := []        -- ghost: everything the child put on the queue, in order
  lost : Bool := false            -- a kill cut the stream
  childAlive : Bool := false
  mon : Mon := .idle
  sess : Sess := .creating
  log : List Obs := []            -- what a plugin observes, in order
  deriving DecidableEq, Repr

inductive Label where
  | createChild               -- `run_in_process` returns
  | issueStartRun             -- `on_start_run` fan-out (atomic for the observer)
  | emit (n : Nat)            -- the child puts an event on the queue
  | childExit                 -- the child exits normally (everything it emitted is in the queue); may precede `on_start_run`
  | kill (keep : Nat)         -- the child is killed: only the first `keep` not-yet-dequeued items survive
  | awaitChild                -- `await context.running_process` returns: the session enters the drain loop
  | monGet                    -- the monitor dequeues the head
  | monDone                   -- the hook fan-out for the event in hand completes
  | drainGiveUp               -- the drain loop ends (queue empty, or the timer expired) and the sentinel is queued
  | joinMonitor               -- `await task` returns (the monitor has exited) and `on_end_run` is issued
  deriving DecidableEq, Repr

def step (s : St) : Label → Option St
  | .createChild => if s.sess = .creating then some { s with sess := .childCreated, childAlive := true } else none
  | .issueStartRun => if s.sess = .childCreated then some { s with sess := .started, log := s.log ++ [.startRun] } else none
  | .emit n => if s.childAlive then some { s with chan := s.chan ++ [.ev n], emitted := s.emitted ++ [n] } else none
  | .childExit => if s.childAlive then some { s with childAlive := false } else none
  | .kill keep => if s.childAlive then some { s with childAlive := false, chan := s.chan.take keep, lost := true } else none
  | .awaitChild => if s.sess = .started ∧ s.childAlive = false then some { s with sess := .draining } else none
  | .monGet =>
    match s.mon, s.chan with
    | .idle, .ev n :: rest => some { s with mon := .handling n, chan := rest }
    | .idle, .sentinel :: rest => some { s with mon := .exited, chan := rest }
    | _, _ => none
  | .monDone =>
    match s.mon with
    | .handling n => some { s with mon := .idle, log := s.log ++ [.deliver n] }
    | _ => none
  | .drainGiveUp => if s.sess = .draining then some { s with sess := .sentinelQueued, chan := s.chan ++ [.sentinel] } else none
  | .joinMonitor =>
    if s.sess = .sentinelQueued ∧ s.mon = .exited then some { s with sess := .endRunIssued, log := s.log ++ [.endRun] } else none

def run (s : St) : List Label → Option St
  | [] => some s
  | l :: ls => match step s l with
    | some s' => run s' ls
    | none => none

def delivered (log : List Obs) : List Nat := log.filterMap fun | .deliver n => some n | _ => none

/-- events still in the channel -/
def inChan (c : List Item) : List Nat := c.filterMap fun | .ev n => some n | .sentinel => none

/-- the premise of "all events are delivered after the run-start notification": the monitor does not dequeue the
child's first event before `on_start_run` has been issued (the child must boot an interpreter first) -/
def StartAck : St → List Label → Prop
  | _, [] => True
  | s, l :: ls =>
    (l = Label.monGet → s.sess ≠ Sess.creating ∧ s.sess ≠ Sess.childCreated) ∧
    match step s l with
    | some s' => StartAck s' ls
    | none => True

end NLV.Relay
