/-!
# Model C — the registrars of the main process
(`nextline/plugin/plugins/registrars/*.py`, dispatched by `session/monitor.py:OnEvent`)

Each hook implementation is one atomic step (DESIGN F2); a hook call returns the list of
pub/sub operations its implementations perform.  Strings (file names, event names, prompt
texts, commands, script) are interned as natural numbers by the harness.

Association lists model the Python dicts (insertion ordered).
-/
namespace NLV.Reg

/-! ### association lists -/

def alGet {β : Type} (l : List (Nat × β)) (k : Nat) : Option β :=
  (l.find? fun e => e.1 = k).map (·.2)

def alErase {β : Type} (l : List (Nat × β)) (k : Nat) : List (Nat × β) :=
  l.filter fun e => e.1 ≠ k

/-- `d[k] = v` -/
def alSet {β : Type} (l : List (Nat × β)) (k : Nat) (v : β) : List (Nat × β) :=
  match l with
  | [] => [(k, v)]
  | (k', v') :: rest => if k' = k then (k, v) :: rest else (k', v') :: alSet rest k v

/-! ### events emitted by the child (fields the registrars read) -/

structure CallInfo where
  callNo : Nat
  file : Nat
  line : Nat
  frame : Nat
  event : Nat
  deriving DecidableEq, Repr

inductive Ev where
  | startTrace (t thread : Nat) (task : Option Nat)
  | endTrace (t : Nat)
  | startCall (t : Nat) (c : CallInfo)
  | endCall (t callNo : Nat)
  | startCmdloop (t callNo : Nat)
  | endCmdloop (t callNo : Nat)
  | startPrompt (t callNo p text : Nat)
  | endPrompt (t p cmd : Nat)
  | stdout (t text : Nat)
  deriving DecidableEq, Repr

inductive Hook where
  | initRun (runNo : Nat) (script : Option Nat)
  | startRun
  | event (e : Ev)
  | endRun (ret exc : Nat)
  deriving Repr

/-! ### published values -/

structure TraceInfo where
  runNo : Nat
  traceNo : Nat
  threadNo : Nat
  taskNo : Option Nat
  running : Bool
  deriving DecidableEq, Repr

structure PromptInfo where
  runNo : Nat
  traceNo : Nat
  promptNo : Int            -- `-1` for the place-holders
  isOpen : Bool
  event : Option Nat := none
  file : Option Nat := none
  line : Option Nat := none
  text : Option Nat := none
  command : Option Nat := none
  callEnd : Bool := false
  deriving DecidableEq, Repr

structure PromptNotice where
  runNo : Nat
  traceNo : Nat
  promptNo : Nat
  text : Nat
  event : Nat
  file : Nat
  line : Nat
  deriving DecidableEq, Repr

structure RunInfo where
  runNo : Nat
  state : Nat               -- 0 initialized, 1 running, 2 finished
  script : Option Nat
  result : Option Nat := none
  exc : Option Nat := none
  deriving DecidableEq, Repr

inductive Key where
  | traceNos | traceInfo | promptInfo | promptInfoFor (t : Nat) | promptNotice | runInfo | runNo | stdout
  deriving DecidableEq, Repr

inductive Value where
  | traceNos (l : List Nat)
  | traceInfo (i : TraceInfo)
  | promptInfo (i : PromptInfo)
  | notice (n : PromptNotice)
  | runInfo (i : RunInfo)
  | runNo (n : Nat)
  | stdout (runNo t text : Nat)
  deriving DecidableEq, Repr

inductive PubOp where
  | pub (k : Key) (v : Value)
  | endKey (k : Key)
  deriving DecidableEq, Repr

/-! ### registrar state -/

structure St where
  runNo : Nat := 0
  -- TraceNumbersRegistrar
  traceNos : List Nat := []
  -- TraceInfoRegistrar
  infoMap : List (Nat × TraceInfo) := []
  -- PromptInfoRegistrar
  lastPromptFrame : List (Nat × Nat) := []
  callMap : List (Nat × CallInfo) := []
  promptMap : List (Nat × PromptInfo) := []
  keys : List Nat := []                  -- trace numbers `n` with `prompt_info_<n>` in `_keys`
  -- PromptNoticeRegistrar
  callMap2 : List (Nat × CallInfo) := []
  -- RunInfoRegistrar
  runInfo : Option RunInfo := none
  deriving Repr

def addKey (ks : List Nat) (t : Nat) : List Nat := if t ∈ ks then ks else ks ++ [t]

/-- publish on `prompt_info_<t>` under the lock: add the key, publish -/
def pubFor (st : St) (t : Nat) (i : PromptInfo) : St × List PubOp :=
  ({ st with keys := addKey st.keys t }, [.pub (.promptInfoFor t) (.promptInfo i)])

def onEvent (st : St) : Ev → Option (St × List PubOp)
  | .startTrace t thread task =>
    let nos := st.traceNos ++ [t]
    let info : TraceInfo := { runNo := st.runNo, traceNo := t, threadNo := thread, taskNo := task, running := true }
    let ph : PromptInfo := { runNo := st.runNo, traceNo := t, promptNo := -1, isOpen := false }
    let st := { st with traceNos := nos, infoMap := alSet st.infoMap t info }
    let (st, o) := pubFor st t ph
    some (st, [.pub .traceNos (.traceNos nos), .pub .traceInfo (.traceInfo info)] ++ o)
  | .endTrace t =>
    let nos := st.traceNos.erase t          -- `list.remove`; nothing is published if `t` is absent
    let o1 := if t ∈ st.traceNos then [PubOp.pub .traceNos (.traceNos nos)] else []
    let o2 := match alGet st.infoMap t with
      | some info => [PubOp.pub .traceInfo (.traceInfo { info with running := false })]
      | none => []
    let o3 := if t ∈ st.keys then [PubOp.endKey (.promptInfoFor t)] else []
    some ({ st with traceNos := nos, infoMap := alErase st.infoMap t, keys := st.keys.erase t }, o1 ++ o2 ++ o3)
  | .startCall t c =>
    some ({ st with callMap := alSet st.callMap t c, callMap2 := alSet st.callMap2 t c }, [])
  | .endCall t _ =>
    let st' := { st with callMap := alErase st.callMap t, callMap2 := alErase st.callMap2 t }
    match alGet st.callMap t with
    | none => some (st', [])
    | some c =>
      if some c.frame = alGet st.lastPromptFrame t then
        let i : PromptInfo := { runNo := st.runNo, traceNo := t, promptNo := -1, isOpen := false,
                                event := some c.event, file := some c.file, line := some c.line, callEnd := true }
        let (st'', o) := pubFor st' t i
        some (st'', [.pub .promptInfo (.promptInfo i)] ++ o)
      else some (st', [])
  | .startCmdloop _ _ => some (st, [])
  | .endCmdloop _ _ => some (st, [])
  | .startPrompt t _ p text =>
    match alGet st.callMap t, alGet st.callMap2 t with
    | some c, some c2 =>
      let i : PromptInfo := { runNo := st.runNo, traceNo := t, promptNo := p, isOpen := true,
                              event := some c.event, file := some c.file, line := some c.line, text := some text }
      let n : PromptNotice := { runNo := st.runNo, traceNo := t, promptNo := p, text := text,
                                event := c2.event, file := c2.file, line := c2.line }
      let st := { st with promptMap := alSet st.promptMap p i, lastPromptFrame := alSet st.lastPromptFrame t c.frame }
      let (st, o) := pubFor st t i
      some (st, [.pub .promptNotice (.notice n), .pub .promptInfo (.promptInfo i)] ++ o)
    | _, _ => none                                    -- `KeyError`
  | .endPrompt t p cmd =>
    match alGet st.promptMap p with
    | none => none                                    -- `KeyError`
    | some i =>
      let i' := { i with isOpen := false, command := some cmd }
      let st := { st with promptMap := alErase st.promptMap p }
      let (st, o) := pubFor st t i'
      some (st, [.pub .promptInfo (.promptInfo i')] ++ o)
  | .stdout t text => some (st, [.pub .stdout (.stdout st.runNo t text)])

def step (st : St) : Hook → Option (St × List PubOp)
  | .initRun r script =>
    let ri : RunInfo := { runNo := r, state := 0, script := script }
    some ({ st with runNo := r, traceNos := [], infoMap := [], lastPromptFrame := [], callMap := [],
                    promptMap := [], keys := [], callMap2 := [], runInfo := some ri },
          [.pub .runNo (.runNo r), .pub .runInfo (.runInfo ri)])
  | .startRun =>
    match st.runInfo with
    | none => none                                    -- `assert self._run_info is not None`
    | some ri =>
      let ri := { ri with state := 1 }
      some ({ st with runInfo := some ri }, [.pub .runInfo (.runInfo ri)])
  | .event e => onEvent st e
  | .endRun ret exc =>
    match st.runInfo with
    | none => none
    | some ri =>
      let ri := { ri with state := 2, result := some ret, exc := some exc }
      let o1 := [PubOp.pub .runInfo (.runInfo ri)]
      let o2 := [PubOp.pub .traceNos (.traceNos [])]
      -- `popitem()` is LIFO
      let o3 := st.infoMap.reverse.map fun e => PubOp.pub .traceInfo (.traceInfo { e.2 with running := false })
      let o4 := st.keys.map fun t => PubOp.endKey (.promptInfoFor t)
      let o5 := [PubOp.endKey .promptNotice]
      some ({ st with runInfo := none, traceNos := [], infoMap := [], keys := [] }, o1 ++ o2 ++ o3 ++ o4 ++ o5)

def runHooks (st : St) : List Hook → Option (St × List PubOp)
  | [] => some (st, [])
  | h :: hs =>
    match step st h with
    | none => none
    | some (st', o) =>
      match runHooks st' hs with
      | none => none
      | some (st'', o') => some (st'', o ++ o')

/-! ### well-formed event streams (the grammar of C09, as far as the registrars depend on it) -/

structure W where
  started : List Nat := []
  active : List Nat := []
  calls : List (Nat × CallInfo) := []
  prompts : List (Nat × Nat) := []        -- open prompts: prompt number ↦ trace number
  promptsEver : List Nat := []
  deriving Repr

def wstep (w : W) : Ev → Option W
  | .startTrace t _ _ => if t ∈ w.started then none else some { w with started := w.started ++ [t], active := w.active ++ [t] }
  | .endTrace t =>
    if t ∈ w.active ∧ alGet w.calls t = none then some { w with active := w.active.erase t } else none
  | .startCall t c =>
    if t ∈ w.active ∧ alGet w.calls t = none then some { w with calls := alSet w.calls t c } else none
  | .endCall t n =>
    match alGet w.calls t with
    | some c => if c.callNo = n ∧ (∀ e ∈ w.prompts, e.2 ≠ t) then some { w with calls := alErase w.calls t } else none
    | none => none
  | .startCmdloop t n | .endCmdloop t n =>
    match alGet w.calls t with
    | some c => if c.callNo = n then some w else none
    | none => none
  | .startPrompt t n p _ =>
    match alGet w.calls t with
    | some c =>
      if c.callNo = n ∧ p ∉ w.promptsEver ∧ (∀ e ∈ w.prompts, e.2 ≠ t) then
        some { w with prompts := alSet w.prompts p t, promptsEver := w.promptsEver ++ [p] }
      else none
    | none => none
  | .endPrompt t p _ =>
    if alGet w.prompts p = some t then some { w with prompts := alErase w.prompts p } else none
  | .stdout _ _ => some w

def wrun (w : W) : List Ev → Option W
  | [] => some w
  | e :: es => match wstep w e with
    | none => none
    | some w' => wrun w' es

/-- the stream (or killed prefix of a stream) is well formed -/
def WF (es : List Ev) : Prop := (wrun {} es).isSome

end NLV.Reg
