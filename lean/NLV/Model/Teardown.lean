import NLV.Model.Trace
/-!
# Model D1t — the end of a run in the child: teardown of the trace machinery on top of model D1 (`NLV.Trace`)

`TaskAndThreadKeeper.context` (nextline/spawned/plugin/plugins/concurrency.py), entered last and exited first:

    try: yield                              -- the script runs (model D1)
    finally:
        self._callback.close()              -- returns when every registered thread/task has ended and been called back
        self._closed = True                 -- from here on `filter` rejects every frame: nothing new is traced (F-G8)
        if self._to_end: self._on_end(self._to_end)     -- the main thread's own trace ends last

`close main` is that hidden step: enabled once no entity is between numbering and its trace start and every trace of
another entity than `main` has ended.  After it the only things that can still happen are the end of `main`'s trace and
writes of entities that have no trace (not reported).
-/
namespace NLV.Teardown
open NLV.Trace

structure RSt where
  tr : St := {}
  closed : Bool := false
  main : Option Ent := none
  deriving DecidableEq, Repr

inductive RAct where
  | act (e : Ent) (a : Act)
  | close (main : Option Ent)
  deriving DecidableEq, Repr

/-- `ThreadTaskDoneCallback.close()` has returned: nobody is being numbered, every trace of another entity has ended -/
def othersEnded (s : St) (main : Option Ent) : Bool :=
  s.newcomers.isEmpty && s.traces.all fun t => (some t.ent == main) || t.ended

/-- what can still happen once the context has exited -/
def allowedAfterClose (s : St) (e : Ent) : Act → Bool
  | .finish => true                                   -- `_on_end(self._to_end)`: the main thread's trace ends
  | .write _ => (findTrace s.traces e).isNone         -- text of an entity without a trace: not reported
  | _ => false

def rstep (s : RSt) : RAct → Option RSt
  | .act e a =>
    if s.closed && !allowedAfterClose s.tr e a then none
    else (step s.tr e a).map fun t => { s with tr := t }
  | .close main =>
    if !s.closed && othersEnded s.tr main then some { s with closed := true, main := main } else none

def rrun (s : RSt) : List RAct → Option RSt
  | [] => some s
  | a :: ls => match rstep s a with
    | some s' => rrun s' ls
    | none => none

end NLV.Teardown
