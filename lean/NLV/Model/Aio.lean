/-!
# Model J — async-iterator helpers (`nextline/utils/aio.py`)

`merge_aiters`, `agen_with_wait`, `to_aiter` as labelled transition systems.  The scheduler
and the environment are inputs: a run is a list of labels, so "for every interleaving" is
"for every label list".  Sources are given as the lists of items they will produce.
-/
namespace NLV.Aio

/-! ## `merge_aiters` -/

/-- state of the in-flight `__anext__` task of one source -/
inductive Flight where
  | none            -- no task (source finished and its `StopAsyncIteration` consumed, or item just handed out)
  | pend            -- task created, not completed
  | item (x : Nat)  -- task completed with an item, result not yet consumed
  | stop            -- task completed with `StopAsyncIteration`, not yet consumed
  deriving DecidableEq, Repr, BEq

structure Src where
  all : List Nat          -- ghost: everything the source produces
  rem : List Nat          -- not yet produced
  flight : Flight := .none
  deriving DecidableEq, Repr, BEq

inductive Phase where
  | init                                   -- generator object created, body not entered
  | waiting                                -- suspended in `await asyncio.wait(tasks, FIRST_COMPLETED)`
  | processing (done : List Nat)           -- in `while done:`; `done` = sources whose completed task is in the set
  | yielded (i : Nat) (done : List Nat)    -- suspended at `yield aiter_map[aiter], item`
  | ended
  deriving DecidableEq, Repr, BEq

structure M where
  srcs : List Src
  phase : Phase := .init
  out : List (Nat × Nat) := []             -- what the consumer received: (source index, item)
  deriving DecidableEq, Repr, BEq

inductive Label where
  | start                 -- consumer's first `__anext__`: tasks created for every source
  | complete (i : Nat)    -- source `i`'s pending `__anext__` completes (item or StopAsyncIteration)
  | wake                  -- `asyncio.wait` returns: every task completed so far is in `done`
  | popStop (i : Nat)     -- `done.pop()` gave a task that raised StopAsyncIteration
  | recv (i : Nat)        -- `done.pop()` gave an item: it is yielded to the consumer
  | next                  -- consumer calls `__anext__` again: a new task is created for that source
  | loop                  -- `while done` exhausted: back to `while tasks` (wait again or finish)
  deriving DecidableEq, Repr

def completeSrc (s : Src) : Src :=
  match s.flight with
  | .pend => (match s.rem with
    | x :: r => { s with rem := r, flight := .item x }
    | [] => { s with flight := .stop })
  | _ => s

def isDone (s : Src) : Bool := match s.flight with | .item _ => true | .stop => true | _ => false
def hasTask (s : Src) : Bool := match s.flight with | .none => false | _ => true

/-- indices of sources whose task has completed -/
def doneIdx (l : List Src) : List Nat :=
  (List.range l.length).filter fun i => match l[i]? with | some s => isDone s | none => false

def setFlight (l : List Src) (i : Nat) (f : Flight) : List Src :=
  l.modify i fun s => { s with flight := f }

def mstep (m : M) : Label → Option M
  | .start =>
    match m.phase with
    | .init =>
      if m.srcs.isEmpty then some { m with phase := .ended }
      else some { m with srcs := m.srcs.map fun s => { s with flight := .pend }, phase := .waiting }
    | _ => none
  | .complete i =>
    match m.srcs[i]? with
    | some s => if s.flight = .pend then some { m with srcs := m.srcs.modify i completeSrc } else none
    | none => none
  | .wake =>
    match m.phase with
    | .waiting => let d := doneIdx m.srcs; if d.isEmpty then none else some { m with phase := .processing d }
    | _ => none
  | .popStop i =>
    match m.phase with
    | .processing d =>
      if i ∈ d then
        match m.srcs[i]? with
        | some s => if s.flight = .stop then some { m with srcs := setFlight m.srcs i .none, phase := .processing (d.erase i) } else none
        | none => none
      else none
    | _ => none
  | .recv i =>
    match m.phase with
    | .processing d =>
      if i ∈ d then
        match m.srcs[i]? with
        | some s => (match s.flight with
          | .item x => some { m with srcs := setFlight m.srcs i .none, phase := .yielded i (d.erase i), out := m.out ++ [(i, x)] }
          | _ => none)
        | none => none
      else none
    | _ => none
  | .next =>
    match m.phase with
    | .yielded i d => some { m with srcs := setFlight m.srcs i .pend, phase := .processing d }
    | _ => none
  | .loop =>
    match m.phase with
    | .processing [] => if m.srcs.any hasTask then some { m with phase := .waiting } else some { m with phase := .ended }
    | _ => none

def mrun (m : M) : List Label → Option M
  | [] => some m
  | l :: ls => match mstep m l with
    | some m' => mrun m' ls
    | none => none

def M.new (sources : List (List Nat)) : M := { srcs := sources.map fun s => { all := s, rem := s } }

/-- what the consumer received from source `i`, in order -/
def proj (out : List (Nat × Nat)) (i : Nat) : List Nat := (out.filter fun e => e.1 = i).map (·.2)

def parked (f : Flight) : List Nat := match f with | .item x => [x] | _ => []

/-! ## `agen_with_wait` -/

inductive TaskSt where
  | pend | ok | exc (e : Nat)
  deriving DecidableEq, Repr, BEq

/-- phases of the generator -/
inductive WPhase where
  | waiting                  -- in `await asyncio.wait(pending | {anext}, FIRST_COMPLETED)`
  | yieldedItem              -- suspended at `new = yield item`
  | yieldedSets              -- suspended at `yield tuple(done), tuple(pending)`
  | raised (e : Nat)         -- an awaited task's exception was re-raised
  | ended                    -- wrapped iterator exhausted
  deriving DecidableEq, Repr, BEq

structure Wt where
  all : List Nat                      -- ghost: items of the wrapped iterator
  rem : List Nat
  anext : Flight := .pend             -- the `anext` future (`.none` = cancelled)
  tasks : List TaskSt := []           -- every task ever handed in by `asend`, by index
  pending : List Nat := []            -- the generator's `pending` set (indices)
  done : List Nat := []               -- the generator's `done` set
  phase : WPhase := .waiting
  out : List Nat := []                -- items yielded
  deriving DecidableEq, Repr, BEq

inductive WLabel where
  | completeAnext
  | completeTask (i : Nat) (e : Option Nat)     -- task `i` finishes (`some e` = raises `e`)
  | wake                                        -- `wait` returns and no finished awaited task has an exception
  | wakeRaise (i : Nat)                         -- `wait` returns and the loop over `done_` meets failed task `i` first
  | send (n : Nat)                              -- consumer `asend`s `n` new pending tasks (0 = plain `__anext__`)
  | resume                                      -- consumer resumes the generator after the `(done, pending)` reply
  deriving DecidableEq, Repr

def taskDone (ts : List TaskSt) (i : Nat) : Bool := match ts[i]? with | some .pend => false | some _ => true | none => false
def taskExc (ts : List TaskSt) (i : Nat) : Option Nat := match ts[i]? with | some (.exc e) => some e | _ => none

def wstep (w : Wt) : WLabel → Option Wt
  | .completeAnext =>
    if w.anext = .pend then
      match w.rem with
      | x :: r => some { w with rem := r, anext := .item x }
      | [] => some { w with anext := .stop }
    else none
  | .completeTask i e =>
    match w.tasks[i]? with
    | some .pend => some { w with tasks := w.tasks.set i (match e with | some e => .exc e | none => .ok) }
    | _ => none
  | .wake =>
    match w.phase with
    | .waiting =>
      let doneT := w.pending.filter (taskDone w.tasks)           -- `done_ - {anext}`
      let anextDone := match w.anext with | .item _ => true | .stop => true | _ => false
      if doneT.isEmpty && !anextDone then none else
      if doneT.any fun i => (taskExc w.tasks i).isSome then none else       -- see `wakeRaise`
      match w.anext with
      | .item x =>
        some { w with done := w.done ++ doneT.filter (fun i => i ∉ w.done),
                      pending := w.pending.filter fun i => !taskDone w.tasks i,
                      anext := .none, phase := .yieldedItem, out := w.out ++ [x] }
      | .stop => some { w with anext := .none, phase := .ended }
      | _ => some { w with done := w.done ++ doneT.filter (fun i => i ∉ w.done) }    -- `done |= done_; continue`
    | _ => none
  | .wakeRaise i =>
    match w.phase with
    | .waiting =>
      if i ∈ w.pending then
        match taskExc w.tasks i with
        | some e => some { w with anext := .none, phase := .raised e }        -- `anext.cancel(); raise exc`
        | none => none
      else none
    | _ => none
  | .send n =>
    match w.phase with
    | .yieldedItem =>
      if n = 0 then some { w with anext := .pend, phase := .waiting }
      else
        let new := (List.range n).map (· + w.tasks.length)
        some { w with tasks := w.tasks ++ List.replicate n .pend, pending := w.pending ++ new, phase := .yieldedSets }
    | _ => none
  | .resume =>
    match w.phase with
    | .yieldedSets => some { w with done := [], anext := .pend, phase := .waiting }
    | _ => none

def wrun (w : Wt) : List WLabel → Option Wt
  | [] => some w
  | l :: ls => match wstep w l with
    | some w' => wrun w' ls
    | none => none

def Wt.new (items : List Nat) : Wt := { all := items, rem := items }

/-! ## `to_aiter` : wraps a synchronous iterable -/

/-- one `__anext__`: `some x` is the item, `none` is `StopAsyncIteration`; the state is the rest -/
def toAiterNext (l : List Nat) : Option Nat × List Nat :=
  match l with
  | x :: r => (some x, r)
  | [] => (none, [])

/-- iterate to exhaustion -/
def toAiterAll : List Nat → List Nat
  | [] => []
  | x :: r => x :: toAiterAll r

end NLV.Aio
