/-!
# Model B — `nextline.utils.pubsub.item.PubSubItem` and `broker.PubSub`

Executable, import-free model.  Every operation of the Python class that the
model covers is *atomic* with respect to the asyncio event loop (DESIGN §1, F2:
`Queue.put` on an unbounded queue never suspends), so an interleaving of
publisher / subscriber / closer tasks is a *list of operations*.

Python                                   | model
-----------------------------------------|---------------------------------
`PubSubItem(cache=c)`                    | `Item.new c`
`await item.publish(a)`                  | `Op.publish a`
`item.clear()`                           | `Op.clear`
`await item.aclose()`                    | `Op.aclose`
`item.latest()`                          | `Item.latest`
`g = item.subscribe(last, cache)`        | `Op.subNew last cache` (generator object created, body not started)
one scheduler step of `await g.__anext__()` | `Op.pull i`
`await g.aclose()` / cancelling a pending `__anext__` | `Op.leave i`

Ghost fields (`log`, `since`, `base`, `startPos`) do not influence the
executable behaviour; they state what the specification says a subscriber
must receive.
-/
namespace NLV.PubSub

/-- what travels through a subscriber queue -/
inductive Val (α : Type) where
  | item : α → Val α
  | stop : Val α
  deriving DecidableEq, Repr

/-- `_last_enumerated[1]` : `_START`, an item, or `_END` -/
inductive LastV (α : Type) where
  | start : LastV α
  | item : α → LastV α
  | stop : LastV α
  deriving DecidableEq, Repr

inductive Phase where
  | created   -- generator object exists, body not entered
  | live      -- snapshot taken, queue registered
  | done      -- generator finished, queue removed
  deriving DecidableEq, Repr

/-- items carried by a queue, ignoring the end marker -/
def vals {α} : List (Int × Val α) → List α
  | [] => []
  | (_, .item a) :: q => a :: vals q
  | (_, .stop) :: q => vals q

structure Subscr (α : Type) where
  phase : Phase := .created
  wantLast : Bool := true
  wantCache : Bool := true
  lastIdx : Int := -1
  pre : List α := []                      -- old data still to be yielded
  queue : List (Int × Val α) := []
  got : List α := []                      -- everything yielded so far
  -- ghost
  base : List α := []                     -- what the spec says precedes the new data
  startPos : Nat := 0                     -- `log.length` when the subscription started
  deriving Repr

structure Item (α : Type) where
  idx : Int := -1
  lastEnumIdx : Int := -1
  lastEnumVal : LastV α := .start
  lastItem : Option α := none             -- `none` = `_START`
  cache : Option (List (Int × Val α)) := none
  closed : Bool := false
  subs : List (Subscr α) := []
  -- ghost
  log : List α := []                      -- every item ever published on this object
  since : List α := []                    -- items published since the last `clear`
  deriving Repr

def Item.new {α} (cache : Bool) : Item α := { cache := if cache then some [] else none }

inductive Op (α : Type) where
  | publish (a : α)
  | clear
  | aclose
  | subNew (last cache : Bool)
  | pull (i : Nat)
  | leave (i : Nat)
  deriving Repr

/-- result reported to the caller of an operation -/
inductive Out (α : Type) where
  | ok                       -- returned normally / nothing to report
  | closedError              -- `RuntimeError('… is closed.')`
  | yielded (a : α)          -- `__anext__` returned `a`
  | skipped                  -- a queue entry older than the snapshot was dropped; `__anext__` continues
  | pending                  -- `__anext__` is blocked in `q.get()`
  | stopped                  -- `StopAsyncIteration`
  | noSuchSub
  deriving DecidableEq, Repr

variable {α : Type}

/-- `_enumerate`: bump the index, remember, cache, and put to every registered queue -/
def enumerate (s : Item α) (v : Val α) : Item α :=
  let i := s.idx + 1
  { s with
    idx := i
    lastEnumIdx := i
    lastEnumVal := (match v with | .item a => .item a | .stop => .stop)
    cache := s.cache.map (· ++ [(i, v)])
    subs := s.subs.map fun q =>
      if q.phase = .live then { q with queue := q.queue ++ [(i, v)] } else q }

/-- `bool(cached)` for `cached : list | None` -/
def truthy {β : Type} : Option (List β) → Bool
  | some (_ :: _) => true
  | _ => false

def LastV.toList : LastV α → List α
  | .item a => [a]
  | _ => []

/-- the old data a starting subscriber will yield first, exactly as `subscribe()` computes it -/
def preOf (s : Item α) (last cache : Bool) : List α :=
  let useCache := cache && last && truthy s.cache
  let fromCache : List α :=
    if useCache then vals ((s.cache.getD []).takeWhile fun e => e.1 < s.lastEnumIdx) else []
  let fromLast : List α := if last then s.lastEnumVal.toList else []
  fromCache ++ fromLast

/-- first part of the first `__anext__`: snapshot and registration -/
def startSub (s : Item α) (q : Subscr α) : Subscr α :=
  match s.lastEnumVal with
  | .stop => { q with phase := .done }
  | _ =>
    let pre := preOf s q.wantLast q.wantCache
    { q with phase := .live, lastIdx := s.lastEnumIdx, pre := pre, queue := [], got := q.got,
             base := pre, startPos := s.log.length }

/-- one step of a live generator -/
def pullLive (q : Subscr α) : Subscr α × Out α :=
  match q.pre with
  | a :: pre' => ({ q with pre := pre', got := q.got ++ [a] }, .yielded a)
  | [] =>
    match q.queue with
    | [] => (q, .pending)
    | (_, .stop) :: _ => ({ q with phase := .done, queue := [] }, .stopped)
    | (i, .item a) :: rest =>
      if q.lastIdx < i then ({ q with queue := rest, got := q.got ++ [a] }, .yielded a)
      else ({ q with queue := rest }, .skipped)

def pullSub (s : Item α) (q : Subscr α) : Subscr α × Out α :=
  match q.phase with
  | .done => (q, .stopped)
  | .live => pullLive q
  | .created =>
    let q' := startSub s q
    match q'.phase with
    | .live => pullLive q'
    | _ => (q', .stopped)

def leaveSub (q : Subscr α) : Subscr α := { q with phase := .done, queue := [], pre := [] }

def step (s : Item α) : Op α → Item α × Out α
  | .publish a =>
    if s.closed then (s, .closedError) else
    let s' := enumerate s (.item a)
    ({ s' with lastItem := some a, log := s.log ++ [a], since := s.since ++ [a] }, .ok)
  | .clear =>
    if s.closed then (s, .closedError) else
    ({ s with idx := s.idx + 1, lastEnumIdx := s.idx + 1, lastEnumVal := .start,
              lastItem := none, cache := s.cache.map fun _ => [], since := [] }, .ok)
  | .aclose =>
    if s.closed then (s, .ok) else ({ enumerate s .stop with closed := true }, .ok)
  | .subNew last cache =>
    ({ s with subs := s.subs ++ [{ wantLast := last, wantCache := cache }] }, .ok)
  | .pull i =>
    match s.subs[i]? with
    | none => (s, .noSuchSub)
    | some q =>
      let r := pullSub s q
      ({ s with subs := s.subs.set i r.1 }, r.2)
  | .leave i =>
    match s.subs[i]? with
    | none => (s, .noSuchSub)
    | some q => ({ s with subs := s.subs.set i (leaveSub q) }, .ok)

def step' (s : Item α) (op : Op α) : Item α := (step s op).1

def run (s : Item α) (ops : List (Op α)) : Item α := ops.foldl step' s

/-- `latest()` : `none` models `LookupError` -/
def Item.latest (s : Item α) : Option α := s.lastItem

/-! ## Broker (`PubSub`): a `defaultdict` of items; `end` pops a key, `close` pops all -/

structure Broker (κ α : Type) where
  items : List (Item α) := []            -- every item object ever created, by creation order ("lifetime id")
  cur : List (κ × Nat) := []             -- the dict: key ↦ lifetime id, insertion order
  /-- generator objects handed out by `subscribe`: (lifetime id, index in that item's `subs`) -/
  handles : List (Nat × Nat) := []

inductive BOp (κ α : Type) where
  | publish (k : κ) (a : α)
  | latest (k : κ)                       -- touching a key creates its item (defaultdict)
  | subscribe (k : κ) (last : Bool)
  | pull (h : Nat)
  | leave (h : Nat)
  | endKey (k : κ)
  | close

variable {κ : Type} [DecidableEq κ]

def Broker.lookup (b : Broker κ α) (k : κ) : Option Nat :=
  (b.cur.find? fun e => e.1 = k).map (·.2)

/-- `self._queue[key]` -/
def Broker.touch (b : Broker κ α) (k : κ) : Broker κ α × Nat :=
  match b.lookup k with
  | some l => (b, l)
  | none => ({ b with items := b.items ++ [Item.new false], cur := b.cur ++ [(k, b.items.length)] },
             b.items.length)

def Broker.onItem (b : Broker κ α) (l : Nat) (op : Op α) : Broker κ α × Out α :=
  match b.items[l]? with
  | none => (b, .noSuchSub)
  | some it => let r := step it op; ({ b with items := b.items.set l r.1 }, r.2)

def bstep (b : Broker κ α) : BOp κ α → Broker κ α × Out α
  | .publish k a => let (b', l) := b.touch k; b'.onItem l (.publish a)
  | .latest k => let (b', _) := b.touch k; (b', .ok)
  | .subscribe k last =>
    let (b', l) := b.touch k
    match b'.items[l]? with
    | none => (b', .noSuchSub)
    | some it =>
      let r := b'.onItem l (.subNew last true)
      ({ r.1 with handles := r.1.handles ++ [(l, it.subs.length)] }, .ok)
  | .pull h =>
    match b.handles[h]? with
    | none => (b, .noSuchSub)
    | some (l, i) => b.onItem l (.pull i)
  | .leave h =>
    match b.handles[h]? with
    | none => (b, .noSuchSub)
    | some (l, i) => b.onItem l (.leave i)
  | .endKey k =>
    match b.lookup k with
    | none => (b, .ok)
    | some l =>
      let b' := { b with cur := b.cur.filter fun e => e.1 ≠ k }
      b'.onItem l .aclose
  | .close =>
    -- `popitem()` is LIFO; every popped item is closed; nothing is created in between
    let ls := b.cur.reverse.map (·.2)
    (ls.foldl (fun acc l => (acc.onItem l .aclose).1) { b with cur := [] }, .ok)

/-- One iteration of the loop of `PubSub.close()` (`while self._queue: _, q = self._queue.popitem(); await q.aclose()`): the most
recently inserted key is popped and its item closed.  `close()` suspends at every `await q.aclose()`, so other tasks may
subscribe, publish or end keys between two iterations; the loop goes on until the dict is empty. -/
def Broker.closeStep (b : Broker κ α) : Broker κ α :=
  match b.cur.reverse with
  | [] => b
  | (k, l) :: _ => ({ b with cur := b.cur.filter fun e => e.1 ≠ k }.onItem l .aclose).1

/-- a step of an execution in which `close()` is in flight: an operation of another task, or one iteration of the closer's loop -/
inductive CStep (κ α : Type) where
  | op (o : BOp κ α)
  | closeStep

def cstep (b : Broker κ α) : CStep κ α → Broker κ α
  | .op o => (bstep b o).1
  | .closeStep => b.closeStep

def csteps (b : Broker κ α) (l : List (CStep κ α)) : Broker κ α := l.foldl cstep b

def Broker.latest (b : Broker κ α) (k : κ) : Option α :=
  match b.lookup k with
  | none => none
  | some l => (b.items[l]?).bind Item.latest

end NLV.PubSub
