/-!
# Model E — delivery of Pdb commands to prompts
(`spawned/plugin/plugins/pdb_/prompt.py`: `relay_commands`, `try_again_on_error`, `Prompt`;
 prompt numbers from the single `PromptNoCounter` of `pdb_/factory.py:PromptFunc`)

incoming FIFO → relay thread (demultiplex by trace number; unknown trace ⇒ `KeyError` ⇒ the relay
function is restarted ⇒ that command is lost) → per-trace FIFO → `Prompt.prompt` loop (number
mismatch ⇒ discard and keep waiting; match ⇒ return the command).

Every command carries a ghost identifier (its position in the stream of commands ever sent).
-/
namespace NLV.Cmd

structure Command where
  id : Nat          -- ghost: index in the list of everything ever sent
  trace : Nat
  prompt : Nat
  cmd : Nat
  deriving DecidableEq, Repr

structure Exec where
  trace : Nat
  prompt : Nat
  cmd : Nat
  id : Nat
  deriving DecidableEq, Repr

structure St where
  sent : List Command := []                 -- ghost: everything ever sent, in order
  inq : List Command := []                  -- `queue_in`
  queues : List (Nat × List Command) := []  -- `_queue_map`: live traces
  opened : List (Nat × Nat) := []           -- trace ↦ number of its open prompt
  counter : Nat := 1                        -- next prompt number
  executed : List Exec := []                -- prompts answered, in order (`OnEndPrompt.command`)
  discarded : List Nat := []                -- ghost: ids thrown away (mismatch, unknown trace, queue deleted)
  deriving Repr

inductive Label where
  | send (t p c : Nat)        -- main process: `queue_in.put(PdbCommand(t, p, c))`
  | relay                     -- relay thread handles the head of `queue_in`
  | startTrace (t : Nat)      -- `on_start_trace`: `_queue_map[t] = Queue()`
  | endTrace (t : Nat)        -- `on_end_trace`: `del _queue_map[t]`
  | openPrompt (t : Nat)      -- trace `t` calls `prompt(prompt_no)` with the next number of the counter
  | consume (t : Nat)         -- trace `t`, blocked in `prompt`, takes the head of its queue
  deriving DecidableEq, Repr

def qGet (qs : List (Nat × List Command)) (t : Nat) : Option (List Command) :=
  (qs.find? fun e => e.1 = t).map (·.2)

def qSet (qs : List (Nat × List Command)) (t : Nat) (q : List Command) : List (Nat × List Command) :=
  qs.map fun e => if e.1 = t then (t, q) else e

def openOf (o : List (Nat × Nat)) (t : Nat) : Option Nat := (o.find? fun e => e.1 = t).map (·.2)

def step (s : St) : Label → Option St
  | .send t p c =>
    let k : Command := { id := s.sent.length, trace := t, prompt := p, cmd := c }
    some { s with sent := s.sent ++ [k], inq := s.inq ++ [k] }
  | .relay =>
    match s.inq with
    | [] => none
    | k :: rest =>
      match qGet s.queues k.trace with
      | some q => some { s with inq := rest, queues := qSet s.queues k.trace (q ++ [k]) }
      | none => some { s with inq := rest, discarded := s.discarded ++ [k.id] }     -- KeyError: dropped
  | .startTrace t =>
    match qGet s.queues t with
    | some _ => none
    | none => some { s with queues := s.queues ++ [(t, [])] }
  | .endTrace t =>
    match qGet s.queues t, openOf s.opened t with
    | some q, none => some { s with queues := s.queues.filter (fun e => e.1 ≠ t), discarded := s.discarded ++ q.map (·.id) }
    | _, _ => none
  | .openPrompt t =>
    match qGet s.queues t, openOf s.opened t with
    | some _, none => some { s with opened := s.opened ++ [(t, s.counter)], counter := s.counter + 1 }
    | _, _ => none
  | .consume t =>
    match openOf s.opened t, qGet s.queues t with
    | some p, some (k :: rest) =>
      if k.prompt = p then
        some { s with queues := qSet s.queues t rest, opened := s.opened.filter (fun e => e.1 ≠ t),
                      executed := s.executed ++ [{ trace := t, prompt := p, cmd := k.cmd, id := k.id }] }
      else
        some { s with queues := qSet s.queues t rest, discarded := s.discarded ++ [k.id] }
    | _, _ => none

def run (s : St) : List Label → Option St
  | [] => some s
  | l :: ls => match step s l with
    | some s' => run s' ls
    | none => none

/-- ids of all commands still in transit -/
def inTransit (s : St) : List Nat := s.inq.map (·.id) ++ s.queues.flatMap fun e => e.2.map (·.id)

end NLV.Cmd
