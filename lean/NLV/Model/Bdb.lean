import NLV.Generated.Spawned
/-!
# Model D2 — where the debugger prompts

(a) The frame filter: pluggy's `firstresult` hook `filter`, evaluated over the GENERATED call order
    (`NLV.Generated.Spawned.filterOrderOff` / `filterOrderOn`); plugin names are matched by string, so a change of the
    registration order in the source changes what this model computes.
(b) CPython 3.12.1 `bdb.Bdb` stop logic as used by nextline's `CustomizedPdb`: one debugger state per trace (thread/task),
    `stop_here`, `dispatch_call/line/return/exception` (with the generator/coroutine rules), the commands
    step / next / return / until / continue (continue = nextline's override `_set_stopinfo(botframe, None, -1)`; `stop_here` and
    `set_until` with nextline's overrides for frames without a line number),
    `set_step`'s patch of the caller's `f_trace`, Pdb's choice of `curframe` (`get_stack`), and which frames get
    line events at all (`f_trace`).

Input: the interpreter-level event stream of one entity (as an independent `sys.settrace` recorder sees it) and the
commands given at the successive prompts.  Output: the prompts (line, event).
-/
namespace NLV.Bdb
open NLV.Generated.Spawned

/-! ## (a) filters -/

def tails : List α → List (List α)
  | [] => [[]]
  | x :: xs => (x :: xs) :: tails xs

/-- `fnmatch.fnmatch` for patterns made of literals, `*` and `?` (POSIX: `normcase` is the identity; the generated skip list
contains no `[`): `*` matches any sequence, also the empty one, so `p.*` matches `p.x` and `p.` but not `p`. -/
def globMatch : List Char → List Char → Bool
  | [], n => n.isEmpty
  | p :: ps, n =>
    if p = '*' then (tails n).any (fun s => globMatch ps s)
    else match n with
      | [] => false
      | c :: cs => (p = '?' || p = c) && globMatch ps cs

def matchPat (pat name : String) : Bool := globMatch pat.toList name.toList

/-- `nextline.utils.match_any(name, patterns)`; a frame without `__name__` matches nothing -/
def matchAny (name : Option String) (pats : List String) : Bool :=
  match name with
  | none => false
  | some n => pats.any fun p => matchPat p n

/-- what the filters look at: `frame.f_globals.get('__name__')` and `frame.f_code.co_name` -/
structure FrameDesc where
  module : Option String
  func : String
  deriving DecidableEq, Repr

/-- state of the plugin `FilerByModule` (one per run, shared by all entities) -/
structure FilterState where
  modulesToTrace : List String := []
  firstModuleAdded : Bool := false
  traced : List Nat := []            -- entities (tasks/threads) once accepted
  deriving DecidableEq, Repr

/-- the context of one call of the hook: the script module's name, the calling entity, whether its thread is the one that
entered the hook context (`FilerByModule._entering_thread`) -/
structure FilterCtx where
  script : String
  entity : Nat
  entering : Bool
  /-- `TaskAndThreadKeeper._closed`: the plugin context has exited (the script and every registered thread/task have ended) -/
  closed : Bool := false
  deriving DecidableEq, Repr

def addModule (fs : FilterState) (m : Option String) : FilterState :=
  match m with
  | none => fs
  | some n => if fs.modulesToTrace.contains n then fs else { fs with modulesToTrace := fs.modulesToTrace ++ [n] }

/-- `FilerByModule.filter` (trylast) -/
def filerByModule (cx : FilterCtx) (fs : FilterState) (fr : FrameDesc) : Option Bool × FilterState :=
  let fs1 := if !fs.firstModuleAdded && cx.entering then { addModule fs fr.module with firstModuleAdded := true } else fs
  if fs1.traced.contains cx.entity then (none, fs1)
  else if matchAny fr.module fs1.modulesToTrace then (none, { fs1 with traced := fs1.traced ++ [cx.entity] })
  else (some true, fs1)

/-- one implementation of the hook `filter`, selected by the plugin's NAME; a plugin this model does not know has no
`filter` implementation (contributes `None`) -/
def filterImpl (name : String) (cx : FilterCtx) (fs : FilterState) (fr : FrameDesc) : Option Bool × FilterState :=
  if name = "TaskAndThreadKeeper" then ((if cx.closed then some true else none), fs)
  else if name = "FilterLambda" then ((if fr.func = "<lambda>" then some true else none), fs)
  else if name = "FilterMainScript" then (some (decide (fr.module ≠ some cx.script)), fs)
  else if name = "FilterByModuleName" then ((if matchAny fr.module modulesToSkip then some true else none), fs)
  else if name = "FilerByModule" then filerByModule cx fs fr
  else (none, fs)

/-- pluggy `firstresult`: call the implementations in call order, stop at the first non-`None` result -/
def runFilter (order : List String) (cx : FilterCtx) (fs : FilterState) (fr : FrameDesc) : Option Bool × FilterState :=
  match order with
  | [] => (none, fs)
  | n :: rest =>
    match filterImpl n cx fs fr with
    | (some b, fs') => (some b, fs')
    | (none, fs') => runFilter rest cx fs' fr

/-- `GlobalTraceFunc.global_trace_func`: `if hook.filter(...): return None` — a frame is SKIPPED iff the result is truthy -/
def skipped (order : List String) (cx : FilterCtx) (fs : FilterState) (fr : FrameDesc) : Bool :=
  (runFilter order cx fs fr).1 == some true

def accepted (order : List String) (cx : FilterCtx) (fs : FilterState) (fr : FrameDesc) : Bool :=
  !skipped order cx fs fr

def filterOrder (traceModules : Bool) : List String := if traceModules then filterOrderOn else filterOrderOff

/-! ## (b) bdb / pdb -/

inductive Kind | call | line | ret | exc
  deriving DecidableEq, Repr

/-- what bdb looks at in the `arg` of an exception event -/
inductive ExcKind
  | other      -- any other exception (also: not an exception event)
  | siNoTb     -- `arg[0] is StopIteration and arg[2] is None` (the interpreter's internal StopIteration)
  | siTb       -- StopIteration with a traceback
  | genExit    -- GeneratorExit
  deriving DecidableEq, Repr

inductive Cmd | step | next | ret | until | cont
  deriving DecidableEq, Repr

/-- frame table entry: `f_back` (as of the last entry of the frame), `co_flags & (CO_GENERATOR|CO_COROUTINE|CO_ASYNC_GENERATOR)` -/
structure Frame where
  parent : Option Nat
  isGen : Bool
  desc : FrameDesc
  deriving DecidableEq, Repr

structure Ev where
  fid : Nat
  /-- `frame.f_lineno`; `none` where the bytecode has no line number (PEP 626), e.g. the implicit return of a script that ends
  in a loop around an `except … as` clause -/
  line : Option Nat
  kind : Kind
  exc : ExcKind := .other
  /-- exception events: the frame of the LAST entry of the traceback when that is not the frame itself -/
  tbDeep : Option Nat := none
  deriving DecidableEq, Repr

/-- `bdb.Bdb` attributes -/
structure Dbg where
  botframe : Option Nat := none
  stopframe : Option Nat := none
  returnframe : Option Nat := none
  stoplineno : Int := 0
  frameReturning : Option Nat := none
  deriving DecidableEq, Repr

/-- who is in a frame's `f_trace`: nextline's per-frame closure (`WithContext._local_trace`, which calls
`Pdb.trace_dispatch` inside `on_trace_call`), or `Pdb.trace_dispatch` itself, put there by `Bdb.set_step` -/
inductive FTrace | nextline | patched
  deriving DecidableEq, Repr

structure St where
  order : List String                    -- call order of the hook `filter`
  cx : FilterCtx
  filt : FilterState := {}
  dbg : Dbg := {}
  frames : List (Nat × Frame) := []
  ftrace : List (Nat × FTrace) := []
  cmds : List Cmd := []
  dflt : Cmd := .cont
  prompts : List (Option Nat × Kind) := []
  deriving DecidableEq, Repr

def lookup (l : List (Nat × β)) (k : Nat) : Option β :=
  match l with
  | [] => none
  | (k', v) :: rest => if k' = k then some v else lookup rest k

def setAt (l : List (Nat × β)) (k : Nat) (v : β) : List (Nat × β) :=
  match l with
  | [] => [(k, v)]
  | (k', v') :: rest => if k' = k then (k, v) :: rest else (k', v') :: setAt rest k v

def parentOf (fr : List (Nat × Frame)) (f : Nat) : Option Nat := (lookup fr f).bind (·.parent)
def isGenOf (fr : List (Nat × Frame)) (f : Nat) : Bool := ((lookup fr f).map (·.isGen)).getD false
def descOf (fr : List (Nat × Frame)) (f : Nat) : FrameDesc := ((lookup fr f).map (·.desc)).getD { module := none, func := "" }

/-- `CustomizedPdb.stop_here` over `Bdb.stop_here` (no `skip` patterns are configured): in the stop frame a frame without a line
number stops like any line would, unless `continue` was given (nextline's override; bdb itself would raise TypeError) -/
def stopHere (d : Dbg) (fid : Nat) (line : Option Nat) : Bool :=
  if d.stopframe = some fid then
    if d.stoplineno = -1 then false
    else match line with
      | none => true
      | some l => decide (d.stoplineno ≤ (l : Int))
  else d.stopframe.isNone

def setStopinfo (d : Dbg) (stopframe returnframe : Option Nat) (stoplineno : Int := 0) : Dbg :=
  { d with stopframe := stopframe, returnframe := returnframe, stoplineno := stoplineno }

/-- `Pdb.get_stack`: the walk from the event's frame along `f_back` stops at `botframe`; does it find it? -/
def onStack (fr : List (Nat × Frame)) (bot : Option Nat) : Nat → Nat → Bool
  | 0, _ => false
  | fuel + 1, f => if bot = some f then true else
      match parentOf fr f with
      | none => false
      | some p => onStack fr bot fuel p

/-- `Pdb.setup`: `curframe` is the event's frame.  `Bdb.get_stack` alone would select the LAST entry of the
stack-plus-traceback list — the (dead) frame in which the exception was raised — whenever the walk along `f_back` does
not meet `botframe` (`onStack`; a task after its first suspension: `botframe` was the event loop's `Handle._run` frame of
the first step, long gone); `CustomizedPdb.get_stack` overrides that choice with the index of the event's frame. -/
def curframe (_st : St) (ev : Ev) : Nat := ev.fid

/-- the resuming commands (`do_step`, `do_next`, `do_return`, `do_until`, `do_continue` with nextline's `set_continue`);
returns the new debugger state and the frame whose `f_trace` `set_step` patches, if any -/
def applyCmd (st : St) (cur : Nat) (curLine : Option Nat) (c : Cmd) : Dbg × Option Nat :=
  let d := st.dbg
  match c with
  | .step =>
    let patch := match d.frameReturning with
      | none => none
      | some fr => match parentOf st.frames fr with
        | none => none
        | some caller => if (lookup st.ftrace caller).isNone then some caller else none
    (setStopinfo d none none, patch)
  | .next => (setStopinfo d (some cur) none, none)
  | .ret =>
    if isGenOf st.frames cur then (setStopinfo d (some cur) none (-1), none)
    else (setStopinfo d (parentOf st.frames cur) (some cur), none)
  | .until =>
    -- `CustomizedPdb.set_until`: without a line number, "until the frame returns" (line 0); else `f_lineno + 1`
    (setStopinfo d (some cur) (some cur) (match curLine with | none => 0 | some l => (l : Int) + 1), none)
  | .cont => (setStopinfo d d.botframe none (-1), none)

/-- `Pdb.interaction` → `CustomizedPdb.cmdloop`: inside a nextline trace call the prompt is emitted and one command is
executed; outside (the event came through a patched `f_trace`) `NotOnTraceCall` is raised and swallowed: no prompt, no
command, no state change.  With module tracing on, `FilerByModule.on_cmdloop` records the module of the event's frame. -/
def interact (st : St) (ev : Ev) (onTraceCall : Bool) : St :=
  if !onTraceCall then st
  else
    let cur := curframe st ev
    let c := st.cmds.headD st.dflt
    -- `until` uses `curframe.f_lineno`; for a dead traceback frame the value is immaterial (it never runs again)
    let (d', patch) := applyCmd st cur ev.line c
    let filt' := if st.order.contains "FilerByModule" then addModule st.filt (descOf st.frames ev.fid).module else st.filt
    { st with
      dbg := d', cmds := st.cmds.tail, prompts := st.prompts ++ [(ev.line, ev.kind)], filt := filt',
      ftrace := match patch with | none => st.ftrace | some p => setAt st.ftrace p .patched }

/-- `Bdb.dispatch_call` + `Pdb.user_call`; the Bool is "returned `self.trace_dispatch`" (else `None`) -/
def dispatchCall (st : St) (ev : Ev) (otc : Bool) : Bool × St :=
  let d := st.dbg
  if d.botframe.isNone then
    (true, { st with dbg := { d with botframe := parentOf st.frames ev.fid } })
  else if !stopHere d ev.fid ev.line then (false, st)       -- there are no breakpoints: `break_anywhere` is false
  else if d.stopframe.isSome && isGenOf st.frames ev.fid then (true, st)
  else (true, interact st ev otc)                           -- `user_call`: `stop_here` again, then interaction

def dispatchLine (st : St) (ev : Ev) (otc : Bool) : St :=
  if stopHere st.dbg ev.fid ev.line then interact st ev otc else st

def dispatchReturn (st : St) (ev : Ev) (otc : Bool) : St :=
  let d := st.dbg
  if stopHere d ev.fid ev.line || d.returnframe = some ev.fid then
    if d.stopframe.isSome && isGenOf st.frames ev.fid then st
    else
      let st1 := interact { st with dbg := { d with frameReturning := some ev.fid } } ev otc
      let d1 := { st1.dbg with frameReturning := none }
      -- "The user issued a 'next' or 'until' command."
      let d2 := if d1.stopframe = some ev.fid && d1.stoplineno != -1 then setStopinfo d1 none none else d1
      { st1 with dbg := d2 }
  else st

def isStopIterOrGenExit : ExcKind → Bool
  | .other => false
  | _ => true

def dispatchException (st : St) (ev : Ev) (otc : Bool) : St :=
  let d := st.dbg
  if stopHere d ev.fid ev.line then
    if isGenOf st.frames ev.fid && ev.exc == .siNoTb then st else interact st ev otc
  else
    match d.stopframe with
    | none => st
    | some sf =>
      if sf ≠ ev.fid && isGenOf st.frames sf && isStopIterOrGenExit ev.exc then interact st ev otc else st

/-- a 'call' event: always goes to the global trace function (nextline's `GlobalTraceFunc`): filter, then `Pdb.trace_dispatch`
inside a trace call; the frame's `f_trace` is set iff the result is not `None` (CPython leaves an existing `f_trace` in place
when the result is `None`) -/
def onCall (st : St) (ev : Ev) : St :=
  let rf := runFilter st.order st.cx st.filt (descOf st.frames ev.fid)
  let st1 := { st with filt := rf.2 }
  if rf.1 == some true then st1
  else
    let r := dispatchCall st1 ev true
    if r.1 then { r.2 with ftrace := setAt r.2.ftrace ev.fid .nextline } else r.2

/-- one interpreter-level event of this entity.
* 'call': see `onCall`.
* other events: only if the frame has an `f_trace`; through nextline's closure (inside a trace call) or, when `set_step`
  patched it, straight to Pdb (outside). -/
def onEvent (st : St) (ev : Ev) : St :=
  match ev.kind with
  | .call => onCall st ev
  | .line =>
    match lookup st.ftrace ev.fid with
    | none => st
    | some ft => dispatchLine st ev (ft == .nextline)
  | .ret =>
    match lookup st.ftrace ev.fid with
    | none => st
    | some ft => dispatchReturn st ev (ft == .nextline)
  | .exc =>
    match lookup st.ftrace ev.fid with
    | none => st
    | some ft => dispatchException st ev (ft == .nextline)

/-- the recorder's stream: frame-table entries and events -/
inductive Item
  | frame (fid : Nat) (f : Frame)
  | ev (e : Ev)
  deriving DecidableEq, Repr

def onItem (st : St) : Item → St
  | .frame fid f => { st with frames := setAt st.frames fid f }
  | .ev e => onEvent st e

def run (st : St) (items : List Item) : St := items.foldl onItem st

/-- a new entity of the same run: a fresh `CustomizedPdb` (`botframe = None`, `_set_stopinfo(None, None)`), the run-wide
filter state, frame table and `f_trace`s are kept -/
def newEntity (st : St) (entity : Nat) (entering : Bool) (cmds : List Cmd) (dflt : Cmd) : St :=
  { st with cx := { st.cx with entity := entity, entering := entering }, dbg := {}, cmds := cmds, dflt := dflt, prompts := [] }

def init (traceModules : Bool) (script : String) : St :=
  { order := filterOrder traceModules, cx := { script := script, entity := 0, entering := true } }

end NLV.Bdb
