import NLV.Model.Teardown
import NLV.Lemmas.Trace
/-!
# C18, last sentence — "every trace that starts in the subprocess is eventually reported as ended": theorems about model D1t
-/
namespace NLV.C18T
open NLV.Trace NLV.Teardown NLV.Reg

/-- the context exits only after everybody else has ended -/
theorem close_waits (s s' : RSt) (m : Option Ent) (h : rstep s (.close m) = some s') :
    s.closed = false ∧ s'.closed = true ∧ s'.main = m ∧ s'.tr = s.tr ∧ s.tr.newcomers = [] ∧
    ∀ t ∈ s.tr.traces, some t.ent = m ∨ t.ended = true := by
  simp only [rstep] at h
  split at h
  · rename_i hg
    simp only [Option.some.injEq] at h
    subst h
    simp only [Bool.and_eq_true, Bool.not_eq_eq_eq_not, Bool.not_true, othersEnded, List.isEmpty_iff, List.all_eq_true,
      Bool.or_eq_true, beq_iff_eq] at hg
    exact ⟨hg.1, rfl, rfl, rfl, hg.2.1, hg.2.2⟩
  · cases h

/-- closed is never left -/
theorem closed_stays (s s' : RSt) (a : RAct) (h : rstep s a = some s') (hc : s.closed = true) :
    s'.closed = true ∧ s'.main = s.main := by
  cases a with
  | act e a =>
    simp only [rstep] at h
    split at h
    · cases h
    · cases hst : step s.tr e a with
      | none => simp [hst] at h
      | some t =>
        simp only [hst, Option.map_some, Option.some.injEq] at h
        subst h
        exact ⟨hc, rfl⟩
  | close m =>
    simp [rstep, hc] at h

/-- what a step of an entity can be once the context has exited: the end of the entity's (idle) live trace, or nothing -/
theorem closed_act (s s' : RSt) (e : Ent) (a : Act) (h : rstep s (.act e a) = some s') (hc : s.closed = true) :
    (∃ tr, findTrace s.tr.traces e = some tr ∧
      s'.tr = { s.tr with traces := setTrace s.tr.traces { tr with ended := true },
                          out := s.tr.out ++ [.endTrace tr.traceNo] }) ∨ s'.tr = s.tr := by
  simp only [rstep, hc, Bool.true_and] at h
  split at h
  · cases h
  · rename_i hg
    cases hst : step s.tr e a with
    | none => simp [hst] at h
    | some t =>
      simp only [hst, Option.map_some, Option.some.injEq] at h
      subst h
      show (∃ tr, findTrace s.tr.traces e = some tr ∧ t = _) ∨ t = s.tr
      cases a with
      | finish =>
        cases hf : findTrace s.tr.traces e with
        | none => simp [Trace.step, hf] at hst
        | some tr =>
          simp only [Trace.step, hf] at hst
          split at hst
          · simp only [Option.some.injEq] at hst
            exact Or.inl ⟨tr, rfl, hst.symm⟩
          · cases hst
      | write text =>
        simp only [allowedAfterClose, Bool.not_eq_true, Bool.not_eq_false', Option.isNone_iff_eq_none] at hg
        simp only [Trace.step, hg, Option.some.injEq] at hst
        exact Or.inr hst.symm
      | _ => simp [allowedAfterClose] at hg

theorem traceNos_append_endTrace (o : List Ev) (n : Nat) : NLV.Trace.traceNos (o ++ [.endTrace n]) = NLV.Trace.traceNos o := by
  simp [NLV.Trace.traceNos]

theorem no_trace_starts_after_close_step (s s' : RSt) (a : RAct) (h : rstep s a = some s') (hc : s.closed = true) :
    s'.closed = true ∧ s'.tr.newcomers = s.tr.newcomers ∧ s'.tr.traces.map (·.traceNo) = s.tr.traces.map (·.traceNo) ∧
    s'.tr.nextTrace = s.tr.nextTrace ∧ NLV.Trace.traceNos s'.tr.out = NLV.Trace.traceNos s.tr.out := by
  refine ⟨(closed_stays s s' a h hc).1, ?_⟩
  cases a with
  | act e a =>
    rcases closed_act s s' e a h hc with ⟨tr, _, h2⟩ | h2
    · rw [h2]
      exact ⟨rfl, setTrace_traceNos _ _, rfl, traceNos_append_endTrace _ _⟩
    · rw [h2]
      exact ⟨rfl, rfl, rfl, rfl⟩
  | close m => simp [rstep, hc] at h

/-- F-G8: once the context has exited no trace starts any more — no entity is numbered, no trace record is created, no
`OnStartTrace` is emitted, whatever is attempted -/
theorem no_trace_starts_after_close (ls : List RAct) (s s' : RSt) (h : rrun s ls = some s') (hc : s.closed = true) :
    s'.closed = true ∧ s'.tr.newcomers = s.tr.newcomers ∧ s'.tr.traces.map (·.traceNo) = s.tr.traces.map (·.traceNo) ∧
    s'.tr.nextTrace = s.tr.nextTrace ∧ NLV.Trace.traceNos s'.tr.out = NLV.Trace.traceNos s.tr.out := by
  induction ls generalizing s with
  | nil =>
    simp only [rrun, Option.some.injEq] at h
    subst h
    exact ⟨hc, rfl, rfl, rfl, rfl⟩
  | cons a ls ih =>
    simp only [rrun] at h
    cases hst : rstep s a with
    | none => simp [hst] at h
    | some s1 =>
      simp only [hst] at h
      obtain ⟨c1, n1, t1, x1, o1⟩ := no_trace_starts_after_close_step s s1 a hst hc
      obtain ⟨c2, n2, t2, x2, o2⟩ := ih s1 h c1
      exact ⟨c2, n2.trans n1, t2.trans t1, x2.trans x1, o2.trans o1⟩

/-- … and the only event that can still be emitted is the end of a trace (the main thread's) -/
theorem after_close_only_a_trace_end (s s' : RSt) (e : Ent) (a : Act) (h : rstep s (.act e a) = some s') (hc : s.closed = true) :
    newEvents s.tr s'.tr = [] ∨ ∃ t, findTrace s.tr.traces e = some t ∧ newEvents s.tr s'.tr = [.endTrace t.traceNo] := by
  rcases closed_act s s' e a h hc with ⟨tr, h1, h2⟩ | h2
  · exact Or.inr ⟨tr, h1, newEvents_of_out (by rw [h2])⟩
  · exact Or.inl (by simp [newEvents, h2])

/-- reachable states: records and events agree -/
structure EvInv (s : Trace.St) : Prop where
  started : ∀ n th tk, Ev.startTrace n th tk ∈ s.out → ∃ t ∈ s.traces, t.traceNo = n
  ended : ∀ t ∈ s.traces, t.ended = true → Ev.endTrace t.traceNo ∈ s.out

theorem evInv_init : EvInv {} := by
  constructor
  · intro n th tk hm; simp at hm
  · intro t ht; simp at ht

theorem exists_traceNo_iff (ts : List TraceSt) (n : Nat) : (∃ t ∈ ts, t.traceNo = n) ↔ n ∈ ts.map (·.traceNo) := by
  simp [List.mem_map]

theorem evInv_step {s s' : Trace.St} {e : Ent} {a : Act} (hi : TrInv s) (h : EvInv s) (hs : step s e a = some s') : EvInv s' := by
  rcases step_cases hs with hl | ⟨_, hf, _, rfl⟩ | ⟨_, n, hn, rfl⟩ | ⟨rfl, _⟩ | ⟨rfl, _⟩ | ⟨tr, text, _, _, rfl⟩
  · obtain ⟨tr, ph', en', evs, nc', np', hf, hloc, rfl⟩ := hl
    obtain ⟨hm, _, hl⟩ := findTrace_some hf
    obtain ⟨ent, no, thn, tkn, ph, en⟩ := tr
    dsimp only at hloc
    constructor
    · intro n th tk hmem
      show ∃ t ∈ setTrace s.traces _, t.traceNo = n
      rw [exists_traceNo_iff, setTrace_traceNos, ← exists_traceNo_iff]
      have hmem2 : Ev.startTrace n th tk ∈ s.out ++ evs := hmem
      rcases List.mem_append.mp hmem2 with h1 | h1
      · exact h.started n th tk h1
      · cases hloc with
        | emitStart =>
          simp only [List.mem_singleton, Ev.startTrace.injEq] at h1
          exact ⟨_, hm, h1.1.symm⟩
        | _ => simp at h1
    · intro t ht hen
      have ht : t ∈ setTrace s.traces _ := ht
      show Ev.endTrace t.traceNo ∈ s.out ++ evs
      rw [List.mem_append]
      rcases mem_setTrace.mp ht with ⟨rfl, _⟩ | ⟨ht, _⟩
      · simp only at hen
        subst hen
        cases hloc
        exact Or.inr (by simp)
      · exact Or.inl (h.ended t ht hen)
  · constructor
    · intro n th tk hmem
      rw [addNewcomer_out] at hmem
      rw [addNewcomer_traces]
      exact h.started n th tk hmem
    · intro t ht hen
      rw [addNewcomer_traces] at ht
      rw [addNewcomer_out]
      exact h.ended t ht hen
  · constructor
    · intro n' th tk hmem
      obtain ⟨t, ht, htn⟩ := h.started n' th tk hmem
      exact ⟨t, by simp [moveNewcomer, ht], htn⟩
    · intro t ht hen
      have ht : t ∈ s.traces ++ [mkTrace s e n] := ht
      show Ev.endTrace t.traceNo ∈ s.out
      rw [List.mem_append, List.mem_singleton] at ht
      rcases ht with ht | rfl
      · exact h.ended t ht hen
      · simp [mkTrace] at hen
  · exact h
  · exact h
  · constructor
    · intro n th tk hmem
      have hmem : Ev.startTrace n th tk ∈ s.out ++ [Ev.stdout tr.traceNo text] := hmem
      simp only [List.mem_append, List.mem_singleton, reduceCtorEq, or_false] at hmem
      exact h.started n th tk hmem
    · intro t ht hen
      show Ev.endTrace t.traceNo ∈ s.out ++ [Ev.stdout tr.traceNo text]
      exact List.mem_append_left _ (h.ended t ht hen)

/-- reachable states of model D1t -/
structure RInv (s : RSt) : Prop where
  tr : TrInv s.tr
  ev : EvInv s.tr
  cl : s.closed = true → s.tr.newcomers = [] ∧ ∀ t ∈ s.tr.traces, some t.ent = s.main ∨ t.ended = true

theorem rInv_init : RInv {} := ⟨trInv_init, evInv_init, by intro h; cases h⟩

theorem rstep_act_step {s s' : RSt} {e : Ent} {a : Act} (h : rstep s (.act e a) = some s') :
    Trace.step s.tr e a = some s'.tr ∧ s'.closed = s.closed := by
  simp only [rstep] at h
  split at h
  · cases h
  · cases hst : step s.tr e a with
    | none => simp [hst] at h
    | some t =>
      simp only [hst, Option.map_some, Option.some.injEq] at h
      subst h
      exact ⟨rfl, rfl⟩

theorem rInv_step {s s' : RSt} {a : RAct} (hi : RInv s) (h : rstep s a = some s') : RInv s' := by
  cases a with
  | act e a =>
    obtain ⟨hst, hcl⟩ := rstep_act_step h
    refine ⟨trInv_step hi.tr hst, evInv_step hi.tr hi.ev hst, ?_⟩
    intro hc'
    have hc : s.closed = true := hcl ▸ hc'
    obtain ⟨hn, ht⟩ := hi.cl hc
    have hmain := (closed_stays s s' _ h hc).2
    rw [hmain]
    rcases closed_act s s' e a h hc with ⟨tr, _, h2⟩ | h2
    · rw [h2]
      refine ⟨hn, ?_⟩
      intro t htm
      rcases mem_setTrace.mp htm with ⟨rfl, _⟩ | ⟨htm, _⟩
      · exact Or.inr rfl
      · exact ht t htm
    · rw [h2]; exact ⟨hn, ht⟩
  | close m =>
    obtain ⟨_, _, hm, htr, hn, ht⟩ := close_waits s s' m h
    refine ⟨htr ▸ hi.tr, htr ▸ hi.ev, ?_⟩
    intro _
    rw [htr, hm]
    exact ⟨hn, ht⟩

theorem rInv_run {ls : List RAct} {s s' : RSt} (hi : RInv s) (h : rrun s ls = some s') : RInv s' := by
  induction ls generalizing s with
  | nil =>
    simp only [rrun, Option.some.injEq] at h
    exact h ▸ hi
  | cons a ls ih =>
    simp only [rrun] at h
    cases hst : rstep s a with
    | none => simp [hst] at h
    | some s1 =>
      simp only [hst] at h
      exact ih (rInv_step hi hst) h

/-- The consequence the property names, at the end of the run: in every execution of the model — every interleaving of the
entities' steps, the context exit anywhere it is enabled — once the context has exited and the main thread's trace (if it has
one) has ended, every `OnStartTrace` in the stream is followed by … has its `OnEndTrace` in the stream. -/
theorem every_started_trace_ended (ls : List RAct) (s : RSt) (h : rrun {} ls = some s) (hc : s.closed = true)
    (hm : ∀ t ∈ s.tr.traces, some t.ent = s.main → t.ended = true) :
    ∀ n th tk, Ev.startTrace n th tk ∈ s.tr.out → Ev.endTrace n ∈ s.tr.out := by
  intro n th tk hmem
  have hi := rInv_run rInv_init h
  obtain ⟨t, ht, rfl⟩ := hi.ev.started n th tk hmem
  apply hi.ev.ended t ht
  rcases (hi.cl hc).2 t ht with hm' | he
  · exact hm t ht hm'
  · exact he

/-- non-vacuity: a main thread and a second thread; the second thread ends, the context exits, the main trace ends -/
def demo : List RAct :=
  let m : Ent := { thread := 1, task := none }
  let t : Ent := { thread := 2, task := none }
  [.act m .drawIds, .act m .drawTrace, .act m .emitStart, .act t .drawIds, .act t .drawTrace, .act t .emitStart,
   .act t .finish, .close (some m), .act m .finish]

example : (rrun {} demo).isSome = true := by decide
example : ((rrun {} demo).map fun s => s.closed && s.tr.traces.all (·.ended)) = some true := by decide
/-- the exit is refused while the other thread is still alive, and a thread that shows up afterwards is not numbered -/
example : (rrun {} (demo.take 6 ++ [.close (some { thread := 1, task := none })])).isSome = false := by decide
example : (rrun {} (demo ++ [.act { thread := 3, task := none } .drawIds])).isSome = false := by decide

end NLV.C18T
