import NLV.Model.Trace
import NLV.Lemmas.Trace
/-!
# C06 — one trace per thread / task, events attributed to the right trace, traces independent of each other

Theorems over model D1 (`NLV/Model/Trace.lean`) for **every** label list (every interleaving of threads and tasks).
The invariants (`TrInv`: trace numbers, `IdInv`: thread and task numbers) and the case analysis of `step` live in
`NLV/Lemmas/Trace.lean`.

An entity that has no trace (yet) can still act — draw its numbers, have a command loop refused, write to stdout —
but emits nothing then (`untraced_emits_nothing`): the write is "not reported".
-/
namespace NLV.C06
open NLV.Trace
open NLV.Reg hiding St step   -- `St`, `step` are those of model D1 (`NLV.Trace`)

/-- every thread and task that executes traced code gets its own trace number: trace numbers are never reused, and two
live traces never belong to the same entity -/
theorem trace_numbers_injective (ls : List (Ent × Act)) (s : St) (h : run {} ls = some s) :
    (s.traces.map (·.traceNo)).Nodup ∧
    ∀ t1 ∈ s.traces, ∀ t2 ∈ s.traces, t1.ent = t2.ent → t1.ended = false → t2.ended = false → t1 = t2 :=
  ⟨(inv_of_run h).tr.nodup, (inv_of_run h).tr.live⟩

/-- (thread number, task number) identifies the entity consistently: the thread number is a function of the OS thread and
injective on threads; within one thread number, equal task numbers mean the same task; threads have no task number -/
theorem ids_consistent (ls : List (Ent × Act)) (s : St) (h : run {} ls = some s) :
    ∀ t1 ∈ s.traces, ∀ t2 ∈ s.traces,
      (t1.ent.thread = t2.ent.thread ↔ t1.threadNo = t2.threadNo) ∧
      (t1.taskNo.isSome = t1.ent.task.isSome) ∧
      (t1.threadNo = t2.threadNo → t1.taskNo = t2.taskNo → t1.taskNo.isSome = true → t1.ent.task = t2.ent.task ∨ t1.traceNo = t2.traceNo) := by
  intro t1 h1 t2 h2
  have hi := (inv_of_run h).id
  have m1 : (⟨some t1.traceNo, t1.ent, t1.threadNo, t1.taskNo⟩ : Holder) ∈ holders s :=
    mem_holders.mpr (Or.inl ⟨t1, h1, rfl⟩)
  have m2 : (⟨some t2.traceNo, t2.ent, t2.threadNo, t2.taskNo⟩ : Holder) ∈ holders s :=
    mem_holders.mpr (Or.inl ⟨t2, h2, rfl⟩)
  refine ⟨⟨?_, ?_⟩, hi.taskSome _ m1, ?_⟩
  · intro heq
    have g1 := hi.thrGet _ m1
    have g2 := hi.thrGet _ m2
    simp only at g1 g2
    rw [heq, g2] at g1
    injection g1 with g1
    exact g1.symm
  · intro heq
    have a1 := alGet_some_mem (hi.thrGet _ m1)
    have a2 := alGet_some_mem (hi.thrGet _ m2)
    exact hi.thrInj _ a1 _ a2 heq
  · intro a b c
    have := (hi.taskInj _ m1 _ m2 a b c).1
    simp only [Option.some.injEq] at this
    exact Or.inr this

/-- a stronger form of the third clause: within one thread number, a task number is given to one trace only (a task that
is traced again after its trace ended gets a new task number) -/
theorem task_numbers_fresh (ls : List (Ent × Act)) (s : St) (h : run {} ls = some s) :
    ∀ t1 ∈ s.traces, ∀ t2 ∈ s.traces, t1.threadNo = t2.threadNo → t1.taskNo = t2.taskNo → t1.taskNo.isSome = true →
      t1 = t2 := by
  intro t1 h1 t2 h2 a b c
  have hi := (inv_of_run h).id
  have m1 : (⟨some t1.traceNo, t1.ent, t1.threadNo, t1.taskNo⟩ : Holder) ∈ holders s :=
    mem_holders.mpr (Or.inl ⟨t1, h1, rfl⟩)
  have m2 : (⟨some t2.traceNo, t2.ent, t2.threadNo, t2.taskNo⟩ : Holder) ∈ holders s :=
    mem_holders.mpr (Or.inl ⟨t2, h2, rfl⟩)
  have := (hi.taskInj _ m1 _ m2 a b c).1
  simp only [Option.some.injEq] at this
  exact (inv_of_run h).tr.uniq t1 h1 t2 h2 this

/-- attribution: every event an action of entity `e` emits carries the trace number of `e`'s live trace (the one it had
before the step) — in every state, for every action; the hidden steps and the refused command loop emit nothing -/
theorem attribution (ls : List (Ent × Act)) (s : St) (_h : run {} ls = some s) (e : Ent) (a : Act) (s' : St)
    (hs : step s e a = some s') :
    ∀ ev ∈ newEvents s s', ∃ tr, findTrace s.traces e = some tr ∧ evTrace ev = tr.traceNo ∧ tr ∈ s.traces ∧ tr.ent = e := by
  obtain ⟨evs, ho, _, _, hat, _⟩ := step_out hs
  rw [newEvents_of_out ho]
  intro ev hev
  obtain ⟨tr, hf, ht⟩ := hat ev hev
  obtain ⟨hm, he, _⟩ := findTrace_some hf
  exact ⟨tr, hf, ht, hm, he⟩

/-- an entity without a live trace emits nothing, whatever it does: its `write` is not reported -/
theorem untraced_emits_nothing (s : St) (e : Ent) (a : Act) (s' : St) (hs : step s e a = some s')
    (hf : findTrace s.traces e = none) : newEvents s s' = [] := by
  obtain ⟨evs, ho, _, _, _, hnone⟩ := step_out hs
  rw [newEvents_of_out ho]
  exact hnone hf

/-- an action of one entity leaves the trace of every other entity exactly as it was -/
theorem other_traces_untouched (ls : List (Ent × Act)) (s : St) (h : run {} ls = some s) (e : Ent) (a : Act) (s' : St)
    (hs : step s e a = some s') : ∀ tr ∈ s.traces, tr.ent ≠ e → tr ∈ s'.traces := by
  intro tr htr hne
  have hi := (inv_of_run h).tr
  rcases step_cases hs with hl | ⟨_, _, _, rfl⟩ | ⟨_, n, _, rfl⟩ | ⟨rfl, _⟩ | ⟨rfl, _⟩ | ⟨_, _, _, _, rfl⟩
  · obtain ⟨tr0, ph', en', evs, nc', np', hf, _, rfl⟩ := hl
    obtain ⟨hm, he, _⟩ := findTrace_some hf
    refine mem_setTrace.mpr (Or.inr ⟨htr, ?_⟩)
    intro hno
    have := hi.uniq tr htr tr0 hm hno
    subst this
    exact hne he
  · rw [addNewcomer_traces]; exact htr
  · exact List.mem_append_left _ htr
  · exact htr
  · exact htr
  · exact htr

/-- a prompt left unanswered in one trace never blocks another: whether an action of entity `e` is enabled, and what it
emits, does not depend on the phase of any other entity's trace -/
theorem open_prompt_does_not_block_others (ls : List (Ent × Act)) (s : St) (h : run {} ls = some s)
    (e e' : Ent) (hne : e ≠ e') (tr' : TraceSt) (hf : findTrace s.traces e' = some tr') (ph : Phase) (a : Act) :
    let s2 : St := { s with traces := setTrace s.traces { tr' with phase := ph } }
    (step s e a).isSome = (step s2 e a).isSome ∧
    ∀ s' s2', step s e a = some s' → step s2 e a = some s2' → newEvents s s' = newEvents s2 s2' := by
  intro s2
  have hi := (inv_of_run h).tr
  obtain ⟨hm, he', _⟩ := findTrace_some hf
  have hfe : findTrace (setTrace s.traces { tr' with phase := ph }) e = findTrace s.traces e := by
    refine findTrace_setTrace_other (fun h' => hne (h'.symm.trans he')) ?_
    intro x hx hno h'
    have := hi.uniq x hx tr' hm hno
    subst this
    exact hne (h'.symm.trans he')
  obtain ⟨h1, h2⟩ := step_congr s _ e a hfe
  refine ⟨h1, ?_⟩
  intro s' s2' hs hs2
  show s'.out.drop s.out.length = s2'.out.drop s.out.length
  rw [h2 s' s2' hs hs2]

/-! ## non-vacuity: concrete runs -/

/-- first events of an entity: numbers drawn, start-trace emitted, first trace call drawn and emitted -/
def intro (e : Ent) (file line frame : Nat) : List (Ent × Act) :=
  [(e, .drawIds), (e, .drawTrace), (e, .emitStart), (e, .drawCall file line frame 0), (e, .emitCall)]

/-- two threads and a task; the task's trace ends and the task is traced again (new trace, new task number) -/
def demo : List (Ent × Act) :=
  intro ⟨1, none⟩ 10 1 100 ++ intro ⟨1, some 7⟩ 11 5 200 ++ intro ⟨2, none⟩ 12 1 300 ++
  [(⟨1, some 7⟩, .stop), (⟨1, some 7⟩, .drawPrompt), (⟨1, some 7⟩, .emitPrompt 3), (⟨1, none⟩, .leave),
   (⟨1, some 7⟩, .answer 0), (⟨1, some 7⟩, .endLoop), (⟨1, some 7⟩, .leave), (⟨1, some 7⟩, .finish)] ++
  intro ⟨1, some 7⟩ 11 6 200 ++ intro ⟨1, some 8⟩ 11 7 400

example : ((run {} demo).map fun s => s.traces.map fun t => (t.traceNo, t.threadNo, t.taskNo, t.ended)) =
    some [(1, 1, none, false), (2, 1, some 1, true), (3, 2, none, false), (4, 1, some 2, false), (5, 1, some 3, false)] := by
  decide
/-- while the task of thread 1 sits at its prompt (after 18 labels), thread 2 can stop and be prompted as well, and the
first thread can leave its trace call -/
example : ((run {} (demo.take 18)).bind fun s =>
    run s [(⟨2, none⟩, .stop), (⟨2, none⟩, .drawPrompt), (⟨2, none⟩, .emitPrompt 4), (⟨1, none⟩, .leave)]).isSome = true := by decide
/-- the events of an action carry the trace number of the acting entity's trace -/
example : ((run {} (demo.take 19)).bind fun s => (step s ⟨1, some 7⟩ (.answer 0)).map fun s' => (newEvents s s').map evTrace) =
    some [2] := by decide

end NLV.C06
