import NLV.Model.Trace
import NLV.Lemmas.Trace
/-!
# C06 — one trace per thread / task, events attributed to the right trace, traces independent of each other

Theorems over model D1 (`NLV/Model/Trace.lean`) for **every** label list (every interleaving of threads and tasks).
The invariants (`TrInv`: trace numbers, `IdInv`: thread and task numbers) and the case analysis of `step` live in
`NLV/Lemmas/Trace.lean`.

`attribution` as originally stated is **false** of the model for exactly two actions of an entity that has (so far) no
trace at all: `stopRefused` and `write` (both are no-ops then — the write is "not reported"); see `attribution_partial`,
`attribution_of_traced` and the counter-example below.
-/
namespace NLV.C06
open NLV.Trace
open NLV.Reg hiding St step   -- `St`, `step` are those of model D1 (`NLV.Trace`)

/-- every thread and task that executes traced code gets its own trace number: trace numbers are never reused, and two
live traces never belong to the same entity -/
theorem trace_numbers_injective (ls : List (Ent × Act)) (s : St) (h : run {} ls = some s) :
    (s.traces.map (·.traceNo)).Nodup ∧
    ∀ t1 ∈ s.traces, ∀ t2 ∈ s.traces, t1.ent = t2.ent → t1.ended = false → t2.ended = false → t1 = t2 :=
  ⟨(inv_of_run h).tr.nodup, (inv_of_run h).tr.live⟩

/-- (thread number, task number) identifies the entity consistently: the thread number is a function of the OS thread and
injective on threads; within one thread number, equal task numbers mean the same task; threads have no task number -/
theorem ids_consistent (ls : List (Ent × Act)) (s : St) (h : run {} ls = some s) :
    ∀ t1 ∈ s.traces, ∀ t2 ∈ s.traces,
      (t1.ent.thread = t2.ent.thread ↔ t1.threadNo = t2.threadNo) ∧
      (t1.taskNo.isSome = t1.ent.task.isSome) ∧
      (t1.threadNo = t2.threadNo → t1.taskNo = t2.taskNo → t1.taskNo.isSome = true → t1.ent.task = t2.ent.task ∨ t1.traceNo = t2.traceNo) := by
  have hi := (inv_of_run h).id
  intro t1 h1 t2 h2
  refine ⟨⟨?_, ?_⟩, hi.taskSome t1 h1, fun a b c => Or.inr (hi.taskInj t1 h1 t2 h2 a b c)⟩
  · intro heq
    have g1 := hi.thrGet t1 h1
    have g2 := hi.thrGet t2 h2
    rw [heq, g2] at g1
    injection g1 with g1
    exact g1.symm
  · intro heq
    have m1 := alGet_some_mem (hi.thrGet t1 h1)
    have m2 := alGet_some_mem (hi.thrGet t2 h2)
    exact hi.thrInj _ m1 _ m2 heq

/-- a stronger form of the third clause: within one thread number, a task number is given to one trace only (a task that
is traced again after its trace ended gets a new task number) -/
theorem task_numbers_fresh (ls : List (Ent × Act)) (s : St) (h : run {} ls = some s) :
    ∀ t1 ∈ s.traces, ∀ t2 ∈ s.traces, t1.threadNo = t2.threadNo → t1.taskNo = t2.taskNo → t1.taskNo.isSome = true →
      t1 = t2 := by
  intro t1 h1 t2 h2 a b c
  exact (inv_of_run h).tr.uniq t1 h1 t2 h2 ((inv_of_run h).id.taskInj t1 h1 t2 h2 a b c)

/- ORIGINAL STATEMENT — FALSE of the model (see the counter-example below):

theorem attribution (ls : List (Ent × Act)) (s : St) (h : run {} ls = some s) (e : Ent) (a : Act) (s' : St)
    (hs : step s e a = some s') :
    ∃ tr ∈ s'.traces, tr.ent = e ∧ ∀ ev ∈ newEvents s s', evTrace ev = tr.traceNo

An entity without any trace (it never executed traced code) can still perform `stopRefused` (a `cmdloop()` outside a trace
call is refused) and `write` (its stdout line is not reported): both are enabled, change nothing and emit nothing, but
there is no trace of `e` to attribute to. -/

/-- counter-example to the original `attribution`: in the initial state (reached by the empty run) entity `⟨0, none⟩` may
`write`; the state is unchanged and there is no trace of that entity -/
example : run {} [] = some {} ∧ step {} ⟨0, none⟩ (.write 0) = some {} ∧
    ¬ ∃ tr ∈ ({} : St).traces, tr.ent = ⟨0, none⟩ ∧ ∀ ev ∈ newEvents {} {}, evTrace ev = tr.traceNo := by decide
/-- the same for `stopRefused` -/
example : step {} ⟨0, none⟩ .stopRefused = some {} ∧
    ¬ ∃ tr ∈ ({} : St).traces, tr.ent = ⟨0, none⟩ ∧ ∀ ev ∈ newEvents {} {}, evTrace ev = tr.traceNo := by decide

/-- attribution (strongest true variant): every event an action of entity `e` emits carries the trace number of `e`'s
trace — unless `e` has no live trace and the action is `stopRefused` or `write`, which then changes nothing and emits
nothing.  (Holds in every state, reachable or not.) -/
theorem attribution_partial (ls : List (Ent × Act)) (s : St) (_h : run {} ls = some s) (e : Ent) (a : Act) (s' : St)
    (hs : step s e a = some s') :
    (∃ tr ∈ s'.traces, tr.ent = e ∧ ∀ ev ∈ newEvents s s', evTrace ev = tr.traceNo) ∨
    (findTrace s.traces e = none ∧ (a = .stopRefused ∨ ∃ t, a = .write t) ∧ s' = s ∧ newEvents s s' = []) := by
  rcases step_cases hs with hl | ⟨_, _, hl⟩ | ⟨rfl, _, tr, hf, _⟩ | ⟨rfl, hf, ha⟩ | ⟨tr, text, hf, _, rfl⟩
  · obtain ⟨tr, ph', en', evs, nc', np', hf, hL, rfl⟩ := hl
    obtain ⟨hm, he, _⟩ := findTrace_some hf
    refine Or.inl ⟨{ tr with phase := ph', ended := en' }, mem_setTrace.mpr (Or.inl ⟨rfl, tr, hm, rfl⟩), he, ?_⟩
    intro ev hev
    simp only [newEvents, List.drop_left] at hev
    exact local_evTrace hL ev hev
  · obtain ⟨tr, ph', en', evs, nc', np', hf, hL, rfl⟩ := hl
    obtain ⟨hm, he, _⟩ := findTrace_some hf
    have htn : tr.traceNo = s.nextTrace := by
      simp only [addTrace_traces, List.mem_append, List.mem_singleton] at hm
      rcases hm with hm | rfl
      · have hf' : findTrace (s.traces) e = none := by assumption
        have := findTrace_none hf' tr hm he
        have hl := (findTrace_some hf).2.2
        rw [this] at hl; cases hl
      · rfl
    refine Or.inl ⟨{ tr with phase := ph', ended := en' }, mem_setTrace.mpr (Or.inl ⟨rfl, tr, hm, rfl⟩), he, ?_⟩
    intro ev hev
    have hout : newEvents s { addTrace s e with
        traces := setTrace (addTrace s e).traces { tr with phase := ph', ended := en' }, nextCall := nc',
        nextPrompt := np', out := (addTrace s e).out ++ evs } =
        [.startTrace s.nextTrace (newThreadNo s e) (newTaskNo s e)] ++ evs := by
      simp [newEvents, List.append_assoc]
    rw [hout] at hev
    simp only [List.mem_append, List.mem_singleton] at hev
    rcases hev with rfl | hev
    · exact htn.symm
    · exact local_evTrace hL ev hev
  · obtain ⟨hm, he, _⟩ := findTrace_some hf
    exact Or.inl ⟨tr, hm, he, by simp [newEvents]⟩
  · exact Or.inr ⟨hf, ha, rfl, by simp [newEvents]⟩
  · obtain ⟨hm, he, _⟩ := findTrace_some hf
    refine Or.inl ⟨tr, hm, he, ?_⟩
    intro ev hev
    simp only [newEvents, List.drop_left, List.mem_singleton] at hev
    subst hev; rfl

/-- `attribution` holds for every action other than `stopRefused` and `write` … -/
theorem attribution_of_traced (ls : List (Ent × Act)) (s : St) (h : run {} ls = some s) (e : Ent) (a : Act) (s' : St)
    (hs : step s e a = some s') (ha : a ≠ .stopRefused ∧ ∀ t, a ≠ .write t) :
    ∃ tr ∈ s'.traces, tr.ent = e ∧ ∀ ev ∈ newEvents s s', evTrace ev = tr.traceNo := by
  rcases attribution_partial ls s h e a s' hs with h1 | ⟨_, h2, _⟩
  · exact h1
  · rcases h2 with h2 | ⟨t, h2⟩
    · exact absurd h2 ha.1
    · exact absurd h2 (ha.2 t)

/-- … and for `stopRefused` and `write` too as soon as the entity has a live trace -/
theorem attribution_of_live (ls : List (Ent × Act)) (s : St) (h : run {} ls = some s) (e : Ent) (a : Act) (s' : St)
    (hs : step s e a = some s') (hf : (findTrace s.traces e).isSome = true) :
    ∃ tr ∈ s'.traces, tr.ent = e ∧ ∀ ev ∈ newEvents s s', evTrace ev = tr.traceNo := by
  rcases attribution_partial ls s h e a s' hs with h1 | ⟨h2, _⟩
  · exact h1
  · rw [h2] at hf; cases hf

/-- an action of one entity leaves the trace of every other entity exactly as it was -/
theorem other_traces_untouched (ls : List (Ent × Act)) (s : St) (h : run {} ls = some s) (e : Ent) (a : Act) (s' : St)
    (hs : step s e a = some s') : ∀ tr ∈ s.traces, tr.ent ≠ e → tr ∈ s'.traces := by
  have hi := (inv_of_run h).tr
  intro x hx hxe
  rcases step_cases hs with hl | ⟨hf0, _, hl⟩ | ⟨rfl, _⟩ | ⟨rfl, _⟩ | ⟨tr, text, _, _, rfl⟩
  · obtain ⟨tr, ph', en', evs, nc', np', hf, _, rfl⟩ := hl
    obtain ⟨hm, he, _⟩ := findTrace_some hf
    refine mem_setTrace.mpr (Or.inr ⟨hx, ?_⟩)
    intro hno
    have := hi.uniq x hx tr hm hno
    subst this
    exact hxe he
  · obtain ⟨tr, ph', en', evs, nc', np', hf, _, rfl⟩ := hl
    obtain ⟨hm, he, _⟩ := findTrace_some hf
    have hi' := trInv_addTrace hi hf0
    have hx' : x ∈ (addTrace s e).traces := by rw [addTrace_traces]; exact List.mem_append_left _ hx
    refine mem_setTrace.mpr (Or.inr ⟨hx', ?_⟩)
    intro hno
    have := hi'.uniq x hx' tr hm hno
    subst this
    exact hxe he
  · exact hx
  · exact hx
  · exact hx

/-- a prompt left unanswered in one trace never blocks another: whether an action of entity `e` is enabled, and what it
emits, does not depend on the phase of any other entity's trace -/
theorem open_prompt_does_not_block_others (ls : List (Ent × Act)) (s : St) (h : run {} ls = some s)
    (e e' : Ent) (hne : e ≠ e') (tr' : TraceSt) (hf : findTrace s.traces e' = some tr') (ph : Phase) (a : Act) :
    let s2 : St := { s with traces := setTrace s.traces { tr' with phase := ph } }
    (step s e a).isSome = (step s2 e a).isSome ∧
    ∀ s' s2', step s e a = some s' → step s2 e a = some s2' → newEvents s s' = newEvents s2 s2' := by
  intro s2
  have hi := (inv_of_run h).tr
  obtain ⟨hm, he', _⟩ := findTrace_some hf
  have hfe : findTrace (setTrace s.traces { tr' with phase := ph }) e = findTrace s.traces e := by
    refine findTrace_setTrace_other (fun h' => hne (h'.symm.trans he')) ?_
    intro x hx hno h'
    have := hi.uniq x hx tr' hm hno
    subst this
    exact hne (h'.symm.trans he')
  obtain ⟨h1, h2⟩ := step_congr s _ e a hfe
  refine ⟨h1, ?_⟩
  intro s' s2' hs hs2
  show s'.out.drop s.out.length = s2'.out.drop s.out.length
  rw [h2 s' s2' hs hs2]

/-! ## non-vacuity: concrete runs -/

/-- two threads and a task; the task's trace ends and the task is traced again (new trace, new task number) -/
def demo : List (Ent × Act) :=
  [(⟨1, none⟩, .enter 10 1 100 0), (⟨1, some 7⟩, .enter 11 5 200 0), (⟨2, none⟩, .enter 12 1 300 0),
   (⟨1, some 7⟩, .stop), (⟨1, some 7⟩, .prompt 3), (⟨1, none⟩, .leave), (⟨1, some 7⟩, .abort), (⟨1, some 7⟩, .finish),
   (⟨1, some 7⟩, .enter 11 6 200 0), (⟨1, some 8⟩, .enter 11 7 400 0)]

example : ((run {} demo).map fun s => s.traces.map fun t => (t.traceNo, t.threadNo, t.taskNo, t.ended)) =
    some [(1, 1, none, false), (2, 1, some 1, true), (3, 2, none, false), (4, 1, some 2, false), (5, 1, some 3, false)] := by
  decide
/-- while the task of thread 1 sits at its prompt (after 5 labels), thread 2 can stop and be prompted as well, and the
first thread can leave its trace call -/
example : ((run {} (demo.take 5)).bind fun s =>
    run s [(⟨2, none⟩, .stop), (⟨2, none⟩, .prompt 4), (⟨1, none⟩, .leave)]).isSome = true := by decide
/-- the events of an action carry the trace number of the acting entity's trace -/
example : ((run {} (demo.take 6)).bind fun s => (step s ⟨1, some 7⟩ .abort).map fun s' => (newEvents s s').map evTrace) =
    some [2, 2, 2] := by decide

end NLV.C06
