import NLV.Model.Lifecycle
import NLV.Lemmas.LifeA
/-!
# C15 — at most one run (one child process) at a time

Theorems over model A for **every** history (serial or not) from every initial configuration: a child is alive exactly
while the state is `running`; a run or reset request in `running` is refused and changes nothing; an operation starts
at most one child and only when none is alive; when `finished` is published the child has exited.  The structural
invariant (`Inv`) lives in `NLV/Lemmas/LifeA.lean`.
-/
namespace NLV.C15
open NLV.Life

/-- a child is alive exactly while the state is `running` -/
theorem child_alive_iff_running (s : St) (h : Reach s) : s.childAlive = true ↔ s.ms = "running" :=
  (inv_of_reach h).alive

/-- a run request while a run is starting or running is refused and changes nothing; likewise reset -/
theorem second_run_refused (s : St) (hr : s.ms = "running") :
    step s Op.run = (s, [Obs.ret "run" (some Err.machineError)]) ∧
    ∀ a b c d, step s (Op.reset a b c d) = (s, [Obs.ret "reset" (some Err.machineError)]) := by
  have h1 : dest "run" s.ms = none := by rw [hr]; decide
  have h2 : dest "reset" s.ms = none := by rw [hr]; decide
  exact ⟨by simp only [step, h1], fun a b c d => by simp only [step, h2]⟩

/-- an operation starts at most one child, and only when none is alive -/
theorem at_most_one_child (s : St) (h : Reach s) (op : Op) :
    ((step s op).2.filter fun o => match o with | Obs.childStart _ _ _ _ => true | _ => false).length ≤ 1 ∧
    ((∃ a b c d, Obs.childStart a b c d ∈ (step s op).2) → s.childAlive = false) := by
  obtain ⟨h1, h2, h3⟩ := inv_of_reach h
  obtain ⟨ms, started, closedFlag, stmt, nextRunNo, tt, tm, runArg, cont, contClosed, contPlugins, childAlive, everRan,
    lastResult, waitBlocked, closeBlocked, children⟩ := s
  simp only at h1 h2 h3
  have hms := states_cases h1
  clear h1 h
  cases op
  case childExit r =>
    cases waitBlocked <;> cases closeBlocked <;> rcases hms with rfl | rfl | rfl | rfl | rfl <;> life_unfold <;>
      subst_vars <;> simp_all
  all_goals
    rcases hms with rfl | rfl | rfl | rfl | rfl <;> life_unfold <;> subst_vars <;> (repeat' split) <;>
      simp_all

/-- once `finished` is published the run's child has exited -/
theorem finished_implies_exited (s : St) (h : Reach s) (op : Op) (hf : Obs.pubState "finished" ∈ (step s op).2) :
    (step s op).1.childAlive = false := by
  obtain ⟨h1, h2, h3⟩ := inv_of_reach h
  obtain ⟨ms, started, closedFlag, stmt, nextRunNo, tt, tm, runArg, cont, contClosed, contPlugins, childAlive, everRan,
    lastResult, waitBlocked, closeBlocked, children⟩ := s
  simp only at h1 h2 h3
  have hms := states_cases h1
  clear h1 h
  cases op
  case childExit r =>
    cases waitBlocked <;> cases closeBlocked <;> rcases hms with rfl | rfl | rfl | rfl | rfl <;> life_unfold <;>
      subst_vars <;> simp_all
  all_goals
    rcases hms with rfl | rfl | rfl | rfl | rfl <;> life_unfold <;> subst_vars <;> (repeat' split) <;> simp_all

/-! ## non-vacuity checks -/

/-- a history with two runs: two children are started, never while one is alive; the second `run` and a `reset` issued
while `running` are refused -/
example :
    let o := (run (St.init 7 1 true false)
      [.start, .run, .run, .reset none none none none, .runAndContinue, .childExit (some 0),
       .reset none (some 5) none none, .runContinueAndWait, .childExit none]).2
    o.filter (fun o => match o with | Obs.childStart _ _ _ _ => true | Obs.ret _ (some _) => true | _ => false) =
      [Obs.childStart 1 7 true false, Obs.ret "run" (some Err.machineError), Obs.ret "reset" (some Err.machineError),
       Obs.ret "run_and_continue" (some Err.machineError), Obs.childStart 5 7 true false] := by decide

/-- `childAlive` along a history: false, false, true, true (a refused run), false, false -/
example :
    ([[], [.start], [.start, .run], [.start, .run, .run], [.start, .run, .run, .childExit (some 0)],
      [.start, .run, .close, .childExit none]].map
        fun ops => ((run (St.init 0 1 false false) ops).1.childAlive, (run (St.init 0 1 false false) ops).1.ms)) =
    [(false, "created"), (false, "initialized"), (true, "running"), (true, "running"), (false, "finished"),
     (false, "closed")] := by decide

/-- `finished` is published by `childExit` in a reachable state, and the child is then not alive; the ghost counter of
children started equals the number of `childStart` observations -/
example :
    let s := (run (St.init 0 1 false false) [.start, .run]).1
    Obs.pubState "finished" ∈ (step s (.childExit (some 3))).2 ∧ (step s (.childExit (some 3))).1.childAlive = false ∧
    (step s (.childExit (some 3))).1.lastResult = some (some 3) ∧ s.children = 1 := by decide

end NLV.C15
