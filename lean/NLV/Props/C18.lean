import NLV.Model.DoneCallback
import NLV.Lemmas.DoneCallback
import NLV.Props.C18T
/-!
# C18 — done-callbacks (`ThreadDoneCallback`, `TaskDoneCallback`)

Theorems over model I for **every** label list (every interleaving of thread starts/ends, registrations, monitor steps,
callback invocations and `close()`): a callback is made only for a registered thread that has ended, never more often
than the thread was registered, no registered thread is forgotten, `close()` returns only after the monitor has exited
and every registered thread has been called back, and a callback's exception is re-raised by `close()`.
The same for asyncio tasks.

The structural invariants (`Inv`, `TInv`), the registration-counting potential (`Pot`) and the step lemmas live in
`NLV/Lemmas/DoneCallback.lean`.
-/
namespace NLV.C18
open NLV.Done

/-- how often `register t` occurs in a label list -/
def regCount (ls : List Label) (t : Nat) : Nat := ls.count (Label.register t)

/-- no `register` after `close()` has been called (the documented contract of `close`) -/
def RegisterBeforeClose : List Label → Prop
  | [] => True
  | Label.closeCall :: ls => (∀ t, Label.register t ∉ ls) ∧ RegisterBeforeClose ls
  | _ :: ls => RegisterBeforeClose ls

/-! ## helpers -/

theorem inv_of_run {ls : List Label} {s : St} (h : run {} ls = some s) : Inv s :=
  inv_run (inv_init []) h

theorem pot_init (r : List Nat) (t : Nat) : Pot { raising := r } 0 t := by
  constructor <;> simp [calls]

theorem rbc_tail {l : Label} {ls : List Label} (h : RegisterBeforeClose (l :: ls)) : RegisterBeforeClose ls := by
  cases l <;> simp only [RegisterBeforeClose] at h
  all_goals first | exact h | exact h.2

/-- with no registration after `close()`, an exited monitor leaves an empty active set (from any good start state) -/
theorem exitEmpty_run {ls : List Label} {s0 s : St} (h0 : Inv s0) (he : s0.pc = .exited → s0.active = [])
    (hreg : RegisterBeforeClose ls) (hcl : s0.closed = true → ∀ t, Label.register t ∉ ls)
    (h : run s0 ls = some s) : s.pc = .exited → s.active = [] := by
  induction ls generalizing s0 with
  | nil => simp only [run, Option.some.injEq] at h; subst h; exact he
  | cons l ls ih =>
    simp only [run] at h
    split at h
    · next s1 hs =>
      refine ih (inv_step _ _ _ h0 hs) ?_ (rbc_tail hreg) ?_ h
      · refine exitEmpty_step h0 he ?_ hs
        intro hc u hl
        exact hcl hc u (hl ▸ List.mem_cons_self ..)
      · intro hc1 t ht
        by_cases hl : l = Label.closeCall
        · subst hl
          simp only [RegisterBeforeClose] at hreg
          exact hreg.1 t ht
        · rw [step_closed hs hl] at hc1
          exact hcl hc1 t (List.mem_cons_of_mem _ ht)
    · exact absurd h (by simp)

/-! ## threads -/

/-- a callback is invoked only for a registered thread, and only after that thread has ended -/
theorem callback_only_after_end (ls : List Label) (s : St) (h : run {} ls = some s) :
    ∀ t ∈ s.called, t ∈ s.registered ∧ t ∈ s.dead :=
  (inv_of_run h).calledOk

/-- never more callbacks for a thread than registrations of it; in particular at most one if it registered once -/
theorem calls_le_registrations (ls : List Label) (s : St) (h : run {} ls = some s) (t : Nat) :
    calls s t ≤ regCount ls t := by
  have := (pot_run (inv_init []) (pot_init [] t) h).1
  simpa [regCount] using this

/-- a registered thread is never forgotten: it is still in the active set or has been called back -/
theorem registered_not_lost (ls : List Label) (s : St) (h : run {} ls = some s) :
    ∀ t ∈ s.registered, t ∈ s.active ∨ t ∈ s.called :=
  (inv_of_run h).notLost

/-- `close()` returns only after the monitor has exited, and then (all registrations having preceded `close()`) every
registered thread has ended and has been called back -/
theorem close_returns_after_all (ls : List Label) (s : St) (h : run {} ls = some s)
    (hreg : RegisterBeforeClose ls) (hc : s.closeReturned = true) :
    s.pc = PC.exited ∧ s.active = [] ∧ ∀ t ∈ s.registered, t ∈ s.dead ∧ 1 ≤ calls s t := by
  have hi := inv_of_run h
  have hpc := (hi.retExit hc).1
  have hact := exitEmpty_run (inv_init []) (by simp) hreg (by simp) h hpc
  refine ⟨hpc, hact, ?_⟩
  intro t ht
  rcases hi.notLost t ht with ha | ha
  · rw [hact] at ha; simp at ha
  · exact ⟨(hi.calledOk t ha).2, List.count_pos_iff.2 ha⟩

/-- an exception raised by a callback is not lost: `close()` re-raises the first one -/
theorem callback_exception_reraised (ls : List Label) (s : St) (h : run {} ls = some s) :
    (∀ t ∈ s.excs, t ∈ s.called ∧ t ∈ s.raising) ∧ (∀ t ∈ s.called, t ∈ s.raising → t ∈ s.excs) ∧
    (s.closeReturned = true → s.reraised = s.excs.head?) :=
  have hi := inv_of_run h
  ⟨hi.excs1, hi.excs2, fun hc => (hi.retExit hc).2⟩

/-- the monitor never gets stuck: until it has exited, one of its steps is enabled -/
theorem monitor_no_deadlock (ls : List Label) (s : St) (h : run {} ls = some s) (hne : s.pc ≠ PC.exited) :
    (step s Label.mon).isSome = true ∨ ∃ t, (step s (Label.call t)).isSome = true := by
  obtain ⟨alive, dead, active, done, pc, closed, cr, raising, excs, reraised, registered, called⟩ := s
  dsimp only at hne
  cases pc with
  | scan => left; simp only [step]; split <;> rfl
  | calling rest =>
    cases rest with
    | nil => left; rfl
    | cons a r => right; exact ⟨a, by simp [step]⟩
  | remove => left; rfl
  | readClosed => left; rfl
  | checkActive c => left; simp only [step]; repeat' split
                     all_goals rfl
  | exited => exact absurd rfl hne

/-! ### the same from a start state in which some callbacks raise (`raising` is a scenario parameter)

The start state used by the conformance driver is `{ raising := r }`; the theorems above are the case `r = []`, in which
`callback_exception_reraised` speaks about an empty `excs`.  These versions cover every `r`. -/

theorem callback_exception_reraised_raising (r : List Nat) (ls : List Label) (s : St)
    (h : run { raising := r } ls = some s) :
    s.raising = r ∧ (∀ t ∈ s.excs, t ∈ s.called ∧ t ∈ s.raising) ∧ (∀ t ∈ s.called, t ∈ s.raising → t ∈ s.excs) ∧
    (s.closeReturned = true → s.reraised = s.excs.head?) := by
  have hi := inv_run (inv_init r) h
  exact ⟨run_raising h, hi.excs1, hi.excs2, fun hc => (hi.retExit hc).2⟩

/-- from any scenario: `close()` returns only after every registered thread has ended and been called back, and
callbacks never outnumber registrations -/
theorem close_returns_after_all_raising (r : List Nat) (ls : List Label) (s : St)
    (h : run { raising := r } ls = some s) (hreg : RegisterBeforeClose ls) (hc : s.closeReturned = true) :
    s.pc = PC.exited ∧ s.active = [] ∧ ∀ t ∈ s.registered, t ∈ s.dead ∧ 1 ≤ calls s t ∧ calls s t ≤ regCount ls t := by
  have hi := inv_run (inv_init r) h
  have hpc := (hi.retExit hc).1
  have hact := exitEmpty_run (inv_init r) (by simp) hreg (by simp) h hpc
  refine ⟨hpc, hact, ?_⟩
  intro t ht
  have hle : calls s t ≤ regCount ls t := by
    have := (pot_run (inv_init r) (pot_init r t) h).1
    simpa [regCount] using this
  rcases hi.notLost t ht with ha | ha
  · rw [hact] at ha; simp at ha
  · exact ⟨(hi.calledOk t ha).2, List.count_pos_iff.2 ha, hle⟩

/-! ## asyncio tasks -/

/-- asyncio tasks: a callback only for a registered, finished task -/
theorem task_callback_after_finish (ls : List TLabel) (s : TSt) (h : trun {} ls = some s) :
    ∀ t ∈ s.called, t ∈ s.registered ∧ t ∈ s.finished :=
  (tinv_run h).calledOk

/-- asyncio tasks: never more callbacks than registrations -/
theorem task_calls_le_registrations (ls : List TLabel) (s : TSt) (h : trun {} ls = some s) (t : Nat) :
    s.called.count t ≤ ls.count (TLabel.register t) := by
  have := tpot_run (n := 0) (t := t) tinv_init (by simp) h
  omega

/-- asyncio tasks: once the event loop has no callback left to invoke, every registered task that finished has been
called back, and `active` (what `close()` waits for) holds exactly unfinished tasks -/
theorem task_quiescent_complete (ls : List TLabel) (s : TSt) (h : trun {} ls = some s) (hq : s.scheduled = []) :
    (∀ t ∈ s.registered, t ∈ s.finished → t ∈ s.called) ∧ (∀ t ∈ s.active, t ∉ s.finished) := by
  have hi := tinv_run h
  have hact : ∀ t ∈ s.active, t ∉ s.finished := by
    intro t ha hf
    have := hi.actFin t ha hf
    rw [hq] at this; simp at this
  refine ⟨?_, hact⟩
  intro t ht hf
  rcases hi.notLost t ht with ha | ha
  · exact absurd hf (hact t ha)
  · exact ha

/-! ## non-vacuity and sharpness checks -/

/-- two threads, both registered, both end; the monitor calls each back once; `close()` returns -/
example :
    (run {} [.start 1, .start 2, .register 1, .register 2, .die 2, .die 1, .mon, .call 2, .call 1, .mon, .mon,
             .closeCall, .mon, .mon, .closeRet]).map
      (fun s => (s.closeReturned, s.pc, calls s 1, calls s 2, s.called)) =
    some (true, PC.exited, 1, 1, [2, 1]) := by decide

/-- the label list above satisfies the contract of `close` -/
example : RegisterBeforeClose [.start 1, .start 2, .register 1, .register 2, .die 2, .die 1, .mon, .call 2, .call 1,
    .mon, .mon, .closeCall, .mon, .mon, .closeRet] := by
  simp [RegisterBeforeClose]

/-- the callbacks for threads 2 and 3 raise: `close()` re-raises the first exception collected -/
example :
    (run { raising := [2, 3] } [.start 1, .start 2, .start 3, .register 1, .register 2, .register 3, .die 3, .die 1,
             .die 2, .mon, .call 1, .call 3, .call 2, .mon, .mon, .closeCall, .mon, .mon, .closeRet]).map
      (fun s => (s.closeReturned, s.excs, s.reraised)) =
    some (true, [3, 2], some 3) := by decide

/-- `calls_le_registrations` can be strict: a re-registration of an ended thread while the monitor is in its calling
phase is swallowed (`_active.add` is a no-op, then `_active - done` removes the thread) — two registrations, one
callback, and `close()` returns -/
example :
    (run {} [.start 1, .register 1, .die 1, .mon, .call 1, .register 1, .mon, .mon, .closeCall, .mon, .mon,
             .closeRet]).map
      (fun s => (s.closeReturned, calls s 1, s.active)) = some (true, 1, []) ∧
    regCount [.start 1, .register 1, .die 1, .mon, .call 1, .register 1, .mon, .mon, .closeCall, .mon, .mon,
              .closeRet] 1 = 2 := by
  decide

/-- a re-registration after the monitor's `remove` step is honoured: two registrations, two callbacks -/
example :
    (run {} [.start 1, .register 1, .die 1, .mon, .call 1, .mon, .mon, .register 1, .mon, .mon, .mon, .call 1, .mon,
             .mon, .closeCall, .mon, .mon, .closeRet]).map
      (fun s => (s.closeReturned, calls s 1)) = some (true, 2) := by decide

/-- the hypothesis `RegisterBeforeClose` of `close_returns_after_all` is needed: a registration after the monitor has
exited is never called back, yet `close()` returns -/
example :
    (run {} [.closeCall, .mon, .mon, .mon, .start 1, .register 1, .die 1, .closeRet]).map
      (fun s => (s.closeReturned, s.active, s.called)) = some (true, [1], []) := by decide

/-- the monitor cannot take a `mon` step in the middle of its calling phase, but a `call` step is enabled -/
example :
    (run {} [.start 1, .register 1, .die 1, .mon]).map
      (fun s => ((step s .mon).isSome, (step s (.call 1)).isSome)) = some (false, true) := by decide

/-- why the monitor reads `_closed` BEFORE `_active` (fix F-I2): the monitor reads `_closed = False` (8th label), then
thread 2 registers and ends and `close()` is called.  The monitor's next step sees a non-empty `_active` and goes round
again; `close()` returns only after thread 2 has been called back. -/
example :
    (run {} [.start 1, .die 1, .register 1, .mon, .call 1, .mon, .mon, .mon, .start 2, .register 2, .die 2, .closeCall,
             .mon, .mon, .call 2, .mon, .mon, .mon, .mon, .closeRet]).map
      (fun s => (s.closeReturned, s.pc, s.active, s.called)) = some (true, PC.exited, [], [1, 2]) := by decide

/-- … and in that run `close()` cannot return any earlier: after `closeCall` and the monitor's next step the monitor is
back at `scan` (not exited), so `closeRet` is not enabled.  Even with `_active` empty, a stale `closed = False` sends the
monitor round again instead of letting it exit. -/
example :
    (run {} [.start 1, .die 1, .register 1, .mon, .call 1, .mon, .mon, .mon, .start 2, .register 2, .die 2, .closeCall,
             .mon]).map (fun s => (s.pc, s.active, (step s .closeRet).isSome)) = some (PC.scan, [2], false) ∧
    (run {} [.mon, .mon, .closeCall, .mon]).map (fun s => (s.pc, s.closed, (step s .closeRet).isSome)) =
      some (PC.scan, true, false) := by decide

/-- tasks: registered, finished, called back once; quiescent with an unfinished task left in `active` -/
example :
    (trun {} [.register 1, .register 2, .register 1, .finish 1, .callback 1]).map
      (fun s => (s.scheduled, s.called, s.active, s.finished)) = some ([], [1], [2], [1]) := by decide

/-- tasks: registering an already finished task schedules its callback at once -/
example :
    (trun {} [.finish 1, .register 1, .callback 1, .register 1, .callback 1]).map
      (fun s => (s.scheduled, s.called, s.active)) = some ([], [1, 1], []) := by decide

end NLV.C18
