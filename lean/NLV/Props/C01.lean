import NLV.Model.Lifecycle
import NLV.Lemmas.LifeA
/-!
# C01 — the state machine follows the documented diagram

Theorems over model A for **every** history (serial or not) from every initial configuration: the generated transition
table contains only documented transitions; a refused request raises `MachineError` and changes nothing; what an
operation publishes on `state_name` is a walk along documented edges from the current state to the new one; `closed`
is never left.  The structural invariant (`Inv`) and the table evaluation live in `NLV/Lemmas/LifeA.lean`.
-/
namespace NLV.C01
open NLV.Life NLV.Generated

/-- (a) the generated table contains only documented transitions, `closed` has no way out, one transition per
(trigger, source), and invalid triggers are neither ignored nor queued -/
theorem config_edges_documented :
    (∀ t ∈ Generated.transitions, (t.trigger, t.source, t.dest) ∈
      [("initialize","created",some "initialized"), ("run","initialized",some "running"), ("finish","running",some "finished"),
       ("reset","initialized",some "initialized"), ("reset","finished",some "initialized"),
       ("close","created",some "closed"), ("close","initialized",some "closed"), ("close","running",some "closed"),
       ("close","finished",some "closed"), ("close","closed",none)]) ∧
    (∀ t ∈ Generated.transitions, t.source = "closed" → t.dest = none) ∧
    (Generated.transitions.map fun t => (t.trigger, t.source)).Nodup ∧
    Generated.ignoreInvalidTriggers = false ∧ Generated.queued = false ∧ Generated.initial = "created" := by
  refine ⟨by decide, by decide, by decide, by decide, by decide, by decide⟩

/-- (b) a refused run/reset request raises MachineError and changes nothing at all — for EVERY state, reachable or not -/
theorem refused_changes_nothing (s : St) :
    (dest "run" s.ms = none → step s Op.run = (s, [Obs.ret "run" (some Err.machineError)])) ∧
    (∀ a b c d, dest "reset" s.ms = none → step s (Op.reset a b c d) = (s, [Obs.ret "reset" (some Err.machineError)])) := by
  constructor
  · intro h; simp only [step, h]
  · intro a b c d h; simp only [step, h]

/-- (b') which requests are refused: run outside `initialized`, reset outside `initialized`/`finished` -/
theorem refusal_table (ms : String) (h : ms ∈ Generated.states) :
    (dest "run" ms = none ↔ ms ≠ "initialized") ∧ (dest "reset" ms = none ↔ (ms ≠ "initialized" ∧ ms ≠ "finished")) := by
  rcases states_cases h with rfl | rfl | rfl | rfl | rfl <;> decide

/-- (c,d) in every reachable state, what an operation publishes on `state_name` is a walk along documented edges that
starts at the current state and ends at the new one; and the state attribute itself changes only that way -/
theorem published_walks_edges (s : St) (h : Reach s) (op : Op) :
    Walk s.ms (pubStates (step s op).2) ∧ (step s op).1.ms = lastOr s.ms (pubStates (step s op).2) := by
  obtain ⟨h1, h2, h3⟩ := inv_of_reach h
  obtain ⟨ms, started, closedFlag, stmt, nextRunNo, tt, tm, runArg, cont, contClosed, contPlugins, childAlive, everRan,
    lastResult, waitBlocked, closeBlocked, children⟩ := s
  simp only at h1 h2 h3
  have hms := states_cases h1
  clear h1 h
  cases op
  case childExit r =>
    cases waitBlocked <;> cases closeBlocked <;> rcases hms with rfl | rfl | rfl | rfl | rfl <;> life_unfold <;>
      subst_vars <;> simp_all [pubStates_cons, Walk, edge, lastOr]
  all_goals
    rcases hms with rfl | rfl | rfl | rfl | rfl <;> life_unfold <;> subst_vars <;> (repeat' split) <;>
      simp_all [pubStates_cons, Walk, edge, lastOr]

/-- `closed` is never left, and nothing is published on `state_name` once closed -/
theorem closed_never_left (s : St) (h : Reach s) (hc : s.ms = "closed") (op : Op) :
    (step s op).1.ms = "closed" ∧ pubStates (step s op).2 = [] := by
  obtain ⟨-, h2, -⟩ := inv_of_reach h
  obtain ⟨ms, started, closedFlag, stmt, nextRunNo, tt, tm, runArg, cont, contClosed, contPlugins, childAlive, everRan,
    lastResult, waitBlocked, closeBlocked, children⟩ := s
  simp only at h2 hc
  subst hc
  clear h
  cases op <;> life_unfold <;> subst_vars <;> (repeat' split) <;> simp_all [pubStates_cons]

/-! ## non-vacuity checks -/

/-- a full lifecycle: the publications on `state_name` are created → initialized → running → finished → initialized
→ running → (close blocks) → finished → closed -/
example :
    pubStates (run (St.init 0 1 false false)
      [.start, .run, .childExit (some 0), .reset none none none none, .runAndContinue, .close, .childPrompt,
       .childExit none]).2 =
      ["initialized", "running", "finished", "initialized", "running", "finished", "closed"] ∧
    Walk "created" ["initialized", "running", "finished", "initialized", "running", "finished", "closed"] ∧
    (run (St.init 0 1 false false)
      [.start, .run, .childExit (some 0), .reset none none none none, .runAndContinue, .close, .childPrompt,
       .childExit none]).1.ms = "closed" := by decide

/-- refused requests: `run` in `created` and in `running`, `reset` in `running` — `MachineError`, nothing published -/
example :
    (run (St.init 0 1 false false) [.run, .start, .run, .run, .reset (some 3) none none none]).2.filter
      (fun o => match o with | Obs.ret _ _ => true | Obs.pubState _ => true | _ => false) =
    [Obs.ret "run" (some Err.machineError), Obs.pubState "initialized", Obs.ret "start" none,
     Obs.pubState "running", Obs.ret "run" none, Obs.ret "run" (some Err.machineError),
     Obs.ret "reset" (some Err.machineError)] := by decide

/-- `Walk` is not trivially true: `finished → running` and `closed → initialized` are not edges -/
example : ¬ Walk "finished" ["running"] ∧ ¬ Walk "created" ["closed", "initialized"] ∧ edge "closed" "closed" = false := by
  decide

/-- once closed, every request leaves the state `closed` -/
example :
    ((run (St.init 0 1 false false) [.start, .close, .start, .run, .reset none none none none, .runAndContinue,
      .close, .childExit none]).1.ms,
     pubStates (run (St.init 0 1 false false) [.start, .close, .start, .run, .reset none none none none,
      .runAndContinue, .close, .childExit none]).2) = ("closed", ["initialized", "closed"]) := by decide

end NLV.C01
