import NLV.Model.Traceback
import NLV.Props.C13
/-!
# C04 — tracing is transparent (the part a theorem can carry)

* `traceback_cleaned`: for every traceback of the shapes the runner produces, the reported traceback is exactly the
  user's frames — it starts in user code and contains no Nextline frame;
* `stdout_passthrough`: the write wrapper forwards every string once, unchanged, in order (model K, `NLV.Props.C13`).

That CPython computes the same thing with a trace function installed is **not** provable here: that half of C04 is the
differential correspondence of the check (generated programs × statement forms × command policies × options against an
untraced reference execution).
-/
namespace NLV.C04
open NLV.Tb

/-- an exception raised by user code (called from the runner): `runner :: user-frames`, cleaned to the user frames -/
theorem traceback_cleaned_user (k : ExcKind) (us : Traceback) (hu : ∀ f ∈ us, f = Mod.user) :
    clean k (Mod.runner :: us) = us := by
  have hc : Mod.compose ∉ us := fun h => by have := hu _ h; cases this
  have hcut : ∀ l : Traceback, (∀ f ∈ l, f = Mod.user) → cutAtUtils l = l := by
    intro l
    induction l with
    | nil => intro _; rfl
    | cons a t ih =>
      intro h
      cases t with
      | nil => rfl
      | cons b t' =>
        have hb : b = Mod.user := h b (by simp)
        have : ¬ b = Mod.utils := by rw [hb]; decide
        simp only [cutAtUtils, this, if_false]
        rw [ih (fun f hf => h f (by simp [hf]))]
  unfold clean cleanKbd cleanSyntax removeFrame
  cases k <;> simp [hc, hcut us hu]

/-- a KeyboardInterrupt raised inside the trace function (delivered while a prompt is open): the traceback
`runner :: user-frames ++ utils :: trace-function-frames` is cleaned to the user frames -/
theorem traceback_cleaned_interrupt (us inner : Traceback) (hu : ∀ f ∈ us, f = Mod.user) (hne : us ≠ []) :
    clean ExcKind.keyboardInterrupt (Mod.runner :: (us ++ Mod.utils :: inner)) = us := by
  have hcut : ∀ l : Traceback, (∀ f ∈ l, f = Mod.user) → l ≠ [] → cutAtUtils (l ++ Mod.utils :: inner) = l := by
    intro l
    induction l with
    | nil => intro _ h; exact absurd rfl h
    | cons a t ih =>
      intro h _
      cases t with
      | nil => simp [cutAtUtils]
      | cons b t' =>
        have hb : b = Mod.user := h b (by simp)
        have : ¬ b = Mod.utils := by rw [hb]; decide
        simp only [List.cons_append, cutAtUtils, this, if_false]
        have := ih (fun f hf => h f (by simp [hf])) (by simp)
        simp only [List.cons_append] at this
        rw [this]
  simp [clean, cleanKbd, cleanSyntax, removeFrame, hcut us hu hne]

/-- a SyntaxError of the script: the traceback consists of Nextline frames only (runner, hook machinery, compose) and
is dropped entirely, so no Nextline frame is shown -/
theorem traceback_cleaned_syntax (mid : Traceback) :
    clean ExcKind.syntaxError (Mod.runner :: (mid ++ [Mod.compose])) = [] := by
  simp [clean, cleanKbd, cleanSyntax, removeFrame]

/-- in all three shapes the reported traceback contains no Nextline frame -/
theorem no_nextline_frames (k : ExcKind) (us inner : Traceback) (hu : ∀ f ∈ us, f = Mod.user) :
    (∀ f ∈ clean k (Mod.runner :: us), isNextline f = false) ∧
    (us ≠ [] → ∀ f ∈ clean ExcKind.keyboardInterrupt (Mod.runner :: (us ++ Mod.utils :: inner)), isNextline f = false) := by
  constructor
  · rw [traceback_cleaned_user k us hu]
    intro f hf; rw [hu f hf]; rfl
  · intro hne
    rw [traceback_cleaned_interrupt us inner hu hne]
    intro f hf; rw [hu f hf]; rfl

/-- the write wrapper forwards every string once, unchanged, in order, whatever the capture does with it -/
theorem stdout_passthrough (ws : List (Option Nat × NLV.Lines.Text)) :
    (NLV.Lines.run {} ws).real = ws.map (·.2) := NLV.C13.real_stdout_gets_all ws

example : clean ExcKind.other [Mod.runner, Mod.user, Mod.user] = [Mod.user, Mod.user] := by decide
example : clean ExcKind.keyboardInterrupt [Mod.runner, Mod.user, Mod.utils, Mod.nextline, Mod.nextline] = [Mod.user] := by decide
example : clean ExcKind.syntaxError [Mod.runner, Mod.nextline, Mod.compose] = [] := by decide

end NLV.C04
