import NLV.Lemmas.PubSub
/-!
# C08 — Pub/sub delivers every item to every subscriber once, in order, and ends cleanly

Property theorems only (helper lemmas live in `NLV.Lemmas.PubSub`).  All statements quantify
over *every* operation list — every interleaving of publishers, joiners (with or without
`last`/`cache`), leavers, `clear`, `aclose`/`end`/`close` — with no bound on its length, on the
number of subscribers or on the items.
-/
namespace NLV.C08
open NLV.PubSub
variable {α : Type}

/-- states of one topic object reachable by any operation sequence -/
def Reach (s : Item α) : Prop := ∃ (c : Bool) (ops : List (Op α)), s = run (Item.new c) ops

theorem reach_inv {s : Item α} (h : Reach s) : Inv s := by
  obtain ⟨c, ops, rfl⟩ := h
  exact inv_run _ ops (inv_new c)

theorem reach_step {s : Item α} (h : Reach s) (op : Op α) : Reach (step' s op) := by
  obtain ⟨c, ops, rfl⟩ := h
  exact ⟨c, ops ++ [op], by simp [run, List.foldl_append]⟩

/-- **Exactly once, in order, nothing else.**  At every moment what a subscriber has received
is a prefix of `base ++ (items published since its subscription started)`, and while it is
subscribed the remainder is exactly what is still pending for it, in order. -/
theorem receives_exactly_once_in_order {s : Item α} (hs : Reach s) {q : Subscr α} (hq : q ∈ s.subs) :
    q.got <+: q.base ++ s.log.drop q.startPos ∧
    (q.phase = .live → q.got ++ q.pre ++ vals q.queue = q.base ++ s.log.drop q.startPos) :=
  ⟨((reach_inv hs).subs q hq).prefix_, ((reach_inv hs).subs q hq).live_eq⟩

/-- **All subscribers agree on one order**: every received sequence is an initial segment of
`base ++` a suffix of the single publication log of the topic. -/
theorem all_agree_on_order {s : Item α} (hs : Reach s) {q : Subscr α} (hq : q ∈ s.subs) :
    ∃ k, q.got = (q.base ++ s.log.drop q.startPos).take k := by
  have h := (receives_exactly_once_in_order hs hq).1
  exact ⟨q.got.length, (List.prefix_iff_eq_take.mp h)⟩

/-- **Start of a subscription.**  On an ended topic the iterator finishes at once having yielded
nothing; otherwise it is registered with `base` = nothing / the latest item / everything since
the last `clear`, according to its options, and from the current end of the log. -/
theorem subscription_start_spec {s : Item α} (hs : Reach s) {q : Subscr α} (hq : q ∈ s.subs)
    (hc : q.phase = .created) :
    (s.closed = true → (startSub s q).phase = .done ∧ (startSub s q).got = []) ∧
    (s.closed = false →
      (startSub s q).phase = .live ∧ (startSub s q).got = [] ∧
      (startSub s q).base = specBase s q.wantLast q.wantCache ∧
      (startSub s q).pre = specBase s q.wantLast q.wantCache ∧
      (startSub s q).startPos = s.log.length) := by
  have hi := (reach_inv hs).item
  have hgot := (((reach_inv hs).subs q hq).created hc).1
  constructor
  · intro hcl
    simp [startSub, hi.lastStop hcl, hgot]
  · intro hcl
    have hv := hi.lastVal hcl
    have hpre := preOf_eq_specBase s hi hcl q.wantLast q.wantCache
    unfold startSub
    cases hsl : s.since.getLast? <;> simp [hv, hsl, hgot, hpre]

/-- the index filter of `subscribe()` never drops anything (`# pragma: no branch` is justified) -/
theorem never_skips {s : Item α} (hs : Reach s) (i : Nat) : (step s (.pull i)).2 ≠ Out.skipped := by
  simp only [step]
  cases hq : s.subs[i]? with
  | none => simp
  | some q =>
    have hqm : q ∈ s.subs := List.mem_of_getElem? hq
    have h0 := (reach_inv hs).subs q hqm
    have key : ∀ q' : Subscr α, SubOk s q' → q'.phase = .live → (pullLive q').2 ≠ Out.skipped := by
      intro q' h' hl
      unfold pullLive
      cases hp : q'.pre with
      | cons a t => simp
      | nil =>
        cases hqq : q'.queue with
        | nil => simp
        | cons e rest =>
          obtain ⟨j, v⟩ := e
          cases v with
          | stop => simp
          | item a =>
            have : q'.lastIdx < j := h'.live_new hl (j, .item a) (by simp [hqq])
            simp [this]
    simp only [pullSub]
    cases hp : q.phase with
    | done => simp
    | live => exact key q h0 hp
    | created =>
      simp only
      have h1 := subOk_startSub s (reach_inv hs).item q h0 hp
      cases hp' : (startSub s q).phase with
      | live => exact key _ h1 hp'
      | done => simp
      | created => simp

/-! ### Ending -/

/-- `n` consecutive scheduler steps of subscriber `i`'s `__anext__` -/
def pulls (s : Item α) (i : Nat) : Nat → Item α
  | 0 => s
  | n + 1 => pulls (step' s (.pull i)) i n

theorem stopOk_head_stop {j : Int} {rest : List (Int × Val α)}
    (h : StopOk true ((j, Val.stop) :: rest)) : rest = [] := by
  simp only [StopOk, if_true] at h
  obtain ⟨q0, k, hq0, hns⟩ := h
  cases q0 with
  | nil => simp at hq0; exact hq0.2
  | cons e t =>
    simp only [List.cons_append, List.cons.injEq] at hq0
    have := hns e (by simp)
    rw [← hq0.1] at this
    exact absurd rfl this

/-- **Ends cleanly.**  Once the topic is ended, a subscribed iterator terminates after exactly as
many steps as it has items pending plus one, and by then it has received precisely
`base ++` everything published from its start to the end — nothing lost, nothing added. -/
theorem ends_cleanly (n : Nat) : ∀ (s : Item α) (i : Nat) (q : Subscr α), Inv s → s.closed = true →
    s.subs[i]? = some q → q.phase = .live → n = q.pre.length + q.queue.length →
    ∃ q', (pulls s i n).subs[i]? = some q' ∧ q'.phase = .done ∧
      q'.got = q.base ++ s.log.drop q.startPos := by
  induction n with
  | zero =>
    intro s i q hs hcl hq hl hn
    have hqm : q ∈ s.subs := List.mem_of_getElem? hq
    have hst := (hs.subs q hqm).live_stop hl
    rw [hcl] at hst
    simp only [StopOk, if_true] at hst
    obtain ⟨q0, j, hq0, _⟩ := hst
    rw [hq0] at hn
    simp at hn
  | succ n ih =>
    intro s i q hs hcl hq hl hn
    have hqm : q ∈ s.subs := List.mem_of_getElem? hq
    have h0 := hs.subs q hqm
    have hilt : i < s.subs.length := (List.getElem?_eq_some_iff.mp hq).1
    have hs' : Inv (step' s (.pull i)) := inv_pull s i hs
    -- the state after one pull
    have hstep : step' s (.pull i) = { s with subs := s.subs.set i (pullLive q).1 } := by
      show (step s (.pull i)).1 = _
      simp [step, hq, pullSub, hl]
    have hget : (step' s (.pull i)).subs[i]? = some (pullLive q).1 := by
      rw [hstep]; simp [hilt]
    have hcl' : (step' s (.pull i)).closed = true := by rw [hstep]; exact hcl
    have hlog' : (step' s (.pull i)).log = s.log := by rw [hstep]
    show ∃ q', (pulls (step' s (.pull i)) i n).subs[i]? = some q' ∧ _
    cases hp : q.pre with
    | cons a pre' =>
      have hq1 : (pullLive q).1 = { q with pre := pre', got := q.got ++ [a] } := by
        simp [pullLive, hp]
      have := ih _ i _ hs' hcl' hget (by rw [hq1]; exact hl)
        (by rw [hq1]; simp [hp] at hn ⊢; omega)
      rw [hq1, hlog'] at this
      exact this
    | nil =>
      cases hqq : q.queue with
      | nil =>
        have hst := h0.live_stop hl
        rw [hcl, hqq] at hst
        simp only [StopOk, if_true] at hst
        obtain ⟨q0, j, hq0, _⟩ := hst
        simp at hq0
      | cons e rest =>
        obtain ⟨j, v⟩ := e
        cases v with
        | item a =>
          have hlt : q.lastIdx < j := h0.live_new hl (j, .item a) (by simp [hqq])
          have hq1 : (pullLive q).1 = { q with queue := rest, got := q.got ++ [a] } := by
            simp [pullLive, hp, hqq, hlt]
          have := ih _ i _ hs' hcl' hget (by rw [hq1]; exact hl)
            (by rw [hq1]; simp [hp, hqq] at hn ⊢; omega)
          rw [hq1, hlog'] at this
          exact this
        | stop =>
          have hst := h0.live_stop hl
          rw [hcl, hqq] at hst
          have hrest := stopOk_head_stop hst
          subst hrest
          have hn0 : n = 0 := by simp [hp, hqq] at hn; omega
          subst hn0
          have hq1 : (pullLive q).1 = { q with phase := .done, queue := [] } := by
            simp [pullLive, hp, hqq]
          refine ⟨(pullLive q).1, hget, by rw [hq1], ?_⟩
          have heq := h0.live_eq hl
          rw [hq1]
          simpa [hp, hqq] using heq

/-- a subscription whose iteration starts after the topic ended yields nothing -/
theorem started_after_end_yields_nothing {s : Item α} (hs : Reach s) (hcl : s.closed = true)
    {i : Nat} {q : Subscr α} (hq : s.subs[i]? = some q) (hc : q.phase = .created) :
    (step s (.pull i)).2 = Out.stopped := by
  have hi := (reach_inv hs).item
  simp [step, hq, pullSub, hc, startSub, hi.lastStop hcl]

/-! ### `latest` -/

/-- **Latest.**  `latest()` is the last item published since the most recent `clear` of the
current topic object (`LookupError`, modelled by `none`, when there is none); `since` is a suffix
of the log of that object. -/
theorem latest_is_last_of_lifetime {s : Item α} (hs : Reach s) :
    s.latest = s.since.getLast? ∧ s.since <:+ s.log :=
  ⟨(reach_inv hs).item.latest, (reach_inv hs).item.sinceSuffix⟩

theorem latest_after_publish (s : Item α) (a : α) (hc : s.closed = false) :
    (step' s (.publish a)).latest = some a := by
  simp [step', step, hc, Item.latest, enumerate]

theorem latest_after_clear (s : Item α) (hc : s.closed = false) :
    (step' s .clear).latest = none := by
  simp [step', step, hc, Item.latest]

theorem publish_on_ended_refused (s : Item α) (a : α) (hc : s.closed = true) :
    step s (.publish a) = (s, Out.closedError) := by
  simp [step, hc]

/-! ### A subscriber that stops early does not affect the others -/

theorem early_leaver_frame (s : Item α) (i j : Nat) (hij : j ≠ i) :
    (step' s (.leave i)).subs[j]? = s.subs[j]? ∧
    (step' s (.leave i)).log = s.log ∧ (step' s (.leave i)).idx = s.idx ∧
    (step' s (.leave i)).lastItem = s.lastItem ∧ (step' s (.leave i)).closed = s.closed ∧
    (step' s (.leave i)).cache = s.cache := by
  simp only [step', step]
  cases hq : s.subs[i]? with
  | none => simp
  | some q => simp [List.getElem?_set, Ne.symm hij]

theorem pull_frame (s : Item α) (i j : Nat) (hij : j ≠ i) :
    (step' s (.pull i)).subs[j]? = s.subs[j]? ∧ (step' s (.pull i)).log = s.log ∧
    (step' s (.pull i)).lastItem = s.lastItem := by
  simp only [step', step]
  cases hq : s.subs[i]? with
  | none => simp
  | some q => simp [List.getElem?_set, Ne.symm hij]

/-! ### Broker: `end` starts a new lifetime, `close` ends every key -/

variable {κ : Type} [DecidableEq κ]

def BInv (b : Broker κ α) : Prop := ∀ it ∈ b.items, Inv it

theorem binv_onItem (b : Broker κ α) (l : Nat) (op : Op α) (h : BInv b) :
    BInv (b.onItem l op).1 := by
  unfold Broker.onItem
  cases hl : b.items[l]? with
  | none => exact h
  | some it =>
    intro it' hit'
    rcases mem_set hit' with hit' | rfl
    · exact h it' hit'
    · exact inv_step it op (h it (List.mem_of_getElem? hl))

theorem binv_touch (b : Broker κ α) (k : κ) (h : BInv b) : BInv (b.touch k).1 := by
  unfold Broker.touch
  cases b.lookup k with
  | some l => exact h
  | none =>
    intro it hit
    simp only [List.mem_append, List.mem_singleton] at hit
    rcases hit with hit | rfl
    · exact h it hit
    · exact inv_new false

theorem binv_irrel {b : Broker κ α} (h : BInv b) (cur : List (κ × Nat)) (hd : List (Nat × Nat)) :
    BInv { b with cur := cur, handles := hd } := h

theorem binv_close_fold (ls : List Nat) (b : Broker κ α) (h : BInv b) :
    BInv (ls.foldl (fun acc l => (acc.onItem l .aclose).1) b) := by
  induction ls generalizing b with
  | nil => exact h
  | cons l ls ih => exact ih _ (binv_onItem b l .aclose h)

/-- every topic object ever created by the broker satisfies the delivery invariant, for every
sequence of broker operations -/
theorem binv_step (b : Broker κ α) (op : BOp κ α) (h : BInv b) : BInv (bstep b op).1 := by
  cases op with
  | publish k a => exact binv_onItem _ _ _ (binv_touch b k h)
  | latest k => exact binv_touch b k h
  | subscribe k last =>
    simp only [bstep]
    have h1 := binv_touch b k h
    cases hl : (b.touch k).1.items[(b.touch k).2]? with
    | none => exact h1
    | some it => exact binv_irrel (binv_onItem _ _ (.subNew last true) h1) _ _
  | pull hd =>
    simp only [bstep]
    cases b.handles[hd]? with
    | none => exact h
    | some p => exact binv_onItem _ _ _ h
  | leave hd =>
    simp only [bstep]
    cases b.handles[hd]? with
    | none => exact h
    | some p => exact binv_onItem _ _ _ h
  | endKey k =>
    simp only [bstep]
    cases b.lookup k with
    | none => exact h
    | some l => exact binv_onItem _ _ _ (binv_irrel h _ _)
  | close =>
    simp only [bstep]
    exact binv_close_fold _ _ (binv_irrel h _ _)

theorem binv_reachable (ops : List (BOp κ α)) :
    BInv (ops.foldl (fun b op => (bstep b op).1) ({} : Broker κ α)) := by
  suffices ∀ b : Broker κ α, BInv b → BInv (ops.foldl (fun b op => (bstep b op).1) b) from
    this _ (by intro it hit; simp at hit)
  induction ops with
  | nil => intro b h; exact h
  | cons op ops ih => intro b h; exact ih _ (binv_step b op h)

theorem onItem_cur (b : Broker κ α) (l : Nat) (op : Op α) : (b.onItem l op).1.cur = b.cur := by
  unfold Broker.onItem; cases b.items[l]? <;> rfl

/-- `end(key)` forgets the key: the next touch creates a fresh topic object (a new lifetime) and
`latest` raises until something is published on it -/
theorem end_starts_new_lifetime (b : Broker κ α) (k : κ) :
    (bstep b (.endKey k)).1.lookup k = none ∧ (bstep b (.endKey k)).1.latest k = none := by
  have key : (bstep b (.endKey k)).1.lookup k = none := by
    simp only [bstep]
    cases hl : b.lookup k with
    | none => exact hl
    | some l =>
      simp only [Broker.lookup, onItem_cur]
      simp [List.find?_filter]
  exact ⟨key, by simp [Broker.latest, key]⟩

theorem close_fold_cur (ls : List Nat) (b : Broker κ α) :
    (ls.foldl (fun acc l => (acc.onItem l .aclose).1) b).cur = b.cur := by
  induction ls generalizing b with
  | nil => rfl
  | cons l ls ih => rw [List.foldl_cons, ih, onItem_cur]

theorem onItem_aclose_closed (b : Broker κ α) (l m : Nat) (it : Item α)
    (h : b.items[m]? = some it) (hc : it.closed = true ∨ m = l) :
    ∃ it', (b.onItem l .aclose).1.items[m]? = some it' ∧ it'.closed = true := by
  unfold Broker.onItem
  cases hl : b.items[l]? with
  | none =>
    rcases hc with hc | rfl
    · exact ⟨it, h, hc⟩
    · rw [h] at hl; cases hl
  | some it0 =>
    have hlt : l < b.items.length := (List.getElem?_eq_some_iff.mp hl).1
    by_cases hml : m = l
    · subst hml
      refine ⟨(step it0 .aclose).1, by simp [hlt], ?_⟩
      simp only [step]; split <;> simp_all
    · rcases hc with hc | hc
      · exact ⟨it, by simp [List.getElem?_set, Ne.symm hml, h], hc⟩
      · exact absurd hc hml

theorem close_fold_closed (ls : List Nat) (b : Broker κ α) (m : Nat) (it : Item α)
    (h : b.items[m]? = some it) (hc : it.closed = true ∨ m ∈ ls) :
    ∃ it', (ls.foldl (fun acc l => (acc.onItem l .aclose).1) b).items[m]? = some it' ∧
      it'.closed = true := by
  induction ls generalizing b it with
  | nil =>
    rcases hc with hc | hc
    · exact ⟨it, h, hc⟩
    · simp at hc
  | cons l ls ih =>
    rw [List.foldl_cons]
    by_cases hml : m = l
    · obtain ⟨it', h', hc'⟩ := onItem_aclose_closed b l m it h (Or.inr hml)
      exact ih _ it' h' (Or.inl hc')
    · rcases hc with hc | hc
      · obtain ⟨it', h', hc'⟩ := onItem_aclose_closed b l m it h (Or.inl hc)
        exact ih _ it' h' (Or.inl hc')
      · have hm : m ∈ ls := by
          simp only [List.mem_cons] at hc
          rcases hc with hc | hc
          · exact absurd hc hml
          · exact hc
        -- the item at `m` is untouched by the step on `l ≠ m`
        have h' : (b.onItem l .aclose).1.items[m]? = some it := by
          unfold Broker.onItem
          cases hl : b.items[l]? with
          | none => exact h
          | some it0 => simp [List.getElem?_set, Ne.symm hml, h]
        exact ih _ it h' (Or.inr hm)

/-- `close()` ends **every** key: afterwards the dict is empty and every topic object that was
current has been closed (so, by `ends_cleanly`, each of its subscribers terminates) -/
theorem close_ends_every_key (b : Broker κ α) (k : κ) (l : Nat) (it : Item α)
    (hk : (k, l) ∈ b.cur) (hit : b.items[l]? = some it) :
    (bstep b .close).1.cur = [] ∧
    ∃ it', (bstep b .close).1.items[l]? = some it' ∧ it'.closed = true := by
  simp only [bstep]
  refine ⟨by rw [close_fold_cur], ?_⟩
  apply close_fold_closed _ { b with cur := [] } l it hit
  right
  simp only [List.mem_map, List.mem_reverse]
  exact ⟨(k, l), hk, rfl⟩

/-! ### `close()` in flight: the loop `while self._queue: _, q = popitem(); await q.aclose()` interleaved with other tasks -/

/-- well-formedness of the dict: keys distinct, every lifetime id refers to an existing topic object, ids distinct -/
structure DInv (b : Broker κ α) : Prop where
  keys : (b.cur.map (·.1)).Nodup
  bound : ∀ e ∈ b.cur, e.2 < b.items.length
  ids : (b.cur.map (·.2)).Nodup

omit [DecidableEq κ] in
theorem dinv_init : DInv ({} : Broker κ α) := ⟨by simp, by simp, by simp⟩

omit [DecidableEq κ] in
theorem onItem_items_length (b : Broker κ α) (l : Nat) (op : Op α) :
    (b.onItem l op).1.items.length = b.items.length := by
  unfold Broker.onItem; cases b.items[l]? <;> simp

omit [DecidableEq κ] in
theorem onItem_handles (b : Broker κ α) (l : Nat) (op : Op α) :
    (b.onItem l op).1.handles = b.handles := by
  unfold Broker.onItem; cases b.items[l]? <;> rfl

theorem dinv_onItem (b : Broker κ α) (l : Nat) (op : Op α) (h : DInv b) : DInv (b.onItem l op).1 :=
  ⟨by rw [onItem_cur]; exact h.keys, by rw [onItem_cur, onItem_items_length]; exact h.bound,
   by rw [onItem_cur]; exact h.ids⟩

omit [DecidableEq κ] in
theorem dinv_irrel {b : Broker κ α} (h : DInv b) (hd : List (Nat × Nat)) :
    DInv { b with handles := hd } := ⟨h.keys, h.bound, h.ids⟩

theorem lookup_eq_none {b : Broker κ α} {k : κ} (h : b.lookup k = none) : ∀ e ∈ b.cur, e.1 ≠ k := by
  simpa [Broker.lookup] using h

theorem lookup_some_mem {b : Broker κ α} {k : κ} {l : Nat} (h : b.lookup k = some l) : (k, l) ∈ b.cur := by
  simp only [Broker.lookup, Option.map_eq_some_iff] at h
  obtain ⟨e, he, rfl⟩ := h
  have h1 := List.mem_of_find?_eq_some he
  have h2 := List.find?_some he
  simp at h2
  subst h2
  exact h1

theorem dinv_touch (b : Broker κ α) (k : κ) (h : DInv b) : DInv (b.touch k).1 := by
  unfold Broker.touch
  cases hl : b.lookup k with
  | some l => exact h
  | none =>
    have hn := lookup_eq_none hl
    refine ⟨?_, ?_, ?_⟩
    · simp only [List.map_append, List.map_cons, List.map_nil]
      rw [List.nodup_append]
      refine ⟨h.keys, by simp, ?_⟩
      intro a ha b' hb'
      simp only [List.mem_map] at ha
      obtain ⟨e, he, rfl⟩ := ha
      simp at hb'; subst hb'
      exact hn e he
    · intro e he
      simp only [List.mem_append, List.mem_singleton] at he
      simp only [List.length_append, List.length_cons, List.length_nil]
      rcases he with he | rfl
      · have := h.bound e he; omega
      · simp
    · simp only [List.map_append, List.map_cons, List.map_nil]
      rw [List.nodup_append]
      refine ⟨h.ids, by simp, ?_⟩
      intro a ha b' hb'
      simp only [List.mem_map] at ha
      obtain ⟨e, he, rfl⟩ := ha
      simp at hb'; subst hb'
      have := h.bound e he; omega

omit [DecidableEq κ] in
theorem dinv_filter {b : Broker κ α} (h : DInv b) (p : κ × Nat → Bool) :
    DInv { b with cur := b.cur.filter p } :=
  ⟨h.keys.sublist (List.filter_sublist.map _), fun e he => h.bound e ((List.mem_filter.mp he).1),
   h.ids.sublist (List.filter_sublist.map _)⟩

theorem dinv_close_fold (ls : List Nat) (b : Broker κ α) (h : DInv b) :
    DInv (ls.foldl (fun acc l => (acc.onItem l .aclose).1) b) := by
  induction ls generalizing b with
  | nil => exact h
  | cons l ls ih => exact ih _ (dinv_onItem b l .aclose h)

theorem dinv_bstep (b : Broker κ α) (op : BOp κ α) (h : DInv b) : DInv (bstep b op).1 := by
  cases op with
  | publish k a => exact dinv_onItem _ _ _ (dinv_touch b k h)
  | latest k => exact dinv_touch b k h
  | subscribe k last =>
    simp only [bstep]
    have h1 := dinv_touch b k h
    cases hl : (b.touch k).1.items[(b.touch k).2]? with
    | none => exact h1
    | some it => exact dinv_irrel (dinv_onItem _ _ (.subNew last true) h1) _
  | pull hd =>
    simp only [bstep]
    cases b.handles[hd]? with
    | none => exact h
    | some p => exact dinv_onItem _ _ _ h
  | leave hd =>
    simp only [bstep]
    cases b.handles[hd]? with
    | none => exact h
    | some p => exact dinv_onItem _ _ _ h
  | endKey k =>
    simp only [bstep]
    cases b.lookup k with
    | none => exact h
    | some l => exact dinv_onItem _ _ _ (dinv_filter h _)
  | close =>
    simp only [bstep]
    exact dinv_close_fold _ _ ⟨by simp, by simp, by simp⟩

theorem dinv_closeStep (b : Broker κ α) (h : DInv b) : DInv b.closeStep := by
  unfold Broker.closeStep
  split
  · exact h
  · exact dinv_onItem _ _ _ (dinv_filter h _)

theorem dinv_cstep (b : Broker κ α) (c : CStep κ α) (h : DInv b) : DInv (cstep b c) := by
  cases c with
  | op o => exact dinv_bstep b o h
  | closeStep => exact dinv_closeStep b h

theorem dinv_csteps (b : Broker κ α) (cs : List (CStep κ α)) (h : DInv b) : DInv (csteps b cs) := by
  induction cs generalizing b with
  | nil => exact h
  | cons c cs ih => exact ih _ (dinv_cstep b c h)

theorem filter_ne_last (init : List (κ × Nat)) (k : κ) (l : Nat)
    (h : ((init ++ [(k, l)]).map (·.1)).Nodup) :
    (init ++ [(k, l)]).filter (fun e => decide (e.1 ≠ k)) = init := by
  simp only [List.map_append, List.map_cons, List.map_nil] at h
  rw [List.nodup_append] at h
  obtain ⟨_, _, hd⟩ := h
  rw [List.filter_append]
  have h1 : init.filter (fun e => decide (e.1 ≠ k)) = init := by
    rw [List.filter_eq_self]
    intro e he
    have := hd e.1 (List.mem_map.mpr ⟨e, he, rfl⟩) k (by simp)
    simpa using this
  rw [h1]; simp

theorem closeStep_concat (b : Broker κ α) (init : List (κ × Nat)) (k : κ) (l : Nat)
    (hcur : b.cur = init ++ [(k, l)]) (h : (b.cur.map (·.1)).Nodup) :
    b.closeStep = ({ b with cur := init }.onItem l .aclose).1 := by
  have hf := filter_ne_last init k l (hcur ▸ h)
  unfold Broker.closeStep
  rw [hcur, List.reverse_append]
  simp only [List.reverse_cons, List.reverse_nil, List.nil_append, List.cons_append]
  rw [hf]

theorem closeSteps_eq_fold (n : Nat) : ∀ (b : Broker κ α), b.cur.length = n → (b.cur.map (·.1)).Nodup →
    csteps b (List.replicate n CStep.closeStep) =
      (b.cur.reverse.map (·.2)).foldl (fun acc l => (acc.onItem l .aclose).1) { b with cur := [] } := by
  induction n with
  | zero =>
    intro b hn _
    have : b.cur = [] := List.eq_nil_of_length_eq_zero hn
    simp [csteps, this]
    cases b; simp_all
  | succ n ih =>
    intro b hn hnd
    rcases List.eq_nil_or_concat b.cur with h0 | ⟨init, e, hcur⟩
    · rw [h0] at hn; simp at hn
    · obtain ⟨k, l⟩ := e
      have hcur' : b.cur = init ++ [(k, l)] := by simpa using hcur
      have hcs := closeStep_concat b init k l hcur' hnd
      have hlen : init.length = n := by rw [hcur'] at hn; simpa using hn
      have hnd' : (init.map (·.1)).Nodup := by
        rw [hcur'] at hnd
        simp only [List.map_append] at hnd
        exact (List.nodup_append.mp hnd).1
      rw [List.replicate_succ]
      show csteps (cstep b CStep.closeStep) _ = _
      show csteps b.closeStep _ = _
      rw [hcs, ih _ (by rw [onItem_cur]; exact hlen) (by rw [onItem_cur]; exact hnd')]
      rw [onItem_cur, hcur']
      simp only [List.reverse_append, List.reverse_cons, List.reverse_nil, List.nil_append,
        List.cons_append, List.map_cons, List.foldl_cons]
      congr 1
      unfold Broker.onItem; cases b.items[l]? <;> rfl

/-- the atomic `close` of the serial model is exactly what the loop does when nobody interferes -/
theorem close_is_closeSteps (b : Broker κ α) (h : DInv b) :
    csteps b (List.replicate b.cur.length CStep.closeStep) = (bstep b BOp.close).1 := by
  rw [closeSteps_eq_fold _ b rfl h.keys]
  rfl

/-! closed stays closed -/

theorem step_closed (it : Item α) (op : Op α) (hc : it.closed = true) : (step it op).1.closed = true := by
  cases op with
  | publish a => simp [step, hc]
  | clear => simp [step, hc]
  | aclose => simp [step, hc]
  | subNew l c => simpa [step] using hc
  | pull i => simp only [step]; cases it.subs[i]? <;> exact hc
  | leave i => simp only [step]; cases it.subs[i]? <;> exact hc

omit [DecidableEq κ] in
theorem onItem_closed (b : Broker κ α) (l : Nat) (op : Op α) (m : Nat) (it : Item α)
    (h : b.items[m]? = some it) (hc : it.closed = true) :
    ∃ it', (b.onItem l op).1.items[m]? = some it' ∧ it'.closed = true := by
  unfold Broker.onItem
  cases hl : b.items[l]? with
  | none => exact ⟨it, h, hc⟩
  | some it0 =>
    have hlt : l < b.items.length := (List.getElem?_eq_some_iff.mp hl).1
    by_cases hml : m = l
    · subst hml
      rw [h] at hl; cases hl
      exact ⟨(step it op).1, by simp [hlt], step_closed it op hc⟩
    · exact ⟨it, by simp [Ne.symm hml, h], hc⟩

theorem touch_items_get (b : Broker κ α) (k : κ) (m : Nat) (it : Item α) (h : b.items[m]? = some it) :
    (b.touch k).1.items[m]? = some it := by
  unfold Broker.touch
  cases b.lookup k with
  | some l => exact h
  | none =>
    have hlt : m < b.items.length := (List.getElem?_eq_some_iff.mp h).1
    simp only [List.getElem?_append_left hlt, h]

theorem touch_cur_mem (b : Broker κ α) (k : κ) (e : κ × Nat) (h : e ∈ b.cur) : e ∈ (b.touch k).1.cur := by
  unfold Broker.touch
  cases b.lookup k with
  | some l => exact h
  | none => simp [h]

theorem bstep_closed (b : Broker κ α) (o : BOp κ α) (l : Nat) (it : Item α)
    (hit : b.items[l]? = some it) (hc : it.closed = true) :
    ∃ it', (bstep b o).1.items[l]? = some it' ∧ it'.closed = true := by
  cases o with
  | publish k a => exact onItem_closed _ _ _ l it (touch_items_get b k l it hit) hc
  | latest k => exact ⟨it, touch_items_get b k l it hit, hc⟩
  | subscribe k last =>
    simp only [bstep]
    have h1 := touch_items_get b k l it hit
    cases hl : (b.touch k).1.items[(b.touch k).2]? with
    | none => exact ⟨it, h1, hc⟩
    | some it0 => exact onItem_closed _ _ (.subNew last true) l it h1 hc
  | pull hd =>
    simp only [bstep]
    cases b.handles[hd]? with
    | none => exact ⟨it, hit, hc⟩
    | some p => exact onItem_closed _ _ _ l it hit hc
  | leave hd =>
    simp only [bstep]
    cases b.handles[hd]? with
    | none => exact ⟨it, hit, hc⟩
    | some p => exact onItem_closed _ _ _ l it hit hc
  | endKey k =>
    simp only [bstep]
    cases b.lookup k with
    | none => exact ⟨it, hit, hc⟩
    | some l' => exact onItem_closed _ _ _ l it hit hc
  | close =>
    simp only [bstep]
    exact close_fold_closed _ { b with cur := [] } l it hit (Or.inl hc)

theorem closeStep_closed (b : Broker κ α) (l : Nat) (it : Item α)
    (hit : b.items[l]? = some it) (hc : it.closed = true) :
    ∃ it', b.closeStep.items[l]? = some it' ∧ it'.closed = true := by
  unfold Broker.closeStep
  split
  · exact ⟨it, hit, hc⟩
  · exact onItem_closed _ _ _ l it hit hc

/-- an ended topic object stays ended, whatever happens next -/
theorem closed_stays_closed (b : Broker κ α) (c : CStep κ α) (l : Nat) (it : Item α)
    (hit : b.items[l]? = some it) (hc : it.closed = true) :
    ∃ it', (cstep b c).items[l]? = some it' ∧ it'.closed = true := by
  cases c with
  | op o => exact bstep_closed b o l it hit hc
  | closeStep => exact closeStep_closed b l it hit hc

theorem closed_stays_closed_csteps (cs : List (CStep κ α)) (b : Broker κ α) (l : Nat) (it : Item α)
    (hit : b.items[l]? = some it) (hc : it.closed = true) :
    ∃ it', (csteps b cs).items[l]? = some it' ∧ it'.closed = true := by
  induction cs generalizing b it with
  | nil => exact ⟨it, hit, hc⟩
  | cons c cs ih =>
    obtain ⟨it', h', hc'⟩ := closed_stays_closed b c l it hit hc
    exact ih _ it' h' hc'

/-! a key leaves the dict only closed -/

omit [DecidableEq κ] in
theorem nodup_keys_unique {cur : List (κ × Nat)} (h : (cur.map (·.1)).Nodup) {k : κ} {l l' : Nat}
    (h1 : (k, l) ∈ cur) (h2 : (k, l') ∈ cur) : l = l' := by
  induction cur with
  | nil => simp at h1
  | cons e t ih =>
    simp only [List.map_cons, List.nodup_cons, List.mem_map, not_exists, not_and] at h
    obtain ⟨hne, hnd⟩ := h
    simp only [List.mem_cons] at h1 h2
    rcases h1 with h1 | h1 <;> rcases h2 with h2 | h2
    · rw [← h1] at h2; cases h2; rfl
    · exact absurd rfl (h1 ▸ hne (k, l') h2)
    · exact absurd rfl (h2 ▸ hne (k, l) h1)
    · exact ih hnd h1 h2

/-- popping key `k'` (first occurrence ↦ `l'`) and closing `l'`: an entry that disappears is that one, and it is closed -/
theorem pop_closed (b : Broker κ α) (h : DInv b) (k' : κ) (l' : Nat) (hk' : (k', l') ∈ b.cur)
    (k : κ) (l : Nat) (hk : (k, l) ∈ b.cur)
    (hgone : (k, l) ∉ ({ b with cur := b.cur.filter fun e => e.1 ≠ k' }.onItem l' .aclose).1.cur) :
    ∃ it, ({ b with cur := b.cur.filter fun e => e.1 ≠ k' }.onItem l' .aclose).1.items[l]? = some it ∧
      it.closed = true := by
  rw [onItem_cur] at hgone
  have hkk : k = k' := by
    false_or_by_contra
    rename_i hne
    exact hgone (List.mem_filter.mpr ⟨hk, by simpa using hne⟩)
  subst hkk
  have hll : l = l' := nodup_keys_unique h.keys hk hk'
  subst hll
  have hlt := h.bound _ hk
  exact onItem_aclose_closed _ l l b.items[l] (by simp [hlt]) (Or.inr rfl)

/-- a key leaves the dict only with its item closed — for every operation and for a loop iteration -/
theorem left_dict_closed (b : Broker κ α) (h : DInv b) (c : CStep κ α) (k : κ) (l : Nat)
    (hk : (k, l) ∈ b.cur) (hgone : (k, l) ∉ (cstep b c).cur) :
    ∃ it, (cstep b c).items[l]? = some it ∧ it.closed = true := by
  have hlt : l < b.items.length := h.bound _ hk
  cases c with
  | closeStep =>
    simp only [cstep] at hgone ⊢
    cases hrev : b.cur.reverse with
    | nil =>
      have : b.closeStep = b := by simp only [Broker.closeStep, hrev]
      rw [this] at hgone; exact absurd hk hgone
    | cons e rest =>
      obtain ⟨k', l'⟩ := e
      have hk' : (k', l') ∈ b.cur := by
        have : (k', l') ∈ b.cur.reverse := by rw [hrev]; simp
        simpa using this
      have : b.closeStep = ({ b with cur := b.cur.filter fun e => e.1 ≠ k' }.onItem l' .aclose).1 := by
        simp only [Broker.closeStep, hrev]
      rw [this] at hgone ⊢
      exact pop_closed b h k' l' hk' k l hk hgone
  | op o =>
    simp only [cstep] at hgone ⊢
    cases o with
    | publish k' a =>
      exact absurd (by simp only [bstep]; rw [onItem_cur]; exact touch_cur_mem b k' _ hk) hgone
    | latest k' => exact absurd (touch_cur_mem b k' _ hk) hgone
    | subscribe k' last =>
      exfalso; apply hgone
      simp only [bstep]
      cases hl : (b.touch k').1.items[(b.touch k').2]? with
      | none => exact touch_cur_mem b k' _ hk
      | some it0 => show (k, l) ∈ (Broker.onItem _ _ _).1.cur; rw [onItem_cur]; exact touch_cur_mem b k' _ hk
    | pull hd =>
      exfalso; apply hgone
      simp only [bstep]
      cases b.handles[hd]? with
      | none => exact hk
      | some p => simp only [onItem_cur]; exact hk
    | leave hd =>
      exfalso; apply hgone
      simp only [bstep]
      cases b.handles[hd]? with
      | none => exact hk
      | some p => simp only [onItem_cur]; exact hk
    | endKey k' =>
      simp only [bstep] at hgone ⊢
      cases hl : b.lookup k' with
      | none => rw [hl] at hgone; exact absurd hk hgone
      | some l' =>
        rw [hl] at hgone
        exact pop_closed b h k' l' (lookup_some_mem hl) k l hk hgone
    | close =>
      exact (close_ends_every_key b k l b.items[l] hk (by simp [hlt])).2

/-- whatever other tasks do between the iterations of `close()`'s loop: when the loop's exit condition holds, every
key that was in the dict has been closed -/
theorem close_in_flight_ends_every_key (b : Broker κ α) (h : DInv b) (cs : List (CStep κ α)) (k : κ) (l : Nat)
    (hk : (k, l) ∈ b.cur) (hend : (csteps b cs).cur = []) :
    ∃ it, (csteps b cs).items[l]? = some it ∧ it.closed = true := by
  induction cs generalizing b with
  | nil => simp only [csteps, List.foldl_nil] at hend; rw [hend] at hk; simp at hk
  | cons c cs ih =>
    by_cases hin : (k, l) ∈ (cstep b c).cur
    · exact ih (cstep b c) (dinv_cstep b c h) hin hend
    · obtain ⟨it, hit, hc⟩ := left_dict_closed b h c k l hk hin
      exact closed_stays_closed_csteps cs (cstep b c) l it hit hc

/-- … and so has every key created while `close()` was in flight -/
theorem close_in_flight_ends_later_keys (b : Broker κ α) (h : DInv b) (cs₁ cs₂ : List (CStep κ α)) (k : κ) (l : Nat)
    (hk : (k, l) ∈ (csteps b cs₁).cur) (hend : (csteps (csteps b cs₁) cs₂).cur = []) :
    ∃ it, (csteps (csteps b cs₁) cs₂).items[l]? = some it ∧ it.closed = true :=
  close_in_flight_ends_every_key _ (dinv_csteps b cs₁ h) cs₂ k l hk hend


/-- an iteration of the loop on an empty dict does nothing (the loop has exited) -/
theorem closeStep_empty (b : Broker κ α) (h : b.cur = []) : b.closeStep = b := by
  simp only [Broker.closeStep, h, List.reverse_nil]

/-! ### Non-vacuity: concrete states meeting the hypotheses above -/

/-- two publications, a joiner with `last`, a third publication, end: the joiner is live with a
queue, the item is closed -/
def demoOps : List (Op Nat) :=
  [.publish 1, .publish 2, .subNew true true, .pull 0, .publish 3, .aclose]

example : (run (Item.new false) demoOps).closed = true := by decide
example : ((run (Item.new false) demoOps).subs[0]?).map (·.phase) = some Phase.live := by decide
example : ((run (Item.new false) demoOps).subs[0]?).map (·.got) = some [2] := by decide
example : ((pulls (run (Item.new false) demoOps) 0 2).subs[0]?).map (fun q => (q.phase, q.got))
    = some (Phase.done, [2, 3]) := by decide
example : ((run (Item.new true) demoOps).subs[0]?).map (·.base) = some [1, 2] := by decide

/-! `close()` in flight: key 3 is subscribed to (and published on) between two iterations of the loop and is
still closed when the loop exits; `closeStep` on the empty dict does nothing -/
def lateRun : List (CStep Nat Nat) :=
  [.op (.subscribe 1 true), .op (.subscribe 2 true), .closeStep, .op (.subscribe 3 true), .op (.publish 3 7),
   .closeStep, .closeStep]

example : (csteps ({} : Broker Nat Nat) (lateRun.take 3)).cur = [(1, 0)] := by decide
example : (csteps ({} : Broker Nat Nat) (lateRun.take 5)).cur = [(1, 0), (3, 2)] := by decide
example : ((csteps ({} : Broker Nat Nat) (lateRun.take 5)).items[2]?).map (·.closed) = some false := by decide
example : (csteps ({} : Broker Nat Nat) lateRun).cur = [] := by decide
example : ((csteps ({} : Broker Nat Nat) lateRun).items[2]?).map (fun it => (it.closed, it.log)) = some (true, [7]) := by
  decide
example : (csteps ({} : Broker Nat Nat) lateRun).items.map (·.closed) = [true, true, true] := by decide
example : (({} : Broker Nat Nat).closeStep.cur, ({} : Broker Nat Nat).closeStep.items.length,
    ({} : Broker Nat Nat).closeStep.handles) = ([], 0, []) := by decide
example : (cstep ({} : Broker Nat Nat) .closeStep).cur = [] := by decide

end NLV.C08
