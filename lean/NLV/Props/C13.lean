import NLV.Model.Lines
/-!
# C13 — standard output is captured in whole lines and attributed to the right key

Theorems about model K for **every** sequence of writes: any interleaving of keys, any
splitting of lines into partial writes, any characters.
(The part of C13 about *which* trace number is the key of a write is model D1, `C06`.)
-/
namespace NLV.C13
open NLV.Lines

/-! ### `rpartition` -/

theorem splitLast_none {t : Text} : splitLast t = none ↔ nl ∉ t := by
  induction t with
  | nil => simp [splitLast]
  | cons c t ih =>
    simp only [splitLast]
    cases h : splitLast t with
    | some p =>
      have hin : nl ∈ t := by
        by_cases hn : nl ∈ t
        · exact hn
        · have := ih.mpr hn; simp [h] at this
      simp [hin]
    | none =>
      have hn := ih.mp h
      by_cases hc : c = nl
      · simp [hc]
      · simp [hc, hn]; exact fun h' => hc h'.symm

theorem splitLast_some {t a r : Text} (h : splitLast t = some (a, r)) :
    t = a ++ r ∧ nl ∉ r ∧ a.getLast? = some nl := by
  induction t generalizing a r with
  | nil => simp [splitLast] at h
  | cons c t ih =>
    simp only [splitLast] at h
    cases h' : splitLast t with
    | some p =>
      obtain ⟨a', r'⟩ := p
      simp only [h', Option.some.injEq, Prod.mk.injEq] at h
      obtain ⟨rfl, rfl⟩ := h
      obtain ⟨h1, h2, h3⟩ := ih h'
      refine ⟨by simp [h1], h2, ?_⟩
      cases a' with
      | nil => simp at h3
      | cons x xs => simpa using h3
    | none =>
      simp only [h'] at h
      by_cases hc : c = nl
      · simp only [hc, if_true, Option.some.injEq, Prod.mk.injEq] at h
        obtain ⟨rfl, rfl⟩ := h
        exact ⟨by simp [hc], splitLast_none.mp h', by simp⟩
      · simp [hc] at h

/-! ### buffer lemmas -/

theorem get_set_same (b : Buf) (k : Nat) (t : Text) : (b.set k t).get k = t := by
  induction b with
  | nil => simp [Buf.set, Buf.get]
  | cons e rest ih =>
    obtain ⟨k', t'⟩ := e
    by_cases h : k' = k <;> simp [Buf.set, Buf.get, h, ih]

theorem get_set_other (b : Buf) (k j : Nat) (t : Text) (h : j ≠ k) : (b.set k t).get j = b.get j := by
  induction b with
  | nil => simp [Buf.set, Buf.get, Ne.symm h]
  | cons e rest ih =>
    obtain ⟨k', t'⟩ := e
    by_cases h1 : k' = k
    · subst h1; simp [Buf.set, Buf.get, Ne.symm h]
    · by_cases h2 : k' = j
      · subst h2; simp [Buf.set, Buf.get, h1]
      · simp [Buf.set, Buf.get, h1, h2, ih]

/-! ### the invariant -/

/-- per key: what was reported plus what is still buffered is exactly what was written; the buffer
never holds a newline; every reported piece ends with a newline -/
structure Inv (ws : List (Option Nat × Text)) (st : St) : Prop where
  conserve : ∀ k, reported st.emitted k ++ st.buf.get k = written ws k
  noNl : ∀ k, nl ∉ st.buf.get k
  pieces : ∀ p ∈ st.emitted, p.2.getLast? = some nl
  real : st.real = ws.map (·.2)

theorem written_append (ws : List (Option Nat × Text)) (w : Option Nat × Text) (k : Nat) :
    written (ws ++ [w]) k = written ws k ++ (if w.1 = some k then w.2 else []) := by
  unfold written
  by_cases h : w.1 = some k <;> simp [List.filter_append, h]

theorem reported_append (e : List (Nat × Text)) (p : Nat × Text) (k : Nat) :
    reported (e ++ [p]) k = reported e k ++ (if p.1 = k then p.2 else []) := by
  unfold reported
  by_cases h : p.1 = k <;> simp [List.filter_append, h]

theorem inv_init : Inv [] {} := ⟨by intro k; simp [reported, written, Buf.get], by intro k; simp [Buf.get],
  by intro p hp; simp at hp, rfl⟩

theorem inv_write (ws : List (Option Nat × Text)) (st : St) (h : Inv ws st) (key : Option Nat) (s : Text) :
    Inv (ws ++ [(key, s)]) (write st key s) := by
  cases key with
  | none =>
    refine ⟨?_, h.noNl, h.pieces, ?_⟩
    · intro k; rw [written_append]; simpa [write] using h.conserve k
    · simp [write, h.real]
  | some k0 =>
    simp only [write, readLines]
    cases hs : splitLast (st.buf.get k0 ++ s) with
    | none =>
      have hn := splitLast_none.mp hs
      refine ⟨?_, ?_, h.pieces, by simp [h.real]⟩
      · intro k
        rw [written_append]
        by_cases hk : k0 = k
        · subst hk
          simp only [get_set_same, if_true]
          rw [← h.conserve k0]; simp
        · have : (some k0 = some k) = False := by simp [hk]
          simp only [this, if_false, List.append_nil]
          rw [get_set_other _ _ _ _ (Ne.symm hk)]
          exact h.conserve k
      · intro k
        by_cases hk : k0 = k
        · subst hk; rw [get_set_same]; exact hn
        · rw [get_set_other _ _ _ _ (Ne.symm hk)]; exact h.noNl k
    | some p =>
      obtain ⟨a, r⟩ := p
      obtain ⟨h1, h2, h3⟩ := splitLast_some hs
      refine ⟨?_, ?_, ?_, by simp [h.real]⟩
      · intro k
        rw [written_append, reported_append]
        by_cases hk : k0 = k
        · subst hk
          simp only [get_set_same, if_true]
          rw [← h.conserve k0, List.append_assoc, ← h1]; simp
        · have : (some k0 = some k) = False := by simp [hk]
          simp only [this, hk, if_false, List.append_nil]
          rw [get_set_other _ _ _ _ (Ne.symm hk)]
          exact h.conserve k
      · intro k
        by_cases hk : k0 = k
        · subst hk; rw [get_set_same]; exact h2
        · rw [get_set_other _ _ _ _ (Ne.symm hk)]; exact h.noNl k
      · intro p hp
        simp only [List.mem_append, List.mem_singleton] at hp
        rcases hp with hp | rfl
        · exact h.pieces p hp
        · exact h3

theorem inv_run_from (ws0 : List (Option Nat × Text)) (st : St) (h : Inv ws0 st)
    (ws : List (Option Nat × Text)) : Inv (ws0 ++ ws) (run st ws) := by
  induction ws generalizing ws0 st with
  | nil => simpa [run] using h
  | cons w ws ih =>
    have := ih (ws0 ++ [w]) (write st w.1 w.2) (inv_write ws0 st h w.1 w.2)
    simpa [run] using this

theorem inv_run (ws : List (Option Nat × Text)) : Inv ws (run {} ws) := by
  simpa using inv_run_from [] {} inv_init ws

/-! ### the property -/

/-- every reported piece ends at a line end -/
theorem pieces_end_with_newline (ws : List (Option Nat × Text)) :
    ∀ p ∈ (run {} ws).emitted, p.2.getLast? = some nl := (inv_run ws).pieces

/-- per key, in order, exactly once: the concatenation of the reported pieces is a prefix of the
concatenation of the writes of that key (and the rest is still buffered) -/
theorem per_key_prefix_in_order (ws : List (Option Nat × Text)) (k : Nat) :
    reported (run {} ws).emitted k <+: written ws k :=
  ⟨_, (inv_run ws).conserve k⟩

theorem reported_cons (p : Nat × Text) (e : List (Nat × Text)) (k : Nat) :
    reported (p :: e) k = (if p.1 = k then p.2 else []) ++ reported e k := by
  unfold reported
  by_cases h : p.1 = k <;> simp [List.filter_cons, h]

theorem reported_ends_nl (e : List (Nat × Text)) (k : Nat) (hp : ∀ p ∈ e, p.2.getLast? = some nl) :
    reported e k = [] ∨ (reported e k).getLast? = some nl := by
  induction e with
  | nil => left; rfl
  | cons p e ih =>
    rw [reported_cons]
    have hpe := hp p (by simp)
    rcases ih (fun q hq => hp q (by simp [hq])) with h | h
    · rw [h]
      by_cases hk : p.1 = k
      · right; simpa [hk] using hpe
      · left; simp [hk]
    · right
      cases hr : reported e k with
      | nil => simp [hr] at h
      | cons x xs => rw [hr] at h; simp [List.getLast?_append, h]

/-- … and that prefix extends **up to the last newline** the key wrote: the unreported remainder
contains no newline.  (This is the clause that failed before the `fix:` commit for F-K1.) -/
theorem up_to_last_newline (ws : List (Option Nat × Text)) (k : Nat) :
    match splitLast (written ws k) with
    | some (a, _) => reported (run {} ws).emitted k = a
    | none => reported (run {} ws).emitted k = [] := by
  have hc := (inv_run ws).conserve k
  have hn := (inv_run ws).noNl k
  have hp := (inv_run ws).pieces
  -- the reported text is empty or ends with a newline
  have hrep : reported (run {} ws).emitted k = [] ∨
      (reported (run {} ws).emitted k).getLast? = some nl :=
    reported_ends_nl _ k hp
  cases hs : splitLast (written ws k) with
  | none =>
    have hno := splitLast_none.mp hs
    rcases hrep with h | h
    · exact h
    · exfalso
      apply hno
      rw [← hc]
      have := List.mem_of_getLast? h
      simp [this]
  | some p =>
    obtain ⟨a, r⟩ := p
    obtain ⟨h1, h2, h3⟩ := splitLast_some hs
    show reported (run {} ws).emitted k = a
    -- two decompositions of the same text into (ends-with-newline-or-empty) ++ (newline-free)
    have key : ∀ (x y a r : Text), x ++ y = a ++ r → nl ∉ y → nl ∉ r →
        (x = [] ∨ x.getLast? = some nl) → a.getLast? = some nl → x = a := by
      intro x
      induction x with
      | nil =>
        intro y a r he hy _ _ ha
        exfalso
        apply hy
        simp only [List.nil_append] at he
        rw [he]
        have := List.mem_of_getLast? ha
        simp [this]
      | cons c x ih =>
        intro y a r he hy hr hx ha
        cases a with
        | nil => simp at ha
        | cons d a' =>
          simp only [List.cons_append, List.cons.injEq] at he
          obtain ⟨rfl, he⟩ := he
          congr 1
          cases x with
          | nil =>
            -- c is the last char of x hence a newline; a' must be empty
            have hcn : c = nl := by simpa using hx
            cases a' with
            | nil => rfl
            | cons e a'' =>
              exfalso
              apply hy
              simp only [List.nil_append] at he
              rw [he]
              have : (e :: a'').getLast? = some nl := by simpa using ha
              have := List.mem_of_getLast? this
              simp only [List.mem_append]; exact Or.inl this
          | cons c' x' =>
            cases a' with
            | nil =>
              exfalso
              apply hr
              simp only [List.nil_append] at he
              rw [← he]
              have hx' : (c' :: x').getLast? = some nl := by
                rcases hx with hx | hx
                · simp at hx
                · simpa using hx
              have := List.mem_of_getLast? hx'
              simp only [List.mem_append]; exact Or.inl this
            | cons e a'' =>
              refine ih y (e :: a'') r he hy hr ?_ (by simpa using ha)
              right
              rcases hx with hx | hx
              · simp at hx
              · simpa using hx
    exact key _ _ a r (by rw [hc, h1]) hn h2 hrep h3

/-- the real standard output receives every write, unchanged, once, in order — whatever the key -/
theorem real_stdout_gets_all (ws : List (Option Nat × Text)) : (run {} ws).real = ws.map (·.2) :=
  (inv_run ws).real

/-- writes made while there is no current trace are not reported (and do not disturb any key) -/
theorem no_key_not_reported (st : St) (s : Text) :
    (write st none s).emitted = st.emitted ∧ (write st none s).buf = st.buf := by simp [write]

/-- a write under one key never changes what is buffered for another key -/
theorem other_keys_untouched (st : St) (k j : Nat) (s : Text) (h : j ≠ k) :
    (write st (some k) s).buf.get j = st.buf.get j := by
  simp only [write, readLines]
  cases splitLast (st.buf.get k ++ s) with
  | none => exact get_set_other _ _ _ _ h
  | some p => exact get_set_other _ _ _ _ h

/-! ### non-vacuity / the F-K1 witness now behaves -/
example : (run {} [(some 1, [120, 10, 121])]).emitted = [(1, [120, 10])] := by decide
example : (run {} [(some 1, [97]), (some 2, [98, 10]), (some 1, [99, 10, 100])]).emitted
    = [(2, [98, 10]), (1, [97, 99, 10])] := by decide

end NLV.C13
