import NLV.Model.Lifecycle
import NLV.Lemmas.LifeB
/-!
# C12 — the hook protocol seen by a registered plugin (model A, serial histories)

A plugin registered through `Nextline.register` sees, per run: `on_initialize_run` (state `initialized`),
`on_start_run`, any number of in-process events, `on_end_run` (all three in state `running`), `on_finished` (state
`finished`); the run arguments are in the context from initialise-run through end-run and withdrawn at finished.

**Finding.**  Two of the four statements that were asked for are FALSE of the model as written, both for the same
reason: `close()` of a run that was initialised but never started (`start()` or `reset()`, then `close()`) goes
straight to `closed` — no `on_start_run` / `on_end_run` / `on_finished` is ever called for that run, and the run
arguments stay in the context for good.  So the hook log of such a history ends in the middle of a protocol word
(after initialise-run), and the run arguments are present in `closed`, outside the `initialized`/`running` window.
Everything else holds: the hook log of every history is a *prefix* of a protocol word sequence, the automaton state is
determined exactly by the model state (`protoX`), and the original statements hold for every operation other than
`close()` in `initialized`, and for every reachable state other than `closed`.  The original statements are kept in
comments, refuted by the `*_false` theorems, and replaced by `*_partial` (+ `*_exact`) theorems.
-/
namespace NLV.C12
open NLV.LifeB
open NLV.Life hiding Inv dest_reset_running dest_run_running inv_init inv_of_reach inv_run inv_step reach_step run_cons run_nil

/-! ## `hooks_follow_protocol` -/

/- ORIGINAL STATEMENT — FALSE (see `hooks_follow_protocol_false`):

theorem hooks_follow_protocol (s : St) (h : Reach s) (op : Op) :
    protoRun (protoOf s) (hooksOf (step s op).2) = some (protoOf (step s op).1)
-/

/-- counter-example: after `start()`, the operation `close()` calls no hook, yet the machine leaves `initialized`
(automaton state 1) for `closed` (automaton state 0) -/
example :
    let s := (run (St.init 0 1 false false) [Op.start]).1
    s.ms = "initialized" ∧ hooksOf (step s Op.close).2 = [] ∧ (step s Op.close).1.ms = "closed" ∧
    protoRun (protoOf s) (hooksOf (step s Op.close).2) = some 1 ∧ protoOf (step s Op.close).1 = 0 := by decide

theorem hooks_follow_protocol_false :
    ¬ ∀ (s : St), Reach s → ∀ op : Op,
        protoRun (protoOf s) (hooksOf (step s op).2) = some (protoOf (step s op).1) := fun H =>
  absurd (H _ ⟨0, 1, false, false, [Op.start], rfl⟩ Op.close) (by decide)

/-- every operation extends the hook log by a word of the protocol: initialise-run, start-run, in-process events,
end-run while still `running`, finished once `finished` — each once, in that order; the run arguments are present from
initialise-run through end-run and withdrawn at finished.
Strongest true variant: (1) the original statement for every operation except `close()` in `initialized`;
(2) what that operation does instead: no hook, straight to `closed`, run arguments left in the context;
(3) the original statement, for every operation, with the exact automaton state `protoX` (which is 1, not 0, in a
`closed` state that still holds run arguments) -/
theorem hooks_follow_protocol_partial (s : St) (h : Reach s) (op : Op) :
    (¬ (op = Op.close ∧ s.ms = "initialized") →
      protoRun (protoOf s) (hooksOf (step s op).2) = some (protoOf (step s op).1)) ∧
    (op = Op.close → s.ms = "initialized" →
      hooksOf (step s op).2 = [] ∧ (step s op).1.ms = "closed" ∧ (step s op).1.runArg = s.runArg ∧
      s.runArg.isSome = true) ∧
    protoRun (protoX s) (hooksOf (step s op).2) = some (protoX (step s op).1) := by
  have hi := inv_of_reach h
  refine ⟨hooksO_step s op hi, ?_, hooks_step s op hi⟩
  rintro rfl hm
  exact close_initialized hi hm

/-- the exact automaton state agrees with `protoOf` except in a `closed` state that still holds run arguments -/
theorem protoX_vs_protoOf (s : St) (h : Reach s) :
    (s.ms ≠ "closed" ∨ s.runArg = none → protoX s = protoOf s) ∧
    (protoX s = protoOf s ∨ (s.ms = "closed" ∧ s.runArg.isSome = true ∧ protoX s = 1 ∧ protoOf s = 0)) :=
  ⟨protoX_eq (inv_of_reach h), protoX_cases (inv_of_reach h)⟩

/-! ## `history_hooks_accepted` -/

/- ORIGINAL STATEMENT — FALSE (see `history_hooks_accepted_false`):

theorem history_hooks_accepted (stmt rn : Nat) (tt tm : Bool) (ops : List Op) :
    protoRun 0 (hooksOf (run (St.init stmt rn tt tm) ops).2) = some (protoOf (run (St.init stmt rn tt tm) ops).1)
-/

/-- counter-example: `start(); close()` — the log is `[on_initialize_run]`, the automaton stops in state 1 -/
example :
    hooksOf (run (St.init 0 1 false false) [Op.start, Op.close]).2 = [("on_initialize_run", "initialized", true)] ∧
    protoRun 0 (hooksOf (run (St.init 0 1 false false) [Op.start, Op.close]).2) = some 1 ∧
    protoOf (run (St.init 0 1 false false) [Op.start, Op.close]).1 = 0 := by decide

theorem history_hooks_accepted_false :
    ¬ ∀ (stmt rn : Nat) (tt tm : Bool) (ops : List Op),
        protoRun 0 (hooksOf (run (St.init stmt rn tt tm) ops).2) = some (protoOf (run (St.init stmt rn tt tm) ops).1) :=
  fun H => absurd (H 0 1 false false [Op.start, Op.close]) (by decide)

/-- the whole hook log of any history is accepted by the protocol automaton, and it stops in the exact automaton state
of the final model state -/
theorem history_hooks_accepted_exact (stmt rn : Nat) (tt tm : Bool) (ops : List Op) :
    protoRun 0 (hooksOf (run (St.init stmt rn tt tm) ops).2) = some (protoX (run (St.init stmt rn tt tm) ops).1) := by
  have := hooks_run (St.init stmt rn tt tm) ops (inv_init ..)
  rwa [protoX_init] at this

/-- hence the whole hook log of any history is accepted by the protocol automaton (never rejected); it stops in
`protoOf` of the final state unless the history ended in `closed` with an initialised run abandoned (then it stops in
state 1: initialise-run was the last hook of that run) -/
theorem history_hooks_accepted_partial (stmt rn : Nat) (tt tm : Bool) (ops : List Op) :
    ∃ q, protoRun 0 (hooksOf (run (St.init stmt rn tt tm) ops).2) = some q ∧
      (((run (St.init stmt rn tt tm) ops).1.ms ≠ "closed" ∨ (run (St.init stmt rn tt tm) ops).1.runArg = none) →
        q = protoOf (run (St.init stmt rn tt tm) ops).1) ∧
      (q = protoOf (run (St.init stmt rn tt tm) ops).1 ∨
        (q = 1 ∧ (run (St.init stmt rn tt tm) ops).1.ms = "closed" ∧
          (run (St.init stmt rn tt tm) ops).1.runArg.isSome = true)) := by
  have hi : Inv (run (St.init stmt rn tt tm) ops).1 := inv_run _ _ (inv_init ..)
  refine ⟨_, history_hooks_accepted_exact stmt rn tt tm ops, protoX_eq hi, ?_⟩
  rcases protoX_cases hi with h | ⟨h1, h2, h3, _⟩
  · exact Or.inl h
  · exact Or.inr ⟨h3, h1, h2⟩

/-! ## `refused_no_hooks` -/

/-- a refused request produces no hook call at all -/
theorem refused_no_hooks (s : St) (op : Op) (e : Err) (call : String)
    (hr : (step s op).2 = [Obs.ret call (some e)]) : hooksOf (step s op).2 = [] := by
  rw [hr]; rfl

/-! ## `run_arg_window` -/

/- ORIGINAL STATEMENT — FALSE (see `run_arg_window_false`):

theorem run_arg_window (s : St) (h : Reach s) : s.runArg.isSome = true ↔ (s.ms = "initialized" ∨ s.ms = "running")
-/

/-- counter-example: after `start(); close()` the machine is `closed` and the run arguments are still there -/
example :
    (run (St.init 0 1 false false) [Op.start, Op.close]).1.ms = "closed" ∧
    (run (St.init 0 1 false false) [Op.start, Op.close]).1.runArg = some { runNo := 1, stmt := 0, tt := false, tm := false } := by
  decide

theorem run_arg_window_false :
    ¬ ∀ (s : St), Reach s → (s.runArg.isSome = true ↔ (s.ms = "initialized" ∨ s.ms = "running")) := fun H =>
  absurd (H _ ⟨0, 1, false, false, [Op.start, Op.close], rfl⟩) (by decide)

/-- the run arguments are in the context in `initialized` and `running`, absent in `created` and `finished`; in
`closed` they may be either (present iff an initialised run was abandoned by `close()`).  Hence: exactly in
`initialized` and `running` as long as the machine is not `closed` -/
theorem run_arg_window_partial (s : St) (h : Reach s) :
    (s.ms = "initialized" ∨ s.ms = "running" → s.runArg.isSome = true) ∧
    (s.runArg.isSome = true → s.ms = "initialized" ∨ s.ms = "running" ∨ s.ms = "closed") ∧
    (s.ms ≠ "closed" → (s.runArg.isSome = true ↔ (s.ms = "initialized" ∨ s.ms = "running"))) := by
  have hi := inv_of_reach h
  have key : s.runArg.isSome = true → s.ms = "initialized" ∨ s.ms = "running" ∨ s.ms = "closed" := by
    intro hs
    rcases hi.msOk with hm | hm | hm | hm | hm
    · have := hi.argNone (Or.inl hm); simp [this] at hs
    · exact Or.inl hm
    · exact Or.inr (Or.inl hm)
    · have := hi.argNone (Or.inr hm); simp [this] at hs
    · exact Or.inr (Or.inr hm)
  refine ⟨hi.argSome, key, fun hc => ⟨fun hs => ?_, hi.argSome⟩⟩
  rcases key hs with hm | hm | hm
  · exact Or.inl hm
  · exact Or.inr hm
  · exact absurd hm hc

/-! ## non-vacuity -/

/-- a full run: the five hooks in protocol order, accepted, back in automaton state 0 -/
example :
    hooksOf (run (St.init 0 1 false false) [Op.start, Op.run, Op.childPrompt, Op.childExit (some 0)]).2 =
      [("on_initialize_run", "initialized", true), ("on_start_run", "running", true),
       ("on_start_prompt", "running", true), ("on_end_run", "running", true), ("on_finished", "finished", false)] := by
  decide

example :
    protoRun 0 (hooksOf (run (St.init 0 1 false false)
      [Op.start, Op.run, Op.childPrompt, Op.childExit (some 0), Op.reset none none none none, Op.run]).2) = some 2 := by
  decide

/-- the automaton does reject: end-run without start-run -/
example : protoRun 1 [("on_end_run", "running", true)] = none := by decide

/-- a refused request: `run()` before `start()` returns `MachineError` and calls no hook -/
example : (step (St.init 0 1 false false) Op.run).2 = [Obs.ret "run" (some Err.machineError)] := by decide

end NLV.C12
