import NLV.Model.Lifecycle
import NLV.Lemmas.LifeB
/-!
# C14 — run numbers, run arguments and `reset()` (model A, serial histories)

Run numbers are handed out consecutively; the run arguments a run executes are the composer's current statement and
options (those on display), and the child is started with exactly them; a `reset()` request takes full effect or none.
Which requests are accepted comes from the generated transition table (`dest_initialize`, `dest_reset`).
-/
set_option linter.unusedSimpArgs false
namespace NLV.C14
open NLV.LifeB
open NLV.Life hiding Inv dest_reset_running dest_run_running inv_init inv_of_reach inv_run inv_step reach_step run_cons run_nil

/-- run numbers are handed out consecutively: an accepted (re)initialisation publishes exactly one run number — the
next one, or the one the caller restarts from — and the counter moves just past it -/
theorem run_no_consecutive (s : St) (h : Reach s) :
    (dest "initialize" s.ms ≠ none → s.started = false → s.contClosed = false →
      runNosOf (step s Op.start).2 = [s.nextRunNo] ∧ (step s Op.start).1.nextRunNo = s.nextRunNo + 1) ∧
    (∀ st rn tt tm, dest "reset" s.ms ≠ none →
      runNosOf (step s (Op.reset st rn tt tm)).2 = [rn.getD s.nextRunNo] ∧
      (step s (Op.reset st rn tt tm)).1.nextRunNo = rn.getD s.nextRunNo + 1) ∧
    (∀ op, (match op with | Op.start => False | Op.reset _ _ _ _ => False | _ => True) →
      runNosOf (step s op).2 = [] ∧ (step s op).1.nextRunNo = s.nextRunNo) := by
  have _ := h
  refine ⟨?_, ?_, ?_⟩
  · intro hd hs hc
    rcases dest_initialize s.ms with ⟨_, hd'⟩ | ⟨_, hd'⟩
    · simp [step, hs, hc, hd', enterInitialized, runNosOf]
    · exact absurd hd' hd
  · intro st rn tt tm hd
    rcases dest_reset s.ms with ⟨_, hd'⟩ | ⟨_, _, hd'⟩
    · cases st <;> simp [step, hd', enterInitialized, runNosOf]
    · exact absurd hd' hd
  · intro op hop
    cases op with
    | start => exact absurd hop id
    | reset _ _ _ _ => exact absurd hop id
    | run =>
      simp only [step, enterRunning]
      repeat' split
      all_goals simp [runNosOf]
    | runAndContinue =>
      simp only [step, contRun, enterRunning]
      repeat' split
      all_goals simp [runNosOf]
    | runContinueAndWait =>
      simp only [step, contRun, enterRunning]
      repeat' split
      all_goals simp [runNosOf]
    | close =>
      simp only [step, doCloseTrigger]
      repeat' split
      all_goals simp [runNosOf]
    | signal k =>
      simp only [step]
      repeat' split
      all_goals simp [runNosOf]
    | sendCommand =>
      simp only [step]
      repeat' split
      all_goals simp [runNosOf]
    | childPrompt =>
      simp only [step]
      repeat' split
      all_goals simp [runNosOf]
    | childExit r => exact ⟨(childExit_quiet s r).1, (childExit_quiet s r).2.1⟩

/-- the script and options a run executes are those on display: the run arguments always equal the composer's current
statement and options, carry the number published last, and the child is started with exactly them -/
theorem executes_displayed (s : St) (h : Reach s) :
    (∀ ra, s.runArg = some ra → ra.stmt = s.stmt ∧ ra.tt = s.tt ∧ ra.tm = s.tm ∧ ra.runNo + 1 = s.nextRunNo) ∧
    (∀ op a b c d, Obs.childStart a b c d ∈ (step s op).2 →
      s.runArg = some { runNo := a, stmt := b, tt := c, tm := d }) := by
  refine ⟨(inv_of_reach h).argEq, ?_⟩
  intro op a b c d hmem
  cases op with
  | start =>
    simp only [step, enterInitialized] at hmem
    repeat' split at hmem
    all_goals simp at hmem
  | reset st _ _ _ =>
    cases st
    all_goals simp only [step, enterInitialized] at hmem
    all_goals repeat' split at hmem
    all_goals simp at hmem
  | run =>
    simp only [step, enterRunning] at hmem
    repeat' split at hmem
    all_goals simp at hmem
    next ra hra => obtain ⟨rfl, rfl, rfl, rfl⟩ := hmem; exact hra
  | runAndContinue =>
    simp only [step, contRun, enterRunning] at hmem
    repeat' split at hmem
    all_goals simp at hmem
    all_goals (rename_i ra hra; obtain ⟨rfl, rfl, rfl, rfl⟩ := hmem; exact hra)
  | runContinueAndWait =>
    simp only [step, contRun, enterRunning] at hmem
    repeat' split at hmem
    all_goals simp at hmem
    all_goals (rename_i ra hra; obtain ⟨rfl, rfl, rfl, rfl⟩ := hmem; exact hra)
  | close =>
    simp only [step, doCloseTrigger] at hmem
    repeat' split at hmem
    all_goals simp at hmem
  | signal k =>
    simp only [step] at hmem
    repeat' split at hmem
    all_goals simp at hmem
  | sendCommand =>
    simp only [step] at hmem
    repeat' split at hmem
    all_goals simp at hmem
  | childPrompt =>
    simp only [step] at hmem
    repeat' split at hmem
    all_goals simp at hmem
  | childExit r => exact absurd hmem ((childExit_quiet s r).2.2 a b c d)

/-- a reset request takes full effect or none: accepted ⇒ exactly the given options are replaced (all of them);
refused ⇒ the state is unchanged -/
theorem reset_all_or_nothing (s : St) (st rn : Option Nat) (tt tm : Option Bool) :
    (dest "reset" s.ms ≠ none →
      let s' := (step s (Op.reset st rn tt tm)).1
      s'.stmt = st.getD s.stmt ∧ s'.tt = tt.getD s.tt ∧ s'.tm = tm.getD s.tm ∧
      s'.runArg = some { runNo := rn.getD s.nextRunNo, stmt := st.getD s.stmt, tt := tt.getD s.tt, tm := tm.getD s.tm } ∧
      Obs.ret "reset" none ∈ (step s (Op.reset st rn tt tm)).2) ∧
    (dest "reset" s.ms = none → (step s (Op.reset st rn tt tm)).1 = s) := by
  refine ⟨?_, ?_⟩
  · intro hd
    rcases dest_reset s.ms with ⟨_, hd'⟩ | ⟨_, _, hd'⟩
    · simp [step, hd', enterInitialized]
    · exact absurd hd' hd
  · intro hd
    simp [step, hd]

/-! ## non-vacuity -/

/-- run numbers 1, 2 and — restarting from 7 — 7, then 8 -/
example :
    runNosOf (run (St.init 0 1 false false)
      [Op.start, Op.reset none none none none, Op.reset (some 5) (some 7) none none, Op.run, Op.childExit (some 0),
       Op.reset none none none none]).2 = [1, 2, 7, 8] := by decide

/-- the child is started with the statement and options set by the last `reset()` -/
example :
    Obs.childStart 2 5 true false ∈
      (run (St.init 0 1 false false) [Op.start, Op.reset (some 5) none (some true) none, Op.run]).2 := by decide

/-- a refused `reset()` (while running) and an accepted one (the hypotheses of `reset_all_or_nothing` are satisfiable) -/
example : dest "reset" "running" = none ∧ dest "reset" "finished" ≠ none ∧ dest "initialize" "created" ≠ none := by decide

end NLV.C14
