import NLV.Model.Trace
import NLV.Lemmas.Trace
import NLV.Generated.Events
/-!
# C09 — the event stream of the child is well formed

Theorems over model D1 (`NLV/Model/Trace.lean`) for **every** label list, i.e. every interleaving of threads and tasks and
every sequence of their actions, including aborts at any nesting level and entities that never finish: the emitted stream
is accepted by the grammar `Reg.wrun` the registrars of the main process rely on (C11), the numbers are handed out in
order, the output only grows, an abort unwinds innermost first, and every event class carries the run number.

The case analysis of `step` (`step_cases`, `Local`), the simulation invariant relating the phases of all traces to the
grammar state reached by `wrun {} s.out` (`Sim`, `WInv`) and the counter invariant (`NumInv`) live in
`NLV/Lemmas/Trace.lean`.
-/
namespace NLV.C09
open NLV.Trace
open NLV.Reg hiding St step   -- `St`, `step` are those of model D1 (`NLV.Trace`)

/-- for every interleaving of entities and every sequence of their actions (including aborts at any nesting level and
entities that never finish), the emitted stream is accepted by the grammar the main process relies on: per trace
start-trace, trace calls each optionally containing one command loop holding prompt start/end pairs, end-trace; every
start has its matching end with the same numbers; nothing for a trace before its start or after its end -/
theorem stream_wf (ls : List (Ent × Act)) (s : St) (h : run {} ls = some s) : (wrun {} s.out).isSome = true := by
  obtain ⟨w, hw, _⟩ := (inv_of_run h).w
  rw [hw]; rfl

/-- trace numbers are handed out 1, 2, 3, … in start order; trace-call numbers and prompt numbers are strictly increasing
over the whole run (hence unique in the run and increasing within each trace) -/
theorem numbers_unique_increasing (ls : List (Ent × Act)) (s : St) (h : run {} ls = some s) :
    traceNos s.out = (List.range (traceNos s.out).length).map (· + 1) ∧
    (callNos s.out).Pairwise (· < ·) ∧ (promptNos s.out).Pairwise (· < ·) := by
  have hn := (inv_of_run h).num
  refine ⟨?_, hn.callInc, hn.prInc⟩
  have hl : (traceNos s.out).length = s.nextTrace - 1 := by rw [hn.tr]; simp
  rw [hl]; exact hn.tr

/-- the output only grows: an action never retracts an emitted event -/
theorem output_monotone (s : St) (e : Ent) (a : Act) (s' : St) (h : step s e a = some s') : s.out <+: s'.out := by
  rcases step_cases h with hl | ⟨_, _, hl⟩ | ⟨rfl, _⟩ | ⟨rfl, _⟩ | ⟨tr, text, _, _, rfl⟩
  · obtain ⟨tr, ph', en', evs, nc', np', _, _, rfl⟩ := hl
    exact List.prefix_append _ _
  · obtain ⟨tr, ph', en', evs, nc', np', _, _, rfl⟩ := hl
    show s.out <+: (addTrace s e).out ++ evs
    rw [addTrace_out, List.append_assoc]
    exact List.prefix_append _ _
  · exact List.prefix_refl _
  · exact List.prefix_refl _
  · exact List.prefix_append _ _

/-- an abort (KeyboardInterrupt delivered into a prompt, BdbQuit, …) closes everything that is open, innermost first, and
leaves the trace idle -/
theorem abort_unwinds (s : St) (e : Ent) (s' : St) (tr : TraceSt) (hf : findTrace s.traces e = some tr)
    (h : step s e Act.abort = some s') :
    newEvents s s' = unwind tr.traceNo tr.phase ∧ tr.phase ≠ Phase.idle ∧
    ∃ tr', findTrace s'.traces e = some tr' ∧ tr'.phase = Phase.idle ∧ tr'.traceNo = tr.traceNo := by
  obtain ⟨_, he, hl⟩ := findTrace_some hf
  have key : tr.phase ≠ Phase.idle ∧
      s' = { s with traces := setTrace s.traces { tr with phase := .idle }, out := s.out ++ unwind tr.traceNo tr.phase } := by
    simp only [step, hf] at h
    cases hph : tr.phase <;> rw [hph] at h <;> simp only [Option.some.injEq, reduceCtorEq] at h
    all_goals exact ⟨by simp, h.symm⟩
  obtain ⟨hne, rfl⟩ := key
  refine ⟨?_, hne, { tr with phase := .idle }, ?_, rfl, rfl⟩
  · simp [newEvents]
  · exact findTrace_setTrace_self hf he hl rfl

/-- every event class carries the run's number (from the generated field table) -/
theorem every_event_has_run_no : ∀ e ∈ NLV.Generated.Events.fields, "run_no" ∈ e.2 := by decide

/-! ## non-vacuity: concrete runs -/

/-- a thread (entity 1) and a task of another thread (entity 2) interleaved: both stop at a prompt; the task is aborted at
its prompt, the thread answers with a resuming command; both finish -/
def demo : List (Ent × Act) :=
  [(⟨1, none⟩, .enter 10 1 100 0), (⟨2, some 7⟩, .enter 11 5 200 0), (⟨1, none⟩, .stop), (⟨2, some 7⟩, .stop),
   (⟨2, some 7⟩, .prompt 3), (⟨1, none⟩, .prompt 4), (⟨1, none⟩, .write 9), (⟨2, some 7⟩, .abort),
   (⟨1, none⟩, .answer 5 true), (⟨1, none⟩, .leave), (⟨2, some 7⟩, .finish), (⟨1, none⟩, .finish)]

example : ((run {} demo).map fun s => s.out.length) = some 17 := by decide
example : ((run {} demo).bind fun s => wrun {} s.out).isSome = true := by decide
example : ((run {} demo).map fun s => (traceNos s.out, callNos s.out, promptNos s.out)) = some ([1, 2], [1, 2], [1, 2]) := by
  decide
/-- the abort at the prompt emitted end-prompt, end-cmdloop, end-trace-call of trace 2, in this order -/
example : ((run {} (demo.take 7)).bind fun s => (step s ⟨2, some 7⟩ .abort).map fun s' => newEvents s s') =
    some [.endPrompt 2 1 0, .endCmdloop 2 2, .endCall 2 2] := by decide
/-- an entity that never finishes: the killed prefix is still accepted -/
example : ((run {} (demo.take 6)).bind fun s => wrun {} s.out).isSome = true := by decide
/-- a nested trace call within one trace is not a run of the model -/
example : run {} [(⟨1, none⟩, .enter 10 1 100 0), (⟨1, none⟩, .enter 10 2 100 0)] = none := by decide

end NLV.C09
