import NLV.Model.Trace
import NLV.Lemmas.Trace
import NLV.Generated.Events
/-!
# C09 — the event stream of the child is well formed

Theorems over model D1 (`NLV/Model/Trace.lean`) for **every** label list, i.e. every interleaving of threads and tasks and
every sequence of their actions — including the hidden number-drawing steps, exceptions unwinding at any nesting level and
entities that never finish: the emitted stream is accepted by the grammar `Reg.wrun` the registrars of the main process
rely on (C11); trace, trace-call and prompt numbers are unique in the run and increase within each trace; the output only
grows, by at most one event per step; an exception unwinds innermost first; every event class carries the run number.

Numbers are *drawn* atomically but *emitted* in a later step, so the order in which numbers appear in the stream is not
the order in which they were drawn (`stream_order_is_not_number_order`): the property does not ask for that, and the
code does not provide it.
-/
namespace NLV.C09
open NLV.Trace
open NLV.Reg hiding St step   -- `St`, `step` are those of model D1 (`NLV.Trace`)

/-- for every interleaving of entities and every sequence of their actions, the emitted stream is accepted by the grammar
the main process relies on: per trace start-trace, trace calls each optionally containing one command loop holding prompt
start/end pairs, end-trace; every start has its matching end with the same numbers; nothing for a trace before its start
or after its end -/
theorem stream_wf (ls : List (Ent × Act)) (s : St) (h : run {} ls = some s) : (wrun {} s.out).isSome = true := by
  obtain ⟨w, hw, _⟩ := (inv_of_run h).w
  rw [hw]; rfl

/-- trace, trace-call and prompt numbers are unique within the run, and trace-call and prompt numbers increase within each
trace (a trace has one trace number) -/
theorem numbers_unique_increasing (ls : List (Ent × Act)) (s : St) (h : run {} ls = some s) :
    (traceNos s.out).Nodup ∧ (callNos s.out).Nodup ∧ (promptNos s.out).Nodup ∧
    (∀ t, (callNosOf t s.out).Pairwise (· < ·)) ∧ (∀ t, (promptNosOf t s.out).Pairwise (· < ·)) :=
  have hn := (inv_of_run h).num
  ⟨hn.trND, hn.call.nd, hn.prompt.nd, hn.call.inc, hn.prompt.inc⟩

/-- the counters hand out 1, 2, 3, …: the traces, in the order in which their numbers were drawn, are numbered consecutively -/
theorem numbers_drawn_in_order (ls : List (Ent × Act)) (s : St) (h : run {} ls = some s) :
    s.traces.map (·.traceNo) = (List.range s.traces.length).map (· + 1) :=
  (inv_of_run h).tr.seq

/-- … but the stream need not show them in that order: two threads draw trace numbers 1 and 2 and the second emits first;
likewise for trace-call numbers -/
theorem stream_order_is_not_number_order :
    (∃ ls s, run {} ls = some s ∧ traceNos s.out = [2, 1]) ∧ (∃ ls s, run {} ls = some s ∧ callNos s.out = [2, 1]) := by
  constructor
  · exact ⟨[(⟨1, none⟩, .drawIds), (⟨2, none⟩, .drawIds), (⟨1, none⟩, .drawTrace), (⟨2, none⟩, .drawTrace),
      (⟨2, none⟩, .emitStart), (⟨1, none⟩, .emitStart)], exists_run_of_map (f := fun s => traceNos s.out) (by decide)⟩
  · exact ⟨[(⟨1, none⟩, .drawIds), (⟨2, none⟩, .drawIds), (⟨1, none⟩, .drawTrace), (⟨2, none⟩, .drawTrace),
      (⟨1, none⟩, .emitStart), (⟨2, none⟩, .emitStart), (⟨1, none⟩, .drawCall 10 1 100 0), (⟨2, none⟩, .drawCall 11 1 200 0),
      (⟨2, none⟩, .emitCall), (⟨1, none⟩, .emitCall)], exists_run_of_map (f := fun s => callNos s.out) (by decide)⟩

/-- the output only grows: an action never retracts an emitted event, and adds at most one -/
theorem output_monotone (s : St) (e : Ent) (a : Act) (s' : St) (h : step s e a = some s') :
    s.out <+: s'.out ∧ (newEvents s s').length ≤ 1 := by
  obtain ⟨evs, ho, hlen, _⟩ := step_out h
  rw [newEvents_of_out ho]
  exact ⟨⟨evs, ho.symm⟩, hlen⟩

/-- the number-drawing steps emit nothing: an observer of the stream does not see them -/
theorem hidden_silent (s : St) (e : Ent) (a : Act) (s' : St) (h : step s e a = some s') (ha : a.hidden = true) :
    s'.out = s.out := by
  obtain ⟨evs, ho, _, hh, _⟩ := step_out h
  rw [ho, hh ha, List.append_nil]

/-- an exception (KeyboardInterrupt delivered into a prompt, BdbQuit, …) closes everything that is open, innermost first, one
event per step, and leaves the trace idle -/
theorem abort_unwinds (ls : List (Ent × Act)) (s : St) (hr : run {} ls = some s) (e : Ent) (tr : TraceSt)
    (hf : findTrace s.traces e = some tr) (ho : tr.phase.isOpen = true) :
    ∃ s', run s ((unwindActs tr.phase).map fun a => (e, a)) = some s' ∧
      newEvents s s' = unwind tr.traceNo tr.phase ∧
      ∃ tr', findTrace s'.traces e = some tr' ∧ tr'.phase = Phase.idle ∧ tr'.traceNo = tr.traceNo := by
  have _ := hr
  obtain ⟨s', hr', ho', hf'⟩ := unwind_run hf ho
  exact ⟨s', hr', newEvents_of_out ho', _, hf', rfl, rfl⟩

/-- every event class carries the run's number (from the generated field table) -/
theorem every_event_has_run_no : ∀ e ∈ NLV.Generated.Events.fields, "run_no" ∈ e.2 := by decide

/-! ## non-vacuity: concrete runs -/

/-- a thread (entity 1) and a task of another thread (entity 2) interleaved, the task's numbers drawn first but emitted
second; both stop at a prompt; the task is interrupted at its prompt, the thread answers; both finish -/
def demo : List (Ent × Act) :=
  [(⟨2, some 7⟩, .drawIds), (⟨1, none⟩, .drawIds), (⟨2, some 7⟩, .drawTrace), (⟨1, none⟩, .drawTrace),
   (⟨1, none⟩, .emitStart), (⟨2, some 7⟩, .emitStart),
   (⟨1, none⟩, .drawCall 10 1 100 0), (⟨2, some 7⟩, .drawCall 11 5 200 0), (⟨2, some 7⟩, .emitCall), (⟨1, none⟩, .emitCall),
   (⟨1, none⟩, .stop), (⟨2, some 7⟩, .stop), (⟨2, some 7⟩, .drawPrompt), (⟨1, none⟩, .drawPrompt),
   (⟨2, some 7⟩, .emitPrompt 3), (⟨1, none⟩, .emitPrompt 4), (⟨1, none⟩, .write 9),
   (⟨2, some 7⟩, .answer 0), (⟨1, none⟩, .answer 5), (⟨2, some 7⟩, .endLoop), (⟨1, none⟩, .endLoop), (⟨2, some 7⟩, .leave),
   (⟨1, none⟩, .leave), (⟨2, some 7⟩, .finish), (⟨1, none⟩, .finish)]

example : ((run {} demo).map fun s => s.out.length) = some 17 := by decide
example : ((run {} demo).bind fun s => wrun {} s.out).isSome = true := by decide
example : ((run {} demo).map fun s => (traceNos s.out, callNos s.out, promptNos s.out)) = some ([2, 1], [2, 1], [1, 2]) := by
  decide
/-- an entity that never finishes: the killed prefix is still accepted -/
example : ((run {} (demo.take 16)).bind fun s => wrun {} s.out).isSome = true := by decide
/-- a nested trace call within one trace is not a run of the model -/
example : run {} [(⟨1, none⟩, .drawIds), (⟨1, none⟩, .drawTrace), (⟨1, none⟩, .emitStart), (⟨1, none⟩, .drawCall 10 1 100 0),
    (⟨1, none⟩, .drawCall 10 2 100 0)] = none := by decide
/-- unwinding from an open prompt: end-prompt (empty command), end-cmdloop, end-trace-call of trace 1 (entity 2), in this
order.  (Expectation corrected: the task's trace call carries call number 2 — the thread drew call number 1 first, see
`callNos = [2, 1]` above — so the phase is `.prompt ⟨2, …⟩ 1` and the end events carry call number 2, not 1.) -/
example : ((run {} (demo.take 17)).bind fun s =>
    (run s ((unwindActs (.prompt ⟨2, 11, 5, 200, 0⟩ 1)).map fun a => (⟨2, some 7⟩, a))).map fun s' => newEvents s s') =
    some [.endPrompt 1 1 0, .endCmdloop 1 2, .endCall 1 2] := by decide

end NLV.C09
