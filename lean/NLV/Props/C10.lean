import NLV.Model.Relay
import NLV.Lemmas.Relay
/-!
# C10 — relay of the child's events to the plugins of the main process

Theorems over model F for **every** label list (every schedule of child, monitor task, hook fan-out, drain loop and
every kill point): plugins observe a prefix of what the child emitted, nothing is lost unless a kill cut the stream,
everything has been delivered when run-end is issued, run-end is last, and the relay never gets stuck.
-/
namespace NLV.C10
open NLV.Relay

/-! ## the invariant -/

structure Inv (s : St) : Prop where
  /-- delivered ++ in hand ++ in channel is a prefix of what was emitted -/
  pre : delivered s.log ++ inHand s.mon ++ inChan s.chan <+: s.emitted
  /-- … and all of it unless a kill cut the stream -/
  eq : s.lost = false → delivered s.log ++ inHand s.mon ++ inChan s.chan = s.emitted
  /-- the child lives only between its creation and the drain loop, and a kill ends it -/
  alive : s.childAlive = true → (s.sess = .childCreated ∨ s.sess = .started) ∧ s.lost = false
  early : s.sess = .creating → s.lost = false
  /-- before the sentinel is queued it is not in the channel and the monitor has not exited -/
  noSent : s.sess ≠ .sentinelQueued → s.sess ≠ .endRunIssued → Item.sentinel ∉ s.chan ∧ s.mon ≠ .exited
  /-- the sentinel is the last item of the channel until the monitor takes it and exits -/
  sq : s.sess = .sentinelQueued →
    (s.mon ≠ .exited ∧ ∃ p, s.chan = p ++ [Item.sentinel] ∧ Item.sentinel ∉ p) ∨ (s.mon = .exited ∧ s.chan = [])
  fin : s.sess = .endRunIssued →
    s.mon = .exited ∧ s.chan = [] ∧ ∃ p, s.log = p ++ [Obs.endRun] ∧ Obs.endRun ∉ p
  noEnd : s.sess ≠ .endRunIssued → Obs.endRun ∉ s.log
  start0 : s.sess = .creating ∨ s.sess = .childCreated → Obs.startRun ∉ s.log
  start1 : s.sess ≠ .creating → s.sess ≠ .childCreated → s.log.count Obs.startRun = 1

theorem inv_init : Inv {} := by
  constructor <;> simp

theorem inv_createChild {s s' : St} (h : Inv s) (hs : step s .createChild = some s') : Inv s' := by
  obtain ⟨hc, rfl⟩ := step_createChild hs
  have h1 := h.pre; have h2 := h.eq; have h3 := h.alive; have h4 := h.early; have h5 := h.noSent
  have h6 := h.sq; have h7 := h.fin; have h8 := h.noEnd; have h9 := h.start0; have h10 := h.start1
  constructor <;> simp_all

theorem inv_issueStartRun {s s' : St} (h : Inv s) (hs : step s .issueStartRun = some s') : Inv s' := by
  obtain ⟨hc, rfl⟩ := step_issueStartRun hs
  have h1 := h.pre; have h2 := h.eq; have h3 := h.alive; have h4 := h.early; have h5 := h.noSent
  have h6 := h.sq; have h7 := h.fin; have h8 := h.noEnd; have h9 := h.start0; have h10 := h.start1
  constructor <;> simp_all [List.count_eq_zero]

theorem inv_emit {s s' : St} {n : Nat} (h : Inv s) (hs : step s (.emit n) = some s') : Inv s' := by
  obtain ⟨hc, rfl⟩ := step_emit hs
  clear hs
  obtain ⟨hsess, hl⟩ := h.alive hc
  have heq := h.eq hl
  have h5 := h.noSent; have h8 := h.noEnd; have h9 := h.start0; have h10 := h.start1
  have hpre : delivered s.log ++ inHand s.mon ++ inChan (s.chan ++ [Item.ev n]) = s.emitted ++ [n] := by
    rw [← heq]; simp
  constructor <;> simp only []
  · rw [hpre]; exact List.prefix_refl _
  · intro _; exact hpre
  · intro _; exact ⟨hsess, hl⟩
  · intro _; exact hl
  · intro a b
    have := h5 a b
    simpa using this
  · intro a; rcases hsess with e | e <;> rw [e] at a <;> cases a
  · intro a; rcases hsess with e | e <;> rw [e] at a <;> cases a
  · exact h8
  · exact h9
  · exact h10

theorem inv_childExit {s s' : St} (h : Inv s) (hs : step s .childExit = some s') : Inv s' := by
  obtain ⟨hc, rfl⟩ := step_childExit hs
  have h1 := h.pre; have h2 := h.eq; have h3 := h.alive; have h4 := h.early; have h5 := h.noSent
  have h6 := h.sq; have h7 := h.fin; have h8 := h.noEnd; have h9 := h.start0; have h10 := h.start1
  constructor <;> simp_all

theorem inv_kill {s s' : St} {k : Nat} (h : Inv s) (hs : step s (.kill k) = some s') : Inv s' := by
  obtain ⟨hc, rfl⟩ := step_kill hs
  clear hs
  obtain ⟨hsess, hl⟩ := h.alive hc
  have heq := h.eq hl
  have h5 := h.noSent; have h8 := h.noEnd; have h9 := h.start0; have h10 := h.start1
  constructor <;> simp only []
  · rw [← heq, List.append_assoc, List.append_assoc, List.prefix_append_right_inj, List.prefix_append_right_inj]
    exact inChan_take_prefix _ _
  · intro a; cases a
  · intro a; cases a
  · intro a; rcases hsess with e | e <;> rw [e] at a <;> cases a
  · intro a b
    exact ⟨fun hmem => (h5 a b).1 (List.mem_of_mem_take hmem), (h5 a b).2⟩
  · intro a; rcases hsess with e | e <;> rw [e] at a <;> cases a
  · intro a; rcases hsess with e | e <;> rw [e] at a <;> cases a
  · exact h8
  · exact h9
  · exact h10

theorem inv_awaitChild {s s' : St} (h : Inv s) (hs : step s .awaitChild = some s') : Inv s' := by
  obtain ⟨hc, hc', rfl⟩ := step_awaitChild hs
  have h1 := h.pre; have h2 := h.eq; have h3 := h.alive; have h4 := h.early; have h5 := h.noSent
  have h6 := h.sq; have h7 := h.fin; have h8 := h.noEnd; have h9 := h.start0; have h10 := h.start1
  constructor <;> simp_all

theorem inv_monGet {s s' : St} (h : Inv s) (hs : step s .monGet = some s') : Inv s' := by
  have h1 := h.pre; have h2 := h.eq; have h3 := h.alive; have h4 := h.early; have h5 := h.noSent
  have h6 := h.sq; have h7 := h.fin; have h8 := h.noEnd; have h9 := h.start0; have h10 := h.start1
  obtain ⟨hm, ⟨n, rest, hch, rfl⟩ | ⟨rest, hch, rfl⟩⟩ := step_monGet hs
  · clear hs
    have hsq : s.sess = .sentinelQueued → ∃ p, rest = p ++ [Item.sentinel] ∧ Item.sentinel ∉ p := by
      intro a
      rcases h6 a with ⟨_, p, hp, hnp⟩ | ⟨hx, _⟩
      · rw [hch] at hp
        cases p with
        | nil => cases hp
        | cons b p' =>
          simp only [List.cons_append, List.cons.injEq] at hp
          exact ⟨p', hp.2, fun hmem => hnp (List.mem_cons_of_mem _ hmem)⟩
      · rw [hm] at hx; cases hx
    constructor <;> simp_all
  · clear hs
    have hsess : s.sess = .sentinelQueued := by
      cases hse : s.sess <;> simp_all
    have hrest : rest = [] := by
      rcases h6 hsess with ⟨_, p, hp, hnp⟩ | ⟨hx, _⟩
      · rw [hch] at hp
        cases p with
        | nil => simpa using hp
        | cons b p' =>
          simp only [List.cons_append, List.cons.injEq] at hp
          exact absurd (hp.1 ▸ List.mem_cons_self) hnp
      · rw [hm] at hx; cases hx
    subst hrest
    constructor <;> simp_all

theorem inv_monDone {s s' : St} (h : Inv s) (hs : step s .monDone = some s') : Inv s' := by
  obtain ⟨n, hm, rfl⟩ := step_monDone hs
  have h1 := h.pre; have h2 := h.eq; have h3 := h.alive; have h4 := h.early; have h5 := h.noSent
  have h6 := h.sq; have h7 := h.fin; have h8 := h.noEnd; have h9 := h.start0; have h10 := h.start1
  constructor <;> simp_all

theorem inv_drainGiveUp {s s' : St} (h : Inv s) (hs : step s .drainGiveUp = some s') : Inv s' := by
  obtain ⟨hc, rfl⟩ := step_drainGiveUp hs
  have h1 := h.pre; have h2 := h.eq; have h3 := h.alive; have h4 := h.early; have h5 := h.noSent
  have h6 := h.sq; have h7 := h.fin; have h8 := h.noEnd; have h9 := h.start0; have h10 := h.start1
  constructor <;> simp_all

theorem inv_joinMonitor {s s' : St} (h : Inv s) (hs : step s .joinMonitor = some s') : Inv s' := by
  obtain ⟨hc, hm, rfl⟩ := step_joinMonitor hs
  have h1 := h.pre; have h2 := h.eq; have h3 := h.alive; have h4 := h.early; have h5 := h.noSent
  have h6 := h.sq; have h7 := h.fin; have h8 := h.noEnd; have h9 := h.start0; have h10 := h.start1
  constructor <;> simp_all

theorem inv_step (s : St) (l : Label) (s' : St) (h : Inv s) (hs : step s l = some s') : Inv s' := by
  cases l with
  | createChild => exact inv_createChild h hs
  | issueStartRun => exact inv_issueStartRun h hs
  | emit n => exact inv_emit h hs
  | childExit => exact inv_childExit h hs
  | kill k => exact inv_kill h hs
  | awaitChild => exact inv_awaitChild h hs
  | monGet => exact inv_monGet h hs
  | monDone => exact inv_monDone h hs
  | drainGiveUp => exact inv_drainGiveUp h hs
  | joinMonitor => exact inv_joinMonitor h hs

theorem inv_run (ls : List Label) (s : St) (h : run {} ls = some s) : Inv s :=
  run_induction inv_step ls {} s inv_init h

/-! ## safety: prefix, no loss, completeness at run-end -/

/-- plugins observe a prefix of what the child emitted: each event at most once, in emission order — for every schedule of
child, monitor, hooks and drain loop, every kill point -/
theorem delivered_prefix (ls : List Label) (s : St) (h : run {} ls = some s) : delivered s.log <+: s.emitted := by
  have hp := (inv_run ls s h).pre
  rw [List.append_assoc] at hp
  exact List.IsPrefix.trans (List.prefix_append _ _) hp

/-- unless a kill cut the stream nothing is ever lost: delivered ++ in hand ++ still in the channel = emitted -/
theorem nothing_lost_without_kill (ls : List Label) (s : St) (h : run {} ls = some s) (hl : s.lost = false) :
    delivered s.log ++ inHand s.mon ++ inChan s.chan = s.emitted :=
  (inv_run ls s h).eq hl

/-- when the run-end notification is issued, every emitted event has been delivered (also when the drain loop gave up on
its time-out: the sentinel is queued behind the backlog) -/
theorem delivered_all_at_end_run (ls : List Label) (s : St) (h : run {} ls = some s) (hl : s.lost = false)
    (he : s.sess = Sess.endRunIssued) : delivered s.log = s.emitted := by
  have hi := inv_run ls s h
  have heq := hi.eq hl
  obtain ⟨hm, hc, _⟩ := hi.fin he
  rw [hm, hc] at heq
  simpa using heq

/-- run-end is issued only after the monitor task has exited, with an empty channel -/
theorem end_run_monitor_exited (ls : List Label) (s : St) (h : run {} ls = some s) (he : s.sess = Sess.endRunIssued) :
    s.mon = Mon.exited ∧ s.chan = [] :=
  ⟨((inv_run ls s h).fin he).1, ((inv_run ls s h).fin he).2.1⟩

/-- the run-end notification comes last and once, the run-start notification once: nothing is delivered after run-end -/
theorem none_after_end_run (ls : List Label) (s : St) (h : run {} ls = some s) :
    s.log.count Obs.endRun ≤ 1 ∧ s.log.count Obs.startRun ≤ 1 ∧
    (Obs.endRun ∈ s.log → s.log.getLast? = some Obs.endRun ∧ s.sess = Sess.endRunIssued) ∧
    (s.sess = Sess.endRunIssued → s.mon = Mon.exited ∧ s.chan = [] ∨ s.mon = Mon.exited) := by
  have hi := inv_run ls s h
  refine ⟨?_, ?_, ?_, ?_⟩
  · by_cases he : s.sess = Sess.endRunIssued
    · obtain ⟨_, _, p, hp, hnp⟩ := hi.fin he
      rw [hp, List.count_append, List.count_eq_zero.2 hnp]
      simp
    · rw [List.count_eq_zero.2 (hi.noEnd he)]; exact Nat.zero_le _
  · by_cases h0 : s.sess = Sess.creating ∨ s.sess = Sess.childCreated
    · rw [List.count_eq_zero.2 (hi.start0 h0)]; exact Nat.zero_le _
    · rw [hi.start1 (fun a => h0 (.inl a)) (fun a => h0 (.inr a))]; exact Nat.le_refl _
  · intro hmem
    have he : s.sess = Sess.endRunIssued := by
      by_cases he : s.sess = Sess.endRunIssued
      · exact he
      · exact absurd hmem (hi.noEnd he)
    obtain ⟨_, _, p, hp, _⟩ := hi.fin he
    exact ⟨by rw [hp]; simp, he⟩
  · intro he
    exact .inl ⟨(hi.fin he).1, (hi.fin he).2.1⟩

/-- once run-end has been issued no step of the relay can add an observation -/
theorem end_run_is_final (s : St) (l : Label) (s' : St) (he : s.sess = Sess.endRunIssued) (hm : s.mon = Mon.exited)
    (hs : step s l = some s') : s'.log = s.log := by
  cases l with
  | createChild => obtain ⟨hc, _⟩ := step_createChild hs; rw [he] at hc; cases hc
  | issueStartRun => obtain ⟨hc, _⟩ := step_issueStartRun hs; rw [he] at hc; cases hc
  | emit n => obtain ⟨_, rfl⟩ := step_emit hs; rfl
  | childExit => obtain ⟨_, rfl⟩ := step_childExit hs; rfl
  | kill k => obtain ⟨_, rfl⟩ := step_kill hs; rfl
  | awaitChild => obtain ⟨_, _, rfl⟩ := step_awaitChild hs; rfl
  | monGet => obtain ⟨hc, _⟩ := step_monGet hs; rw [hm] at hc; cases hc
  | monDone => obtain ⟨n, hc, _⟩ := step_monDone hs; rw [hm] at hc; cases hc
  | drainGiveUp => obtain ⟨hc, _⟩ := step_drainGiveUp hs; rw [he] at hc; cases hc
  | joinMonitor => obtain ⟨hc, _⟩ := step_joinMonitor hs; rw [he] at hc; cases hc

/-- in a reachable state with run-end issued, the state is terminal: no label is enabled at all -/
theorem end_run_terminal (ls : List Label) (s : St) (h : run {} ls = some s) (he : s.sess = Sess.endRunIssued)
    (l : Label) : step s l = none := by
  have hi := inv_run ls s h
  have hm := (hi.fin he).1
  have ha : s.childAlive = false := by
    cases hca : s.childAlive with
    | false => rfl
    | true => rcases (hi.alive hca).1 with e | e <;> rw [he] at e <;> cases e
  cases l <;> simp [step, he, hm, ha]

/-! ## deliveries come after run-start (under the start-acknowledgement premise) -/

/-- before run-start nothing has been dequeued or observed; afterwards the log begins with run-start -/
structure InvS (s : St) : Prop where
  early : s.sess = .creating ∨ s.sess = .childCreated → s.mon = .idle ∧ s.log = []
  late : s.sess ≠ .creating → s.sess ≠ .childCreated → ∃ t, s.log = Obs.startRun :: t

theorem invS_init : InvS {} := by
  constructor <;> simp

theorem invS_step {s s' : St} {l : Label} (h : InvS s) (hs : step s l = some s')
    (hack : l = Label.monGet → s.sess ≠ Sess.creating ∧ s.sess ≠ Sess.childCreated) : InvS s' := by
  have h1 := h.early; have h2 := h.late
  cases l with
  | createChild => obtain ⟨hc, rfl⟩ := step_createChild hs; constructor <;> simp_all
  | issueStartRun => obtain ⟨hc, rfl⟩ := step_issueStartRun hs; constructor <;> simp_all
  | emit n => obtain ⟨_, rfl⟩ := step_emit hs; exact ⟨h1, h2⟩
  | childExit => obtain ⟨_, rfl⟩ := step_childExit hs; exact ⟨h1, h2⟩
  | kill k => obtain ⟨_, rfl⟩ := step_kill hs; exact ⟨h1, h2⟩
  | awaitChild => obtain ⟨hc, _, rfl⟩ := step_awaitChild hs; constructor <;> simp_all
  | monGet =>
    obtain ⟨hn1, hn2⟩ := hack rfl
    obtain ⟨_, ⟨n, rest, _, rfl⟩ | ⟨rest, _, rfl⟩⟩ := step_monGet hs
    · exact ⟨fun a => by rcases a with a | a <;> contradiction, h2⟩
    · exact ⟨fun a => by rcases a with a | a <;> contradiction, h2⟩
  | monDone =>
    obtain ⟨n, hm, rfl⟩ := step_monDone hs
    constructor
    · intro a
      have := (h1 a).1
      rw [hm] at this; cases this
    · intro a b
      obtain ⟨t, ht⟩ := h2 a b
      exact ⟨t ++ [Obs.deliver n], by simp [ht]⟩
  | drainGiveUp => obtain ⟨hc, rfl⟩ := step_drainGiveUp hs; constructor <;> simp_all
  | joinMonitor =>
    obtain ⟨hc, _, rfl⟩ := step_joinMonitor hs
    constructor
    · intro a; rcases a with a | a <;> cases a
    · intro _ _
      obtain ⟨t, ht⟩ := h2 (by rw [hc]; intro a; cases a) (by rw [hc]; intro a; cases a)
      exact ⟨t ++ [Obs.endRun], by simp [ht]⟩

theorem invS_run : ∀ (ls : List Label) (s s' : St), InvS s → run s ls = some s' → StartAck s ls → InvS s' := by
  intro ls
  induction ls with
  | nil => intro s s' hp h _; simp only [run, Option.some.injEq] at h; subst h; exact hp
  | cons l ls ih =>
    intro s s' hp h hack
    simp only [run] at h
    simp only [StartAck] at hack
    obtain ⟨hack1, hack2⟩ := hack
    split at h
    · next s1 h1 =>
      rw [h1] at hack2
      exact ih s1 s' (invS_step hp h1 hack1) h hack2
    · cases h

/-- under the premise that the monitor does not dequeue before the run-start notification has been issued, every delivery
comes after run-start -/
theorem after_start_run (ls : List Label) (s : St) (h : run {} ls = some s) (hack : StartAck {} ls) :
    ∀ pre post n, s.log = pre ++ [Obs.deliver n] ++ post → Obs.startRun ∈ pre := by
  intro pre post n hlog
  have hi := invS_run ls {} s invS_init h hack
  by_cases h0 : s.sess = Sess.creating ∨ s.sess = Sess.childCreated
  · have := (hi.early h0).2
    rw [this] at hlog
    cases pre <;> cases hlog
  · obtain ⟨t, ht⟩ := hi.late (fun a => h0 (.inl a)) (fun a => h0 (.inr a))
    rw [ht] at hlog
    cases pre with
    | nil => cases hlog
    | cons a pre' =>
      simp only [List.cons_append, List.cons.injEq] at hlog
      rw [← hlog.1]; exact List.mem_cons_self

/-- the premise is needed: without it the model itself delivers before run-start -/
theorem after_start_run_needs_premise :
    ∃ ls s, run {} ls = some s ∧ s.log.head? = some (Obs.deliver 0) :=
  ⟨[.createChild, .emit 0, .monGet, .monDone], _, rfl, rfl⟩

/-! ## progress -/

/-- the relay never gets stuck: once the child is gone, until run-end has been issued some step of monitor or session is
enabled (so, under fair scheduling, run-end is reached) -/
theorem relay_no_deadlock (ls : List Label) (s : St) (h : run {} ls = some s) (hc : s.childAlive = false)
    (hs : s.sess = Sess.started ∨ s.sess = Sess.draining ∨ s.sess = Sess.sentinelQueued) :
    (step s Label.monGet).isSome = true ∨ (step s Label.monDone).isSome = true ∨
    (step s Label.drainGiveUp).isSome = true ∨ (step s Label.joinMonitor).isSome = true ∨
    (step s Label.awaitChild).isSome = true := by
  have hi := inv_run ls s h
  rcases hs with hs | hs | hs
  · right; right; right; right; simp [step, hs, hc]
  · right; right; left; simp [step, hs]
  · cases hm : s.mon with
    | exited => right; right; right; left; simp [step, hs, hm]
    | handling n => right; left; simp [step, hm]
    | idle =>
      left
      rcases hi.sq hs with ⟨_, p, hp, _⟩ | ⟨hx, _⟩
      · cases p with
        | nil => simp [step, hm, hp]
        | cons a p' => cases a <;> simp [step, hm, hp]
      · rw [hm] at hx; cases hx

/-! ## non-vacuity -/

/-- a burst of three events, one delivered, then a kill that keeps one of the two still queued: the third is lost,
run-end is reached, plugins saw the prefix `[0, 1]` of `[0, 1, 2]` -/
example :
    (run {} [.createChild, .issueStartRun, .emit 0, .emit 1, .emit 2, .monGet, .monDone, .kill 1, .awaitChild,
        .drainGiveUp, .monGet, .monDone, .monGet, .joinMonitor]).map
      (fun s => (s.log, s.emitted, s.lost, s.sess)) =
    some ([.startRun, .deliver 0, .deliver 1, .endRun], [0, 1, 2], true, .endRunIssued) := by decide

/-- a kill while an event is in hand: that event is still delivered, the queued ones are dropped -/
example :
    (run {} [.createChild, .issueStartRun, .emit 0, .emit 1, .monGet, .kill 0, .monDone]).map
      (fun s => (delivered s.log, inHand s.mon, inChan s.chan, s.emitted, s.lost)) =
    some ([0], [], [], [0, 1], true) := by decide

/-- a normal run in which the drain loop gives up with a backlog: the sentinel is queued behind it and run-end is
issued with everything delivered -/
example :
    run {} [.createChild, .issueStartRun, .emit 0, .emit 1, .monGet, .childExit, .awaitChild, .drainGiveUp, .monDone,
        .monGet, .monDone, .monGet, .joinMonitor] =
    some { chan := [], emitted := [0, 1], lost := false, childAlive := false, mon := .exited, sess := .endRunIssued,
           log := [.startRun, .deliver 0, .deliver 1, .endRun] } := by decide

/-- the child exits before run-start has been issued: the relay still completes -/
example :
    (run {} [.createChild, .emit 0, .childExit, .issueStartRun, .awaitChild, .drainGiveUp, .monGet, .monDone, .monGet,
        .joinMonitor]).map (fun s => (s.log, s.sess)) =
    some ([.startRun, .deliver 0, .endRun], .endRunIssued) := by decide

end NLV.C10
