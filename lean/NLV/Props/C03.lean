import NLV.Model.Lifecycle
import NLV.Lemmas.LifeA
/-!
# C03 — `close()` always completes, never raises, and is idempotent

Theorems over model A for **every** history (serial or not) from every initial configuration.  `close()` in a state
other than `running` returns at once; while a run is in progress it blocks, and returns during the `childExit`
operation of the environment, whatever the environment (signals, commands, prompts) does in between and however the
child ends.  The structural invariant (`Inv`) lives in `NLV/Lemmas/LifeA.lean`.
-/
namespace NLV.C03
open NLV.Life

/-- close() never raises, in any reachable state -/
theorem close_never_raises (s : St) (h : Reach s) : ∀ e, Obs.ret "close" (some e) ∉ (step s Op.close).2 := by
  obtain ⟨h1, -, -⟩ := inv_of_reach h
  obtain ⟨ms, started, closedFlag, stmt, nextRunNo, tt, tm, runArg, cont, contClosed, contPlugins, childAlive, everRan,
    lastResult, waitBlocked, closeBlocked, children⟩ := s
  simp only at h1
  have hms := states_cases h1
  clear h1 h
  intro e
  rcases hms with rfl | rfl | rfl | rfl | rfl <;> life_unfold <;> split <;> simp

/-- a second close() does nothing -/
theorem close_idempotent (s : St) (hc : s.closedFlag = true) : step s Op.close = (s, [Obs.ret "close" none]) := by
  simp only [step, hc, if_true]

/-- from every reachable state in which no run is in progress, the first close() returns at once: the broker was
closed (every subscription handed out earlier terminates), the state is `closed`, no child is alive -/
theorem close_completes_when_idle (s : St) (h : Reach s) (hc : s.closedFlag = false) (hr : s.ms ≠ "running") :
    Obs.ret "close" none ∈ (step s Op.close).2 ∧ Obs.brokerClosed ∈ (step s Op.close).2 ∧
    (step s Op.close).1.ms = "closed" ∧ (step s Op.close).1.childAlive = false ∧ (step s Op.close).1.closedFlag = true := by
  obtain ⟨h1, h2, -⟩ := inv_of_reach h
  obtain ⟨ms, started, closedFlag, stmt, nextRunNo, tt, tm, runArg, cont, contClosed, contPlugins, childAlive, everRan,
    lastResult, waitBlocked, closeBlocked, children⟩ := s
  simp only at h1 h2 hc hr
  have hms := states_cases h1
  clear h1 h
  subst hc
  rcases hms with rfl | rfl | rfl | rfl | rfl <;> life_unfold <;> simp_all

/-- while a run is in progress close() waits for it; as soon as the child exits — however it ends — close() returns with
the state `closed` and no child alive; the environment may do anything else in between -/
theorem close_completes_when_running (s : St) (h : Reach s) (hc : s.closedFlag = false) (hr : s.ms = "running")
    (env : List Op) (henv : ∀ op ∈ env, op.isLifecycle = false ∧ ∀ r, op ≠ Op.childExit r) (r : Option Nat) :
    let s1 := (step s Op.close).1
    let s2 := (run s1 env).1
    Obs.blocked "close" ∈ (step s Op.close).2 ∧ Obs.brokerClosed ∈ (step s Op.close).2 ∧
    Obs.ret "close" none ∈ (step s2 (Op.childExit r)).2 ∧
    (step s2 (Op.childExit r)).1.ms = "closed" ∧ (step s2 (Op.childExit r)).1.childAlive = false ∧
    (step s2 (Op.childExit r)).1.closeBlocked = false := by
  intro s1 s2
  have hs2 : s2 = s1 := run_env s1 env henv
  rw [hs2]
  obtain ⟨-, h2, -⟩ := inv_of_reach h
  obtain ⟨ms, started, closedFlag, stmt, nextRunNo, tt, tm, runArg, cont, contClosed, contPlugins, childAlive, everRan,
    lastResult, waitBlocked, closeBlocked, children⟩ := s
  simp only at h2 hc hr
  subst hc hr
  have hca : childAlive = true := h2.2 rfl
  subst hca
  clear h h2 hs2 s2
  cases waitBlocked <;> simp [s1, step, finishRun, doCloseTrigger, sRunning, sFinished]

/-! ## non-vacuity checks -/

/-- a history reaching `running`, then `close()` blocks (the broker is closed at once), the environment sends a signal
and a prompt, the child is killed (`childExit none`): `close()` returns, state `closed`, no child alive -/
example :
    let s := (run (St.init 0 1 false false) [.start, .run]).1
    (s.ms, s.childAlive, s.closedFlag) = ("running", true, false) ∧
    (step s .close).2 = [Obs.brokerClosed, Obs.blocked "close"] ∧
    (run s [.close, .signal "kill", .childPrompt, .sendCommand, .childExit none]).2.filter
      (fun o => match o with | Obs.ret "close" _ => true | Obs.pubState _ => true | _ => false) =
      [Obs.pubState "finished", Obs.pubState "closed", Obs.ret "close" none] ∧
    (let s' := (run s [.close, .signal "kill", .childPrompt, .sendCommand, .childExit none]).1
     (s'.ms, s'.childAlive, s'.closeBlocked, s'.closedFlag) = ("closed", false, false, true)) := by decide

/-- `close()` from each idle state returns at once; the second `close()` only returns -/
example :
    (run (St.init 0 1 false false) [.close, .close]).2 =
      [Obs.brokerClosed, Obs.pubState "closed", Obs.ret "close" none, Obs.ret "close" none] ∧
    (run (St.init 0 1 false false) [.start, .close]).1.ms = "closed" ∧
    (run (St.init 0 1 false false) [.start, .run, .childExit (some 1), .close]).1.ms = "closed" ∧
    Obs.ret "close" none ∈ (run (St.init 0 1 false false) [.start, .run, .childExit (some 1), .close]).2 := by decide

/-- the hypotheses of `close_completes_when_running` are satisfiable: the state after `start, run` is reachable,
not closed, `running`, and the environment list used above qualifies -/
example :
    Reach (run (St.init 0 1 false false) [.start, .run]).1 ∧
    (∀ op ∈ [Op.signal "kill", Op.childPrompt, Op.sendCommand], op.isLifecycle = false ∧ ∀ r, op ≠ Op.childExit r) :=
  ⟨reach_run (reach_init ..) _, by simp [Op.isLifecycle]⟩

end NLV.C03
