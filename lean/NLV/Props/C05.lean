import NLV.Model.Bdb
/-!
# C05 — where the debugger prompts: theorems about model D2 (`NLV.Bdb`)
-/
namespace NLV.C05
open NLV.Bdb NLV.Generated.Spawned

/-! ## the filters, over the GENERATED call orders -/

/-- Module tracing off, generated call order: a frame is accepted iff it is not a lambda and its module is the script's. -/
theorem filters_sound_off (cx : FilterCtx) (fs : FilterState) (fr : FrameDesc) :
    accepted filterOrderOff cx fs fr = true ↔ (cx.closed = false ∧ fr.func ≠ "<lambda>" ∧ fr.module = some cx.script) := by
  by_cases h0 : cx.closed = true <;> by_cases h1 : fr.func = "<lambda>" <;> by_cases h2 : fr.module = some cx.script <;>
    simp [accepted, skipped, filterOrderOff, runFilter, filterImpl, h0, h1, h2]

/-- Once the plugin context has exited nothing is accepted any more, whatever the frame and whatever the other filters would say
(F-G8: a thread that reaches script code for the first time after the run is over must not be traced) — both generated call orders. -/
theorem closed_rejects_everything (traceModules : Bool) (cx : FilterCtx) (fs : FilterState) (fr : FrameDesc) (h : cx.closed = true) :
    accepted (Bdb.filterOrder traceModules) cx fs fr = false := by
  cases traceModules <;> simp [accepted, skipped, Bdb.filterOrder, filterOrderOff, filterOrderOn, runFilter, filterImpl, h]

/-- … and the closed filter answers first: the state of `FilerByModule` is not touched by a rejected late frame. -/
theorem closed_leaves_filter_state (traceModules : Bool) (cx : FilterCtx) (fs : FilterState) (fr : FrameDesc) (h : cx.closed = true) :
    (runFilter (Bdb.filterOrder traceModules) cx fs fr).2 = fs := by
  cases traceModules <;> simp [Bdb.filterOrder, filterOrderOff, filterOrderOn, runFilter, filterImpl, h]

/-- Module tracing on, generated call order: an accepted frame is not a lambda and its module matches no pattern of the
generated skip list — whatever the state of `FilerByModule`. -/
theorem filters_sound_on (cx : FilterCtx) (fs : FilterState) (fr : FrameDesc) :
    accepted filterOrderOn cx fs fr = true → (cx.closed = false ∧ fr.func ≠ "<lambda>" ∧ matchAny fr.module modulesToSkip = false) := by
  by_cases h0 : cx.closed = true <;> by_cases h1 : fr.func = "<lambda>" <;> by_cases h2 : matchAny fr.module modulesToSkip = true <;>
    simp [accepted, skipped, filterOrderOn, runFilter, filterImpl, h0, h1, h2]

/-- `FilerByModule` never answers `False`: it passes (`None`) or rejects (`True`) -/
theorem filerByModule_ne_false (cx : FilterCtx) (fs : FilterState) (fr : FrameDesc) :
    (filerByModule cx fs fr).1 ≠ some false := by
  unfold filerByModule
  simp only []
  repeat' split
  all_goals simp

/-- what `filters_sound_on` leaves to `FilerByModule` (trylast): for an accepted frame it passed, i.e. the entity was accepted
before, or the frame's module is one of the modules to trace (after the first-module rule) -/
theorem filters_on_filer (cx : FilterCtx) (fs : FilterState) (fr : FrameDesc)
    (h : accepted filterOrderOn cx fs fr = true) : (filerByModule cx fs fr).1 = none := by
  have hne := filerByModule_ne_false cx fs fr
  by_cases h0 : cx.closed = true <;> by_cases h1 : fr.func = "<lambda>" <;> by_cases h2 : matchAny fr.module modulesToSkip = true <;>
    simp [accepted, skipped, filterOrderOn, runFilter, filterImpl, h0, h1, h2] at h
  generalize hr : filerByModule cx fs fr = r at h hne
  rcases r with ⟨_ | b, fs'⟩
  · rfl
  · cases b
    · exact absurd rfl hne
    · simp at h

/-! ## lookup / setAt -/

theorem lookup_setAt {β : Type} (l : List (Nat × β)) (k k' : Nat) (v : β) :
    lookup (setAt l k v) k' = if k = k' then some v else lookup l k' := by
  induction l with
  | nil => simp [setAt, lookup]
  | cons hd tl ih =>
    obtain ⟨a, b⟩ := hd
    by_cases h : a = k
    · subst h
      by_cases h' : a = k' <;> simp [setAt, lookup, h']
    · by_cases h' : a = k'
      · subst h'
        have : ¬ k = a := fun e => h e.symm
        simp [setAt, lookup, h, this]
      · simp [setAt, lookup, h, h', ih]

theorem isGenOf_setAt (fr : List (Nat × Frame)) (k b : Nat) (f : Frame) :
    isGenOf (setAt fr k f) b = if k = b then f.isGen else isGenOf fr b := by
  unfold isGenOf
  rw [lookup_setAt]
  by_cases h : k = b <;> simp [h]

/-! ## the shape of `onEvent` at a 'call' -/

def afterFilter (st : St) (ev : Ev) : St :=
  { st with filt := (runFilter st.order st.cx st.filt (descOf st.frames ev.fid)).2 }

theorem onCall_skipped (st : St) (ev : Ev) (hs : skipped st.order st.cx st.filt (descOf st.frames ev.fid) = true) :
    onCall st ev = afterFilter st ev := by
  simp only [skipped] at hs
  simp [onCall, afterFilter, hs]

theorem onCall_accepted (st : St) (ev : Ev) (hs : skipped st.order st.cx st.filt (descOf st.frames ev.fid) = false) :
    onCall st ev =
      if (dispatchCall (afterFilter st ev) ev true).1 = true then
        { (dispatchCall (afterFilter st ev) ev true).2 with
          ftrace := setAt (dispatchCall (afterFilter st ev) ev true).2.ftrace ev.fid .nextline }
      else (dispatchCall (afterFilter st ev) ev true).2 := by
  simp only [skipped] at hs
  simp only [onCall, afterFilter, hs, Bool.false_eq_true, ↓reduceIte]
  rfl

theorem patched_ne_nextline : (FTrace.patched == FTrace.nextline) = false := by decide

/-! ## no prompt outside a trace call -/

/-- the command loop is refused: nothing is printed to the user, no command is consumed, nothing changes -/
theorem interact_refused (st : St) (ev : Ev) : interact st ev false = st := by
  simp [interact]

theorem dispatchLine_refused (st : St) (ev : Ev) : dispatchLine st ev false = st := by
  simp [dispatchLine, interact_refused]

theorem dispatchException_refused (st : St) (ev : Ev) : dispatchException st ev false = st := by
  simp only [dispatchException, interact_refused]
  repeat' split
  all_goals rfl

theorem dispatchReturn_refused (st : St) (ev : Ev) :
    (dispatchReturn st ev false).prompts = st.prompts ∧ (dispatchReturn st ev false).cmds = st.cmds
    ∧ (dispatchReturn st ev false).ftrace = st.ftrace := by
  simp only [dispatchReturn, interact_refused]
  repeat' split
  all_goals simp

/-- An event routed to Pdb through an `f_trace` that `set_step` patched never produces a prompt and consumes no command. -/
theorem no_prompt_outside_trace_call (st : St) (ev : Ev) (hk : ev.kind ≠ .call)
    (hp : lookup st.ftrace ev.fid = some .patched) :
    (onEvent st ev).prompts = st.prompts ∧ (onEvent st ev).cmds = st.cmds ∧ (onEvent st ev).ftrace = st.ftrace := by
  cases hkind : ev.kind with
  | call => exact absurd hkind hk
  | line => simp [onEvent, hkind, hp, patched_ne_nextline, dispatchLine_refused]
  | ret =>
    simp only [onEvent, hkind, hp, patched_ne_nextline]
    exact dispatchReturn_refused st ev
  | exc => simp [onEvent, hkind, hp, patched_ne_nextline, dispatchException_refused]

/-- a call the filter rejects is inert for the debugger: no prompt, no `f_trace`, no change of the stop state -/
theorem filtered_call_inert (st : St) (ev : Ev) (hk : ev.kind = .call)
    (hs : skipped st.order st.cx st.filt (descOf st.frames ev.fid) = true) :
    (onEvent st ev).prompts = st.prompts ∧ (onEvent st ev).ftrace = st.ftrace ∧ (onEvent st ev).dbg = st.dbg := by
  simp [onEvent, hk, onCall_skipped st ev hs, afterFilter]

/-! ## step -/

/-- in the state a `step` answer leaves (`stopframe = None`), `stop_here` is true for every frame and line -/
theorem stopHere_stepping (d : Dbg) (h : d.stopframe = none) (fid : Nat) (line : Option Nat) : stopHere d fid line = true := by
  simp [stopHere, h]

theorem step_sets_stepping (st : St) (cur : Nat) (line : Option Nat) : (applyCmd st cur line .step).1.stopframe = none := by
  simp [applyCmd, setStopinfo]

/-- … hence every line event of a line-traced accepted frame prompts (its `f_trace` is nextline's closure, which a frame only
gets from an accepted 'call'). -/
theorem step_stops_everywhere (st : St) (ev : Ev) (h : st.dbg.stopframe = none) (hk : ev.kind = .line)
    (ht : lookup st.ftrace ev.fid = some .nextline) :
    (onEvent st ev).prompts = st.prompts ++ [(ev.line, .line)] := by
  simp [onEvent, hk, ht, dispatchLine, stopHere_stepping _ h, interact]

/-- the same for the 'call' of an accepted frame once the bottom frame is known (`--Call--`), and the frame becomes line-traced -/
theorem step_stops_at_calls (st : St) (ev : Ev) (h : st.dbg.stopframe = none) (hb : st.dbg.botframe.isSome = true)
    (hk : ev.kind = .call) (ha : skipped st.order st.cx st.filt (descOf st.frames ev.fid) = false) :
    (onEvent st ev).prompts = st.prompts ++ [(ev.line, .call)]
    ∧ lookup (onEvent st ev).ftrace ev.fid = some .nextline := by
  have hb' : st.dbg.botframe.isNone = false := by
    cases hbb : st.dbg.botframe <;> simp_all
  have hd : dispatchCall (afterFilter st ev) ev true = (true, interact (afterFilter st ev) ev true) := by
    simp [dispatchCall, afterFilter, hb', stopHere_stepping _ h, h]
  simp only [onEvent, hk, onCall_accepted st ev ha, hd]
  simp [interact, afterFilter, lookup_setAt, hk]

/-- all-step: the policy "answer every prompt with step" keeps `stopframe = None` for ever -/
def AllStep (st : St) : Prop := st.dbg.stopframe = none ∧ st.cmds = [] ∧ st.dflt = .step

instance (st : St) : Decidable (AllStep st) := by unfold AllStep; exact inferInstance

theorem interact_allStep (st : St) (ev : Ev) (otc : Bool) (h : AllStep st) : AllStep (interact st ev otc) := by
  obtain ⟨h1, h2, h3⟩ := h
  cases otc
  · simp [interact_refused, AllStep, h1, h2, h3]
  · simp [interact, AllStep, h2, h3, applyCmd, setStopinfo]

theorem dispatchCall_allStep (st : St) (ev : Ev) (otc : Bool) (h : AllStep st) : AllStep (dispatchCall st ev otc).2 := by
  simp only [dispatchCall]
  repeat' split
  · exact ⟨h.1, h.2.1, h.2.2⟩
  · exact h
  · exact h
  · exact interact_allStep _ _ _ h

theorem dispatchLine_allStep (st : St) (ev : Ev) (otc : Bool) (h : AllStep st) : AllStep (dispatchLine st ev otc) := by
  simp only [dispatchLine]
  split
  · exact interact_allStep _ _ _ h
  · exact h

theorem dispatchException_allStep (st : St) (ev : Ev) (otc : Bool) (h : AllStep st) : AllStep (dispatchException st ev otc) := by
  simp only [dispatchException]
  repeat' split
  all_goals first | exact h | exact interact_allStep _ _ _ h

theorem dispatchReturn_allStep (st : St) (ev : Ev) (otc : Bool) (h : AllStep st) : AllStep (dispatchReturn st ev otc) := by
  have h0 : AllStep { st with dbg := { st.dbg with frameReturning := some ev.fid } } := ⟨h.1, h.2.1, h.2.2⟩
  have hi := interact_allStep _ ev otc h0
  simp only [dispatchReturn]
  split
  · split
    · exact h
    · refine ⟨?_, hi.2.1, hi.2.2⟩
      simp only []
      split <;> simp [setStopinfo, hi.1]
  · exact h

theorem onEvent_allStep (st : St) (ev : Ev) (h : AllStep st) : AllStep (onEvent st ev) := by
  have hfilt : AllStep (afterFilter st ev) := h
  cases hkind : ev.kind with
  | call =>
    simp only [onEvent, hkind]
    by_cases hs : skipped st.order st.cx st.filt (descOf st.frames ev.fid) = true
    · rw [onCall_skipped st ev hs]; exact hfilt
    · rw [onCall_accepted st ev (by simpa using hs)]
      have := dispatchCall_allStep (afterFilter st ev) ev true hfilt
      split
      · exact ⟨this.1, this.2.1, this.2.2⟩
      · exact this
  | line =>
    simp only [onEvent, hkind]
    split
    · exact h
    · exact dispatchLine_allStep _ _ _ h
  | ret =>
    simp only [onEvent, hkind]
    split
    · exact h
    · exact dispatchReturn_allStep _ _ _ h
  | exc =>
    simp only [onEvent, hkind]
    split
    · exact h
    · exact dispatchException_allStep _ _ _ h

theorem run_allStep (st : St) (items : List Item) (h : AllStep st) : AllStep (run st items) := by
  induction items generalizing st with
  | nil => exact h
  | cons it rest ih =>
    simp only [run, List.foldl_cons]
    apply ih
    cases it with
    | frame fid f => exact ⟨h.1, h.2.1, h.2.2⟩
    | ev e => exact onEvent_allStep st e h

/-! ## next (and until) -/

/-- the state a `next` (or `until`) answer in frame `f` leaves: `stopframe = f`, `returnframe` ∈ {None, f}; `botframe` is known
(there has been a prompt) -/
def Stepping (f : Nat) (d : Dbg) : Prop :=
  d.botframe.isSome = true ∧ d.stopframe = some f ∧ (d.returnframe = none ∨ d.returnframe = some f)

instance (f : Nat) (d : Dbg) : Decidable (Stepping f d) := by unfold Stepping; exact inferInstance

theorem next_sets_stepping (st : St) (cur : Nat) (line : Option Nat) (hb : st.dbg.botframe.isSome = true) :
    Stepping cur (applyCmd st cur line .next).1 := by
  simp [applyCmd, setStopinfo, Stepping, hb]

theorem until_sets_stepping (st : St) (cur : Nat) (line : Option Nat) (hb : st.dbg.botframe.isSome = true) :
    Stepping cur (applyCmd st cur line .until).1 := by
  simp [applyCmd, setStopinfo, Stepping, hb]

theorem stopHere_other (d : Dbg) (f fid : Nat) (line : Option Nat) (hs : d.stopframe = some f) (hne : fid ≠ f) :
    stopHere d fid line = false := by
  have : ¬ (f = fid) := fun e => hne e.symm
  simp [stopHere, hs, this]

/-- After `next` answered in frame `f`, the 'call' of any other frame makes `dispatch_call` return `None` (there are no
breakpoints): no prompt, the frame is not line-traced. -/
theorem next_call_not_traced (st : St) (f : Nat) (ev : Ev) (otc : Bool) (hn : Stepping f st.dbg) (hne : ev.fid ≠ f) :
    dispatchCall st ev otc = (false, st) := by
  obtain ⟨hb, hs, _⟩ := hn
  have hb' : st.dbg.botframe.isNone = false := by
    cases hbb : st.dbg.botframe <;> simp_all
  simp [dispatchCall, hb', stopHere_other _ f _ _ hs hne]

/-- one event of another frame changes nothing the debugger decides with -/
theorem onEvent_stepping_other (st : St) (f : Nat) (ev : Ev) (hn : Stepping f st.dbg) (hg : isGenOf st.frames f = false)
    (hne : ev.fid ≠ f) :
    (onEvent st ev).prompts = st.prompts ∧ (onEvent st ev).dbg = st.dbg ∧ (onEvent st ev).ftrace = st.ftrace
    ∧ (onEvent st ev).frames = st.frames := by
  have hsh : ∀ line, stopHere st.dbg ev.fid line = false := fun line => stopHere_other _ f _ _ hn.2.1 hne
  have hf : ¬ (f = ev.fid) := fun e => hne e.symm
  have hrf : ¬ (st.dbg.returnframe = some ev.fid) := by
    rcases hn.2.2 with h | h <;> simp [h, hf]
  cases hkind : ev.kind with
  | call =>
    simp only [onEvent, hkind]
    by_cases hs : skipped st.order st.cx st.filt (descOf st.frames ev.fid) = true
    · simp [onCall_skipped st ev hs, afterFilter]
    · rw [onCall_accepted st ev (by simpa using hs), next_call_not_traced (afterFilter st ev) f ev true hn hne]
      simp [afterFilter]
  | line =>
    simp only [onEvent, hkind]
    split
    · simp
    · simp [dispatchLine, hsh]
  | ret =>
    simp only [onEvent, hkind]
    split
    · simp
    · simp [dispatchReturn, hsh, hrf]
  | exc =>
    simp only [onEvent, hkind]
    split
    · simp
    · simp [dispatchException, hsh, hn.2.1, hg]

/-- … so no prompt occurs inside the callees until an event of `f` itself (its next line, its return, an exception in it):
for every stream without events of `f`, given that `f` is not a generator/coroutine frame (otherwise bdb's
"StopIteration/GeneratorExit while stepping in a generator" rule may stop in another frame). -/
theorem next_not_in_callees (st : St) (f : Nat) (items : List Item) (hn : Stepping f st.dbg)
    (hg : isGenOf st.frames f = false)
    (hitems : ∀ it ∈ items, match it with
      | .ev e => e.fid ≠ f
      | .frame fid fr => fid = f → fr.isGen = false) :
    (run st items).prompts = st.prompts ∧ (run st items).dbg = st.dbg ∧ (run st items).ftrace = st.ftrace := by
  induction items generalizing st with
  | nil => simp [run]
  | cons it rest ih =>
    simp only [run, List.foldl_cons]
    have hrest : ∀ it' ∈ rest, match it' with
        | .ev e => e.fid ≠ f
        | .frame fid fr => fid = f → fr.isGen = false := fun it' h' => hitems it' (List.mem_cons_of_mem _ h')
    have hit := hitems it List.mem_cons_self
    cases it with
    | frame fid fr =>
      have hg' : isGenOf (setAt st.frames fid fr) f = false := by
        rw [isGenOf_setAt]
        by_cases hh : fid = f
        · simp [hh, hit hh]
        · simp [hh, hg]
      have := ih { st with frames := setAt st.frames fid fr } hn hg' hrest
      simpa [onItem, run] using this
    | ev e =>
      obtain ⟨h1, h2, h3, h4⟩ := onEvent_stepping_other st f e hn hg hit
      have := ih (onEvent st e) (h2 ▸ hn) (h4 ▸ hg) hrest
      simp only [onItem, run] at this ⊢
      rw [this.1, this.2.1, this.2.2, h1, h2, h3]
      exact ⟨rfl, rfl, rfl⟩

/-! ## continue -/

/-- the state nextline's `set_continue` leaves when the bottom frame is known: `_set_stopinfo(botframe, None, -1)` -/
def Continued (b : Nat) (d : Dbg) : Prop :=
  d.botframe = some b ∧ d.stopframe = some b ∧ d.returnframe = none ∧ d.stoplineno = -1

instance (b : Nat) (d : Dbg) : Decidable (Continued b d) := by unfold Continued; exact inferInstance

theorem continue_sets (st : St) (cur b : Nat) (line : Option Nat) (hb : st.dbg.botframe = some b) :
    Continued b (applyCmd st cur line .cont).1 := by
  simp [applyCmd, setStopinfo, Continued, hb]

theorem stopHere_continued (d : Dbg) (b fid : Nat) (line : Option Nat) (h : Continued b d) : stopHere d fid line = false := by
  obtain ⟨_, hs, _, hl⟩ := h
  by_cases hf : b = fid <;> simp [stopHere, hs, hl, hf]

theorem onEvent_continued (st : St) (b : Nat) (ev : Ev) (hc : Continued b st.dbg) (hg : isGenOf st.frames b = false) :
    (onEvent st ev).prompts = st.prompts ∧ (onEvent st ev).dbg = st.dbg ∧ (onEvent st ev).frames = st.frames := by
  have hsh : ∀ fid line, stopHere st.dbg fid line = false := fun fid line => stopHere_continued _ b fid line hc
  obtain ⟨hb, hs, hr, hl⟩ := hc
  cases hkind : ev.kind with
  | call =>
    simp only [onEvent, hkind]
    by_cases hsk : skipped st.order st.cx st.filt (descOf st.frames ev.fid) = true
    · simp [onCall_skipped st ev hsk, afterFilter]
    · have hd : dispatchCall (afterFilter st ev) ev true = (false, afterFilter st ev) := by
        simp [dispatchCall, afterFilter, hb, hsh]
      rw [onCall_accepted st ev (by simpa using hsk), hd]
      simp [afterFilter]
  | line =>
    simp only [onEvent, hkind]
    split
    · simp
    · simp [dispatchLine, hsh]
  | ret =>
    simp only [onEvent, hkind]
    split
    · simp
    · simp [dispatchReturn, hsh, hr]
  | exc =>
    simp only [onEvent, hkind]
    split
    · simp
    · simp [dispatchException, hsh, hs, hg]

/-- After `continue` has been answered (at the first prompt of an entity, or at any other), no later event of that entity stops.
Exact hypotheses: (1) `botframe` is a frame (`some b`): bdb takes the caller of the first traced frame, which "may also be None"
(bdb's own comment) — then `set_continue` sets `stopframe = None`, which is the state `step` leaves, and every line stops;
(2) that frame `b` is not a generator/coroutine frame, now or by any later frame-table entry: with a generator `stopframe`, bdb's
`dispatch_exception` stops at a StopIteration/GeneratorExit seen in any other frame. (1) and (2) hold for nextline's
entities: `b` is `runner._compile_and_run` (main thread), `Thread.run` (threads), `Handle._run` (tasks). -/
theorem continue_once (st : St) (b : Nat) (items : List Item) (hc : Continued b st.dbg)
    (hg : isGenOf st.frames b = false)
    (hitems : ∀ fr, Item.frame b fr ∈ items → fr.isGen = false) :
    (run st items).prompts = st.prompts ∧ (run st items).dbg = st.dbg := by
  induction items generalizing st with
  | nil => simp [run]
  | cons it rest ih =>
    simp only [run, List.foldl_cons]
    have hrest : ∀ fr, Item.frame b fr ∈ rest → fr.isGen = false := fun fr h' => hitems fr (List.mem_cons_of_mem _ h')
    cases it with
    | frame fid fr =>
      have hg' : isGenOf (setAt st.frames fid fr) b = false := by
        rw [isGenOf_setAt]
        by_cases hh : fid = b
        · subst hh
          simp [hitems fr List.mem_cons_self]
        · simp [hh, hg]
      have := ih { st with frames := setAt st.frames fid fr } hc hg' hrest
      simpa [onItem, run] using this
    | ev e =>
      obtain ⟨h1, h2, h3⟩ := onEvent_continued st b e hc hg
      have := ih (onEvent st e) (h2 ▸ hc) (h3 ▸ hg) hrest
      simp only [onItem, run] at this ⊢
      rw [this.1, this.2, h1, h2]
      exact ⟨rfl, rfl⟩

/-- the first prompt of an entity is at a line event (the entry 'call' only notes the bottom frame); answered with `continue`,
it is the only one -/
theorem continue_once_from_prompt (st : St) (b : Nat) (ev : Ev) (items : List Item)
    (hb : st.dbg.botframe = some b) (hs : stopHere st.dbg ev.fid ev.line = true)
    (hk : ev.kind = .line) (ht : lookup st.ftrace ev.fid = some .nextline)
    (hcmd : st.cmds.headD st.dflt = .cont)
    (hg : isGenOf st.frames b = false) (hitems : ∀ fr, Item.frame b fr ∈ items → fr.isGen = false) :
    (run st (.ev ev :: items)).prompts = st.prompts ++ [(ev.line, .line)] := by
  have h1 : onEvent st ev = interact st ev true := by
    simp [onEvent, hk, ht, dispatchLine, hs]
  have hcmd' : st.cmds.head?.getD st.dflt = .cont := by simpa using hcmd
  have h2 : Continued b (interact st ev true).dbg := by
    simp [interact, hcmd', applyCmd, setStopinfo, Continued, hb]
  have h3 : (interact st ev true).frames = st.frames := by simp [interact]
  have h4 : (interact st ev true).prompts = st.prompts ++ [(ev.line, .line)] := by simp [interact, hk]
  have := continue_once (interact st ev true) b items h2 (h3 ▸ hg) hitems
  simp only [run, List.foldl_cons, onItem, h1] at this ⊢
  rw [this.1, h4]

/-! ## non-vacuity: small concrete runs, decided by evaluation -/

def scriptName : String := "nextline.spawned.plugin.plugins._script"

def fr (parent : Option Nat) (func : String) (gen : Bool := false) (module : String := scriptName) : Frame :=
  { parent := parent, isGen := gen, desc := { module := some module, func := func } }

/-- `<module>` (frame 0, called from frame 9 = the runner) calls `f` (frame 1) on line 2; `f` has two lines -/
def demo : List Item :=
  [ .frame 9 (fr none "_compile_and_run" false "nextline.spawned.runner"),
    .frame 0 (fr (some 9) "<module>"),
    .ev { fid := 0, line := some 0, kind := .call }, .ev { fid := 0, line := some 1, kind := .line }, .ev { fid := 0, line := some 2, kind := .line },
    .frame 1 (fr (some 0) "f"),
    .ev { fid := 1, line := some 10, kind := .call }, .ev { fid := 1, line := some 11, kind := .line }, .ev { fid := 1, line := some 12, kind := .line },
    .ev { fid := 1, line := some 12, kind := .ret },
    .ev { fid := 0, line := some 3, kind := .line }, .ev { fid := 0, line := some 3, kind := .ret } ]

def start (cmds : List Cmd) (dflt : Cmd) : St := { init false scriptName with cmds := cmds, dflt := dflt }

example : (run (start [] .step) demo).prompts =
    [(some 1, .line), (some 2, .line), (some 10, .call), (some 11, .line), (some 12, .line), (some 12, .ret), (some 3, .line), (some 3, .ret)] := by decide
example : (run (start [] .next) demo).prompts = [(some 1, .line), (some 2, .line), (some 3, .line), (some 3, .ret)] := by decide
example : (run (start [] .cont) demo).prompts = [(some 1, .line)] := by decide
example : (run (start [] .ret) demo).prompts = [(some 1, .line), (some 3, .ret)] := by decide
example : (run (start [.step, .step, .step, .ret] .step) demo).prompts =
    [(some 1, .line), (some 2, .line), (some 10, .call), (some 11, .line), (some 12, .ret), (some 3, .line), (some 3, .ret)] := by decide
-- a frame without a line number (the script's implicit return after a loop around `except … as`): it stops under next / until
def demoNoLine : List Item :=
  [ .frame 9 (fr none "_compile_and_run" false "nextline.spawned.runner"), .frame 0 (fr (some 9) "<module>"),
    .ev { fid := 0, line := some 0, kind := .call }, .ev { fid := 0, line := some 1, kind := .line },
    .ev { fid := 0, line := some 2, kind := .line }, .ev { fid := 0, line := none, kind := .ret } ]
example : (run (start [] .next) demoNoLine).prompts = [(some 1, .line), (some 2, .line), (none, .ret)] := by decide
example : (run (start [] .until) demoNoLine).prompts = [(some 1, .line), (some 2, .line), (none, .ret)] := by decide
example : (run (start [] .cont) demoNoLine).prompts = [(some 1, .line)] := by decide
-- the hypotheses of the theorems are satisfiable in reachable states
example : AllStep (start [] .step) := by decide
example : Continued 9 (run (start [] .cont) (demo.take 4)).dbg := by decide
example : Stepping 0 (run (start [] .next) (demo.take 5)).dbg := by decide
-- a lambda in the script and a library frame are skipped, a script function is accepted (module tracing off)
example : accepted filterOrderOff (init false scriptName).cx {} { module := some scriptName, func := "<lambda>" } = false := by decide
example : accepted filterOrderOff (init false scriptName).cx {} { module := some "json", func := "dumps" } = false := by decide
example : accepted filterOrderOff (init false scriptName).cx {} { module := some scriptName, func := "f" } = true := by decide
-- module tracing on: the skip list (`prefix.*` matches `prefix.x`, not `prefix`), lambdas, the first-module rule
example : accepted filterOrderOn (init true scriptName).cx {} { module := some "asyncio.events", func := "_run" } = false := by decide
example : accepted filterOrderOn (init true scriptName).cx {} { module := some "asyncio", func := "run" } = true := by decide
example : accepted filterOrderOn (init true scriptName).cx {} { module := some scriptName, func := "<lambda>" } = false := by decide
example : accepted filterOrderOn (init true scriptName).cx { firstModuleAdded := true } { module := some "json", func := "dumps" } = false := by decide
example : accepted filterOrderOn (init true scriptName).cx { firstModuleAdded := true, traced := [0] } { module := some "json", func := "dumps" } = true := by decide
-- the generated skip list contains only literals, `*` and `?`-free patterns this model's `globMatch` covers (no `[`)
example : modulesToSkip.all (fun p => !p.toList.contains '[') = true := by decide
-- the patched `f_trace`: `step` at the return of `f` called from a lambda patches the lambda's frame; its later events reach Pdb
-- outside a trace call and do not prompt
def demoLambda : List Item :=
  [ .frame 9 (fr none "_compile_and_run" false "nextline.spawned.runner"), .frame 0 (fr (some 9) "<module>"),
    .ev { fid := 0, line := some 0, kind := .call }, .ev { fid := 0, line := some 1, kind := .line },
    .frame 1 (fr (some 0) "<lambda>"), .ev { fid := 1, line := some 1, kind := .call }, .ev { fid := 1, line := some 1, kind := .line },
    .frame 2 (fr (some 1) "f"), .ev { fid := 2, line := some 5, kind := .call }, .ev { fid := 2, line := some 6, kind := .line },
    .ev { fid := 2, line := some 6, kind := .ret },
    .ev { fid := 1, line := some 2, kind := .line }, .ev { fid := 1, line := some 2, kind := .ret }, .ev { fid := 0, line := some 3, kind := .line } ]
example : lookup (run (start [] .step) demoLambda).ftrace 1 = some .patched := by decide
example : (run (start [] .step) demoLambda).prompts = [(some 1, .line), (some 5, .call), (some 6, .line), (some 6, .ret), (some 3, .line)] := by decide

/-- The model encodes nextline's own versions of exactly these `Pdb`/`Bdb` methods (`set_continue` keeps the trace function,
`stop_here`/`set_until` accept a frame without a line number, `get_stack` selects the event's frame, `emptyline` does nothing (a blank command is
not a resuming command: the model's commands are the resuming ones, F-J1), `cmdloop` refuses to run
outside a trace call): the table generated from `CustomizedPdb` must list them — and nothing else, or the model may be missing
an override. -/
theorem pdb_overrides_as_modelled :
    NLV.Generated.Spawned.pdbOverrides = ["_cmdloop", "cmdloop", "emptyline", "get_stack", "set_continue", "set_until", "stop_here"] := by decide

end NLV.C05
