import NLV.Model.Aio
import NLV.Lemmas.Aio
/-!
# C19 — async-iterator helpers neither lose, duplicate nor reorder items

Theorems over model J for **every** label list: any number and length of sources, any
completion order (including several completions before one wake-up and completions while the
generator is suspended at `yield`), any order of `set.pop()`.
-/
namespace NLV.C19
open NLV.Aio

/-! ## `merge_aiters` -/

/-- `d` is the `done` set of phase `p` -/
def IsDoneSet (p : Phase) (d : List Nat) : Prop := p = Phase.processing d ∨ ∃ i, p = Phase.yielded i d

structure Inv (m : M) : Prop where
  /-- per source: received ++ (item parked in a completed task) ++ not yet produced = the source -/
  conserve : ∀ (i : Nat) (s : Src), m.srcs[i]? = some s → proj m.out i ++ parked s.flight ++ s.rem = s.all
  stopRem : ∀ (i : Nat) (s : Src), m.srcs[i]? = some s → s.flight = Flight.stop → s.rem = []
  noneRem : ∀ (i : Nat) (s : Src), m.srcs[i]? = some s → s.flight = Flight.none →
    s.rem = [] ∨ m.phase = Phase.init ∨ ∃ d, m.phase = Phase.yielded i d
  endedNone : m.phase = Phase.ended → ∀ (i : Nat) (s : Src), m.srcs[i]? = some s → s.flight = Flight.none
  initNone : m.phase = Phase.init → ∀ (i : Nat) (s : Src), m.srcs[i]? = some s → s.flight = Flight.none
  doneNodup : ∀ d, IsDoneSet m.phase d → d.Nodup
  doneDone : ∀ d, IsDoneSet m.phase d → ∀ j ∈ d, ∃ (s : Src), m.srcs[j]? = some s ∧ isDone s = true
  yieldedNotIn : ∀ i d, m.phase = Phase.yielded i d → i ∉ d
  yieldedNone : ∀ i d, m.phase = Phase.yielded i d → ∀ (s : Src), m.srcs[i]? = some s → s.flight = Flight.none
  waitingTask : m.phase = Phase.waiting → ∃ (i : Nat) (s : Src), m.srcs[i]? = some s ∧ hasTask s = true
  outTagged : ∀ e ∈ m.out, e.1 < m.srcs.length

theorem new_cases {sources : List (List Nat)} {i : Nat} {s : Src} (h : (M.new sources).srcs[i]? = some s) :
    ∃ l, sources[i]? = some l ∧ s = { all := l, rem := l } := by
  simp only [M.new, List.getElem?_map, Option.map_eq_some_iff] at h
  obtain ⟨l, hl, rfl⟩ := h
  exact ⟨l, hl, rfl⟩

theorem inv_new (sources : List (List Nat)) : Inv (M.new sources) := by
  constructor
  · intro i s h
    obtain ⟨l, _, rfl⟩ := new_cases h
    simp [M.new, parked]
  · intro i s h hf
    obtain ⟨l, _, rfl⟩ := new_cases h
    simp at hf
  · intro i s _ _; right; left; rfl
  · intro h; simp [M.new] at h
  · intro _ i s h
    obtain ⟨l, _, rfl⟩ := new_cases h
    rfl
  · intro d h; simp [M.new, IsDoneSet] at h
  · intro d h; simp [M.new, IsDoneSet] at h
  · intro i d h; simp [M.new] at h
  · intro i d h; simp [M.new] at h
  · intro h; simp [M.new] at h
  · intro e he; simp [M.new] at he

theorem inv_start {m m' : M} (h : Inv m) (hs : mstep m .start = some m') : Inv m' := by
  obtain ⟨hp, ⟨hnil, rfl⟩ | ⟨hne, rfl⟩⟩ := mstep_start_inv hs
  · constructor <;> simp only [hnil, IsDoneSet] <;> simp
    intro a b hab
    have := h.outTagged _ hab
    simp [hnil] at this
  · constructor <;> simp only [IsDoneSet]
    · intro i s hi
      obtain ⟨s0, hs0, rfl⟩ := map_cases hi
      have := h.conserve i s0 hs0
      rw [h.initNone hp i s0 hs0] at this
      simpa [parked] using this
    · intro i s hi hf
      obtain ⟨s0, hs0, rfl⟩ := map_cases hi
      simp at hf
    · intro i s hi hf
      obtain ⟨s0, hs0, rfl⟩ := map_cases hi
      simp at hf
    · simp
    · simp
    · simp
    · simp
    · simp
    · simp
    · intro _
      cases hl : m.srcs with
      | nil => exact absurd hl hne
      | cons s0 t => exact ⟨0, { s0 with flight := .pend }, by simp, rfl⟩
    · simpa using h.outTagged

theorem inv_complete {m m' : M} {i : Nat} (h : Inv m) (hs : mstep m (.complete i) = some m') : Inv m' := by
  obtain ⟨s, hi, hpend, rfl⟩ := mstep_complete_inv hs
  constructor <;> simp only
  · intro j s' hj
    rcases modify_cases hj with ⟨rfl, s0, hs0, rfl⟩ | ⟨hij, hj⟩
    · rw [hi] at hs0; cases hs0
      have := h.conserve i s hi
      rw [hpend] at this
      rw [List.append_assoc, completeSrc_parked hpend, completeSrc_all hpend]
      simpa [parked] using this
    · exact h.conserve j s' hj
  · intro j s' hj hf
    rcases modify_cases hj with ⟨rfl, s0, hs0, rfl⟩ | ⟨hij, hj⟩
    · rw [hi] at hs0; cases hs0
      exact completeSrc_stop hpend hf
    · exact h.stopRem j s' hj hf
  · intro j s' hj hf
    rcases modify_cases hj with ⟨rfl, s0, hs0, rfl⟩ | ⟨hij, hj⟩
    · rw [hi] at hs0; cases hs0
      exact absurd hf (completeSrc_ne_none hpend)
    · exact h.noneRem j s' hj hf
  · intro he j s' hj
    have := h.endedNone he i s hi
    rw [this] at hpend; cases hpend
  · intro he j s' hj
    have := h.initNone he i s hi
    rw [this] at hpend; cases hpend
  · exact h.doneNodup
  · intro d hd j hj
    obtain ⟨s', hs', hdone⟩ := h.doneDone d hd j hj
    by_cases hij : i = j
    · subst hij
      rw [hi] at hs'; cases hs'
      exact ⟨_, modify_eq hi, completeSrc_isDone hpend⟩
    · exact ⟨s', by rw [modify_ne hij]; exact hs', hdone⟩
  · exact h.yieldedNotIn
  · intro k d hd s' hj
    rcases modify_cases hj with ⟨rfl, s0, hs0, rfl⟩ | ⟨hij, hj⟩
    · have := h.yieldedNone i d hd s hi
      rw [this] at hpend; cases hpend
    · exact h.yieldedNone k d hd s' hj
  · intro _
    exact ⟨i, _, modify_eq hi, completeSrc_hasTask hpend⟩
  · simpa using h.outTagged

theorem inv_wake {m m' : M} (h : Inv m) (hs : mstep m .wake = some m') : Inv m' := by
  obtain ⟨hp, hne, rfl⟩ := mstep_wake_inv hs
  constructor <;> simp only [IsDoneSet]
  · exact h.conserve
  · exact h.stopRem
  · intro i s hi hf
    rcases h.noneRem i s hi hf with h1 | h1 | ⟨d, h1⟩
    · exact Or.inl h1
    · rw [hp] at h1; cases h1
    · rw [hp] at h1; cases h1
  · simp
  · simp
  · intro d hd
    simp at hd; subst hd
    exact doneIdx_nodup _
  · intro d hd j hj
    simp at hd; subst hd
    exact mem_doneIdx hj
  · simp
  · simp
  · simp
  · exact h.outTagged

/-- the common part of `popStop` and `recv`: source `i` leaves the done set -/
theorem erase_done {m : M} {d : List Nat} {i : Nat} {f : Flight} (h : Inv m) (hp : IsDoneSet m.phase d) :
    (d.erase i).Nodup ∧ i ∉ d.erase i ∧
      ∀ j ∈ d.erase i, ∃ (s : Src), (setFlight m.srcs i f)[j]? = some s ∧ isDone s = true := by
  have hnd := h.doneNodup d hp
  refine ⟨hnd.erase i, fun hh => ((List.Nodup.mem_erase_iff hnd).mp hh).1 rfl, ?_⟩
  intro j hj
  have hji : j ≠ i := ((List.Nodup.mem_erase_iff hnd).mp hj).1
  obtain ⟨s', hs', hdone⟩ := h.doneDone d hp j (List.mem_of_mem_erase hj)
  exact ⟨s', by rw [setFlight_ne (Ne.symm hji)]; exact hs', hdone⟩

theorem inv_popStop {m m' : M} {i : Nat} (h : Inv m) (hs : mstep m (.popStop i) = some m') : Inv m' := by
  obtain ⟨d, s, hp, hid, hi, hstop, rfl⟩ := mstep_popStop_inv hs
  obtain ⟨e1, e2, e3⟩ := erase_done (i := i) (f := .none) h (Or.inl hp)
  constructor <;> simp only [IsDoneSet]
  · intro j s' hj
    rcases setFlight_cases hj with ⟨rfl, s0, hs0, rfl⟩ | ⟨hij, hj⟩
    · rw [hi] at hs0; cases hs0
      have := h.conserve i s hi
      simpa [hstop, parked] using this
    · exact h.conserve j s' hj
  · intro j s' hj hf
    rcases setFlight_cases hj with ⟨rfl, s0, hs0, rfl⟩ | ⟨hij, hj⟩
    · simp at hf
    · exact h.stopRem j s' hj hf
  · intro j s' hj hf
    rcases setFlight_cases hj with ⟨rfl, s0, hs0, rfl⟩ | ⟨hij, hj⟩
    · rw [hi] at hs0; cases hs0
      exact Or.inl (h.stopRem i s hi hstop)
    · rcases h.noneRem j s' hj hf with h1 | h1 | ⟨d', h1⟩
      · exact Or.inl h1
      · rw [hp] at h1; cases h1
      · rw [hp] at h1; cases h1
  · simp
  · simp
  · intro d' hd'
    simp at hd'; subst hd'; exact e1
  · intro d' hd'
    simp at hd'; subst hd'; exact e3
  · simp
  · simp
  · simp
  · simpa using h.outTagged

theorem inv_recv {m m' : M} {i : Nat} (h : Inv m) (hs : mstep m (.recv i) = some m') : Inv m' := by
  obtain ⟨d, s, x, hp, hid, hi, hitem, rfl⟩ := mstep_recv_inv hs
  obtain ⟨e1, e2, e3⟩ := erase_done (i := i) (f := .none) h (Or.inl hp)
  have hilt : i < m.srcs.length := (List.getElem?_eq_some_iff.mp hi).1
  constructor <;> simp only [IsDoneSet]
  · intro j s' hj
    rw [proj_append]
    rcases setFlight_cases hj with ⟨rfl, s0, hs0, rfl⟩ | ⟨hij, hj⟩
    · rw [hi] at hs0; cases hs0
      have := h.conserve i s hi
      simpa [hitem, parked] using this
    · simp only [hij, if_false]; exact h.conserve j s' hj
  · intro j s' hj hf
    rcases setFlight_cases hj with ⟨rfl, s0, hs0, rfl⟩ | ⟨hij, hj⟩
    · simp at hf
    · exact h.stopRem j s' hj hf
  · intro j s' hj hf
    rcases setFlight_cases hj with ⟨rfl, s0, hs0, rfl⟩ | ⟨hij, hj⟩
    · exact Or.inr (Or.inr ⟨_, rfl⟩)
    · rcases h.noneRem j s' hj hf with h1 | h1 | ⟨d', h1⟩
      · exact Or.inl h1
      · rw [hp] at h1; cases h1
      · rw [hp] at h1; cases h1
  · simp
  · simp
  · intro d' hd'
    simp at hd'; subst hd'; exact e1
  · intro d' hd'
    simp at hd'; subst hd'; exact e3
  · intro k d' hd'
    simp at hd'; obtain ⟨rfl, rfl⟩ := hd'; exact e2
  · intro k d' hd' s' hj
    simp at hd'; obtain ⟨rfl, rfl⟩ := hd'
    rcases setFlight_cases hj with ⟨_, s0, hs0, rfl⟩ | ⟨hij, hj⟩
    · rfl
    · exact absurd rfl hij
  · simp
  · intro e he
    simp only [List.mem_append, List.mem_singleton] at he
    rcases he with he | rfl
    · simpa using h.outTagged e he
    · simpa using hilt

theorem inv_next {m m' : M} (h : Inv m) (hs : mstep m .next = some m') : Inv m' := by
  obtain ⟨i, d, hp, rfl⟩ := mstep_next_inv hs
  have hds : IsDoneSet m.phase d := Or.inr ⟨i, hp⟩
  have hni := h.yieldedNotIn i d hp
  constructor <;> simp only [IsDoneSet]
  · intro j s' hj
    rcases setFlight_cases hj with ⟨rfl, s0, hs0, rfl⟩ | ⟨hij, hj⟩
    · have := h.conserve i s0 hs0
      rw [h.yieldedNone i d hp s0 hs0] at this
      simpa [parked] using this
    · exact h.conserve j s' hj
  · intro j s' hj hf
    rcases setFlight_cases hj with ⟨rfl, s0, hs0, rfl⟩ | ⟨hij, hj⟩
    · simp at hf
    · exact h.stopRem j s' hj hf
  · intro j s' hj hf
    rcases setFlight_cases hj with ⟨rfl, s0, hs0, rfl⟩ | ⟨hij, hj⟩
    · simp at hf
    · rcases h.noneRem j s' hj hf with h1 | h1 | ⟨d', h1⟩
      · exact Or.inl h1
      · rw [hp] at h1; cases h1
      · rw [hp] at h1
        simp only [Phase.yielded.injEq] at h1
        exact absurd h1.1 hij
  · simp
  · simp
  · intro d' hd'
    simp at hd'; subst hd'; exact h.doneNodup _ hds
  · intro d' hd' j hj
    simp at hd'; subst hd'
    have hji : i ≠ j := fun hh => hni (hh ▸ hj)
    obtain ⟨s', hs', hdone⟩ := h.doneDone _ hds j hj
    exact ⟨s', by rw [setFlight_ne hji]; exact hs', hdone⟩
  · simp
  · simp
  · simp
  · simpa using h.outTagged

theorem inv_loop {m m' : M} (h : Inv m) (hs : mstep m .loop = some m') : Inv m' := by
  obtain ⟨hp, ⟨hany, rfl⟩ | ⟨hany, rfl⟩⟩ := mstep_loop_inv hs
  · constructor <;> simp only [IsDoneSet]
    · exact h.conserve
    · exact h.stopRem
    · intro i s hi hf
      rcases h.noneRem i s hi hf with h1 | h1 | ⟨d, h1⟩
      · exact Or.inl h1
      · rw [hp] at h1; cases h1
      · rw [hp] at h1; cases h1
    · simp
    · simp
    · simp
    · simp
    · simp
    · simp
    · intro _
      simp only [List.any_eq_true] at hany
      obtain ⟨s, hsm, ht⟩ := hany
      obtain ⟨i, hi⟩ := List.mem_iff_getElem?.mp hsm
      exact ⟨i, s, hi, ht⟩
    · exact h.outTagged
  · constructor <;> simp only [IsDoneSet]
    · exact h.conserve
    · exact h.stopRem
    · intro i s hi hf
      rcases h.noneRem i s hi hf with h1 | h1 | ⟨d, h1⟩
      · exact Or.inl h1
      · rw [hp] at h1; cases h1
      · rw [hp] at h1; cases h1
    · intro _ i s hi
      have hsm : s ∈ m.srcs := List.mem_of_getElem? hi
      have : ¬ hasTask s = true := fun ht => by
        have := List.any_eq_true.mpr ⟨s, hsm, ht⟩
        rw [hany] at this; cases this
      cases hf : s.flight <;> simp [hasTask, hf] at this ⊢
    · simp
    · simp
    · simp
    · simp
    · simp
    · simp
    · exact h.outTagged

theorem inv_step (m m' : M) (l : Label) (h : Inv m) (hs : mstep m l = some m') : Inv m' := by
  cases l with
  | start => exact inv_start h hs
  | complete i => exact inv_complete h hs
  | wake => exact inv_wake h hs
  | popStop i => exact inv_popStop h hs
  | recv i => exact inv_recv h hs
  | next => exact inv_next h hs
  | loop => exact inv_loop h hs

theorem inv_mrun (ls : List Label) : ∀ (m0 m : M), Inv m0 → mrun m0 ls = some m → Inv m := by
  induction ls with
  | nil => intro m0 m h0 h; simp only [mrun, Option.some.injEq] at h; exact h ▸ h0
  | cons l ls ih =>
    intro m0 m h0 h
    simp only [mrun] at h
    split at h
    · rename_i m1 h1
      exact ih m1 m (inv_step m0 m1 l h0 h1) h
    · cases h

/-- every reachable state of the merge model satisfies the invariant -/
theorem inv_run (sources : List (List Nat)) (ls : List Label) (m : M)
    (h : mrun (M.new sources) ls = some m) : Inv m :=
  inv_mrun ls _ m (inv_new sources) h

/-! ### the ghost field `all` never changes -/

theorem map_all_modify (l : List Src) (i : Nat) (g : Src → Src) (hg : ∀ s, (g s).all = s.all) :
    (l.modify i g).map (·.all) = l.map (·.all) := by
  apply List.ext_getElem?
  intro j
  simp only [List.getElem?_map, List.getElem?_modify]
  by_cases hij : i = j <;> cases l[j]? <;> simp [hij, hg]

theorem completeSrc_all' (s : Src) : (completeSrc s).all = s.all := by
  unfold completeSrc
  cases s.flight <;> try rfl
  cases s.rem <;> rfl

theorem all_step {m m' : M} {l : Label} (hs : mstep m l = some m') :
    m'.srcs.map (·.all) = m.srcs.map (·.all) := by
  cases l with
  | start =>
    obtain ⟨_, ⟨_, rfl⟩ | ⟨_, rfl⟩⟩ := mstep_start_inv hs
    · rfl
    · simp [Function.comp_def]
  | complete i =>
    obtain ⟨s, _, _, rfl⟩ := mstep_complete_inv hs
    exact map_all_modify _ _ _ completeSrc_all'
  | wake => obtain ⟨_, _, rfl⟩ := mstep_wake_inv hs; rfl
  | popStop i =>
    obtain ⟨d, s, _, _, _, _, rfl⟩ := mstep_popStop_inv hs
    exact map_all_modify _ _ _ (fun _ => rfl)
  | recv i =>
    obtain ⟨d, s, x, _, _, _, _, rfl⟩ := mstep_recv_inv hs
    exact map_all_modify _ _ _ (fun _ => rfl)
  | next =>
    obtain ⟨i, d, _, rfl⟩ := mstep_next_inv hs
    exact map_all_modify _ _ _ (fun _ => rfl)
  | loop => obtain ⟨_, ⟨_, rfl⟩ | ⟨_, rfl⟩⟩ := mstep_loop_inv hs <;> rfl

theorem all_mrun (ls : List Label) : ∀ (m0 m : M), mrun m0 ls = some m →
    m.srcs.map (·.all) = m0.srcs.map (·.all) := by
  induction ls with
  | nil => intro m0 m h; simp only [mrun, Option.some.injEq] at h; rw [h]
  | cons l ls ih =>
    intro m0 m h
    simp only [mrun] at h
    split at h
    · rename_i m1 h1
      rw [ih m1 m h, all_step h1]
    · cases h

theorem all_run {sources : List (List Nat)} {ls : List Label} {m : M}
    (h : mrun (M.new sources) ls = some m) : m.srcs.map (·.all) = sources := by
  rw [all_mrun ls _ m h]
  simp [M.new, Function.comp_def]

theorem length_run {sources : List (List Nat)} {ls : List Label} {m : M}
    (h : mrun (M.new sources) ls = some m) : m.srcs.length = sources.length := by
  have := congrArg List.length (all_run h)
  simpa using this

/-- per source: what the consumer received from it is, in order and without duplication, a prefix of what the
source produced; when the merged iteration has ended it is all of it -/
theorem merge_exact (sources : List (List Nat)) (ls : List Label) (m : M)
    (h : mrun (M.new sources) ls = some m) (i : Nat) (src : List Nat) (hi : sources[i]? = some src) :
    proj m.out i <+: src ∧ (m.phase = Phase.ended → proj m.out i = src) := by
  have hinv := inv_run sources ls m h
  have hall := all_run h
  have hi' : (m.srcs.map (·.all))[i]? = some src := by rw [hall]; exact hi
  simp only [List.getElem?_map, Option.map_eq_some_iff] at hi'
  obtain ⟨s, hs, rfl⟩ := hi'
  have hc := hinv.conserve i s hs
  constructor
  · rw [← hc, List.append_assoc]
    exact List.prefix_append _ _
  · intro he
    have hf := hinv.endedNone he i s hs
    rcases hinv.noneRem i s hs hf with h1 | h1 | ⟨d, h1⟩
    · rw [hf, h1] at hc
      simpa [parked] using hc
    · rw [he] at h1; cases h1
    · rw [he] at h1; cases h1

/-- every merged item is tagged with an existing source -/
theorem merge_tags (sources : List (List Nat)) (ls : List Label) (m : M)
    (h : mrun (M.new sources) ls = some m) : ∀ e ∈ m.out, e.1 < sources.length := by
  intro e he
  rw [← length_run h]
  exact (inv_run sources ls m h).outTagged e he

/-- no deadlock: in every reachable state that has not ended some step is enabled -/
theorem merge_no_deadlock (sources : List (List Nat)) (ls : List Label) (m : M)
    (h : mrun (M.new sources) ls = some m) (hne : m.phase ≠ Phase.ended) : ∃ l, (mstep m l).isSome = true := by
  have hinv := inv_run sources ls m h
  cases hp : m.phase with
  | init =>
    refine ⟨.start, ?_⟩
    simp only [mstep, hp]
    split <;> rfl
  | waiting =>
    obtain ⟨i, s, hs, ht⟩ := hinv.waitingTask hp
    cases hf : s.flight with
    | none => simp [hasTask, hf] at ht
    | pend =>
      refine ⟨.complete i, ?_⟩
      simp [mstep, hs, hf]
    | item x =>
      refine ⟨.wake, ?_⟩
      have : i ∈ doneIdx m.srcs := mem_doneIdx_of hs (by simp [isDone, hf])
      have hne' : (doneIdx m.srcs).isEmpty = false := by
        cases hd : doneIdx m.srcs with
        | nil => rw [hd] at this; cases this
        | cons a t => rfl
      simp [mstep, hp, hne']
    | stop =>
      refine ⟨.wake, ?_⟩
      have : i ∈ doneIdx m.srcs := mem_doneIdx_of hs (by simp [isDone, hf])
      have hne' : (doneIdx m.srcs).isEmpty = false := by
        cases hd : doneIdx m.srcs with
        | nil => rw [hd] at this; cases this
        | cons a t => rfl
      simp [mstep, hp, hne']
  | processing d =>
    cases d with
    | nil =>
      refine ⟨.loop, ?_⟩
      simp only [mstep, hp]
      split <;> rfl
    | cons j t =>
      obtain ⟨s, hs, hd⟩ := hinv.doneDone (j :: t) (Or.inl hp) j (by simp)
      cases hf : s.flight with
      | none => simp [isDone, hf] at hd
      | pend => simp [isDone, hf] at hd
      | item x =>
        refine ⟨.recv j, ?_⟩
        simp [mstep, hp, hs, hf]
      | stop =>
        refine ⟨.popStop j, ?_⟩
        simp [mstep, hp, hs, hf]
  | yielded i d =>
    refine ⟨.next, ?_⟩
    simp [mstep, hp]
  | ended => exact absurd hp hne

/-! ## `agen_with_wait` -/

structure WInv (items : List Nat) (w : Wt) : Prop where
  allEq : w.all = items
  pre : w.out <+: w.all
  /-- unless an exception cancelled `anext`: yielded ++ parked in `anext` ++ not yet produced = everything -/
  conserve : (∀ e, w.phase ≠ WPhase.raised e) → w.out ++ parked w.anext ++ w.rem = w.all
  stopRem : w.anext = Flight.stop → w.rem = []
  endedDone : w.phase = WPhase.ended → w.anext = Flight.none ∧ w.rem = []
  yieldedNone : (w.phase = WPhase.yieldedItem ∨ w.phase = WPhase.yieldedSets) → w.anext = Flight.none

theorem winv_new (items : List Nat) : WInv items (Wt.new items) := by
  constructor <;> simp [Wt.new, parked]

theorem winv_step {items : List Nat} {w w' : Wt} {l : WLabel} (h : WInv items w) (hs : wstep w l = some w') :
    WInv items w' := by
  cases l with
  | completeAnext =>
    simp only [wstep] at hs
    split at hs
    · rename_i hp
      split at hs
      · rename_i x r hr
        cases hs
        constructor <;> simp only
        · exact h.allEq
        · exact h.pre
        · intro hph
          have := h.conserve hph
          simpa [hp, hr, parked] using this
        · simp
        · intro he; have := (h.endedDone he).1; rw [this] at hp; cases hp
        · intro he; have := h.yieldedNone he; rw [this] at hp; cases hp
      · rename_i hr
        cases hs
        constructor <;> simp only
        · exact h.allEq
        · exact h.pre
        · intro hph
          have := h.conserve hph
          simpa [hp, hr, parked] using this
        · intro _; exact hr
        · intro he; have := (h.endedDone he).1; rw [this] at hp; cases hp
        · intro he; have := h.yieldedNone he; rw [this] at hp; cases hp
    · cases hs
  | completeTask i e =>
    simp only [wstep] at hs
    split at hs
    · cases hs
      exact ⟨h.allEq, h.pre, h.conserve, h.stopRem, h.endedDone, h.yieldedNone⟩
    · cases hs
  | wake =>
    obtain ⟨hp, _, ⟨x, dn, pd, hx, rfl⟩ | ⟨hx, rfl⟩ | ⟨dn, rfl⟩⟩ := wstep_wake_inv hs
    · have hc := h.conserve (by rw [hp]; intro e he; cases he)
      simp only [hx, parked] at hc
      constructor <;> simp only
      · exact h.allEq
      · rw [← hc]; exact List.prefix_append _ _
      · intro _; simpa [parked] using hc
      · simp
      · simp
      · simp
    · have hc := h.conserve (by rw [hp]; intro e he; cases he)
      have hr := h.stopRem hx
      simp only [hx, parked] at hc
      constructor <;> simp only
      · exact h.allEq
      · exact h.pre
      · intro _; simpa [parked] using hc
      · simp
      · intro _; simpa using hr
      · simp
    · exact ⟨h.allEq, h.pre, h.conserve, h.stopRem, h.endedDone, h.yieldedNone⟩
  | wakeRaise i =>
    simp only [wstep] at hs
    split at hs
    · split at hs
      · split at hs
        · cases hs
          constructor <;> simp only
          · exact h.allEq
          · exact h.pre
          · intro hh; exact absurd rfl (hh _)
          · simp
          · simp
          · simp
        · cases hs
      · cases hs
    · cases hs
  | send n =>
    simp only [wstep] at hs
    split at hs
    · rename_i hp
      have hn := h.yieldedNone (Or.inl hp)
      have hc := h.conserve (by rw [hp]; intro e he; cases he)
      split at hs
      · cases hs
        constructor <;> simp only
        · exact h.allEq
        · exact h.pre
        · intro _; simpa [hn, parked] using hc
        · simp
        · simp
        · simp
      · cases hs
        constructor <;> simp only
        · exact h.allEq
        · exact h.pre
        · intro _; exact hc
        · exact h.stopRem
        · simp
        · intro _; exact hn
    · cases hs
  | resume =>
    simp only [wstep] at hs
    split at hs
    · rename_i hp
      have hn := h.yieldedNone (Or.inr hp)
      have hc := h.conserve (by rw [hp]; intro e he; cases he)
      cases hs
      constructor <;> simp only
      · exact h.allEq
      · exact h.pre
      · intro _; simpa [hn, parked] using hc
      · simp
      · simp
      · simp
    · cases hs

theorem winv_wrun {items : List Nat} (ls : List WLabel) : ∀ (w0 w : Wt), WInv items w0 → wrun w0 ls = some w →
    WInv items w := by
  induction ls with
  | nil => intro w0 w h0 h; simp only [wrun, Option.some.injEq] at h; exact h ▸ h0
  | cons l ls ih =>
    intro w0 w h0 h
    simp only [wrun] at h
    split at h
    · rename_i w1 h1
      exact ih w1 w (winv_step h0 h1) h
    · cases h

/-- agen_with_wait: the yielded items are a prefix of the wrapped iterator's items, all of them when it ended normally -/
theorem wait_exact (items : List Nat) (ls : List WLabel) (w : Wt)
    (h : wrun (Wt.new items) ls = some w) : w.out <+: items ∧ (w.phase = WPhase.ended → w.out = items) := by
  have hinv := winv_wrun ls _ w (winv_new items) h
  constructor
  · rw [← hinv.allEq]; exact hinv.pre
  · intro he
    have hc := hinv.conserve (by rw [he]; intro e h'; cases h')
    obtain ⟨h1, h2⟩ := hinv.endedDone he
    rw [h1, h2, hinv.allEq] at hc
    simpa [parked] using hc

/-- a wake-up that yields, ends or merely continues has seen no failed awaited task -/
theorem wait_surfaces_exception (w w' : Wt) (h : wstep w WLabel.wake = some w') :
    ∀ i ∈ w.pending, taskDone w.tasks i = true → taskExc w.tasks i = none := by
  intro i hi hd
  obtain ⟨_, hany, _⟩ := wstep_wake_inv h
  cases hx : taskExc w.tasks i with
  | none => rfl
  | some e =>
    have : (w.pending.filter (taskDone w.tasks)).any (fun i => (taskExc w.tasks i).isSome) = true := by
      rw [List.any_eq_true]
      exact ⟨i, List.mem_filter.mpr ⟨hi, hd⟩, by simp [hx]⟩
    rw [hany] at this; cases this

/-- an exception that is raised is the exception of an awaited task, and nothing is yielded with it -/
theorem wait_raise_is_real (w w' : Wt) (i : Nat) (h : wstep w (WLabel.wakeRaise i) = some w') :
    ∃ e, taskExc w.tasks i = some e ∧ w'.phase = WPhase.raised e ∧ w'.out = w.out ∧ i ∈ w.pending := by
  simp only [wstep] at h
  split at h
  · split at h
    · rename_i hi
      split at h
      · rename_i e he
        cases h
        exact ⟨e, he, rfl, rfl, hi⟩
      · cases h
    · cases h
  · cases h

/-! ## `to_aiter` -/

theorem to_aiter_exact (l : List Nat) : toAiterAll l = l := by
  induction l with
  | nil => rfl
  | cons x r ih => simp [toAiterAll, ih]

/-! ## non-vacuity -/

/-- two sources, completions in the "wrong" order, one completion while suspended at `yield`, one during
`while done`, run to the end: everything is delivered, per source in order -/
example : (mrun (M.new [[1, 2], [7]])
    [.start, .complete 1, .complete 0, .wake, .recv 0, .next, .recv 1, .complete 0, .next, .loop, .complete 1,
     .wake, .recv 0, .next, .complete 0, .popStop 1, .loop, .wake, .popStop 0, .loop]).map
      (fun m => (m.phase, m.out)) = some (Phase.ended, [(0, 1), (1, 7), (0, 2)]) := by decide

/-- no sources: the merged iteration ends at once -/
example : (mrun (M.new []) [.start]).map (fun m => (m.phase, m.out)) = some (Phase.ended, []) := by decide

/-- the same run stopped half-way is a reachable non-final state (so `merge_no_deadlock` is not vacuous) -/
example : (mrun (M.new [[1, 2], [7]]) [.start, .complete 1, .complete 0, .wake, .recv 0]).map
      (fun m => (m.phase, m.out)) = some (Phase.yielded 0 [1], [(0, 1)]) := by decide

/-- `agen_with_wait` runs to the normal end -/
example : (wrun (Wt.new [5]) [.completeAnext, .wake, .send 0, .completeAnext, .wake]).map
      (fun w => (w.phase, w.out)) = some (WPhase.ended, [5]) := by decide

/-- `agen_with_wait`: a task handed in by `asend` fails; its exception is raised and the parked item is not yielded -/
example : (wrun (Wt.new [5, 6])
    [.completeAnext, .wake, .send 1, .resume, .completeAnext, .completeTask 0 (some 9), .wakeRaise 0]).map
      (fun w => (w.phase, w.out)) = some (WPhase.raised 9, [5]) := by decide

end NLV.C19
