import NLV.Model.Commands
import NLV.Lemmas.Commands
/-!
# C07 — delivery of Pdb commands to prompts

Theorems over model E for **every** label list: a command is executed only at the prompt it was
addressed to, at most once, in FIFO order; stale and misaddressed commands are discarded.
-/
namespace NLV.C07
open NLV.Cmd

/-! ## transport invariant (ids, membership, order) -/

structure InvT (s : St) : Prop where
  sentIds : s.sent.map (·.id) = List.range s.sent.length
  perm : (inTransit s ++ s.executed.map (·.id) ++ s.discarded).Perm (s.sent.map (·.id))
  inqSent : ∀ k ∈ s.inq, k ∈ s.sent
  qSent : ∀ tq ∈ s.queues, ∀ k ∈ tq.2, k ∈ s.sent ∧ k.trace = tq.1
  qKeys : (s.queues.map (·.1)).Nodup
  exec : ∀ e ∈ s.executed, ∃ k ∈ s.sent, k.id = e.id ∧ k.trace = e.trace ∧ k.prompt = e.prompt ∧ k.cmd = e.cmd
  inqSorted : (s.inq.map (·.id)).Pairwise (· < ·)
  qSorted : ∀ tq ∈ s.queues, (tq.2.map (·.id)).Pairwise (· < ·) ∧
    ∀ k ∈ tq.2, ∀ k' ∈ s.inq, k'.trace = tq.1 → k.id < k'.id

theorem mem_sent_lt {s : St} (h : InvT s) {k : Command} (hk : k ∈ s.sent) : k.id < s.sent.length := by
  have : k.id ∈ s.sent.map (·.id) := List.mem_map.2 ⟨k, hk, rfl⟩
  rw [h.sentIds] at this
  exact List.mem_range.1 this

theorem invT_init : InvT {} := by
  constructor <;> simp [inTransit]

theorem invT_send {s s' : St} {t p c : Nat} (h : InvT s) (hs : step s (.send t p c) = some s') : InvT s' := by
  have hs' := step_send hs; subst hs'
  constructor <;> simp only [inTransit_eq]
  · simp [List.range_succ, h.sentIds]
  · have hp := h.perm
    rw [List.perm_iff_count] at hp ⊢
    intro a; have := hp a
    simp only [inTransit_eq, List.map_append, List.map_cons, List.map_nil, List.count_append] at this ⊢
    omega
  · intro k hk
    rcases List.mem_append.1 hk with hk | hk
    · exact List.mem_append_left _ (h.inqSent k hk)
    · exact List.mem_append_right _ hk
  · intro tq htq k hk
    exact ⟨List.mem_append_left _ (h.qSent tq htq k hk).1, (h.qSent tq htq k hk).2⟩
  · exact h.qKeys
  · intro e he
    obtain ⟨k, hk, hr⟩ := h.exec e he
    exact ⟨k, List.mem_append_left _ hk, hr⟩
  · rw [List.map_append, List.pairwise_append]
    refine ⟨h.inqSorted, by simp, ?_⟩
    intro a ha b hb
    obtain ⟨k, hk, rfl⟩ := List.mem_map.1 ha
    simp only [List.map_cons, List.map_nil, List.mem_singleton] at hb
    subst hb
    exact mem_sent_lt h (h.inqSent k hk)
  · intro tq htq
    refine ⟨(h.qSorted tq htq).1, ?_⟩
    intro k hk k' hk' htr
    rcases List.mem_append.1 hk' with hk' | hk'
    · exact (h.qSorted tq htq).2 k hk k' hk' htr
    · simp only [List.mem_singleton] at hk'
      subst hk'
      exact mem_sent_lt h (h.qSent tq htq k hk).1

theorem invT_relay {s s' : St} (h : InvT s) (hs : step s .relay = some s') : InvT s' := by
  obtain ⟨k, rest, hi, ⟨q, hq, rfl⟩ | ⟨hq, rfl⟩⟩ := step_relay hs
  · obtain ⟨l1, l2, hsplit, h1, h2⟩ := find_split h.qKeys hq
    have hperm := h.perm; have hinq := h.inqSent; have hqs := h.qSent; have hkeys := h.qKeys
    have hsorted := h.inqSorted; have hqsorted := h.qSorted
    simp only [inTransit_eq, hi, hsplit] at hperm hinq hqs hkeys hsorted hqsorted
    rw [List.map_cons, List.pairwise_cons] at hsorted
    have hmid := hqsorted (k.trace, q) (by simp)
    constructor <;> simp only [inTransit_eq, hsplit, qSet_split _ _ h1 h2]
    · exact h.sentIds
    · rw [List.perm_iff_count] at hperm ⊢
      intro a; have := hperm a
      simp only [qids_append, qids_cons, List.map_append, List.map_cons, List.map_nil, List.count_append,
        List.count_cons, List.count_nil] at this ⊢
      omega
    · intro k' hk'; exact hinq k' (List.mem_cons_of_mem _ hk')
    · intro tq htq k' hk'
      simp only [List.mem_append, List.mem_cons] at htq
      rcases htq with htq | rfl | htq
      · exact hqs tq (by simp [htq]) k' hk'
      · simp only [List.mem_append, List.mem_singleton] at hk'
        rcases hk' with hk' | rfl
        · exact hqs (k.trace, q) (by simp) k' hk'
        · exact ⟨hinq _ (List.mem_cons_self ..), rfl⟩
      · exact hqs tq (by simp [htq]) k' hk'
    · simpa using hkeys
    · exact h.exec
    · exact hsorted.2
    · intro tq htq
      simp only [List.mem_append, List.mem_cons] at htq
      rcases htq with htq | rfl | htq
      · have := hqsorted tq (by simp [htq])
        exact ⟨this.1, fun a ha b hb => this.2 a ha b (List.mem_cons_of_mem _ hb)⟩
      · simp only
        constructor
        · rw [List.map_append, List.pairwise_append]
          refine ⟨hmid.1, by simp, ?_⟩
          intro a ha b hb
          obtain ⟨ka, hka, rfl⟩ := List.mem_map.1 ha
          simp only [List.map_cons, List.map_nil, List.mem_singleton] at hb
          subst hb
          exact hmid.2 ka hka k (List.mem_cons_self ..) rfl
        · intro a ha b hb htr
          rcases List.mem_append.1 ha with ha | ha
          · exact hmid.2 a ha b (List.mem_cons_of_mem _ hb) htr
          · simp only [List.mem_singleton] at ha
            subst ha
            exact hsorted.1 _ (List.mem_map.2 ⟨b, hb, rfl⟩)
      · have := hqsorted tq (by simp [htq])
        exact ⟨this.1, fun a ha b hb => this.2 a ha b (List.mem_cons_of_mem _ hb)⟩
  · have hperm := h.perm; have hinq := h.inqSent; have hsorted := h.inqSorted; have hqsorted := h.qSorted
    simp only [inTransit_eq, hi] at hperm hinq hsorted hqsorted
    rw [List.map_cons, List.pairwise_cons] at hsorted
    constructor <;> simp only [inTransit_eq]
    · exact h.sentIds
    · rw [List.perm_iff_count] at hperm ⊢
      intro a; have := hperm a
      simp only [List.map_cons, List.count_append, List.count_cons, List.count_nil] at this ⊢
      omega
    · intro k' hk'; exact hinq k' (List.mem_cons_of_mem _ hk')
    · exact h.qSent
    · exact h.qKeys
    · exact h.exec
    · exact hsorted.2
    · intro tq htq
      have := hqsorted tq htq
      exact ⟨this.1, fun a ha b hb => this.2 a ha b (List.mem_cons_of_mem _ hb)⟩

theorem invT_startTrace {s s' : St} {t : Nat} (h : InvT s) (hs : step s (.startTrace t) = some s') : InvT s' := by
  obtain ⟨hq, rfl⟩ := step_startTrace hs
  have hnone := find_none hq
  constructor <;> simp only [inTransit_eq]
  · exact h.sentIds
  · simpa [inTransit_eq] using h.perm
  · exact h.inqSent
  · intro tq htq
    rcases List.mem_append.1 htq with htq | htq
    · exact h.qSent tq htq
    · simp only [List.mem_singleton] at htq; subst htq; simp
  · rw [List.map_append, List.nodup_append]
    refine ⟨h.qKeys, by simp, ?_⟩
    intro a ha b hb
    obtain ⟨e, he, rfl⟩ := List.mem_map.1 ha
    simp only [List.map_cons, List.map_nil, List.mem_singleton] at hb
    subst hb
    exact hnone e he
  · exact h.exec
  · exact h.inqSorted
  · intro tq htq
    rcases List.mem_append.1 htq with htq | htq
    · exact h.qSorted tq htq
    · simp only [List.mem_singleton] at htq; subst htq; simp

theorem invT_endTrace {s s' : St} {t : Nat} (h : InvT s) (hs : step s (.endTrace t) = some s') : InvT s' := by
  obtain ⟨q, hq, _, rfl⟩ := step_endTrace hs
  obtain ⟨l1, l2, hsplit, h1, h2⟩ := find_split h.qKeys hq
  have hperm := h.perm; have hqs := h.qSent; have hkeys := h.qKeys; have hqsorted := h.qSorted
  simp only [inTransit_eq, hsplit] at hperm hqs hkeys hqsorted
  constructor <;> simp only [inTransit_eq, hsplit, filter_split _ h1 h2]
  · exact h.sentIds
  · rw [List.perm_iff_count] at hperm ⊢
    intro a; have := hperm a
    simp only [qids_append, qids_cons, List.count_append] at this ⊢
    omega
  · exact h.inqSent
  · intro tq htq
    rcases List.mem_append.1 htq with htq | htq
    · exact hqs tq (by simp [htq])
    · exact hqs tq (by simp [htq])
  · simp only [List.map_append, List.map_cons, List.nodup_append, List.nodup_cons, List.mem_cons] at hkeys ⊢
    exact ⟨hkeys.1, hkeys.2.1.2, fun a ha b hb => hkeys.2.2 a ha b (Or.inr hb)⟩
  · exact h.exec
  · exact h.inqSorted
  · intro tq htq
    rcases List.mem_append.1 htq with htq | htq
    · exact hqsorted tq (by simp [htq])
    · exact hqsorted tq (by simp [htq])

theorem invT_openPrompt {s s' : St} {t : Nat} (h : InvT s) (hs : step s (.openPrompt t) = some s') : InvT s' := by
  obtain ⟨q, _, _, rfl⟩ := step_openPrompt hs
  exact ⟨h.sentIds, h.perm, h.inqSent, h.qSent, h.qKeys, h.exec, h.inqSorted, h.qSorted⟩

theorem invT_consume {s s' : St} {t : Nat} (h : InvT s) (hs : step s (.consume t) = some s') : InvT s' := by
  obtain ⟨p, k, rest, _, hq, hcase⟩ := step_consume hs
  obtain ⟨l1, l2, hsplit, h1, h2⟩ := find_split h.qKeys hq
  have hperm := h.perm; have hqs := h.qSent; have hkeys := h.qKeys; have hqsorted := h.qSorted
  simp only [inTransit_eq, hsplit] at hperm hqs hkeys hqsorted
  have hmid := hqsorted (t, k :: rest) (by simp)
  have hmids := hqs (t, k :: rest) (by simp)
  -- facts shared by both outcomes (the queue of `t` loses its head)
  have hqs' : ∀ tq ∈ l1 ++ (t, rest) :: l2, ∀ k' ∈ tq.2, k' ∈ s.sent ∧ k'.trace = tq.1 := by
    intro tq htq k' hk'
    simp only [List.mem_append, List.mem_cons] at htq
    rcases htq with htq | rfl | htq
    · exact hqs tq (by simp [htq]) k' hk'
    · exact hmids k' (List.mem_cons_of_mem _ hk')
    · exact hqs tq (by simp [htq]) k' hk'
  have hkeys' : ((l1 ++ (t, rest) :: l2).map (·.1)).Nodup := by simpa using hkeys
  have hqsorted' : ∀ tq ∈ l1 ++ (t, rest) :: l2, (tq.2.map (·.id)).Pairwise (· < ·) ∧
      ∀ k ∈ tq.2, ∀ k' ∈ s.inq, k'.trace = tq.1 → k.id < k'.id := by
    intro tq htq
    simp only [List.mem_append, List.mem_cons] at htq
    rcases htq with htq | rfl | htq
    · exact hqsorted tq (by simp [htq])
    · refine ⟨?_, fun a ha => hmid.2 a (List.mem_cons_of_mem _ ha)⟩
      have := hmid.1
      rw [List.map_cons, List.pairwise_cons] at this
      exact this.2
    · exact hqsorted tq (by simp [htq])
  rcases hcase with ⟨hp, rfl⟩ | ⟨hp, rfl⟩
  · constructor <;> simp only [inTransit_eq, hsplit, qSet_split _ _ h1 h2]
    · exact h.sentIds
    · rw [List.perm_iff_count] at hperm ⊢
      intro a; have := hperm a
      simp only [qids_append, qids_cons, List.map_append, List.map_cons, List.map_nil, List.count_append,
        List.count_cons, List.count_nil] at this ⊢
      omega
    · exact h.inqSent
    · exact hqs'
    · exact hkeys'
    · intro e he
      rcases List.mem_append.1 he with he | he
      · exact h.exec e he
      · simp only [List.mem_singleton] at he; subst he
        exact ⟨k, (hmids k (List.mem_cons_self ..)).1, rfl, (hmids k (List.mem_cons_self ..)).2, hp, rfl⟩
    · exact h.inqSorted
    · exact hqsorted'
  · constructor <;> simp only [inTransit_eq, hsplit, qSet_split _ _ h1 h2]
    · exact h.sentIds
    · rw [List.perm_iff_count] at hperm ⊢
      intro a; have := hperm a
      simp only [qids_append, qids_cons, List.map_cons, List.count_append,
        List.count_cons, List.count_nil] at this ⊢
      omega
    · exact h.inqSent
    · exact hqs'
    · exact hkeys'
    · exact h.exec
    · exact h.inqSorted
    · exact hqsorted'

theorem invT_step (s : St) (l : Label) (s' : St) (h : InvT s) (hs : step s l = some s') : InvT s' := by
  cases l with
  | send t p c => exact invT_send h hs
  | relay => exact invT_relay h hs
  | startTrace t => exact invT_startTrace h hs
  | endTrace t => exact invT_endTrace h hs
  | openPrompt t => exact invT_openPrompt h hs
  | consume t => exact invT_consume h hs

theorem invT_run {ls : List Label} {s : St} (h : run {} ls = some s) : InvT s :=
  run_induction invT_step invT_init h

/-! ## prompt invariant (numbers, open prompts) -/

structure InvP (s : St) : Prop where
  execNodup : (s.executed.map (·.prompt)).Nodup
  execLt : ∀ e ∈ s.executed, e.prompt < s.counter
  openLt : ∀ o ∈ s.opened, o.2 < s.counter ∧ o.2 ∉ s.executed.map (·.prompt)
  openNodup2 : (s.opened.map (·.2)).Nodup
  openNodup1 : (s.opened.map (·.1)).Nodup

theorem invP_init : InvP {} := by
  constructor <;> simp

theorem invP_openPrompt {s s' : St} {t : Nat} (h : InvP s) (hs : step s (.openPrompt t) = some s') : InvP s' := by
  obtain ⟨q, _, ho, rfl⟩ := step_openPrompt hs
  have hnone := find_none ho
  constructor <;> simp only
  · exact h.execNodup
  · intro e he; exact Nat.lt_succ_of_lt (h.execLt e he)
  · intro o ho'
    rcases List.mem_append.1 ho' with ho' | ho'
    · exact ⟨Nat.lt_succ_of_lt (h.openLt o ho').1, (h.openLt o ho').2⟩
    · simp only [List.mem_singleton] at ho'; subst ho'
      refine ⟨Nat.lt_succ_self _, ?_⟩
      intro hm
      obtain ⟨e, he, heq⟩ := List.mem_map.1 hm
      have := h.execLt e he
      simp only at heq
      omega
  · rw [List.map_append, List.nodup_append]
    refine ⟨h.openNodup2, by simp, ?_⟩
    intro a ha b hb
    obtain ⟨o, ho', rfl⟩ := List.mem_map.1 ha
    simp only [List.map_cons, List.map_nil, List.mem_singleton] at hb
    have := (h.openLt o ho').1
    omega
  · rw [List.map_append, List.nodup_append]
    refine ⟨h.openNodup1, by simp, ?_⟩
    intro a ha b hb
    obtain ⟨o, ho', rfl⟩ := List.mem_map.1 ha
    simp only [List.map_cons, List.map_nil, List.mem_singleton] at hb
    subst hb
    exact hnone o ho'

theorem invP_consume {s s' : St} {t : Nat} (h : InvP s) (hs : step s (.consume t) = some s') : InvP s' := by
  obtain ⟨p, k, rest, ho, _, ⟨_, rfl⟩ | ⟨_, rfl⟩⟩ := step_consume hs
  · obtain ⟨l1, l2, hsplit, h1, h2⟩ := find_split h.openNodup1 ho
    have hlt := h.openLt; have hn2 := h.openNodup2; have hn1 := h.openNodup1
    simp only [hsplit] at hlt hn2 hn1
    have hmid := hlt (t, p) (by simp)
    simp only [List.map_append, List.map_cons, List.nodup_append, List.nodup_cons, List.mem_cons, List.mem_map]
      at hn2 hn1
    constructor <;> simp only [hsplit, filter_split _ h1 h2]
    · rw [List.map_append, List.nodup_append]
      refine ⟨h.execNodup, by simp, ?_⟩
      intro a ha b hb
      simp only [List.map_cons, List.map_nil, List.mem_singleton] at hb
      subst hb
      intro hab; subst hab
      exact hmid.2 ha
    · intro e he
      rcases List.mem_append.1 he with he | he
      · exact h.execLt e he
      · simp only [List.mem_singleton] at he; subst he; exact hmid.1
    · intro o ho'
      have hmem : o ∈ l1 ++ (t, p) :: l2 := by
        rcases List.mem_append.1 ho' with ho' | ho'
        · simp [ho']
        · simp [ho']
      refine ⟨(hlt o hmem).1, ?_⟩
      rw [List.map_append, List.mem_append]
      rintro (hm | hm)
      · exact (hlt o hmem).2 hm
      · simp only [List.map_cons, List.map_nil, List.mem_singleton] at hm
        rcases List.mem_append.1 ho' with ho' | ho'
        · exact hn2.2.2 o.2 ⟨o, ho', rfl⟩ p (Or.inl rfl) hm
        · exact hn2.2.1.1 ⟨o, ho', hm⟩
    · simp only [List.map_append, List.nodup_append, List.mem_map]
      exact ⟨hn2.1, hn2.2.1.2, fun a ha b hb => hn2.2.2 a ha b (Or.inr hb)⟩
    · simp only [List.map_append, List.nodup_append, List.mem_map]
      exact ⟨hn1.1, hn1.2.1.2, fun a ha b hb => hn1.2.2 a ha b (Or.inr hb)⟩
  · exact ⟨h.execNodup, h.execLt, h.openLt, h.openNodup2, h.openNodup1⟩

theorem invP_step (s : St) (l : Label) (s' : St) (h : InvP s) (hs : step s l = some s') : InvP s' := by
  cases l with
  | send t p c =>
    have := step_send hs; subst this
    exact ⟨h.execNodup, h.execLt, h.openLt, h.openNodup2, h.openNodup1⟩
  | relay =>
    obtain ⟨k, rest, _, ⟨q, _, rfl⟩ | ⟨_, rfl⟩⟩ := step_relay hs
    · exact ⟨h.execNodup, h.execLt, h.openLt, h.openNodup2, h.openNodup1⟩
    · exact ⟨h.execNodup, h.execLt, h.openLt, h.openNodup2, h.openNodup1⟩
  | startTrace t =>
    obtain ⟨_, rfl⟩ := step_startTrace hs
    exact ⟨h.execNodup, h.execLt, h.openLt, h.openNodup2, h.openNodup1⟩
  | endTrace t =>
    obtain ⟨q, _, _, rfl⟩ := step_endTrace hs
    exact ⟨h.execNodup, h.execLt, h.openLt, h.openNodup2, h.openNodup1⟩
  | openPrompt t => exact invP_openPrompt h hs
  | consume t => exact invP_consume h hs

theorem invP_run {ls : List Label} {s : St} (h : run {} ls = some s) : InvP s :=
  run_induction invP_step invP_init h

/-! ## executions only grow -/

theorem executed_prefix_step (s : St) (l : Label) (s' : St) (hs : step s l = some s') :
    s.executed <+: s'.executed := by
  cases l with
  | send t p c => have := step_send hs; subst this; exact List.prefix_refl _
  | relay =>
    obtain ⟨k, rest, _, ⟨q, _, rfl⟩ | ⟨_, rfl⟩⟩ := step_relay hs <;> exact List.prefix_refl _
  | startTrace t => obtain ⟨_, rfl⟩ := step_startTrace hs; exact List.prefix_refl _
  | endTrace t => obtain ⟨q, _, _, rfl⟩ := step_endTrace hs; exact List.prefix_refl _
  | openPrompt t => obtain ⟨q, _, _, rfl⟩ := step_openPrompt hs; exact List.prefix_refl _
  | consume t =>
    obtain ⟨p, k, rest, _, _, ⟨_, rfl⟩ | ⟨_, rfl⟩⟩ := step_consume hs
    · exact List.prefix_append _ _
    · exact List.prefix_refl _

theorem executed_prefix_run {s s' : St} {ls : List Label} (h : run s ls = some s') :
    s.executed <+: s'.executed :=
  run_induction (P := fun x => s.executed <+: x.executed)
    (fun a l b ha hab => List.IsPrefix.trans ha (executed_prefix_step a l b hab)) (List.prefix_refl _) h

/-! ## the theorems -/

/-- every executed command was addressed to exactly that trace and prompt, with that text -/
theorem executed_is_addressed (ls : List Label) (s : St) (h : run {} ls = some s) :
    ∀ e ∈ s.executed, ∃ k ∈ s.sent, k.id = e.id ∧ k.trace = e.trace ∧ k.prompt = e.prompt ∧ k.cmd = e.cmd :=
  (invT_run h).exec

/-- each sent command is consumed at most once and none is lost: the ids in transit, executed and discarded are
pairwise distinct, were all sent, and together are as many as were sent -/
theorem at_most_once (ls : List Label) (s : St) (h : run {} ls = some s) :
    (inTransit s ++ s.executed.map (·.id) ++ s.discarded).Nodup ∧
    (∀ i ∈ inTransit s ++ s.executed.map (·.id) ++ s.discarded, i < s.sent.length) ∧
    (inTransit s ++ s.executed.map (·.id) ++ s.discarded).length = s.sent.length := by
  have hi := invT_run h
  have hp := hi.perm
  rw [hi.sentIds] at hp
  refine ⟨hp.nodup_iff.2 List.nodup_range, ?_, ?_⟩
  · intro i hmem
    exact List.mem_range.1 (hp.mem_iff.1 hmem)
  · rw [hp.length_eq, List.length_range]

/-- prompt numbers are unique and each prompt is answered at most once -/
theorem prompt_answered_once (ls : List Label) (s : St) (h : run {} ls = some s) :
    (s.executed.map (·.prompt)).Nodup ∧ (∀ e ∈ s.executed, e.prompt < s.counter) ∧
    (∀ o ∈ s.opened, o.2 < s.counter ∧ o.2 ∉ s.executed.map (·.prompt)) ∧
    (s.opened.map (·.2)).Nodup ∧ (s.opened.map (·.1)).Nodup :=
  have hi := invP_run h
  ⟨hi.execNodup, hi.execLt, hi.openLt, hi.openNodup2, hi.openNodup1⟩

/-- a command is executed only at the prompt that is open in its trace at that moment, and closes it -/
theorem consume_executes_open (s s' : St) (t : Nat) (e : Exec) (hs : step s (Label.consume t) = some s')
    (he : s'.executed = s.executed ++ [e]) :
    openOf s.opened t = some e.prompt ∧ e.trace = t ∧ openOf s'.opened t = none := by
  obtain ⟨p, k, rest, ho, _, ⟨_, rfl⟩ | ⟨_, rfl⟩⟩ := step_consume hs
  · simp only [List.append_cancel_left_eq, List.cons.injEq, and_true] at he
    subst he
    exact ⟨ho, rfl, find_filter_none _ _⟩
  · simp only at he
    have := congrArg List.length he
    simp at this

/-- a consumed command whose number differs from the open prompt is discarded: nothing executes, the prompt stays open -/
theorem mismatch_discarded (s s' : St) (t p : Nat) (k : Command) (rest : List Command)
    (ho : openOf s.opened t = some p) (hq : qGet s.queues t = some (k :: rest)) (hne : k.prompt ≠ p)
    (hs : step s (Label.consume t) = some s') :
    s'.executed = s.executed ∧ s'.opened = s.opened ∧ s'.discarded = s.discarded ++ [k.id] := by
  obtain ⟨p', k', rest', ho', hq', hcase⟩ := step_consume hs
  rw [ho] at ho'; rw [hq] at hq'
  cases ho'; cases hq'
  rcases hcase with ⟨hp, rfl⟩ | ⟨_, rfl⟩
  · exact absurd hp hne
  · exact ⟨rfl, rfl, rfl⟩

/-- stale commands: once a prompt has been answered, no later execution in any continuation has its number -/
theorem stale_never_executes (ls ls' : List Label) (s s' : St) (h : run {} ls = some s) (h' : run s ls' = some s') :
    s.executed <+: s'.executed ∧
    ∀ e ∈ s.executed, ∀ e' ∈ s'.executed.drop s.executed.length, e'.prompt ≠ e.prompt := by
  have hpre := executed_prefix_run h'
  refine ⟨hpre, ?_⟩
  have hrun : run {} (ls ++ ls') = some s' := by rw [run_append, h]; exact h'
  have hn := (invP_run hrun).execNodup
  obtain ⟨tl, htl⟩ := hpre
  rw [← htl] at hn ⊢
  rw [List.drop_left]
  rw [List.map_append, List.nodup_append] at hn
  intro e he e' he' heq
  exact hn.2.2 e.prompt (List.mem_map.2 ⟨e, he, rfl⟩) e'.prompt (List.mem_map.2 ⟨e', he', rfl⟩) heq.symm

/-- a command for a trace without a queue is dropped by the relay and nothing else changes -/
theorem unknown_trace_harmless (s : St) (k : Command) (rest : List Command) (hi : s.inq = k :: rest)
    (hu : qGet s.queues k.trace = none) :
    step s Label.relay = some { s with inq := rest, discarded := s.discarded ++ [k.id] } := by
  simp only [step, hi, hu]

/-- FIFO: commands travel in the order they were sent; a trace's queue holds only commands addressed to that trace,
older than anything for that trace still in the incoming queue -/
theorem fifo (ls : List Label) (s : St) (h : run {} ls = some s) :
    (s.inq.map (·.id)).Pairwise (· < ·) ∧
    ∀ tq ∈ s.queues, (tq.2.map (·.id)).Pairwise (· < ·) ∧
      ∀ k ∈ tq.2, k.trace = tq.1 ∧ ∀ k' ∈ s.inq, k'.trace = tq.1 → k.id < k'.id := by
  have hi := invT_run h
  refine ⟨hi.inqSorted, fun tq htq => ⟨(hi.qSorted tq htq).1, fun k hk => ⟨(hi.qSent tq htq k hk).2, (hi.qSorted tq htq).2 k hk⟩⟩⟩

/-! ## non-vacuity -/

/-- one command executed at its prompt -/
example : (run {} [.startTrace 1, .openPrompt 1, .send 1 1 7, .relay, .consume 1]).map
    (fun s => (s.executed, s.discarded, s.opened)) = some ([⟨1, 1, 7, 0⟩], [], []) := by decide

/-- a command with the wrong prompt number is discarded and the prompt stays open; the next one is executed -/
example : (run {} [.startTrace 1, .openPrompt 1, .send 1 5 7, .send 1 1 8, .relay, .relay, .consume 1, .consume 1]).map
    (fun s => (s.executed, s.discarded, s.opened)) = some ([⟨1, 1, 8, 1⟩], [0], []) := by decide

/-- a command for an unknown trace is dropped by the relay -/
example : (run {} [.startTrace 1, .send 2 1 7, .relay]).map
    (fun s => (s.executed, s.discarded, inTransit s)) = some ([], [0], []) := by decide

/-- a stale command (number of an already answered prompt) is discarded at the next prompt of the trace -/
example : (run {} [.startTrace 1, .openPrompt 1, .send 1 1 7, .send 1 1 9, .relay, .relay, .consume 1,
    .openPrompt 1, .consume 1]).map
    (fun s => (s.executed, s.discarded, s.opened, s.counter)) = some ([⟨1, 1, 7, 0⟩], [1], [(1, 2)], 3) := by decide

/-- ending a trace discards what is still queued for it -/
example : (run {} [.startTrace 1, .send 1 1 7, .relay, .endTrace 1]).map
    (fun s => (s.executed, s.discarded, inTransit s, s.queues.length)) = some ([], [0], [], 0) := by decide

end NLV.C07
