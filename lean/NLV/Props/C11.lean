import NLV.Lemmas.Registrars
/-!
# C11 — published run state agrees with the event stream and is closed out at run end

Property theorems about model C (the registrars), for **every** well-formed event stream and
**every prefix** of one (a prefix models a kill: `WF` is prefix-closed by construction, being a fold
that can only fail later), any number of traces, trace calls and prompts.
-/
namespace NLV.C11
open NLV.Reg

/-- what must appear on `trace_nos`, publication by publication, while a stream is processed -/
def nosTrail (w : W) : List Ev → List (List Nat)
  | [] => []
  | e :: es => match wstep w e with
    | some w' => expectNos e w' ++ nosTrail w' es
    | none => []

/-- **No hook raises on a well-formed stream, and the registrars track it exactly.**  Processing
any well-formed continuation `es` from a state that mirrors the grammar state `w`:
* every hook call succeeds (the dictionary look-ups the registrars make are all defined);
* the new state mirrors the new grammar state — in particular the current `trace_nos` value is
  the list of traces started and not yet ended, in start order, at every moment;
* `trace_nos` is published exactly at trace starts/ends, with exactly that list;
* per trace, the `trace_info` publications extend `[]` → `[running]` → `[running, finished]`;
* `_keys` is exactly the set of per-trace prompt topics published and not ended since. -/
theorem run_events (es : List Ev) : ∀ (st : St) (w w' : W), Sim st w → wrun w es = some w' →
    ∃ st' o, runHooks st (es.map Hook.event) = some (st', o) ∧ Sim st' w' ∧
      tracePubs o = nosTrail w es ∧
      (∀ t, expectInfo w t ++ infoSeq o t = expectInfo w' t) ∧
      liveKeys st.keys o = st'.keys ∧ (st.keys.Nodup → st'.keys.Nodup) := by
  induction es with
  | nil =>
    intro st w w' h hw
    simp only [wrun, Option.some.injEq] at hw
    subst hw
    exact ⟨st, [], rfl, h, rfl, by intro t; simp [infoSeq], rfl, id⟩
  | cons e es ih =>
    intro st w w' h hw
    simp only [wrun] at hw
    cases hws : wstep w e with
    | none => simp [hws] at hw
    | some w1 =>
      simp only [hws] at hw
      obtain ⟨st1, o1, ho1, hsim1, hnos1⟩ := sim_step st w w1 e h hws
      obtain ⟨st2, o2, ho2, hsim2, hnos2, hinfo2, hkeys2, hnd2⟩ := ih st1 w1 w' hsim1 hw
      have hk1 := liveKeys_onEvent st st1 e o1 ho1
      refine ⟨st2, o1 ++ o2, ?_, hsim2, ?_, ?_, ?_, ?_⟩
      · simp only [List.map_cons, runHooks, step, ho1, ho2]
      · simp only [tracePubs, List.filterMap_append] at hnos1 hnos2 ⊢
        simp only [nosTrail, hws, hnos1, hnos2]
      · intro t
        rw [infoSeq_append, ← List.append_assoc, infoSeq_step st st1 w w1 e o1 h hws ho1 t]
        exact hinfo2 t
      · rw [liveKeys_append, hk1.1, hkeys2]
      · intro hn; exact hnd2 (hk1.2 hn)

/-- the log of a whole run: initialise, start, the events, end -/
def runLog (r : Nat) (script : Option Nat) (es : List Ev) (ret exc : Nat) : List Hook :=
  Hook.initRun r script :: Hook.startRun :: (es.map Hook.event ++ [Hook.endRun ret exc])

theorem runHooks_append (st : St) (hs hs' : List Hook) :
    runHooks st (hs ++ hs') = match runHooks st hs with
      | none => none
      | some (st', o) => match runHooks st' hs' with
        | none => none
        | some (st'', o') => some (st'', o ++ o') := by
  induction hs generalizing st with
  | nil =>
    simp only [List.nil_append, runHooks]
    cases runHooks st hs' with
    | none => rfl
    | some p => simp
  | cons h hs ih =>
    simp only [List.cons_append, runHooks]
    cases step st h with
    | none => rfl
    | some p =>
      obtain ⟨st1, o1⟩ := p
      simp only [ih]
      cases runHooks st1 hs with
      | none => rfl
      | some p2 =>
        obtain ⟨st2, o2⟩ := p2
        simp only
        cases runHooks st2 hs' with
        | none => rfl
        | some p3 => simp

theorem infoSeq_finish (m : List (Nat × TraceInfo)) (t : Nat)
    (hok : ∀ e ∈ m, e.2.traceNo = e.1) (hnd : (keysOf m).Nodup) :
    infoSeq (m.reverse.map fun e => PubOp.pub .traceInfo (.traceInfo { e.2 with running := false })) t
      = if t ∈ keysOf m then [false] else [] := by
  induction m with
  | nil => simp [infoSeq, keysOf]
  | cons e m ih =>
    have hnd' : (keysOf m).Nodup := (List.nodup_cons.mp hnd).2
    have hne : e.1 ∉ keysOf m := (List.nodup_cons.mp hnd).1
    have ihm := ih (fun x hx => hok x (by simp [hx])) hnd'
    have he := hok e (by simp)
    simp only [List.reverse_cons, List.map_append, List.map_cons, List.map_nil, infoSeq_append, ihm]
    have hne' : e.1 ∉ List.map (fun x => x.fst) m := hne
    by_cases ht : e.1 = t
    · subst ht
      simp [infoSeq, keysOf, he, hne']
    · have ht' : ¬ t = e.1 := fun h => ht h.symm
      simp only [infoSeq, keysOf, List.filterMap_cons, List.filterMap_nil, he, ht, if_false, List.append_nil,
        List.map_cons, List.mem_cons, ht', false_or]
      try rfl

theorem tracePubs_append (a b : List PubOp) : tracePubs (a ++ b) = tracePubs a ++ tracePubs b := by
  simp [tracePubs, List.filterMap_append]

theorem tracePubs_map_info (m : List (Nat × TraceInfo)) :
    tracePubs (m.map fun e => PubOp.pub .traceInfo (.traceInfo { e.2 with running := false })) = [] := by
  induction m with
  | nil => rfl
  | cons e m ih => simpa [tracePubs] using ih

theorem tracePubs_map_end (ks : List Nat) :
    tracePubs (ks.map fun t => PubOp.endKey (.promptInfoFor t)) = [] := by
  induction ks with
  | nil => rfl
  | cons e m ih => simpa [tracePubs] using ih

theorem infoSeq_map_end (ks : List Nat) (t : Nat) :
    infoSeq (ks.map fun t => PubOp.endKey (.promptInfoFor t)) t = [] := by
  induction ks with
  | nil => rfl
  | cons e m ih => simpa [infoSeq] using ih

/-- **Closed out at run end — also after a kill.**  For every run number, every previous state of
the registrars, and every well-formed stream or prefix of one:

* no hook raises;
* `trace_nos` was published exactly at trace starts/ends with the then-active list, and finally `()`;
* every trace that started has exactly the `trace_info` sequence running, finished; no other trace has any;
* every `prompt_info_<n>` topic published in the run has been ended after its last publication, the
  `prompt_notice` topic is ended by the very last operation, and the registrars hold no trace, key or info. -/
theorem closed_out_at_end (st0 : St) (r : Nat) (script : Option Nat) (es : List Ev) (ret exc : Nat)
    (wf : W) (hwf : wrun {} es = some wf) :
    ∃ st' o, runHooks st0 (runLog r script es ret exc) = some (st', o) ∧
      tracePubs o = nosTrail {} es ++ [[]] ∧
      (∀ t, infoSeq o t = if t ∈ wf.started then [true, false] else []) ∧
      liveKeys [] o = [] ∧
      o.getLast? = some (PubOp.endKey Key.promptNotice) ∧
      st'.traceNos = [] ∧ st'.keys = [] ∧ st'.infoMap = [] := by
  -- state after initRun and startRun
  let ri : RunInfo := { runNo := r, state := 0, script := script }
  let st1 : St := { st0 with runNo := r, traceNos := [], infoMap := [], lastPromptFrame := [], callMap := [],
                              promptMap := [], keys := [], callMap2 := [], runInfo := some { ri with state := 1 } }
  have hsim1 : Sim st1 {} := by
    refine ⟨rfl, rfl, ?_, rfl, rfl, rfl, ?_, List.nodup_nil, ?_, ?_⟩ <;> intro _ h <;> simp [keysOf, st1] at h
  obtain ⟨st2, o2, ho2, hsim2, hnos2, hinfo2, hkeys2, hnd2⟩ := run_events es st1 {} wf hsim1 hwf
  have hri : st2.runInfo = st1.runInfo := by
    -- events never touch the run info
    have : ∀ (es : List Ev) (st st' : St) (o : List PubOp), runHooks st (es.map Hook.event) = some (st', o) →
        st'.runInfo = st.runInfo := by
      intro es
      induction es with
      | nil => intro st st' o h; simp only [List.map_nil, runHooks, Option.some.injEq, Prod.mk.injEq] at h; rw [← h.1]
      | cons e es ih =>
        intro st st' o h
        simp only [List.map_cons, runHooks, step] at h
        cases he : onEvent st e with
        | none => simp [he] at h
        | some p =>
          obtain ⟨sta, oa⟩ := p
          simp only [he] at h
          cases hr : runHooks sta (es.map Hook.event) with
          | none => simp [hr] at h
          | some p2 =>
            obtain ⟨stb, ob⟩ := p2
            simp only [hr, Option.some.injEq, Prod.mk.injEq] at h
            rw [← h.1, ih sta stb ob hr]
            -- one event
            cases e <;> simp only [onEvent, pubFor] at he
            all_goals first
              | (simp only [Option.some.injEq, Prod.mk.injEq] at he; rw [← he.1])
              | (split at he <;> first
                  | (simp only [Option.some.injEq, Prod.mk.injEq] at he; rw [← he.1])
                  | (split at he <;> simp only [Option.some.injEq, Prod.mk.injEq] at he <;> rw [← he.1])
                  | cases he)
    exact this es st1 st2 o2 ho2
  have hkeys0 : liveKeys [] o2 = st2.keys := hkeys2
  have hnd : st2.keys.Nodup := hnd2 List.nodup_nil
  -- assemble the whole run
  let ri1 : RunInfo := { ri with state := 1 }
  let oEnd : List PubOp :=
    [PubOp.pub .runInfo (.runInfo { ri1 with state := 2, result := some ret, exc := some exc })] ++
    [PubOp.pub .traceNos (.traceNos [])] ++
    (st2.infoMap.reverse.map fun e => PubOp.pub .traceInfo (.traceInfo { e.2 with running := false })) ++
    (st2.keys.map fun t => PubOp.endKey (.promptInfoFor t)) ++ [PubOp.endKey .promptNotice]
  let oF : List PubOp :=
    [PubOp.pub .runNo (.runNo r), PubOp.pub .runInfo (.runInfo ri)] ++
      ([PubOp.pub .runInfo (.runInfo ri1)] ++ (o2 ++ (oEnd ++ [])))
  have hrun : runHooks st0 (runLog r script es ret exc) =
      some ({ st2 with runInfo := none, traceNos := [], infoMap := [], keys := [] }, oF) := by
    simp only [runLog, runHooks, step]
    rw [runHooks_append, ho2]
    simp only [runHooks, step, hri, st1]
    rfl
  refine ⟨_, oF, hrun, ?_, ?_, ?_, ?_, rfl, rfl, rfl⟩
  · show tracePubs ([PubOp.pub .runNo (.runNo r), PubOp.pub .runInfo (.runInfo ri)] ++
      ([PubOp.pub .runInfo (.runInfo ri1)] ++ (o2 ++ (oEnd ++ [])))) = _
    simp only [tracePubs_append, hnos2, oEnd, tracePubs_map_info, tracePubs_map_end]
    simp [tracePubs]
  · intro t
    have h1 := hinfo2 t
    have hfin := infoSeq_finish st2.infoMap t (fun e he => (hsim2.infoOk e he).1) (by rw [hsim2.info]; exact hsim2.nodup)
    rw [hsim2.info] at hfin
    show infoSeq ([PubOp.pub .runNo (.runNo r), PubOp.pub .runInfo (.runInfo ri)] ++
      ([PubOp.pub .runInfo (.runInfo ri1)] ++ (o2 ++ (oEnd ++ [])))) t = _
    simp only [infoSeq_append, oEnd, hfin, infoSeq_map_end]
    have h1' : infoSeq o2 t = expectInfo wf t := by simpa [expectInfo] using h1
    rw [h1']
    by_cases ha : t ∈ wf.active
    · have := hsim2.actStarted t ha
      simp [infoSeq, expectInfo, ha, this]
    · by_cases hs : t ∈ wf.started <;> simp [infoSeq, expectInfo, ha, hs]
  · show liveKeys [] ([PubOp.pub .runNo (.runNo r), PubOp.pub .runInfo (.runInfo ri)] ++
      ([PubOp.pub .runInfo (.runInfo ri1)] ++ (o2 ++ (oEnd ++ [])))) = []
    simp only [List.cons_append, List.nil_append, liveKeys_cons, keyStep, liveKeys_append, oEnd, List.append_nil]
    rw [hkeys0]
    rw [liveKeys_irrel st2.keys (st2.infoMap.reverse.map _) (by
      intro op hop
      simp only [List.mem_map] at hop
      obtain ⟨e, _, rfl⟩ := hop
      exact ⟨(by intro t v h; cases h), (by intro t h; cases h)⟩)]
    rw [liveKeys_endAll st2.keys hnd]
    rfl
  · have hsplit : oF = ([PubOp.pub .runNo (.runNo r), PubOp.pub .runInfo (.runInfo ri)] ++
        ([PubOp.pub .runInfo (.runInfo ri1)] ++ (o2 ++
          ([PubOp.pub .runInfo (.runInfo { ri1 with state := 2, result := some ret, exc := some exc })] ++
           [PubOp.pub .traceNos (.traceNos [])] ++
           (st2.infoMap.reverse.map fun e => PubOp.pub .traceInfo (.traceInfo { e.2 with running := false })) ++
           (st2.keys.map fun t => PubOp.endKey (.promptInfoFor t)))))) ++ [PubOp.endKey .promptNotice] := by
      simp only [oF, oEnd, List.append_assoc, List.append_nil]
    rw [hsplit, List.getLast?_append]
    rfl

/-- a killed run is a prefix of a well-formed stream, and every prefix of a well-formed stream is
well formed — so `closed_out_at_end` covers a kill after any number of events -/
theorem wf_prefix_closed (es es' : List Ev) (w w' : W) (h : wrun w (es ++ es') = some w') :
    ∃ w1, wrun w es = some w1 := by
  induction es generalizing w with
  | nil => exact ⟨w, rfl⟩
  | cons e es ih =>
    simp only [List.cons_append, wrun] at h ⊢
    cases hws : wstep w e with
    | none => simp [hws] at h
    | some w1 => simp only [hws] at h ⊢; exact ih w1 h

/-! ### non-vacuity: a concrete well-formed stream with two traces, cut while a prompt is open -/
def demo : List Ev :=
  [.startTrace 1 1 none, .startCall 1 ⟨1, 0, 1, 100, 0⟩, .startCmdloop 1 1, .startPrompt 1 1 1 5,
   .startTrace 2 2 none, .endPrompt 1 1 3, .startCall 2 ⟨2, 0, 4, 200, 1⟩, .startCmdloop 2 2, .startPrompt 2 2 2 5]

example : (wrun {} demo).isSome = true := by decide
example : ((runHooks {} (runLog 7 none demo 0 0)).map fun r => liveKeys [] r.2) = some [] := by decide
example : ((runHooks {} (runLog 7 none demo 0 0)).map fun r => tracePubs r.2) = some [[1], [1, 2], []] := by decide

end NLV.C11
