import NLV.Model.Lifecycle
import NLV.Lemmas.LifeB
/-!
# C16 — the continuous-mode flag and the `Continue` plugins (model A, serial histories)

`run_and_continue()` / `run_continue_and_wait()` publish the flag `True`, register a `Continue` plugin (which answers
every prompt of the run) and start the run; the plugin unregisters itself and publishes `False` when the run has
finished.  A refused request undoes the registration.  A run started with plain `run()` is never auto-answered.
That the non-interactive requests are refused while running comes from the generated table (`dest_run`,
`dest_run_running`).
-/
set_option linter.unusedSimpArgs false
namespace NLV.C16
open NLV.LifeB
open NLV.Life hiding Inv dest_reset_running dest_run_running inv_init inv_of_reach inv_run inv_step reach_step run_cons run_nil

/-- the flag is true exactly while a run started in the non-interactive mode is in flight: `Continue` plugins are
registered only while `running`, and (once the object has been started) the flag is true iff one is registered -/
theorem enabled_iff_continuous_run_in_flight (s : St) (h : Reach s) :
    (s.contPlugins > 0 → s.ms = "running") ∧ (s.cont = some true ↔ s.contPlugins > 0) ∧ s.contPlugins ≤ 1 :=
  ⟨(inv_of_reach h).plugRun, (inv_of_reach h).contIff, (inv_of_reach h).plugLe⟩

theorem contRun_refused (s : St) (call : String) (w : Bool) (hi : Inv s) (hd : dest "run" s.ms = none)
    (hc : s.contClosed = false) :
    (contRun s call w).1.contPlugins = s.contPlugins ∧
    (contRun s call w).1.cont = some (decide (s.contPlugins > 0)) := by
  have h7 := hi.contIff
  by_cases hp : s.contPlugins > 0
  · have hcont : s.cont = some true := h7.mpr hp
    simp [contRun, hc, hd, hcont, hp]
  · have hcont : ¬ s.cont = some true := fun h => hp (h7.mp h)
    have hg : s.cont.getD false = false := (getD_false_eq_false _).mpr hcont
    simp [contRun, hc, hd, hg, hp]

/-- a refused non-interactive request leaves no plugin behind and the flag as it was (false unless a non-interactive
run is in flight); `some (decide (s.contPlugins > 0))` is the elaborated form of the `some (s.contPlugins > 0)` of the
specification (a `Prop` is not coerced to `Bool` under `some`) -/
theorem refused_request_restores (s : St) (h : Reach s) (hd : dest "run" s.ms = none) (hc : s.contClosed = false) :
    (step s Op.runAndContinue).1.contPlugins = s.contPlugins ∧
    (step s Op.runAndContinue).1.cont = some (decide (s.contPlugins > 0)) ∧
    (step s Op.runContinueAndWait).1.contPlugins = s.contPlugins ∧
    (step s Op.runContinueAndWait).1.cont = some (decide (s.contPlugins > 0)) := by
  have hi := inv_of_reach h
  have h1 := contRun_refused s "run_and_continue" false hi hd hc
  have h2 := contRun_refused s "run_continue_and_wait" true hi hd hc
  exact ⟨h1.1, h1.2, h2.1, h2.2⟩

/-- a run started with plain run() is never auto-answered, whatever happened before it: after an accepted run(), no
command reaches the child on any prompt until that run is over, as long as no accepted non-interactive request intervenes
(none can: they are refused while running) -/
theorem plain_run_never_auto_answered (s : St) (h : Reach s) (hd : dest "run" s.ms ≠ none) (env : List Op)
    (henv : ∀ op ∈ env, op = Op.childPrompt ∨ op = Op.runAndContinue ∨ op = Op.runContinueAndWait ∨ op = Op.sendCommand ∨
                         (∃ k, op = Op.signal k) ∨ op = Op.run ∨ (∃ a b c d, op = Op.reset a b c d)) :
    let s1 := (step s Op.run).1
    commandsOf (run s1 (env.filter fun op => op != Op.sendCommand)).2 = 0 ∧ s1.contPlugins = 0 := by
  intro s1
  have hi := inv_of_reach h
  rcases dest_run s.ms with ⟨hm, hd'⟩ | ⟨_, hd'⟩
  · -- accepted: the machine was `initialized`, so no `Continue` plugin is registered and run arguments exist
    have hp : s.contPlugins = 0 := by
      refine Nat.eq_zero_of_not_pos fun hp => ?_
      have := hi.plugRun hp
      rw [hm] at this
      exact absurd this (by decide)
    obtain ⟨ra, hra⟩ := Option.isSome_iff_exists.mp (hi.argSome (Or.inl hm))
    have h1 : s1.ms = "running" ∧ s1.contPlugins = 0 := by
      simp [s1, step, hd', enterRunning, hra, sRunning, hp]
    exact ⟨quiet_run s1 env h1.1 h1.2 henv, h1.2⟩
  · exact absurd hd' hd

/-! ## non-vacuity -/

/-- a non-interactive run: the flag is true, one plugin is registered, and a prompt is answered by a command -/
example :
    let s := (run (St.init 0 1 false false) [Op.start, Op.runAndContinue]).1
    s.cont = some true ∧ s.contPlugins = 1 ∧ s.ms = "running" ∧ commandsOf (step s Op.childPrompt).2 = 1 := by decide

/-- a refused request while a non-interactive run is in flight leaves flag and plugin as they were; when the run has
finished the flag is false and the plugin is gone -/
example :
    let s := (run (St.init 0 1 false false) [Op.start, Op.runAndContinue, Op.runContinueAndWait]).1
    dest "run" "running" = none ∧ s.cont = some true ∧ s.contPlugins = 1 ∧
    (step s (Op.childExit (some 0))).1.cont = some false ∧ (step s (Op.childExit (some 0))).1.contPlugins = 0 := by
  decide

/-- after a non-interactive run, a plain `run()` is accepted and its prompts are not answered -/
example :
    let s := (run (St.init 0 1 false false)
      [Op.start, Op.runAndContinue, Op.childPrompt, Op.childExit (some 0), Op.reset none none none none]).1
    dest "run" s.ms ≠ none ∧
    commandsOf (run (step s Op.run).1 [Op.childPrompt, Op.runAndContinue, Op.childPrompt]).2 = 0 := by decide

end NLV.C16
