import NLV.Model.RunProc
/-!
# C17 — waiting on a child process always yields its outcome and reaps it (logic part)

The decision table of `run_in_process`, for every outcome class, with and without log collection.
Reaping (`exitcode` set, `is_alive()` false) and thread clean-up are `concurrent.futures` behaviour: they are
checked on the real thing by the correspondence sweep, not proved.
-/
namespace NLV.C17
open NLV.RunProc

/-- awaiting the handle never raises -/
theorem await_never_raises (l : Bool) (o : Outcome) : (await l o).raisedOut = false := by
  unfold await; cases futureOf o <;> rfl

/-- at most one of value / exception -/
theorem not_both (l : Bool) (o : Outcome) : ¬ ((await l o).ret = true ∧ (await l o).exc.isSome = true) := by
  unfold await; cases futureOf o <;> simp

/-- the outcome table -/
theorem outcome_table (l : Bool) :
    ((await l (.returned true)).ret = true ∧ (await l (.returned true)).exc = none) ∧
    ((await l (.returned false)).ret = false ∧ (await l (.returned false)).exc.isSome = true) ∧
    (∀ p, (await l (.raised p)).ret = false ∧ (await l (.raised p)).exc.isSome = true) ∧
    ((await l .systemExit).ret = false ∧ (await l .systemExit).exc = some "SystemExit") ∧
    ((await l .keyboardInterruptUncaught).ret = false ∧ (await l .keyboardInterruptUncaught).exc = some "KeyboardInterrupt") ∧
    (∀ n, (await l (.hardExit n)).ret = false ∧ (await l (.hardExit n)).exc = none) ∧
    (∀ s, (await l (.killedBySignal s)).ret = false ∧ (await l (.killedBySignal s)).exc = none) := by
  refine ⟨by simp [await, futureOf], by simp [await, futureOf], ?_, by simp [await, futureOf], by simp [await, futureOf], ?_, ?_⟩
  · intro p; cases p <;> simp [await, futureOf]
  · intro n; simp [await, futureOf]
  · intro s; simp [await, futureOf]

/-- on every path the executor is shut down (in a thread, F-H1) and, when log collection is on, the listener is
stopped after it — nothing is left running -/
theorem cleaned_up_on_every_path (l : Bool) (o : Outcome) :
    Action.shutdownInThread ∈ (await l o).actions ∧
    (l = true → (await l o).actions.getLast? = some Action.stopListener ∧ (await l o).actions.head? = some Action.startListener) ∧
    (l = false → (await l o).actions.getLast? = some Action.shutdownInThread) := by
  unfold await
  cases futureOf o <;> cases l <;> simp

example : (await true (.hardExit 3)).actions =
    [.startListener, .createExecutor, .submit, .awaitFuture, .shutdownInThread, .stopListener] := by decide

end NLV.C17
