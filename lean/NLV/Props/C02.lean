import NLV.Model.Lifecycle
import NLV.Lemmas.LifeA
import NLV.Lemmas.LifeC02
/-!
# C02 — every started run finishes, exactly once

Theorems over model A for **every** history (serial or not) from every initial configuration.  An accepted `run()`
starts exactly one child and reports the run `running`; whatever the environment does meanwhile (prompts, commands,
signals), the child's exit — with a result or without one — moves the state out of `running`, releases every waiting
call, reports the run `finished` exactly once under the number it was started with, and makes the result available;
a second exit notification does nothing.  The strengthened invariant (`Inv2`) lives in `NLV/Lemmas/LifeC02.lean`.
-/
namespace NLV.C02
open NLV.Life NLV.LifeC02

/-- an accepted run request starts exactly one child and reports the run as `running` under the run's number -/
theorem run_starts (s : St) (h : Reach s) (hd : dest "run" s.ms ≠ none) :
    ∃ ra, s.runArg = some ra ∧ (step s Op.run).1.ms = "running" ∧ (step s Op.run).1.childAlive = true ∧
      (step s Op.run).1.lastResult = none ∧ runInfosOf (step s Op.run).2 = [(ra.runNo, "running")] ∧
      (step s Op.run).1.runArg = some ra := by
  obtain ⟨h1, -, h3⟩ := inv_of_reach h
  obtain ⟨ms, started, closedFlag, stmt, nextRunNo, tt, tm, runArg, cont, contClosed, contPlugins, childAlive, everRan,
    lastResult, waitBlocked, closeBlocked, children⟩ := s
  simp only at h1 h3 hd
  have hms := states_cases h1
  clear h1 h
  rcases hms with rfl | rfl | rfl | rfl | rfl <;> simp at hd
  cases runArg with
  | none => exact absurd rfl (h3 rfl)
  | some ra =>
    refine ⟨ra, rfl, ?_⟩
    simp [step, enterRunning, sRunning, runInfosOf]

/-- every started run finishes, however it ends: whatever else the environment does meanwhile (prompts, commands, signals),
as soon as the child exits — with a result, or with none (terminated, killed, hard exit) — the state leaves `running` for
`finished` (or `closed` if a close() was waiting), no child is alive, anyone waiting for the run is released, and the
result reported afterwards is that of this run -/
theorem run_always_finishes (s : St) (h : Reach s) (hr : s.ms = "running")
    (env : List Op) (henv : ∀ op ∈ env, op.isLifecycle = false ∧ ∀ r, op ≠ Op.childExit r) (r : Option Nat) :
    let s2 := (run s env).1
    let s3 := (step s2 (Op.childExit r)).1
    s2.ms = "running" ∧ (s3.ms = "finished" ∨ s3.ms = "closed") ∧ s3.childAlive = false ∧ s3.waitBlocked = false ∧
    s3.closeBlocked = false ∧ s3.lastResult = some r ∧ s3.runArg = none ∧
    (s.waitBlocked = true → Obs.ret "run_continue_and_wait" none ∈ (step s2 (Op.childExit r)).2) ∧
    (Obs.pubState "finished" ∈ (step s2 (Op.childExit r)).2) := by
  intro s2 s3
  have hs2 : s2 = s := run_env s env henv
  simp only [s3, hs2]
  obtain ⟨-, h2, -⟩ := inv_of_reach h
  obtain ⟨ms, started, closedFlag, stmt, nextRunNo, tt, tm, runArg, cont, contClosed, contPlugins, childAlive, everRan,
    lastResult, waitBlocked, closeBlocked, children⟩ := s
  simp only at h2 hr
  subst hr
  have hca : childAlive = true := h2.2 rfl
  subst hca
  clear h h2 hs2 s3 s2
  cases waitBlocked <;> cases closeBlocked <;> simp [step, finishRun, doCloseTrigger, sRunning, sFinished]

/-- the run's record is reported `finished` exactly once, under the same run number it was started with, and nothing the
environment does before the child exits reports anything on `run_info` -/
theorem run_info_once (s : St) (h : Reach s) (hr : s.ms = "running") (ra : RunArg) (hra : s.runArg = some ra)
    (env : List Op) (henv : ∀ op ∈ env, op.isLifecycle = false ∧ ∀ r, op ≠ Op.childExit r) (r : Option Nat) :
    runInfosOf (run s env).2 = [] ∧ runInfosOf (step (run s env).1 (Op.childExit r)).2 = [(ra.runNo, "finished")] := by
  refine ⟨run_env_runInfos s env henv, ?_⟩
  rw [run_env s env henv]
  obtain ⟨-, h2, -⟩ := inv_of_reach h
  obtain ⟨ms, started, closedFlag, stmt, nextRunNo, tt, tm, runArg, cont, contClosed, contPlugins, childAlive, everRan,
    lastResult, waitBlocked, closeBlocked, children⟩ := s
  simp only at h2 hr hra
  subst hr hra
  have hca : childAlive = true := h2.2 rfl
  subst hca
  clear h h2
  cases waitBlocked <;> cases closeBlocked <;>
    simp [step, finishRun, doCloseTrigger, sRunning, sFinished, runInfosOf_cons]

/-- while a run is in progress nothing is reported as its result, and a run is in progress only with its arguments in place -/
theorem no_result_while_running (s : St) (h : Reach s) (hr : s.ms = "running") :
    s.lastResult = none ∧ s.runArg.isSome = true := by
  have h4 := (inv2_of_reach h).running hr
  refine ⟨h4.1, ?_⟩
  cases hra : s.runArg with
  | none => exact absurd hra h4.2
  | some ra => rfl

/-- after a child has exited, a second exit notification does nothing (a run finishes once) -/
theorem exit_once (s : St) (h : Reach s) (hr : s.ms ≠ "running") (r : Option Nat) : step s (Op.childExit r) = (s, []) := by
  have h2 := (inv_of_reach h).alive
  have hca : s.childAlive = false := by
    cases hc : s.childAlive with
    | false => rfl
    | true => exact absurd (h2.1 hc) hr
  simp [step, hca]

/-- a waiting `run_continue_and_wait()` or `close()` exists only while a run is in progress (so the releases in
`run_always_finishes` are the only ones) -/
theorem blocked_only_while_running (s : St) (h : Reach s) :
    (s.waitBlocked = true → s.ms = "running") ∧ (s.closeBlocked = true → s.ms = "running") :=
  ⟨(inv2_of_reach h).waitRunning, (inv2_of_reach h).closeRunning⟩

/-! ## non-vacuity checks -/

/-- a run ending with a result: `running` is reported once, `finished` once, under run number 1; the result is kept;
a second exit notification changes nothing -/
example :
    let s := (run (St.init 0 1 false false) [.start, .run]).1
    (s.ms, s.childAlive, s.lastResult, s.runArg.map (·.runNo)) = ("running", true, none, some 1) ∧
    runInfosOf (run (St.init 0 1 false false) [.start, .run, .childPrompt, .sendCommand, .childExit (some 7)]).2 =
      [(1, "initialized"), (1, "running"), (1, "finished")] ∧
    (let s' := (run s [.childPrompt, .sendCommand, .childExit (some 7)]).1
     (s'.ms, s'.childAlive, s'.lastResult, s'.runArg, s'.children) = ("finished", false, some (some 7), none, 1)) ∧
    (run s [.childExit (some 7), .childExit (some 8)]).1 = (run s [.childExit (some 7)]).1 ∧
    (step (run s [.childExit (some 7)]).1 (.childExit (some 8))).2 = [] := by decide

/-- a run killed: `run_continue_and_wait()` blocks, the environment sends `kill`, the child exits without a result;
the waiting call is released, the state is `finished`, the result is "none" -/
example :
    let s := (run (St.init 0 1 false false) [.start, .runContinueAndWait]).1
    (s.ms, s.childAlive, s.waitBlocked) = ("running", true, true) ∧
    (run s [.signal "kill", .childExit none]).2.filter
      (fun o => match o with | Obs.ret _ _ => true | Obs.pubState _ => true | Obs.pubRunInfo _ _ => true | _ => false) =
      [Obs.ret "kill" none, Obs.pubRunInfo 1 "finished", Obs.pubState "finished",
       Obs.ret "run_continue_and_wait" none] ∧
    (let s' := (run s [.signal "kill", .childExit none]).1
     (s'.ms, s'.childAlive, s'.waitBlocked, s'.lastResult, s'.runArg) = ("finished", false, false, some none, none)) := by
  decide

/-- close() waiting for the run: the run still finishes (reported `finished` once), then the state is `closed` and
close() returns -/
example :
    let s := (run (St.init 0 1 false false) [.start, .run, .close]).1
    (s.ms, s.childAlive, s.closeBlocked) = ("running", true, true) ∧
    (step s (.childExit (some 3))).2.filter
      (fun o => match o with | Obs.ret _ _ => true | Obs.pubState _ => true | Obs.pubRunInfo _ _ => true | _ => false) =
      [Obs.pubRunInfo 1 "finished", Obs.pubState "finished", Obs.pubState "closed", Obs.ret "close" none] ∧
    (let s' := (step s (.childExit (some 3))).1
     (s'.ms, s'.childAlive, s'.closeBlocked, s'.lastResult, s'.runArg) = ("closed", false, false, some (some 3), none)) := by
  decide

/-- the hypotheses of the theorems are satisfiable: the state after `start, run` is reachable and `running`, `run` is
accepted after `start`, and the environment list used above qualifies -/
example :
    Reach (run (St.init 0 1 false false) [.start, .run]).1 ∧
    (run (St.init 0 1 false false) [.start, .run]).1.ms = "running" ∧
    dest "run" (run (St.init 0 1 false false) [.start]).1.ms ≠ none ∧
    (∀ op ∈ [Op.signal "kill", Op.childPrompt, Op.sendCommand], op.isLifecycle = false ∧ ∀ r, op ≠ Op.childExit r) :=
  ⟨reach_run (reach_init ..) _, by decide, by decide, by simp [Op.isLifecycle]⟩

end NLV.C02
