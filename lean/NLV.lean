import NLV.Model.PubSub
import NLV.Lemmas.PubSub
import NLV.Props.C08
import NLV.Driver.PubSub
