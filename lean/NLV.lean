import NLV.Model.PubSub
import NLV.Lemmas.PubSub
import NLV.Props.C08
import NLV.Driver.PubSub
import NLV.Model.Lines
import NLV.Props.C13
import NLV.Driver.Lines
