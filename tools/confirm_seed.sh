#!/bin/bash
# tools/confirm_seed.sh <seed-id> <dir with patch.diff demo.py notes.md> <property>
# Confirms a seeded defect in a scratch worktree (outside /repo and /verif) and stores it under /verif/seeded/<seed-id>/.
set -u
ID=$1; SRC=$2; PROP=$3
WT=$(mktemp -d /tmp/confirm-XXXXXX)
rmdir "$WT"
git -C /repo worktree add -q "$WT" HEAD || exit 2
trap 'git -C /repo worktree remove --force "$WT" >/dev/null 2>&1; rm -rf "$WT"' EXIT
cd "$WT"
git apply "$SRC/patch.diff" || { echo "patch does not apply"; exit 2; }
/venv/bin/python -m pytest -q -p no:cacheprovider --timeout=900 --continue-on-collection-errors -rf --deselect tests/utils/run/test_signal.py::test_interrupt --deselect tests/utils/run/test_signal.py::test_interrupt_catch > /tmp/confirm-$ID.tests 2>&1
SUITE=$(tail -1 /tmp/confirm-$ID.tests)
FAILED=$(grep '^FAILED' /tmp/confirm-$ID.tests | awk '{print $2}')
if [ -n "$FAILED" ]; then
  # timing-sensitive tests can fail under load: re-run the failed ones alone, once
  if /venv/bin/python -m pytest -q -p no:cacheprovider --timeout=900 $FAILED > /tmp/confirm-$ID.retests 2>&1; then
    SUITE="$SUITE; re-run alone: $(tail -1 /tmp/confirm-$ID.retests) => all passed"
    SUITE=${SUITE//failed/FAILED-THEN-PASSED-ALONE}
  fi
fi
PYTHONPATH=$WT timeout 300 /venv/bin/python "$SRC/demo.py" > /tmp/confirm-$ID.demo_patched 2>&1; RC_P=$?
cd /; PYTHONPATH=/repo timeout 300 /venv/bin/python "$SRC/demo.py" > /tmp/confirm-$ID.demo_clean 2>&1; RC_C=$?
echo "suite: $SUITE"; echo "demo patched rc=$RC_P clean rc=$RC_C"
if [[ "$SUITE" == *passed* && "$SUITE" != *failed* && $RC_P -ne 0 && $RC_C -eq 0 ]]; then
  mkdir -p /verif/seeded/$ID
  cp "$SRC/patch.diff" "$SRC/demo.py" /verif/seeded/$ID/
  [ -f "$SRC/notes.md" ] && cp "$SRC/notes.md" /verif/seeded/$ID/
  /venv/bin/python - "$ID" "$PROP" "$SUITE" "$RC_P" "$RC_C" <<'PY'
import json,sys,re
i,prop,suite,rp,rc=sys.argv[1:]
notes=open(f'/verif/seeded/{i}/notes.md').read() if __import__('os').path.exists(f'/verif/seeded/{i}/notes.md') else ''
json.dump({'id':i,'property':prop,'origin':'independent sub-agent given only the property text and a scratch worktree',
 'needs_to_manifest':'see notes.md','confirmed':{'suite_with_patch':suite,'demo_rc_with_patch':int(rp),'demo_rc_clean':int(rc),
 'how':'tools/confirm_seed.sh: fresh worktree of /repo HEAD, git apply, pinned suite (2 always-failing tests deselected), demo on both trees'},
 'caught_by':[]},open(f'/verif/seeded/{i}/meta.json','w'),indent=1)
PY
  echo "CONFIRMED $ID"
else
  echo "NOT CONFIRMED $ID"
fi
