#!/usr/bin/env python3
"""Apply each seeded defect to /repo, run the given checks, undo. Usage: tools/seed_matrix.py [SEED ...] [-- CHECK ...]
Writes seeded/MATRIX.json (merged) — which checks catch which seeded change."""
import json, subprocess, sys, time
from pathlib import Path
V = Path('/verif')
args = sys.argv[1:]
if '--' in args:
    i = args.index('--'); seeds, checks = args[:i], args[i+1:]
else:
    seeds, checks = args, []
all_seeds = sorted(p.name for p in (V / 'seeded').iterdir() if p.is_dir() and not p.name.startswith('_'))
seeds = seeds or all_seeds
mpath = V / 'seeded' / 'MATRIX.json'
matrix = json.loads(mpath.read_text()) if mpath.exists() else {}
for s in seeds:
    meta = json.loads((V / 'seeded' / s / 'meta.json').read_text())
    cks = checks or [meta['property']]
    assert subprocess.run(['git', '-C', '/repo', 'status', '--porcelain'], capture_output=True, text=True).stdout.strip() == '', '/repo not clean'
    r = subprocess.run(['git', '-C', '/repo', 'apply', str(V / 'seeded' / s / 'patch.diff')])
    if r.returncode != 0:
        print(s, 'PATCH DOES NOT APPLY'); continue
    try:
        for c in cks:
            t0 = time.time()
            p = subprocess.run(['timeout', '1500', str(V / 'check'), c], cwd=V, capture_output=True, text=True)
            viol = [l for l in p.stdout.splitlines() if l.startswith('VIOLATION')]
            noinput = [l for l in viol if l.endswith('no-failing-input-found')]
            res = {'exit': p.returncode, 'violations': len(viol), 'with_failing_input': len(viol) - len(noinput),
                   'first': (p.stderr.strip().splitlines()[-2:] or [''])[0][:300], 'wall_s': round(time.time() - t0, 1)}
            matrix.setdefault(s, {})[c] = res
            print(s, c, 'CAUGHT' if p.returncode == 1 else ('MISSED' if p.returncode == 0 else f'ERROR rc={p.returncode}'), res['with_failing_input'], res['wall_s'], flush=True)
    finally:
        subprocess.run(['git', '-C', '/repo', 'checkout', '--', '.'])
        subprocess.run(['git', '-C', '/repo', 'clean', '-fdq'])
mpath.write_text(json.dumps(matrix, indent=1))
