#!/usr/bin/env python3
"""Which checks catch which seeded change.  Usage: tools/seed_matrix.py [SEED ...] [-- CHECK ... | -- all]

Works on a scratch copy of /verif and a scratch worktree of /repo (both under /tmp, removed at the end), so neither /repo
nor /verif's evidence is touched while it runs: each seed's patch is applied to the worktree, the checks are run from the
copy with NLV_REPO / PYTHONPATH pointing at the worktree, the worktree is reset.  Results are merged into
seeded/MATRIX.json.  Without CHECKs a seed is run against the check of its own property only."""
import json, os, shutil, subprocess, sys, tempfile, time
from pathlib import Path
V = Path(__file__).resolve().parent.parent
args = sys.argv[1:]
if '--' in args:
    i = args.index('--'); seeds, checks = args[:i], args[i+1:]
else:
    seeds, checks = args, []
all_seeds = sorted(p.name for p in (V / 'seeded').iterdir() if p.is_dir() and not p.name.startswith('_'))
seeds = seeds or all_seeds
claimed = [c['property_id'] for c in json.loads((V / 'MANIFEST.json').read_text())['checks']]
if checks == ['all']:
    checks = claimed
mpath = V / 'seeded' / 'MATRIX.json'
base = Path(tempfile.mkdtemp(prefix='nlv-matrix-'))
wt, vc = base / 'repo', base / 'verif'
try:
    subprocess.run(['git', '-C', '/repo', 'worktree', 'add', '-q', '--detach', str(wt), 'HEAD'], check=True)
    subprocess.run(['rsync', '-a', '--exclude', '.git', '--exclude', 'replays', '--exclude', 'evidence', '--exclude', '__pycache__', f'{V}/', f'{vc}/'], check=True)
    (vc / 'evidence').mkdir(exist_ok=True)
    env = dict(os.environ, NLV_REPO=str(wt), PYTHONPATH=str(wt))
    for s in seeds:
        if s == 'CLEAN':          # control: the unchanged tree, every check must pass in the scratch set-up too
            cks = checks or claimed
            r = subprocess.run(['true'])
        else:
            meta = json.loads((V / 'seeded' / s / 'meta.json').read_text())
            cks = checks or [meta['property']]
            r = subprocess.run(['git', '-C', str(wt), 'apply', str(V / 'seeded' / s / 'patch.diff')])
        if r.returncode != 0:
            print(s, 'PATCH DOES NOT APPLY', flush=True); continue
        try:
            for c in cks:
                if c not in claimed:
                    print(s, c, 'NOT CLAIMED', flush=True); continue
                t0 = time.time()
                out = base / f'{s}-{c}.out'
                with open(out, 'w') as fh:
                    p = subprocess.run(['setsid', 'timeout', '-k', '10', '1500', str(vc / 'check'), c], cwd=vc, stdout=fh, stderr=subprocess.STDOUT, env=env)
                lines = out.read_text().splitlines()
                viol = [k for k, l in enumerate(lines) if l.startswith('VIOLATION')]
                noinput = [k for k in viol if lines[k].endswith('no-failing-input-found')]
                first = lines[viol[0] + 1].strip()[:300] if viol and viol[0] + 1 < len(lines) else ''
                res = {'exit': p.returncode, 'violations': len(viol), 'with_failing_input': len(viol) - len(noinput), 'first': first,
                       'wall_s': round(time.time() - t0, 1)}
                import fcntl
                with open(str(mpath) + '.lock', 'w') as lk:          # several runners may work on disjoint seeds at the same time
                    fcntl.flock(lk, fcntl.LOCK_EX)
                    matrix = json.loads(mpath.read_text()) if mpath.exists() else {}
                    matrix.setdefault(s, {})[c] = res
                    mpath.write_text(json.dumps(matrix, indent=1, sort_keys=True))
                print(s, c, 'CAUGHT' if p.returncode == 1 else ('missed' if p.returncode == 0 else f'ERROR rc={p.returncode}'),
                      res['with_failing_input'], res['wall_s'], flush=True)
        finally:
            subprocess.run(['git', '-C', str(wt), 'checkout', '--', '.'])
            subprocess.run(['git', '-C', str(wt), 'clean', '-fdq'])
finally:
    subprocess.run(['git', '-C', '/repo', 'worktree', 'remove', '--force', str(wt)], capture_output=True)
    shutil.rmtree(base, ignore_errors=True)
    subprocess.run(['git', '-C', '/repo', 'worktree', 'prune'])
