#!/usr/bin/env python3
"""Splice ASBUILT.part.md (section 0) and the seed matrix (from seeded/MATRIX.json) into DESIGN.md between markers."""
import json, re
from pathlib import Path
V = Path(__file__).resolve().parent.parent
m = json.loads((V / 'seeded' / 'MATRIX.json').read_text())
seeds = sorted(k for k in m if k != 'CLEAN')
rows = ['| seed | breaks | file changed | trigger (from the seed\'s notes) | caught by (quick tier, seed 0) | missed by |', '|---|---|---|---|---|---|']
for s in seeds:
    d = V / 'seeded' / s
    if not d.exists():
        continue
    meta = json.loads((d / 'meta.json').read_text())
    diff = (d / 'patch.diff').read_text()
    files = sorted(set(re.findall(r'^diff --git a/(\S+)', diff, re.M)))
    notes = (d / 'notes.md').read_text() if (d / 'notes.md').exists() else ''
    trig = ''
    mm = re.search(r'\*\*(?:What it needs to manifest|Trigger|What it needs)[^*]*\*\*[:.]?\s*(.+?)(?:\n\n|\n\*\*)', notes, re.S)
    if mm:
        trig = ' '.join(mm.group(1).split())[:220]
    caught = []
    missed = []
    for c, r in sorted(m[s].items()):
        if r['exit'] == 1:
            caught.append(f"{c} ({r['with_failing_input']} failing input{'s' if r['with_failing_input'] != 1 else ''})" if r['with_failing_input'] else f'{c} (no-failing-input-found)')
        elif r['exit'] == 0:
            missed.append(c)
        else:
            missed.append(f'{c} (error rc={r["exit"]})')
    rows.append(f"| {s} | {meta['property']} | {', '.join(f.replace('nextline/', '') for f in files)} | {trig} | {', '.join(caught) or '—'} | {', '.join(missed) or '—'} |")
clean = m.get('CLEAN', {})
ctl = 'Control (`CLEAN`: the unchanged tree in the same scratch set-up): ' + (', '.join(f"{c} {'passes' if r['exit'] == 0 else 'ALARM'}" for c, r in sorted(clean.items())) or 'not run') + '.'
table = '\n'.join(rows) + '\n\n' + ctl + '\n'
part = (V / 'ASBUILT.part.md').read_text().replace('@@MATRIX@@', table)
p = V / 'DESIGN.md'
s = p.read_text()
B, E = '<!-- ASBUILT:BEGIN -->', '<!-- ASBUILT:END -->'
block = f'{B}\n{part}\n{E}\n'
if B in s:
    s = s[:s.index(B)] + block + s[s.index(E) + len(E) + 1:]
else:
    anchor = '## 1. The code, and the three dependency facts that matter'
    s = s.replace(anchor, block + '\n---\n\n' + anchor, 1)
p.write_text(s)
print('spliced', len(seeds), 'seeds')
