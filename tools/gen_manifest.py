#!/usr/bin/env python3
"""Regenerates /verif/MANIFEST.json from the table below (kept in one place so it stays valid)."""
import json
from pathlib import Path

VERIF = Path(__file__).resolve().parent.parent
ALL = [f'C{i:02d}' for i in range(1, 20)]

COMMON_NOTE = ('Trusted base: Lean 4.33.0 kernel, axioms ⊆ {propext, Classical.choice, Quot.sound} audited by #print axioms on '
               'every run, no sorry/native_decide/own axioms (grep audit); the translator and the correspondence harness; '
               'CPython asyncio/threading/multiprocessing/bdb, transitions and apluggy are modelled, not verified. ')

CLAIMED = {
    'C08': dict(
        text=('Theorems over model B (PubSubItem + PubSub broker) for every operation sequence of any length: delivery invariant '
              '(exactly once, in order, nothing else), one agreed order, specified start (nothing / latest / cache since clear), '
              'clean termination after end with exactly the specified items, latest = last of the lifetime, early-leaver frame, '
              'end starts a new lifetime, close ends every key. Tied to /repo by exact differential correspondence of the '
              'compiled Lean model against the real classes on all short op sequences and seeded random long ones, plus an '
              'independent oracle and concurrent publishers under a permuting event loop.' 
              'Also theorems about close() in flight (the real close() suspends between keys): a key leaves the dict only with its item closed, a closed item stays closed, and whatever other tasks do between the iterations, when the loop ends every key that was in the dict — or was created meanwhile — has been closed; the atomic close of the serial model equals the loop run without interference. Tied by a close-race scenario (subscribe / publish while close() is in flight, random schedules): every subscription started before close() returned terminates.' 
              'Also 65–200 subscribers on one topic with some leaving early.' 
              ' Every operation of a scenario is bounded in event-loop turns: an aclose/end/close that never returns is reported with the operations before it.' 
              " Also two or three brokers alive at once with equal keys: each broker's topics, latest values and endings are its own."),
        design='§6 C08, §5 model B',
        note=COMMON_NOTE + 'Assumes F2 (publishing never suspends), which the permuting-loop runs exercise.',
        technique='Lean 4 invariant proof by induction over operation lists + differential correspondence (hand-written model)'),
    'C13': dict(
        text=('Theorems over model K (ReadLinesByKey/AssignKey/peek write wrapper) for every sequence of (key, text) writes — any '
              'interleaving of keys, any splitting, any characters: every reported piece ends with a newline; per key the reported '
              'text is, in order, exactly the written text up to the last newline (nothing lost, nothing duplicated); writes '
              'without a current trace are not reported; the real stdout receives every write unchanged. Tied to /repo by exact '
              'differential correspondence with the real peek_stdout_by_key on all short write sequences and random unicode ones, '
              'plus generated scripts printing from threads and asyncio tasks through the real child against an oracle '
              '(attribution, whole lines, no debugger text, real stdout complete).' 
              'Also 3–6 real threads writing partial lines at the same time under a 1 µs thread-switch interval through the real trace machinery: what each thread wrote is what is reported for its trace.' 
              'Also texts with CR, VT, FF, FS…US, NEL, LS, PS, and two runs of one object (text per run and trace).' 
              ' Also executor threads reused by sequential to_thread / run_in_executor / call_soon / copy_context().run calls, with lines assembled across the hand-over; with thread tracing off nothing a pool thread writes may be reported.' 
              ' Also threads that outlive the script and write full and partial lines after its last statement, in-process and in a real child.'),
        design='§6 C13, §5 model K',
        note=COMMON_NOTE + 'Which trace number is current at a write is model D1 (C06); absence of Pdb text in reported output is '
             'checked on real-child runs only (Pdb writes to its private StdInOut stream).',
        technique='Lean 4 invariant proof over write lists + differential correspondence (hand-written model) + real-child oracle'),
    'C11': dict(
        text=('Theorems over model C (the nine registrars behind the on_event_in_process dispatcher) for every well-formed event '
              'stream and every prefix of one (a kill), any number of traces/trace calls/prompts, any previous registrar state: no '
              'hook raises; the trace_nos value is, at every moment, the traces started and not ended in start order and is published '
              'exactly at starts/ends and as () at run end; every started trace gets trace_info running then finished exactly once '
              '(also when killed); the registrars\' key set equals the per-trace prompt topics published and not ended since, for every '
              'event stream, and at run end every such topic and prompt_notice are ended (so, with C08 ends_cleanly, every subscriber '
              'attached while they were live terminates). Prompt open/closed and notice/start matching are carried by the exact '
              'correspondence and the oracle, not yet by a theorem. Tied to /repo by driving the real registrars through the real hook '
              'caller of a real Nextline object with generated and exhaustive small streams at every kind of prefix (publications '
              'compared per hook call and per key with the compiled model), eager and lazy subscribers attached at random points, and '
              'recorded real-child runs.' 
              'Also end to end through the real run session: a simulated child emits a well-formed stream faster than a slow plugin lets the relay deliver it, then exits or is killed with traces and prompts open; at finished the active set is empty, prompt notices match prompt starts, subscribers have terminated (random schedules).' 
              'Trace numbers start from arbitrary bases; subscribers attach between the start of a trace and its first prompt.' 
              ' Also a hook busy for seconds while the run ends or is killed: run info, trace info and the active ids are still closed out.'),
        design='§6 C11, §5 model C',
        note=COMMON_NOTE + 'Well-formedness of the child\'s stream is property C09; F2 atomicity of hook implementations is assumed and '
             'exercised. Clauses "prompt open then closed with its command" and "notices match starts" are checked by correspondence + oracle only.',
        technique='Lean 4 simulation/invariant proof over event lists + differential correspondence (hand-written model) + oracle'),
    'C19': dict(
        text=('Theorems over model J (labelled transition systems of merge_aiters, agen_with_wait, to_aiter) for every label list — any number and '
              'length of sources, every completion order including several completions before one wake-up and completions while suspended at '
              'yield, every set.pop() order: per source, what the consumer received is in order and without duplication a prefix of what the '
              'source produced, and all of it once the merged iteration has ended; tags name existing sources; no reachable non-final state is '
              'deadlocked; agen_with_wait yields a prefix of the wrapped iterator (all of it when it ends normally), a wake-up that yields or '
              'ends has seen no failed awaited task, and a raised exception is that of an awaited task; to_aiter yields exactly the iterable. '
              'Tied to /repo by trace acceptance: the real helpers run under a permuting event loop (all schedules of small configurations by '
              'DFS, seeded random schedules of larger ones) with instrumented sources, and the exact observed label sequence must be accepted '
              'by the compiled model and end in a terminal state; plus an independent oracle.' 
              'Also items of any kind (None, falsy values, exceptions as values), an exhausted to_aiter staying exhausted, consumers sharing one wrapper.' 
              ' Also a to_aiter request cancelled 0–3 loop steps after it was made, iteration continued: nothing goes missing (without a thread the wrapper never suspends).' 
              ' Also to_aiter(thread=True) sources whose next() blocks until the consumer has received an item of another source (ping-pong, request-reply, one slow source).'),
        design='§6 C19, §5 model J',
        note=COMMON_NOTE + 'Termination is shown as absence of deadlock under the assumption that pending source tasks eventually complete and the '
             'consumer keeps iterating; asyncio.wait/ensure_future semantics are modelled.',
        technique='Lean 4 invariant proof over label lists (LTS) + trace-acceptance correspondence under a permuting event loop'),
    'C07': dict(
        text=('Theorems over model E (incoming FIFO → relay thread → per-trace FIFOs → prompt loop, single prompt counter) for every label list, '
              'i.e. every stream of commands and every interleaving with trace starts/ends and prompt openings: an executed command was '
              'addressed to exactly that trace and prompt with that text; every sent command is executed or discarded at most once and none '
              'vanishes (ids in transit/executed/discarded are a permutation of the ids sent); prompt numbers are unique and each prompt is '
              'answered at most once; a command executes only at the prompt open in its trace and closes it; a mismatching command is '
              'discarded and the prompt stays open; once answered, a prompt number never executes again in any continuation (stale/duplicate); '
              'a command for an unknown trace is dropped and nothing else changes; FIFO order per trace. Tied to /repo by exact correspondence of '
              'the real Prompt plugin, relay_commands thread, PromptFunc counter and Repeater in a real plugin manager with simulated traces, on '
              'all decoy streams of bounded length and seeded random op sequences (phase-synchronised), plus real-child runs with five decoys '
              'around every genuine answer.' 
              'Also concurrent programs through the real trace machinery in-process with one thread\'s first prompt withheld, every genuine answer surrounded by decoys incl. this prompt\'s number addressed to every other live trace; the command recorded when a prompt closes must be the one addressed to it.' 
              'Also two runs of one object, the first ended by kill/terminate/interrupt at a prompt; a scenario in which commands get stuck is reported with its operation sequence.' 
              ' Also genuine commands with unusual texts (empty, whitespace, statements with side effects, repeated): executions are counted per addressed command.'),
        design='§6 C07, §5 model E',
        note=COMMON_NOTE + 'The correspondence samples phase-synchronised schedules (the harness waits for queue quiescence); queue.Queue FIFO/thread-safety is CPython behaviour.',
        technique='Lean 4 invariant proof over label lists + differential correspondence (hand-written model) + real-child decoy runs'),
    'C18': dict(
        text=('Theorems over model I (monitor thread of ThreadDoneCallback split at every access to shared state, the two locked blocks atomic, '
              'the exit check reading the closed flag before the active set; TaskDoneCallback with asyncio done-callback semantics) for every '
              'label list, i.e. every interleaving of thread starts/deaths/registrations with the monitor\'s steps and close(): a callback runs '
              'only for a registered thread that has ended; never more callbacks than registrations (at most one for a thread registered once); a '
              'registered thread is never forgotten; with all registrations preceding close(), close() returns only after the monitor exited '
              'with an empty active set and every registered thread has ended and been called back; a callback\'s exception is collected and '
              're-raised by close(); the monitor is never stuck; tasks likewise. Tied to /repo by trace acceptance under forced preemption '
              '(sys.monitoring INSTRUCTION events) of the monitor before every bytecode offset of _monitor and of a registering thread before '
              'every offset of register, with another thread registering / ending / close() being called in the gap; TaskDoneCallback under the '
              'permuting loop; plus an independent oracle.' 
              'Also one TaskDoneCallback shared by tasks of two threads with their own event loops: thread A parked before every bytecode of _callback while thread B registers / is called back; close() must neither return early nor hang (the model\'s labels are atomic, which is exactly what this validates).' 
              'Also callbacks raising exceptions that are not Exceptions, and the consequence named by the property — every trace that starts ends — on programs whose threads/tasks end by return, raise, cancellation, being left pending or not being joined.' 
              ' Also the union helper (ThreadTaskDoneCallback): threads registered after close()/aclose() has begun by a still-running registered task or thread — each is called back exactly once before close returns.' 
              " Model D1t (the exit of the child's plugin context on top of the trace model D1: it waits for every other trace, afterwards nothing is numbered or started and only the main thread's trace can still end) with theorems close_waits, closed_stays, no_trace_starts_after_close, after_close_only_a_trace_end, every_started_trace_ended — the property's last sentence for every execution of the model — tied to the code by running the event streams of completed in-process runs through the compiled model with the exit placed as late as possible." 
              ' Also fire-and-forget tasks (no reference kept) parked on futures only they reference, with garbage collections before the loop is torn down: called back exactly once.'),
        design='§6 C18, §5 model I',
        note=COMMON_NOTE + 'GIL switch points other than the forced ones are whatever CPython produces; registrations after close() are outside the '
             'documented contract. Two defects found and fixed here: F-I1 (lost registration) and F-I2 (exit-check read order).',
        technique='Lean 4 invariant proof over label lists (LTS) + trace-acceptance correspondence under bytecode-level forced preemption'),
    'C01': dict(
        text=('Theorems: the FSM table regenerated from nextline/fsm/config.py contains only the documented transitions, closed has no way out, one transition per (trigger, source), invalid triggers are neither ignored nor queued (decide on the generated table); a refused run/reset raises MachineError and changes nothing, for every state; which requests are refused; in every reachable state of model A every operation publishes on state_name a walk along documented edges from the current state to the new one, and the attribute changes only that way; closed is never left. Tied to /repo by the translator (table) and by exact correspondence of model A with the real Nextline + simulated child on all short serial histories and seeded random long ones (stock-order and random schedules), plus overlapping calls from 2–3 tasks under a permuting event loop with the state attribute sampled after every scheduler step (oracle).' 
              'The operation alphabet also has a script given as a path to a missing file, a hard exit with a positive status, a second plugin registered/unregistered, a plugin whose on_end_run raises; the oracle also demands that a request the diagram does not allow is refused with an error.' 
              " Also a lifecycle request issued from inside a hook (a plugin starting the run from on_initialize_run): no state is ever reported that is not the current one, the subscription yields the reports (the unchanged tree's own deviation there — the outer transition's destination is never reported — is the open finding F-A6)."),
        design='§6 C01, App. A',
        note=COMMON_NOTE + 'Theorems are about serial histories (no lifecycle call issued while another is in progress), which is where the property can hold: overlapping calls interfere through transitions\' cancellation of in-flight triggers — known findings F-A2/F-A2c/F-A2d/F-A3 (open), matched by violation kind so that any other misbehaviour under overlap is still reported. transitions/apluggy/asyncio are modelled, not verified.',
        technique='Lean 4 proofs over a deterministic API-level model + generated FSM table (translator) + differential correspondence with a simulated child under a permuting event loop'),
    'C04': dict(
        text=('Theorems over model K (exception clean-up in spawned/plugin/plugins/compose.py and the runner): for every exception whose traceback is the '
              'runner\'s own frames followed by user frames, what is reported starts at the first user frame and keeps every user frame in order; a '
              'KeyboardInterrupt that surfaced inside Nextline\'s trace machinery is cut back to the user frames; a SyntaxError from the script\'s own '
              'compilation shows no Nextline frame; no Nextline frame survives in any cleaned traceback; every character the script writes reaches the '
              'real stdout unchanged and in order (C13\'s pass-through theorem). That CPython computes the same with the trace function installed is not '
              'a theorem: it is tied by a differential correspondence — generated programs (control flow, defs, classes, generators, lambdas, caught and '
              'uncaught exceptions, threads, asyncio tasks, executor threads; two thirds carrying introspective statements: eagerly evaluated annotations, '
              'namespace listings, exception state, closures, generator finalisation) × statement form {source text, path, callable, code object} × command '
              'policy × trace_threads × trace_modules, run through the child\'s real trace machinery in-process against an untraced reference execution '
              '(per-thread/task stdout, return value, exception type, innermost line, traceback shape), plus the forms through a real spawn child.' 
              'Also 3–6 threads printing lines assembled from partial writes at the same time under a 1 µs thread-switch interval, and an exact correspondence of the traceback-cleaning model with the real clean-up on every traceback shape up to 5 (7) frames.' 
              'Also BaseException-only exceptions raised in nested functions (all user frames compared), results of scripts that end with thousands of events in flight, threads left behind by the script.' 
              " Also script files with a sibling module, a module of the same name earlier on sys.path and the script's directory already on sys.path (real runs)."),
        design='§6 C04',
        note=COMMON_NOTE + 'Partial by nature: the quantifier “whatever commands are issued, any script” ranges over CPython\'s semantics under sys.settrace, '
             'which is sampled by the generator, not proved. stderr (CPython\'s RuntimeWarning about inlined comprehensions under a trace function) and '
             'timing are outside the statement. Code-object statements under spawn: open finding F-G1.',
        technique='Lean 4 proof of the traceback-cleaning and pass-through core + differential correspondence against an untraced reference execution'),
    'C03': dict(
        text=('Theorems over model A: close() never raises in any reachable state; a second close() does nothing; when no run is in progress the first close() returns at once with the broker closed (every earlier subscription terminates, by C08), state closed, no child alive; while a run is in progress close() waits and, whatever else the environment does, returns as soon as the child exits — however it ends — with state closed and no child alive. Tied to /repo by exact correspondence (close issued at every point of every short serial history, from a fresh task each time, subscribers attached before and after start) and an oracle; overlapping calls under the permuting loop (oracle).' 
              'Histories include close() issued k scheduler steps after the child\'s exit (kclose, k = 0…14), i.e. anywhere between the exit of the process and the end of the finish transition.' 
              'Also: subscription iterators handed out before close() and first advanced after it; close() pending while a completion hook of a plugin raises.' 
              " Also a subscriber that stopped reading with thousands of items published before close() from another task, before and after the child's exit." 
              ' Also, with a real child, the caller of run() cancelled while the child is being spawned, then close() from another task: closed, no child alive.'),
        design='§6 C03',
        note=COMMON_NOTE + 'Theorems are about serial histories (no lifecycle call issued while another is in progress), which is where the property can hold: overlapping calls interfere through transitions\' cancellation of in-flight triggers — known findings F-A2/F-A2c/F-A2d/F-A3 (open), matched by violation kind so that any other misbehaviour under overlap is still reported. transitions/apluggy/asyncio are modelled, not verified.',
        technique='Lean 4 proofs over a deterministic API-level model + generated FSM table (translator) + differential correspondence with a simulated child under a permuting event loop'),
    'C15': dict(
        text=('Theorems over model A: a child is alive exactly while the state is running; run/reset while running are refused and change nothing; an operation starts at most one child and only when none is alive; once finished is published the child has exited. Tied to /repo by exact correspondence on serial histories with the number of live simulated children sampled after every operation, and overlapping run/run, run/reset, reset/run, run/close under the permuting loop with live children sampled after every scheduler step (oracle).' 
              'Also real spawn children incl. a script whose process lingers for seconds after the script returned (non-daemon thread): no child process is alive when finished is published.' 
              'Also: the caller of run() cancelled k scheduler steps after the request; reset() then run() from another task at exact offsets with and without a slow reset hook.' 
              " Also third-party plugins whose run context hook (plain, tryfirst, trylast) or on_start_run / on_end_run raise: no child alive at any publication of 'finished', never two children (the on_start_run variant is the open finding F-A7)."),
        design='§6 C15',
        note=COMMON_NOTE + 'Theorems are about serial histories (no lifecycle call issued while another is in progress), which is where the property can hold: overlapping calls interfere through transitions\' cancellation of in-flight triggers — known findings F-A2/F-A2c/F-A2d/F-A3 (open), matched by violation kind so that any other misbehaviour under overlap is still reported. transitions/apluggy/asyncio are modelled, not verified.',
        technique='Lean 4 proofs over a deterministic API-level model + generated FSM table (translator) + differential correspondence with a simulated child under a permuting event loop'),
    'C17': dict(
        text=('Theorems over model H (control flow of run_in_process/_run and RunningProcess.__await__): awaiting never raises; at most one of value / '
              'exception; the outcome table (value; exception for raise, unpicklable result, SystemExit, uncaught KeyboardInterrupt; neither for hard exit '
              'and signals); on every path the executor is shut down (off the event-loop thread) and the log listener stopped last. This is a finite '
              'decision table — its worth is the correspondence: the real run_in_process under spawn is swept over every outcome × signal instants from '
              'interpreter boot to racing completion × {log collection, initializer} + a log backlog larger than a pipe buffer, each case in its own '
              'sub-process with a wall-clock bound, checking result, exit code, liveness, leftover tasks, and agreement with the model for the outcome '
              'class that occurred.' 
              'Also a function that returns at once while its process takes 4.5 s to exit: awaiting the handle yields only once the process has been reaped.' 
              'Also kill/terminate from another task while the handle of a lingering process is awaited, and a fresh awaiter of the handle at every event-loop iteration around the exit.' 
              ' Also log collection with a blocking handler in the parent: when awaiting the handle yields, every record of the child has been handled and no helper task is left.' 
              ' Also requests repeated at every event-loop turn until awaiting the handle yields — hence after the child has been reaped — by terminate, kill and (after a first deadly request) interrupt: none may raise (F-H2, fixed).' 
              ' Also functions that raise CancelledError / KeyboardInterrupt / GeneratorExit (an outcome like any other), and an awaiter cancelled while the child runs (open finding F-H3).'),
        design='§6 C17, §5 model H',
        note=COMMON_NOTE + 'Partial by nature: reaping, thread clean-up and what the future resolves to for each way of dying are concurrent.futures/'
             'multiprocessing behaviour (modelled in futureOf, observed by the sweep). Defect F-H1 (event loop blocked in executor shutdown) found and fixed here.',
        technique='Lean 4 decision-table proof + real-process outcome/signal sweep compared with the model'),
    'C12': dict(
        text=('Theorems over model A: every operation extends the hook log by a word of the protocol automaton initialise-run · start-run · in-process events · end-run (state still running, run arguments present) · finished (state finished, arguments withdrawn), each once, for every operation except close() of a run that was initialised but never started (which calls no hook and leaves the arguments in place — the full statement is proved false on start();close() and the exact statement with the automaton state read from the model is proved instead); the whole hook log of every history is accepted; a refused request calls no hook; the run arguments are present in initialized and running and absent in created/finished. Tied to /repo by exact correspondence of the hook log seen by a plugin registered through Nextline.register (sampling Nextline.state and context.run_arg inside each hook) on all short serial histories and random long ones incl. events still in the channel at child exit and callers reacting to the state attribute, plus an oracle (regular expression per run).' 
              'Histories include a plugin whose on_end_run raises while the child exits (exitx): the run is still finished and its arguments withdrawn.' 
              'Also re-registration of a plugin between and during runs, and real spawn children ending by return, raise, os._exit(1) and kill.' 
              " Also the caller of run() cancelled at every early scheduler step while another plugin's start-run hook is busy: the recording plugin's hook sequence must still follow the protocol once the child has exited." 
              ' Also a hook busy for seconds while the run ends or is killed: no event is delivered after end-run or finished.'),
        design='§6 C12',
        note=COMMON_NOTE + 'Theorems are about serial histories (no lifecycle call issued while another is in progress), which is where the property can hold: overlapping calls interfere through transitions\' cancellation of in-flight triggers — known finding F-A2 (open), matched by violation kind. transitions/apluggy/asyncio are modelled, not verified.',
        technique='Lean 4 proofs over a deterministic API-level model + generated FSM table (translator) + differential correspondence with a simulated child under a permuting event loop'),
    'C14': dict(
        text=("Theorems over model A: an accepted (re)initialisation publishes exactly one run number — the next one or the one the caller restarts from — and the counter moves just past it; no other operation publishes or changes it; the run arguments always equal the composer\\'s current statement and options and carry the number published last, and the child is started with exactly them; a reset takes full effect (all given options, one re-initialisation) or none (refused ⇒ state unchanged). Tied to /repo by exact correspondence on serial histories with reset carrying every subset of the four options (run_no/run_info/statement publications and the RunArg handed to the simulated child) and an oracle. "
              "Also reset ∥ run from two tasks at the scheduler offsets where the unchanged code lets one of them win cleanly, and two real runs of one object (run number of every record of the second run, incl. after reset(run_no_start_from=10))." 
              " Also two or three Nextline objects alive in one process, started / reset / run in interleaved orders: each object's displayed script (get_source, get_source_line), statement, run info and the child's arguments are its own." 
              " Also overlapping runs of two or three objects whose children use the same trace and prompt numbers: every record on every stream of an object carries that object's run number and is one of its own."),
        design='§6 C14',
        note=COMMON_NOTE + 'Theorems are about serial histories (no lifecycle call issued while another is in progress), which is where the property can hold: overlapping calls interfere through transitions\' cancellation of in-flight triggers — known finding F-A2 (open), matched by violation kind. transitions/apluggy/asyncio are modelled, not verified.',
        technique='Lean 4 proofs over a deterministic API-level model + generated FSM table (translator) + differential correspondence with a simulated child under a permuting event loop'),
    'C16': dict(
        text=("Theorems over model A: Continue plugins are registered only while running, at most one, and the flag is true iff one is registered; a refused non-interactive request leaves no plugin behind and the flag false unless a non-interactive run is in flight; after an accepted plain run() no command reaches the child on any prompt for the rest of that run, whatever happened before (refused or accepted requests in any order). Tied to /repo by exact correspondence (continuous_enabled after every operation, the flag\\'s publications, commands reaching the simulated child\\'s queue when it emits prompts) on all short serial histories and random long ones, and an oracle. "
              "Also: a plugin hook raising during a non-interactive run; a non-interactive run requested while start() is still in flight." 
              ' Also the requester of a non-interactive run cancelled at every early scheduler step: if the run it asked for is in flight the flag is on and its prompts are answered until it finishes, otherwise the flag is off.' 
              " Also a user plugin registered before the request whose on_finished / on_end_run / on_change_state hook raises or is slow: the flag is off a few loop turns after 'finished', and the next plain run is not auto-answered."),
        design='§6 C16',
        note=COMMON_NOTE + 'Theorems are about serial histories (no lifecycle call issued while another is in progress), which is where the property can hold: overlapping calls interfere through transitions\' cancellation of in-flight triggers — known finding F-A2 (open), matched by violation kind. transitions/apluggy/asyncio are modelled, not verified.',
        technique='Lean 4 proofs over a deterministic API-level model + generated FSM table (translator) + differential correspondence with a simulated child under a permuting event loop'),
    'C02': dict(
        text=('Theorems over model A: an accepted run starts exactly one child and reports running under the run\'s number; every started run finishes '
              '— whatever else the environment does (prompts, commands, signals), as soon as the child exits with a result or with none (terminated, '
              'killed, hard exit) the state becomes finished (closed if a close() was waiting), no child is alive, every waiter is released, the result '
              'reported is that of this run and the arguments are withdrawn; the run record is reported finished exactly once under the same number and '
              'nothing before the exit reports on run_info; while running no result is reported; a second exit notification does nothing. Tied to '
              '/repo by (1) exact correspondence of model A on serial histories where runs end in every way the simulated child can end and (2) a '
              'real-process sweep: ending kind × signal delivery point (k-th open prompt, before the first prompt, during a sleep) × script shape, '
              'each case in its own sub-process with a wall-clock bound, observed (states, run_info, result, exception, waiter released, exit code) '
              'against the prediction.' 
              'Real children also: a script that raises at the end of a long traced loop (thousands of events in flight), threads that outlive the main script, and a second run of the same object after kill/terminate.' 
              ' Also a task waiting for the run (run_session, run_continue_and_wait) cancelled while the script is still going: the run goes on and reports its own result, another waiter returns at its end; scripts whose threads reach script code only after the script has ended (timer threads; F-G8, fixed) and scripts leaving an idle executor behind (open finding F-G9).' 
              ' Also SIGINT during the teardown wait for a thread that outlives the script (non-interactive: must finish; interactive: open finding F-G10).'),
        design='§6 C02, §5 models A/G',
        note=COMMON_NOTE + 'Partial by nature below the FSM: pipes, signals and process reaping are CPython/OS behaviour, covered only by the '
             'real-process sweep. Premise of the liveness half: the child eventually exits. Open known findings matched by mechanism/signature: F-G3 '
             '(child dies holding the queue write lock ⇒ run never finishes), F-G2, F-G1. F-H1 found and fixed.',
        technique='Lean 4 proofs over a deterministic API-level model + differential correspondence with a simulated child + real-process ending/signal sweep'),
    'C05': dict(
        text=('Theorems over model D2 (the frame filter evaluated over the GENERATED hook call order + the part of CPython 3.12.1 bdb/pdb that decides '
              'stopping: stop_here, the four dispatchers with the generator rules, the five resuming commands incl. nextline\'s set_continue/stop_here/'
              'set_until/get_stack overrides, set_step\'s f_trace patch, the refused command loop): with module tracing off a frame is accepted iff it is '
              'not a lambda and belongs to the script (an iff); with it on an accepted frame is no lambda and matches no skip pattern; after step, '
              'stop_here is true everywhere, every line event of a line-traced accepted frame and every call prompts, and all-step keeps that state for '
              'ever; after next/until in frame f no event of any other frame prompts or changes the stop state until an event of f itself; after '
              'continue no later event of the entity prompts; events that reach Pdb outside a trace call never prompt; filtered calls are inert. Tied to '
              '/repo by the translator (plug-in registration order, skip list) and by exact correspondence: every generated program is run untraced, '
              'under an independent sys.settrace recorder (interpreter-level stream per thread/task with frame identities) and through the real trace '
              'machinery; for each trace the model, fed the recorder stream and the commands actually given, must predict the same prompt list '
              '(line, event, function shown) — exhaustive over a 9-block reduced grammar up to 3 blocks × 6 policies, random programs × 8 policies, '
              'generator/yield-from/context-manager/exception templates, threads and tasks with thread tracing on and off, module tracing on; plus an '
              'oracle written from the statement (all-step: prompts = executed lines in order; all-next: the bottom frame only, all of its lines; '
              'all-continue: one prompt; never in lambdas / skipped modules / other threads) and the filter alone against the real pluggy hook.' 
              'Also a user module whose function is first called by a thread and then by the stepping main thread (module tracing on).' 
              " Also the same programs with .pdbrc files in the child's home and working directory; model D2 includes the filter that rejects everything once the run's context has exited (theorems closed_rejects_everything, closed_leaves_filter_state)." 
              ' Also threads that outlive the script and call functions of the script after its last statement (prompted exactly as the model predicts).'),
        design='§6 C05, App. B, §0.6',
        note=COMMON_NOTE + 'The model is of CPython 3.12.1\'s bdb/pdb: hypotheses botframe known and not a generator frame are explicit in continue_once / '
             'next_not_in_callees (bdb\'s StopIteration/GeneratorExit rule). Not modelled: breakpoints, skip patterns of Pdb, quit/up/down/jump; '
             'executor-pool programs are excluded from the exact comparison (entity assignment is the program\'s own nondeterminism). Defects F-D1 '
             '(lambda prompted) and F-D2 (task never prompted again after next at a callee\'s exception) were found here and fixed.',
        technique='Lean 4 proofs over an executable model of the filter chain and bdb/pdb stop logic + translator + exact prompt-list correspondence against an independent recorder'),
    'C06': dict(
        text=('Theorems over model D1 (event-emitting trace pipeline: entity→trace mapping, thread/task numbering, nested blocks, global counters whose '
              'numbers are drawn in hidden steps and emitted in later ones, at most one event per step) for '
              'every interleaving of entities: trace numbers are never reused and two live traces never belong to one entity; the thread number is a '
              'function of the OS thread and injective, task numbers are given to exactly one trace within a thread number, threads have no task number; '
              'every event an action of an entity emits carries the number of that entity\'s live trace, and an entity without a trace emits nothing '
              '(attribution, untraced_emits_nothing); an action of one entity leaves every other '
              'trace untouched, and its enabledness and output do not depend on the phase of any other trace (an unanswered prompt blocks nobody else). '
              'Tied to /repo by model acceptance of the event streams emitted by the real trace machinery on generated programs with up to 3 threads and '
              '3 tasks (nested, sequential, executor threads), and an oracle using code locations as ground truth for the producing entity, incl. a '
              'responder that withholds one thread\'s answer until nothing else moves.' 
              'Also a stress family (3–6 threads inside the trace machinery at the same time, 1 µs thread-switch interval) and a prompt-text oracle: every location line of a prompt\'s text names a function that trace executes.' 
              'Also withheld prompts with module tracing on (at quiescence no other trace may be stuck inside a trace call), task bodies writing partial lines across a suspension, tasks/threads created one after the other (addresses reused), cancelled tasks, threads that are not joined.' 
              " Also interrupt() at the main thread's open prompt with other threads still at work: their prompts and output are those of the run without the interrupt."),
        design='§6 C06, §5 model D1',
        note=COMMON_NOTE + 'Not exhibited by the model: GIL/OS scheduling and blocking inside multiprocessing.Queue.put — covered only by the runs.',
        technique='Lean 4 invariant/frame proofs over an LTS + trace-acceptance correspondence of real event streams + location-based oracle'),
    'C09': dict(
        text=('Theorems over model D1 for every interleaving of entities and every sequence of their actions incl. aborts at any nesting level and '
              'entities that never finish: the emitted stream is accepted by the very grammar the main-process registrars rely on (Reg.wrun of C11): per '
              'trace start, trace calls each optionally holding one command loop with prompt start/end pairs, end; matching numbers; nothing outside '
              'start…end; trace, trace-call and prompt numbers unique in the run and increasing within each trace (numbers are drawn atomically but '
              'emitted in a later step, so the stream need not show them in drawing order — proved by witness); a step emits at most one event, the '
              'hidden number-drawing steps none; an exception closes everything open innermost first; every event class carries run_no (generated field '
              'table). Tied to /repo by the deterministic model run on the observed events plus a harness-computed witness for the hidden steps (same '
              'nesting, same numbers) on streams emitted by the real trace machinery in-process on generated programs × policies (step/next/continue/return/until/'
              'mixes/decoys/non-resuming commands) and by real spawn children with SIGINT at an open prompt (child-side probe), plus a stack-checker oracle.' 
              'Also the stress family (threads making trace calls at the same time under a 1 µs thread-switch interval): numbers stay unique.' 
              'Also tasks/threads created one after the other (addresses reused), cancelled and pending tasks, threads that are not joined.' 
              " Also scripts whose last write has no newline (print(end=''), sys.stdout.write, carriage-return progress output), threads joined or not."),
        design='§6 C09, §5 model D1',
        note=COMMON_NOTE + 'That CPython invokes the trace function as the model\'s labels say (no nested trace calls within a trace) is assumed and exercised.',
        technique='Lean 4 simulation proof (emitter LTS refines the consumer grammar) + trace-acceptance correspondence of real event streams'),
    'C10': dict(
        text=('Theorems over model F (FIFO channel, monitor task, drain loop, sentinel, run-start/run-end notifications, kill cutting the channel) for '
              'every schedule and kill point: delivered is a prefix of emitted (each once, in order); unless a kill cut the stream delivered ++ in hand ++ '
              'in channel = emitted; at run-end everything emitted has been delivered (also when the drain loop gives up: the sentinel is queued behind '
              'the backlog); run-end comes last and once, after it no step can add an observation; under the premise that the monitor does not dequeue '
              'before run-start was issued every delivery follows run-start (and the premise is shown necessary); the relay never gets stuck once the '
              'child is gone. Tied to /repo by trace acceptance of the real RunSession/relay_events/monitor with a simulated child and channel under the '
              'permuting loop (bursts, slow plugins, exit with backlog, kills keeping 0..all pending items) and by real children printing bursts right '
              'before exiting (child-side probe log vs recording plugin).' 
              'Also a real child that has emitted its whole burst and returned, a slow plugin, and interrupt() while most of the burst is still in the channel: nothing may be lost.' 
              'Also well-formed streams of all event kinds with slow hooks (the completion order of the hooks is compared) and text objects of the script\'s own classes.' 
              ' Also a hook busy for seconds on one event while the script ends / the child is killed with events queued behind it: everything emitted is still delivered, in order, before end-run.'),
        design='§6 C10, §5 model F',
        note=COMMON_NOTE + 'Not exhibited: byte-level truncation of a pickled event; a child dying while holding the queue write lock (open finding F-G3).',
        technique='Lean 4 invariant proof over an LTS + trace-acceptance correspondence under a permuting event loop + real-process bursts'),
}

REASON_TODO = 'check not built yet in this revision of /verif (planned, see DESIGN.md §6); not claimed until its theorems and correspondence exist'


def main() -> None:
    checks = []
    for pid in ALL:
        if pid not in CLAIMED:
            continue
        c = CLAIMED[pid]
        checks.append({
            'property_id': pid,
            'quick_cmd': f'./check {pid} --tier quick',
            'thorough_cmd': f'./check {pid} --tier thorough',
            'evidence_file': f'/verif/evidence/{pid}.json',
            'replay_cmd_template': f'./check {pid} --replay {{path}}',
            'engine': 'lean4-model+correspondence',
            'level_claimed': {'category': 'proof', 'text': c['text'], 'design_ref': c['design']},
            'level_note': c['note'],
            'technique': c['technique'],
        })
    m = {
        'version': 1,
        'setup_cmd': 'cd /verif && ./setup.sh',
        'hooks': {
            'guard': 'NLV_PROBE',
            'enable': ('no hook was added to /repo: all instrumentation lives in /verif (permuting event loop, fake child, '
                       'sitecustomize probe under /verif/harness/probes switched on by NLV_PROBE=<dir> for spawned children only)'),
            'baseline_off_cmd': 'cd /repo && /venv/bin/python -m pytest -ra -q -p no:cacheprovider --timeout=900 --continue-on-collection-errors',
            'source_commits': [],
            'add_only': True,
        },
        'engines': [{
            'name': 'lean4-model+correspondence',
            'path': '/verif/lean, /verif/harness, /verif/tools/translate.py',
            'serves_properties': sorted(CLAIMED),
            'kind_free_text': 'Lean 4 models + theorems (lake build, #print axioms audit), translator-generated tables, differential correspondence with the real code, independent oracles',
        }],
        'checks': checks,
        'notes': 'See DESIGN.md. fix: commits in /repo are listed in known_findings.json (status fixed).',
        'not_applicable': [{'property_id': p, 'reason': REASON_TODO} for p in ALL if p not in CLAIMED],
    }
    (VERIF / 'MANIFEST.json').write_text(json.dumps(m, indent=1, ensure_ascii=False) + '\n')


if __name__ == '__main__':
    main()
