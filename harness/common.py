"""Shared infrastructure of the nextline verification checks.

* Lean build + audit (per property), under a file lock
* model driver wrapper (line protocol, batch mode)
* evidence writer, known findings, violation reporting
"""
from __future__ import annotations

import fcntl
import hashlib
import json
import os
import random
import re
import subprocess
import sys
import time
from dataclasses import dataclass, field
from pathlib import Path
from typing import Any, Callable, Iterable, Optional

VERIF = Path(__file__).resolve().parent.parent
LEAN = VERIF / 'lean'
REPO = Path(os.environ.get('NLV_REPO', '/repo'))
EVIDENCE = VERIF / 'evidence'
REPLAYS = VERIF / 'replays'
DRIVER = LEAN / '.lake' / 'build' / 'bin' / 'nlvmodel'
ALLOWED_AXIOMS = {'propext', 'Classical.choice', 'Quot.sound'}
FORBIDDEN = re.compile(
    r'\bsorry\b|\badmit\b|^\s*axiom\s|native_decide|bv_decide|implemented_by|\bunsafe\s|maxHeartbeats\s+0'
)

TRUSTED_BASE = [
    'Lean 4.33.0 kernel; axioms allowed: propext, Classical.choice, Quot.sound (audited by #print axioms on every run)',
    'no sorry/admit/native_decide/bv_decide/own axioms (grep audit on every run)',
    'translator tools/translate.py (tables regenerated from /repo on every run)',
    'correspondence harness under /verif/harness (a bug there can hide a disagreement; it cannot make a theorem true)',
    'modelled, not verified: CPython 3.12 asyncio/threading/multiprocessing/bdb/pdb, transitions 0.9.3, apluggy/pluggy',
]


def log(*a: Any) -> None:
    print(*a, file=sys.stderr, flush=True)


# ---------------------------------------------------------------------------
# Lean build and audit
# ---------------------------------------------------------------------------


@dataclass
class BuildResult:
    ok: bool                      # the property's modules built
    driver_ok: bool               # the model driver built
    failed: list[str] = field(default_factory=list)   # messages: modules/theorems that no longer check
    obligations: list[str] = field(default_factory=list)
    discharged: list[str] = field(default_factory=list)
    axioms: dict[str, list[str]] = field(default_factory=dict)
    log: str = ''
    wall_s: float = 0.0
    translator_ok: bool = True


def _run(cmd: list[str], cwd: Path, timeout: int = 1800) -> tuple[int, str]:
    p = subprocess.run(cmd, cwd=cwd, stdout=subprocess.PIPE, stderr=subprocess.STDOUT,
                       text=True, timeout=timeout)
    return p.returncode, p.stdout


def strip_comments(src: str) -> str:
    # remove /- ... -/ (nested not handled; we do not nest) and -- ... comments
    src = re.sub(r'/-.*?-/', lambda m: '\n' * m.group(0).count('\n'), src, flags=re.S)
    src = re.sub(r'--.*', '', src)
    return src


def grep_audit() -> list[str]:
    hits = []
    for f in sorted((LEAN / 'NLV').rglob('*.lean')) + [LEAN / 'Main.lean']:
        body = strip_comments(f.read_text())
        for n, line in enumerate(body.split('\n'), 1):
            if FORBIDDEN.search(line):
                hits.append(f'{f.relative_to(LEAN)}:{n}: {line.strip()[:80]}')
    return hits


def lean_build(pid: str, tier: str = 'quick') -> BuildResult:
    """Translate, build the property's modules and the driver, audit axioms."""
    t0 = time.time()
    res = BuildResult(ok=False, driver_ok=False)
    lock = open(LEAN / '.build.lock', 'w')
    fcntl.flock(lock, fcntl.LOCK_EX)
    try:
        # 1. translator
        tr = VERIF / 'tools' / 'translate.py'
        if tr.exists():
            rc, out = _run(['/venv/bin/python', str(tr)], cwd=VERIF)
            res.log += out
            if rc != 0:
                res.translator_ok = False
                res.failed.append(f'translator: exit {rc}: {out.strip().splitlines()[-1] if out.strip() else ""}')
        # 2. driver
        rc, out = _run(['lake', 'build', 'nlvmodel'], cwd=LEAN)
        res.log += out
        res.driver_ok = rc == 0 and DRIVER.exists()
        if not res.driver_ok:
            res.failed.append('lake build nlvmodel failed: ' + _first_error(out))
        # 3. property module + audit
        prop = LEAN / 'NLV' / 'Props' / f'{pid}.lean'
        audit = LEAN / 'NLV' / 'Audit' / f'{pid}.lean'
        if prop.exists():
            rc, out = _run(['lake', 'build', f'+NLV.Props.{pid}'], cwd=LEAN)
            res.log += out
            if rc != 0:
                res.failed.append(f'lake build NLV.Props.{pid} failed: ' + _first_error(out))
            prop_ok = rc == 0
        else:
            prop_ok = False
            res.failed.append(f'NLV/Props/{pid}.lean missing')
        # obligations = theorem names listed in the audit file
        if audit.exists():
            names = re.findall(r'^#print axioms\s+(\S+)', audit.read_text(), flags=re.M)
            res.obligations = names
            if prop_ok:
                rc, out = _run(['lake', 'env', 'lean', str(audit.relative_to(LEAN))], cwd=LEAN)
                res.log += out
                res.axioms = parse_axioms(out)
                for n in names:
                    short = n.split('.')[-1]
                    ax = res.axioms.get(n, res.axioms.get(short))
                    if ax is None:
                        res.failed.append(f'theorem {n}: not found by #print axioms')
                    elif set(ax) - ALLOWED_AXIOMS:
                        res.failed.append(f'theorem {n}: depends on axioms {sorted(set(ax) - ALLOWED_AXIOMS)}')
                    else:
                        res.discharged.append(n)
        hits = grep_audit()
        if hits:
            res.failed.append('forbidden construct: ' + '; '.join(hits[:5]))
        if tier == 'thorough' and prop_ok:
            rc, out = _run(['lake', 'env', 'leanchecker', f'NLV.Props.{pid}'], cwd=LEAN, timeout=3600)
            res.log += out
            if rc != 0:
                res.failed.append(f'leanchecker NLV.Props.{pid} failed: ' + out.strip()[-300:])
        res.ok = prop_ok and not res.failed
    finally:
        fcntl.flock(lock, fcntl.LOCK_UN)
        lock.close()
    res.wall_s = time.time() - t0
    return res


def _first_error(out: str) -> str:
    for line in out.splitlines():
        if 'error' in line:
            return line.strip()[:300]
    return out.strip()[-300:]


def parse_axioms(out: str) -> dict[str, list[str]]:
    res: dict[str, list[str]] = {}
    for m in re.finditer(r"'([^']+)' depends on axioms: \[([^\]]*)\]", out, flags=re.S):
        res[m.group(1)] = [a.strip() for a in m.group(2).replace('\n', ' ').split(',') if a.strip()]
    for m in re.finditer(r"'([^']+)' does not depend on any axioms", out):
        res[m.group(1)] = []
    return res


# ---------------------------------------------------------------------------
# Model driver
# ---------------------------------------------------------------------------


class ModelError(Exception):
    pass


def model_batch(model: str, lines: list[str], timeout: int = 600) -> list[str]:
    """Send all request lines to the compiled driver, return all reply lines."""
    if not DRIVER.exists():
        raise ModelError('driver not built')
    p = subprocess.run([str(DRIVER), model], input='\n'.join(lines) + '\n', stdout=subprocess.PIPE,
                       stderr=subprocess.PIPE, text=True, timeout=timeout)
    if p.returncode != 0:
        raise ModelError(f'driver exit {p.returncode}: {p.stderr[-300:]}')
    out = p.stdout.split('\n')
    if out and out[-1] == '':
        out.pop()
    if len(out) != len([l for l in lines if l.strip()]):
        raise ModelError(f'driver returned {len(out)} replies for {len(lines)} requests')
    return out


class Model:
    """Interactive driver session (request/reply)."""

    def __init__(self, model: str):
        if not DRIVER.exists():
            raise ModelError('driver not built')
        self.p = subprocess.Popen([str(DRIVER), model], stdin=subprocess.PIPE, stdout=subprocess.PIPE,
                                  text=True, bufsize=1)

    def ask(self, line: str) -> str:
        assert self.p.stdin and self.p.stdout
        self.p.stdin.write(line + '\n')
        self.p.stdin.flush()
        r = self.p.stdout.readline()
        if not r:
            raise ModelError('driver died')
        return r.rstrip('\n')

    def close(self) -> None:
        try:
            assert self.p.stdin
            self.p.stdin.close()
            self.p.wait(timeout=10)
        except Exception:
            self.p.kill()


# ---------------------------------------------------------------------------
# Known findings
# ---------------------------------------------------------------------------


def load_findings() -> list[dict]:
    f = VERIF / 'known_findings.json'
    if not f.exists():
        return []
    return json.loads(f.read_text())['findings']


# ---------------------------------------------------------------------------
# Result of a property check
# ---------------------------------------------------------------------------


@dataclass
class Violation:
    what: str                      # one line
    replay: dict                   # input / schedule / history that fails (or the broken obligation)
    no_input: bool = False         # True: proof/correspondence broken but no failing input found
    signature: Optional[str] = None  # name of the finding signature this trace satisfies, if any


@dataclass
class Coverage:
    evaluations: int = 0
    cases: set = field(default_factory=set)        # keys of distinct non-trivial cases
    rule: str = ''
    samples: list = field(default_factory=list)
    hist: dict = field(default_factory=dict)       # histograms (ops, branches, outcomes)
    exhaustive: bool = False
    extra: dict = field(default_factory=dict)
    traces_validated: int = 0
    disagreements_checked: int = 0

    def count(self, name: str, key: Any, n: int = 1) -> None:
        h = self.hist.setdefault(name, {})
        h[str(key)] = h.get(str(key), 0) + n

    def case(self, key: Any, trivial: bool = False) -> None:
        self.evaluations += 1
        if not trivial:
            if not isinstance(key, (str, int, tuple)):
                key = json.dumps(key, sort_keys=True, default=str)
            self.cases.add(hashlib.sha1(repr(key).encode()).hexdigest()[:16])

    def sample(self, s: Any, limit: int = 3) -> None:
        if len(self.samples) < limit:
            self.samples.append(s)


class Check:
    """One run of one property's check."""

    def __init__(self, pid: str, tier: str, seed: int):
        self.pid = pid
        self.tier = tier
        self.seed = seed
        self.rng = random.Random(seed)
        self.t0 = time.time()
        self.cov = Coverage()
        self.violations: list[Violation] = []
        self.notes: list[str] = []
        self.assumptions: list[str] = []
        self.build: Optional[BuildResult] = None
        self.findings = [f for f in load_findings() if pid in f.get('properties', [])]

    # -- reporting -----------------------------------------------------------

    def violation(self, what: str, replay: dict, no_input: bool = False, signature: Optional[str] = None) -> None:
        # de-duplicate by `what`
        for v in self.violations:
            if v.what == what:
                return
        self.violations.append(Violation(what, replay, no_input, signature))

    def finish(self) -> int:
        EVIDENCE.mkdir(exist_ok=True)
        REPLAYS.mkdir(exist_ok=True)
        wall = time.time() - self.t0
        rc = 0
        open_findings = {f['signature']: f for f in self.findings if f.get('status') == 'open'}
        reported = 0
        known_seen = set()
        for n, v in enumerate(self.violations):
            if v.signature and v.signature in open_findings:
                f = open_findings[v.signature]
                if f['id'] not in known_seen:
                    known_seen.add(f['id'])
                    print(f"KNOWN-FINDING: property={self.pid} {f['id']} {f['what']}")
                continue
            path = REPLAYS / f'{self.pid}-{self.tier}-{self.seed}-{n}.json'
            path.write_text(json.dumps({'property': self.pid, 'what': v.what, 'no_failing_input_found': v.no_input,
                                        'replay': v.replay}, indent=1, default=str))
            tail = ' no-failing-input-found' if v.no_input else ''
            print(f'VIOLATION property={self.pid} replay={path}{tail}')
            log('  ' + v.what)
            reported += 1
            rc = 1
        # listed open findings that were exercised by their canonical witness are printed by the
        # property module through `known()`; nothing to do here.
        b = self.build
        cov: dict[str, Any] = {
            'obligations': len(b.obligations) if b else 0,
            'discharged': len(b.discharged) if b else 0,
            'checker_cmd': f'cd /verif/lean && lake build +NLV.Props.{self.pid} && lake env lean NLV/Audit/{self.pid}.lean',
            'trusted_base': TRUSTED_BASE,
            'theorems': b.obligations if b else [],
            'axioms': sorted({a for ax in (b.axioms.values() if b else []) for a in ax}),
            'proof_failures': b.failed if b else ['not built'],
            'evaluations': self.cov.evaluations,
            'distinct_nontrivial': len(self.cov.cases),
            'rule': self.cov.rule,
            'samples': self.cov.samples or ['(none)'],
            'exhaustive': self.cov.exhaustive,
            'traces_validated_against_impl': self.cov.traces_validated,
            'disagreements_checked': self.cov.disagreements_checked,
            'histograms': self.cov.hist,
            'notes': self.notes,
        }
        cov.update(self.cov.extra)
        ev = {
            'property_id': self.pid,
            'tier': self.tier,
            'seed': self.seed,
            'level': 'proof',
            'coverage': cov,
            'assumptions': self.assumptions,
            'wall_s': round(wall, 2),
            'violations': reported,
        }
        (EVIDENCE / f'{self.pid}.json').write_text(json.dumps(ev, indent=1, default=str))
        log(f'[{self.pid}] tier={self.tier} seed={self.seed} wall={wall:.1f}s evaluations={self.cov.evaluations} '
            f'distinct={len(self.cov.cases)} obligations={cov["obligations"]} discharged={cov["discharged"]} '
            f'violations={reported}')
        return rc

    def known(self, finding_id: str) -> None:
        """Print the KNOWN-FINDING line for an open finding whose canonical witness was replayed and still fails."""
        for f in self.findings:
            if f['id'] == finding_id and f.get('status') == 'open':
                print(f"KNOWN-FINDING: property={self.pid} {f['id']} {f['what']}")


def proof_broken(chk: Check) -> list[str]:
    """Messages describing proof obligations that no longer check (empty when all is fine)."""
    b = chk.build
    if b is None:
        return ['lean build not run']
    return list(b.failed)


# ---------------------------------------------------------------------------
# Real-process runs (each in its own sub-process, wall-clock bounded)
# ---------------------------------------------------------------------------

def _one_real(args: tuple) -> dict:
    import shutil
    import tempfile
    spec, hard_timeout = args
    tmp = tempfile.mkdtemp(prefix='nlv-real-')
    try:
        spec = dict(spec, tmpdir=tmp)
        sp = Path(tmp) / 'spec.json'
        op = Path(tmp) / 'out.json'
        sp.write_text(json.dumps(spec))
        env = dict(os.environ)
        env['PYTHONPATH'] = f'{VERIF}:' + env.get('PYTHONPATH', '')
        if spec.get('probe'):
            env['PYTHONPATH'] = f'{VERIF}/harness/probes:' + env['PYTHONPATH']
            env['NLV_PROBE'] = tmp
            if spec.get('probe_nolog'):
                env['NLV_PROBE_NOLOG'] = '1'
            if spec.get('probe_dump_after'):
                env['NLV_PROBE_DUMP_AFTER'] = str(spec['probe_dump_after'])
        if spec.get('switchinterval'):
            env['NLV_SWITCHINTERVAL'] = str(spec['switchinterval'])
        t0 = time.time()
        # own session: whatever the run leaves behind (a child blocked in its exit handlers, …) is killed afterwards
        proc = subprocess.Popen(['/venv/bin/python', '-m', 'harness.realrun', str(sp), str(op)], cwd=tmp, env=env,
                                stdout=subprocess.PIPE, stderr=subprocess.PIPE, text=True, start_new_session=True)
        try:
            out, err = proc.communicate(timeout=hard_timeout)
            rc = proc.returncode
        except subprocess.TimeoutExpired:
            rc, out, err = -999, '', 'HARD-TIMEOUT'
        finally:
            try:
                os.killpg(proc.pid, 9)
            except ProcessLookupError:
                pass
            try:
                proc.communicate(timeout=5)
            except Exception:
                pass
        rec = json.loads(op.read_text()) if op.exists() else None
        child_log = []
        for f in sorted(Path(tmp).glob('probe-*.jsonl')):
            child_log += [json.loads(l) for l in f.read_text().splitlines() if l.strip()]
        child_stacks = ''.join(f.read_text() for f in sorted(Path(tmp).glob('childstacks-*.txt')))
        return {'spec': spec, 'rec': rec, 'rc': rc, 'real_stdout': out, 'stderr': err[-2000:],
                'child_log': child_log, 'child_stacks': child_stacks, 'wall_s': round(time.time() - t0, 2)}
    finally:
        shutil.rmtree(tmp, ignore_errors=True)


def real_runs(specs: list[dict], jobs: int = 12, hard_timeout: int = 90) -> list[dict]:
    from concurrent.futures import ThreadPoolExecutor
    with ThreadPoolExecutor(max_workers=jobs) as ex:
        return list(ex.map(_one_real, [(s, hard_timeout) for s in specs]))
