"""Entry point: ./check <ID> [--tier quick|thorough] [--replay file]"""
from __future__ import annotations

import argparse
import importlib
import logging
import os
import sys
import traceback

from . import common


def main() -> int:
    ap = argparse.ArgumentParser()
    ap.add_argument('pid')
    ap.add_argument('--tier', default=os.environ.get('VERIF_TIER', 'quick'), choices=['quick', 'thorough'])
    ap.add_argument('--replay', default=None)
    ap.add_argument('--no-build', action='store_true', help='(development) skip the Lean build')
    args = ap.parse_args()
    seed = int(os.environ.get('VERIF_SEED', '0') or 0)
    logging.disable(logging.CRITICAL)
    pid = args.pid.upper()
    try:
        mod = importlib.import_module(f'harness.props.{pid.lower()}')
    except ModuleNotFoundError:
        print(f'no check for {pid}', file=sys.stderr)
        return 2
    chk = common.Check(pid, args.tier, seed)
    try:
        if args.replay:
            return mod.replay(chk, args.replay)
        if not args.no_build:
            chk.build = common.lean_build(pid, args.tier)
            common.log(f'[{pid}] lean build+audit {chk.build.wall_s:.1f}s ok={chk.build.ok} '
                       f'obligations={len(chk.build.obligations)} failed={chk.build.failed[:2]}')
        mod.run(chk)
        return chk.finish()
    except Exception:
        traceback.print_exc()
        return 2


if __name__ == '__main__':
    sys.exit(main())
