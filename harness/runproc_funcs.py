"""Functions executed in the child by the C17 sweep (must be importable by the spawn child)."""
import logging
import os
import signal
import sys
import time


def ret_value():
    return 42


def ret_unpicklable():
    return lambda: 1


def raise_value_error():
    raise ValueError('boom')


def raise_dynamic():
    class Dyn(Exception):
        pass
    raise Dyn('dyn')


def sys_exit():
    sys.exit(3)


def os_exit(n):
    os._exit(n)


def self_kill():
    os.kill(os.getpid(), signal.SIGKILL)


def sleep(t):
    time.sleep(t)
    return 'slept'


def sleep_catch(t):
    try:
        time.sleep(t)
    except KeyboardInterrupt:
        return 'caught'
    return 'slept'


def noisy(n):
    lg = logging.getLogger('noisy')
    for i in range(n):
        lg.debug('x' * 200 + str(i))
    return n


def log_then(n, how='return'):
    """logs `n` short records (a few hundred bytes in total) and then returns / raises at once"""
    lg = logging.getLogger(SLOW_LOGGER)
    for i in range(n):
        lg.warning('record %d', i)
    if how == 'raise':
        raise ValueError('boom after logging')
    return n


SLOW_LOGGER = 'nlv.c17.slow'


def initializer():
    pass


def linger(seconds: float) -> int:
    """returns at once, but leaves a non-daemon thread behind: the process exits `seconds` later"""
    import threading
    import time
    threading.Thread(target=time.sleep, args=(seconds,)).start()
    return 7


def _touch(flag: str) -> None:
    with open(flag, 'w') as f:
        f.write('1')


def ignore_term_return(flag: str, t: float) -> str:
    """ignores SIGTERM, tells the parent so (creates the file `flag` in the common working directory), and returns normally `t` s later"""
    signal.signal(signal.SIGTERM, signal.SIG_IGN)
    logging.getLogger('nlv.c17.child').info('ignoring SIGTERM')
    _touch(flag)
    time.sleep(t)
    return 'done'


def flag_then_return(flag: str, t: float) -> str:
    """tells the parent that it is about to return (creates the file `flag`), and returns normally `t` s later"""
    logging.getLogger('nlv.c17.child').info('about to return')
    _touch(flag)
    time.sleep(t)
    return 'done'


def raise_cancelled(kind: str = 'asyncio'):
    """the function itself raises an exception that is not an Exception: a CancelledError (asyncio's is a BaseException) or KeyboardInterrupt"""
    if kind == 'asyncio':
        import asyncio
        raise asyncio.CancelledError('raised by the function')
    if kind == 'futures':
        import concurrent.futures
        raise concurrent.futures.CancelledError('raised by the function')
    if kind == 'keyboard':
        raise KeyboardInterrupt('raised by the function')
    raise GeneratorExit('raised by the function')
