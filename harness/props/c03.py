"""C03 — close() always completes and leaves everything shut down.  Model A."""
from __future__ import annotations

from typing import Any

from .. import common, lifecycle
from . import _life

KINDS = {'ret', 'blocked', 'st', 'bc', 'ps'}


def oracle_serial(r: dict) -> list[str]:
    msgs = []
    closed_called = False
    close_returned = False
    subs_before_close = None
    for op, rep in zip(r['ops'], r['impl']):
        if rep == 'skipped':
            continue
        g = lifecycle.group(rep)
        toks = rep.split()
        if op == 'close' or (op.startswith(('xclose', 'kclose')) and any(t.startswith(('ret:close', 'blocked:close')) for t in toks)):
            if closed_called and close_returned and op == 'close':
                extra = [t for t in toks if not t.startswith(('ret:close', 'st=', 'ce=', 'rs=', 'fe=', 'lc=', 'sd='))]
                if extra:
                    msgs.append(f'a second close() did something: {extra}')
            if not closed_called:
                subs_before_close = int(g['sd'][0].split('/')[1])
            closed_called = True
        for t in toks:
            if t.startswith('ret:close:'):
                if not t.endswith(':ok'):
                    msgs.append(f'close() raised {t.split(":")[2]}')
                close_returned = True
                if g['st'][0] != 'closed':
                    msgs.append(f'close() returned with the state {g["st"][0]}')
                if g['lc'][0] != '0':
                    msgs.append(f'close() returned while {g["lc"][0]} child process(es) were alive')
                done, total = map(int, g['sd'][0].split('/'))
                if subs_before_close is not None and done < subs_before_close:
                    msgs.append(f'close() returned but only {done} of the {subs_before_close} subscriptions handed out earlier have terminated')
    if r['info'].get('lazy_not_terminated'):
        msgs.append(f"subscription iterators handed out before close() and first advanced after it never terminate: {r['info']['lazy_not_terminated']}")
    if r['info'].get('close_error'):
        msgs.append(f'close() at the end of the history failed: {r["info"]["close_error"]}')
    if closed_called and not close_returned and 'close' not in r['info'].get('blocked_at_end', []):
        msgs.append('close() neither returned nor is waiting for the run')
    if r['info'].get('blocked_at_end') and r['info'].get('live_children') == 0 and 'close' in r['info']['blocked_at_end']:
        msgs.append('close() is still blocked although no child is alive')
    return msgs


def close_pending_hook_failure(hook_name: str) -> dict:
    """A run is in progress, close() has been issued from another task and is waiting for the run; the child exits and a
    third-party plugin's hook of the completion (`on_finished`, `on_change_state`) raises.  close() must still return, closed."""
    import asyncio
    from .. import fakes, loop as ctl
    from nextline.spawned import RunResult

    async def main() -> dict:
        from nextline.plugin.spec import hookimpl
        sc = lifecycle.Scenario(0, 1, False, False)
        await sc.setup()
        nl = sc.nl
        armed = [False]
        if hook_name == 'on_finished':
            class Bad:
                @hookimpl
                async def on_finished(self, context: Any) -> None:
                    if armed[0]:
                        raise RuntimeError('plugin failure in on_finished (injected by the harness)')
        else:
            class Bad:      # type: ignore[no-redef]
                @hookimpl
                async def on_change_state(self, context: Any, state_name: str) -> None:
                    if armed[0] and state_name == 'finished':
                        raise RuntimeError('plugin failure in on_change_state (injected by the harness)')
        nl.register(Bad())
        await sc.op('start')
        await sc.op('run')
        closer = asyncio.ensure_future(nl.close())
        await lifecycle.settle()
        armed[0] = True
        for c in sc.world.live():
            c.exit(RunResult(ret=5), exitcode=0)
        await lifecycle.settle()
        out = {'hook': hook_name, 'close_returned': closer.done(), 'state': nl.state}
        if closer.done():
            out['close_raised'] = None if closer.exception() is None else type(closer.exception()).__name__
        else:
            closer.cancel()
        return out
    fakes.install()
    try:
        return ctl.run(main, ctl.Fifo())
    except (Exception, ctl.StepBudgetExceeded) as e:  # noqa
        return {'hook': hook_name, 'error': f'{type(e).__name__}: {e}'}


def run(chk: common.Check) -> None:
    chk.cov.rule = ('serial histories (as C01) with close() issued at every point of every short history and at random points of long ones, from a '
                    'fresh task each time; subscribers attached before and after start; compared with the Lean model on call results, state, '
                    'broker closing and state publications; overlapping calls under the permuting loop (oracle only). Non-trivial: close() was '
                    'issued while a run was in progress or after one finished; distinct = distinct (options, history, schedule kind).')
    chk.assumptions += ['liveness premise: an in-flight run\'s child eventually exits (the histories make it exit); serial histories',
                        '“handed out earlier” = the subscription was obtained before close() was called']
    L = 3 if chk.tier == 'quick' else 4
    scen = _life.gen_serial(chk, L, 1500 if chk.tier == 'quick' else 20000)
    rows = _life.run_serial(chk, scen)
    _life.coverage(chk, rows, lambda r: 'close' in r['ops'] and any(o.startswith('run') or o in ('rac', 'rcw') for o in r['ops'][:r['ops'].index('close')]))
    chk.cov.exhaustive = True
    chk.cov.extra['exhaustive_scope'] = f'all serial histories of length ≤ {L} over {_life.ALPHABET}'
    oracle_fail = []
    for r in rows:
        if r['error']:
            oracle_fail.append(({'init': r['init'], 'ops': r['ops']}, [f'scenario failed: {r["error"]}'], None))
            continue
        m = oracle_serial(r)
        if m:
            oracle_fail.append(({'init': r['init'], 'ops': r['ops'], 'schedule': r['schedule'], 'implementation': r['impl']}, m, None))
    dis = _life.compare(rows, KINDS)
    conc = _life.run_concurrent(chk, 300 if chk.tier == 'quick' else 6000)
    for c in conc:
        chk.cov.case(('conc', c['seed']))
        chk.cov.count('kinds', 'concurrent')
        nclose = sum(cl.count('close') for cl in c['calls'])
        if nclose != 1:
            continue          # a second close() returns at once by design; only a single close() is judged at its return
        for (i, call, res, st, live) in c['results']:
            if call != 'close':
                continue
            if res == 'AttributeError':
                oracle_fail.append((c, [f'close() raised AttributeError (overlapping calls {c["calls"]})'], 'overlap_close_attribute_error'))
            elif res != 'ok':
                oracle_fail.append((c, [f'close() raised {res} (overlapping calls {c["calls"]})'], None))
            elif live:
                oracle_fail.append((c, [f'close() returned while {live} child process(es) were alive (overlapping calls {c["calls"]})'], None))
            elif st in ('finished', 'initialized'):
                oracle_fail.append((c, [f'close() returned with the state {st} (overlapping calls {c["calls"]})'], 'overlap_close_cancelled'))
            elif st != 'closed':
                oracle_fail.append((c, [f'close() returned with the state {st} (overlapping calls {c["calls"]})'], None))
        if c['error']:
            oracle_fail.append((c, [f'scenario with overlapping calls failed: {c["error"]}'], None))
        if c['end_state'] == 'closed' and c['end_live']:
            oracle_fail.append((c, [f'the object is closed and {c["end_live"]} child process(es) are still alive'], None))
    for hook_name in ('on_finished', 'on_change_state'):
        r = close_pending_hook_failure(hook_name)
        chk.cov.case(('close-pending-hook-failure', hook_name))
        chk.cov.count('kinds', 'close-pending-while-a-completion-hook-raises')
        m = []
        if 'error' in r:
            m.append(f'scenario failed: {r["error"]}')
        else:
            if not r['close_returned']:
                m.append(f"close() was waiting for the run; the child exited and a plugin's {hook_name} raised: close() never returned (state {r['state']})")
            elif r.get('close_raised'):
                m.append(f"close() raised {r['close_raised']} after a plugin's {hook_name} had raised")
            elif r['state'] != 'closed':
                m.append(f"close() returned with the state {r['state']} after a plugin's {hook_name} had raised")
        if m:
            oracle_fail.append(({'close_pending_hook_failure': r}, m, None))
    _life.finish(chk, 'C03', oracle_fail, dis, 'close results, state, broker closing')
