"""C03 — close() always completes and leaves everything shut down.  Model A."""
from __future__ import annotations

from typing import Any

from .. import common, lifecycle
from . import _life

KINDS = {'ret', 'blocked', 'st', 'bc', 'ps'}


def oracle_serial(r: dict) -> list[str]:
    msgs = []
    closed_called = False
    close_returned = False
    subs_before_close = None
    for op, rep in zip(r['ops'], r['impl']):
        if rep == 'skipped':
            continue
        g = lifecycle.group(rep)
        toks = rep.split()
        if op == 'close' or (op.startswith(('xclose', 'kclose')) and any(t.startswith(('ret:close', 'blocked:close')) for t in toks)):
            if closed_called and close_returned and op == 'close':
                extra = [t for t in toks if not t.startswith(('ret:close', 'st=', 'ce=', 'rs=', 'fe=', 'lc=', 'sd='))]
                if extra:
                    msgs.append(f'a second close() did something: {extra}')
            if not closed_called:
                subs_before_close = int(g['sd'][0].split('/')[1])
            closed_called = True
        for t in toks:
            if t.startswith('ret:close:'):
                if not t.endswith(':ok'):
                    msgs.append(f'close() raised {t.split(":")[2]}')
                close_returned = True
                if g['st'][0] != 'closed':
                    msgs.append(f'close() returned with the state {g["st"][0]}')
                if g['lc'][0] != '0':
                    msgs.append(f'close() returned while {g["lc"][0]} child process(es) were alive')
                done, total = map(int, g['sd'][0].split('/'))
                if subs_before_close is not None and done < subs_before_close:
                    msgs.append(f'close() returned but only {done} of the {subs_before_close} subscriptions handed out earlier have terminated')
    if r['info'].get('lazy_not_terminated'):
        msgs.append(f"subscription iterators handed out before close() and first advanced after it never terminate: {r['info']['lazy_not_terminated']}")
    if r['info'].get('close_error'):
        msgs.append(f'close() at the end of the history failed: {r["info"]["close_error"]}')
    if closed_called and not close_returned and 'close' not in r['info'].get('blocked_at_end', []):
        msgs.append('close() neither returned nor is waiting for the run')
    if r['info'].get('blocked_at_end') and r['info'].get('live_children') == 0 and 'close' in r['info']['blocked_at_end']:
        msgs.append('close() is still blocked although no child is alive')
    return msgs


def close_pending_hook_failure(hook_name: str) -> dict:
    """A run is in progress, close() has been issued from another task and is waiting for the run; the child exits and a
    third-party plugin's hook of the completion (`on_finished`, `on_change_state`) raises.  close() must still return, closed."""
    import asyncio
    from .. import fakes, loop as ctl
    from nextline.spawned import RunResult

    async def main() -> dict:
        from nextline.plugin.spec import hookimpl
        sc = lifecycle.Scenario(0, 1, False, False)
        await sc.setup()
        nl = sc.nl
        armed = [False]
        if hook_name == 'on_finished':
            class Bad:
                @hookimpl
                async def on_finished(self, context: Any) -> None:
                    if armed[0]:
                        raise RuntimeError('plugin failure in on_finished (injected by the harness)')
        else:
            class Bad:      # type: ignore[no-redef]
                @hookimpl
                async def on_change_state(self, context: Any, state_name: str) -> None:
                    if armed[0] and state_name == 'finished':
                        raise RuntimeError('plugin failure in on_change_state (injected by the harness)')
        nl.register(Bad())
        await sc.op('start')
        await sc.op('run')
        closer = asyncio.ensure_future(nl.close())
        await lifecycle.settle()
        armed[0] = True
        for c in sc.world.live():
            c.exit(RunResult(ret=5), exitcode=0)
        await lifecycle.settle()
        out = {'hook': hook_name, 'close_returned': closer.done(), 'state': nl.state}
        if closer.done():
            out['close_raised'] = None if closer.exception() is None else type(closer.exception()).__name__
        else:
            closer.cancel()
        return out
    fakes.install()
    try:
        return ctl.run(main, ctl.Fifo())
    except (Exception, ctl.StepBudgetExceeded) as e:  # noqa
        return {'hook': hook_name, 'error': f'{type(e).__name__}: {e}'}


def stalled_subscriber_case(n_items: int, when: str) -> dict:
    """A subscriber that started reading a topic and then stopped (its iterator is kept, not advanced), a large volume published on
    that topic afterwards, then close() from another task — before or after the child has exited.  close() must return, the state be
    'closed', the other subscribers terminate, and the stalled iterator terminate once it is advanced again."""
    import asyncio
    import datetime
    from .. import fakes, loop as ctl
    from nextline import events as E
    from nextline.spawned import RunResult

    async def main() -> dict:
        sc = lifecycle.Scenario(0, 1, False, False)
        await sc.setup()
        nl = sc.nl
        await sc.op('start')
        got_stalled: list = []
        got_reader: list = []
        resume = asyncio.Event()
        first = asyncio.Event()

        async def stalled() -> None:
            async for x in nl.subscribe_stdout():
                got_stalled.append(x.text)
                if len(got_stalled) == 1:
                    first.set()
                    await resume.wait()          # stops reading here; everything published meanwhile piles up for it

        async def reader() -> None:
            async for x in nl.subscribe_stdout():
                got_reader.append(x.text)
        ts, tr = asyncio.ensure_future(stalled()), asyncio.ensure_future(reader())
        await sc.op('run')
        now = datetime.datetime.utcnow
        live = sc.world.live()
        c = live[-1]
        c.emit(E.OnStartTrace(started_at=now(), run_no=1, trace_no=1, thread_no=1, task_no=None))
        c.emit(E.OnWriteStdout(written_at=now(), run_no=1, trace_no=1, text='0\n'))
        await asyncio.wait_for(first.wait(), timeout=60)
        for k in range(1, n_items):
            c.emit(E.OnWriteStdout(written_at=now(), run_no=1, trace_no=1, text=f'{k}\n'))
        await lifecycle.settle(n_items * 40 + 400)          # relayed and published: the backlog now sits in the stalled subscriber's queue
        if when == 'after-exit':
            c.exit(RunResult(ret=5), exitcode=0)
            await lifecycle.settle(n_items * 40 + 400)

        async def closer() -> None:
            await nl.close()
        tc = asyncio.ensure_future(closer())
        await lifecycle.settle(n_items * 40 + 400)
        if when == 'before-exit':
            c.exit(RunResult(ret=5), exitcode=0)
            await lifecycle.settle(n_items * 40 + 400)
        out: dict = {'n_items': n_items, 'when': when, 'close_returned': tc.done(), 'state': nl.state, 'live': len(sc.world.live()),
                     'reader_done': tr.done(), 'reader_got': len(got_reader)}
        if tc.done() and tc.exception() is not None:
            out['close_raised'] = type(tc.exception()).__name__
        resume.set()
        await lifecycle.settle(n_items * 40 + 400)
        out.update(stalled_done=ts.done(), stalled_got=len(got_stalled))
        if tc.done():
            t2 = asyncio.ensure_future(nl.close())
            await lifecycle.settle()
            out['second_close_returned'] = t2.done() and t2.exception() is None
        for t in (ts, tr, tc):
            t.cancel()
        return out
    fakes.install()
    try:
        return ctl.run(main, ctl.Fifo())
    except (Exception, ctl.StepBudgetExceeded) as e:  # noqa
        return {'n_items': n_items, 'when': when, 'error': f'{type(e).__name__}: {e}'}


def stalled_subscriber_oracle(r: dict) -> list[str]:
    who = (f"a stdout subscriber stopped reading after its first item, {r['n_items']} items were published, close() was called from another task "
           f"{'while the run was still going' if r['when'] == 'before-exit' else 'after the child had exited'}")
    if 'error' in r:
        return [f'{who}: the scenario did not complete ({r["error"]})']
    m = []
    if not r['close_returned']:
        m.append(f"{who}: close() did not return (state {r['state']!r}, {r['live']} live child process(es), the reading subscriber received {r['reader_got']} items)")
    else:
        if r.get('close_raised'):
            m.append(f"{who}: close() raised {r['close_raised']}")
        if r['state'] != 'closed' or r['live']:
            m.append(f"{who}: after close() the state is {r['state']!r} with {r['live']} live child process(es)")
        if not r['reader_done']:
            m.append(f'{who}: the subscriber that kept reading did not terminate')
        if not r['stalled_done']:
            m.append(f'{who}: the stalled subscriber, advanced again after close(), did not terminate')
        if r.get('second_close_returned') is False:
            m.append(f'{who}: a second close() did not return quietly')
    return m


def real_cancel_cases(ks: list[int]) -> list[dict]:
    """harness/real_cancel_case.py, one sub-process per case (a real spawn child): the caller of run() cancelled k loop turns after the task
    of the run began to set the run up, then close() from another task"""
    import json
    import os
    import subprocess
    import tempfile
    from concurrent.futures import ThreadPoolExecutor
    from pathlib import Path

    def one(k: int) -> dict:
        tmp = tempfile.mkdtemp(prefix='nlv-rc-')
        try:
            out = Path(tmp) / 'out.json'
            env = dict(os.environ)
            env['PYTHONPATH'] = f'{common.VERIF}:' + env.get('PYTHONPATH', '')
            p = subprocess.Popen(['/venv/bin/python', '-m', 'harness.real_cancel_case', json.dumps({'n_yields': k}), str(out)], cwd=tmp, env=env,
                                 stdout=subprocess.DEVNULL, stderr=subprocess.DEVNULL, start_new_session=True)
            try:
                p.wait(timeout=120)
            except subprocess.TimeoutExpired:
                pass
            finally:
                try:
                    os.killpg(p.pid, 9)
                except ProcessLookupError:
                    pass
            if out.exists():
                return json.loads(out.read_text())
            return {'spec': {'n_yields': k}, 'error': 'the scenario process produced no result'}
        finally:
            import shutil
            shutil.rmtree(tmp, ignore_errors=True)
    with ThreadPoolExecutor(len(ks)) as ex:
        return list(ex.map(one, ks))


def real_cancel_oracle(r: dict) -> list[str]:
    who = (f"real child: the task that called run() was cancelled {r['spec']['n_yields']} loop turn(s) after the run's task had begun to set the run up "
           f"(the child process being spawned), then close() from another task")
    if 'error' in r:
        return [f'{who}: scenario failed: {r["error"]}']
    m = []
    if r['close'] != 'returned':
        m.append(f"{who}: close() {r['close']} (state {r['state_after_close']!r})")
    else:
        if r['state_after_close'] != 'closed':
            m.append(f"{who}: after close() the state is {r['state_after_close']!r}")
        if r.get('children_alive_after_close'):
            m.append(f"{who}: {r['children_alive_after_close']} child process(es) of the object alive after close() had returned")
        if r.get('second_close') != 'returned':
            m.append(f"{who}: a second close() {r.get('second_close')}")
    return m


def run(chk: common.Check) -> None:
    chk.cov.rule = ('serial histories (as C01) with close() issued at every point of every short history and at random points of long ones, from a '
                    'fresh task each time; subscribers attached before and after start; compared with the Lean model on call results, state, '
                    'broker closing and state publications; overlapping calls under the permuting loop (oracle only). Non-trivial: close() was '
                    'issued while a run was in progress or after one finished; distinct = distinct (options, history, schedule kind).')
    chk.assumptions += ['liveness premise: an in-flight run\'s child eventually exits (the histories make it exit); serial histories',
                        '“handed out earlier” = the subscription was obtained before close() was called']
    L = 3 if chk.tier == 'quick' else 4
    scen = _life.gen_serial(chk, L, 1500 if chk.tier == 'quick' else 20000)
    rows = _life.run_serial(chk, scen)
    _life.coverage(chk, rows, lambda r: 'close' in r['ops'] and any(o.startswith('run') or o in ('rac', 'rcw') for o in r['ops'][:r['ops'].index('close')]))
    chk.cov.exhaustive = True
    chk.cov.extra['exhaustive_scope'] = f'all serial histories of length ≤ {L} over {_life.ALPHABET}'
    oracle_fail = []
    for r in rows:
        if r['error']:
            oracle_fail.append(({'init': r['init'], 'ops': r['ops']}, [f'scenario failed: {r["error"]}'], None))
            continue
        m = oracle_serial(r)
        if m:
            oracle_fail.append(({'init': r['init'], 'ops': r['ops'], 'schedule': r['schedule'], 'implementation': r['impl']}, m, None))
    dis = _life.compare(rows, KINDS)
    conc = _life.run_concurrent(chk, 300 if chk.tier == 'quick' else 6000)
    for c in conc:
        chk.cov.case(('conc', c['seed']))
        chk.cov.count('kinds', 'concurrent')
        nclose = sum(cl.count('close') for cl in c['calls'])
        if nclose != 1:
            continue          # a second close() returns at once by design; only a single close() is judged at its return
        for (i, call, res, st, live) in c['results']:
            if call != 'close':
                continue
            if res == 'AttributeError':
                oracle_fail.append((c, [f'close() raised AttributeError (overlapping calls {c["calls"]})'], 'overlap_close_attribute_error'))
            elif res != 'ok':
                oracle_fail.append((c, [f'close() raised {res} (overlapping calls {c["calls"]})'], None))
            elif live:
                oracle_fail.append((c, [f'close() returned while {live} child process(es) were alive (overlapping calls {c["calls"]})'], None))
            elif st in ('finished', 'initialized'):
                oracle_fail.append((c, [f'close() returned with the state {st} (overlapping calls {c["calls"]})'], 'overlap_close_cancelled'))
            elif st != 'closed':
                oracle_fail.append((c, [f'close() returned with the state {st} (overlapping calls {c["calls"]})'], None))
        if c['error']:
            oracle_fail.append((c, [f'scenario with overlapping calls failed: {c["error"]}'], None))
        if c['end_state'] == 'closed' and c['end_live']:
            oracle_fail.append((c, [f'the object is closed and {c["end_live"]} child process(es) are still alive'], None))
    for hook_name in ('on_finished', 'on_change_state'):
        r = close_pending_hook_failure(hook_name)
        chk.cov.case(('close-pending-hook-failure', hook_name))
        chk.cov.count('kinds', 'close-pending-while-a-completion-hook-raises')
        m = []
        if 'error' in r:
            m.append(f'scenario failed: {r["error"]}')
        else:
            if not r['close_returned']:
                m.append(f"close() was waiting for the run; the child exited and a plugin's {hook_name} raised: close() never returned (state {r['state']})")
            elif r.get('close_raised'):
                m.append(f"close() raised {r['close_raised']} after a plugin's {hook_name} had raised")
            elif r['state'] != 'closed':
                m.append(f"close() returned with the state {r['state']} after a plugin's {hook_name} had raised")
        if m:
            oracle_fail.append(({'close_pending_hook_failure': r}, m, None))
    for r in real_cancel_cases([0, 1, 2, 3, 5] if chk.tier == 'quick' else list(range(0, 12))):
        chk.cov.case(('real-cancel-during-spawn', r['spec']['n_yields']))
        chk.cov.count('kinds', 'real-child-caller-of-run-cancelled-during-spawn-then-close')
        m = real_cancel_oracle(r)
        if m:
            oracle_fail.append(({'real_cancel': r}, m, None))
    for n_items in ((3, 1500) if chk.tier == 'quick' else (3, 300, 1500, 5000)):
        for when in ('before-exit', 'after-exit'):
            r = stalled_subscriber_case(n_items, when)
            chk.cov.case(('stalled-subscriber', n_items, when))
            chk.cov.count('kinds', 'close-with-a-stalled-subscriber-and-a-large-backlog')
            m = stalled_subscriber_oracle(r)
            if m:
                oracle_fail.append(({'stalled_subscriber': r}, m, None))
    _life.finish(chk, 'C03', oracle_fail, dis, 'close results, state, broker closing')
