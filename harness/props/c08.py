"""C08 — pub/sub delivery.  Model B (`NLV.Model.PubSub`), theorems `NLV.Props.C08`.

Tie: exact correspondence.  The same operation sequence is executed on the real
`PubSubItem` / `PubSub` and on the compiled Lean model; reply lines must be equal.
Oracle: an independent specification written from the property statement.
"""
from __future__ import annotations

import asyncio
import itertools
import multiprocessing as mp
import random
from typing import Any, Optional

from .. import common, loop as ctl

ITEM_ALPHABET = ['P', 'C', 'X', 'T', 'S11', 'S10', 'S0', 'N0', 'N1', 'L0', 'L1']
BROKER_ALPHABET = ['p0', 'p1', 't0', 's0', 'S0', 's1', 'n0', 'n1', 'l0', 'e0', 'e1', 'c']


# ---------------------------------------------------------------------------
# scenario → protocol lines
# ---------------------------------------------------------------------------

def item_lines(cache: bool, ops: list[str]) -> list[str]:
    out = [f'new {int(cache)}']
    nxt = 0
    for op in ops:
        if op == 'P':
            out.append(f'publish {nxt}')
            nxt += 1
        elif op == 'C':
            out.append('clear')
        elif op == 'X':
            out.append('aclose')
        elif op == 'T':
            out.append('latest')
        elif op[0] == 'S':
            last = op[1] == '1'
            cch = (op[2] == '1') if len(op) > 2 else True
            out.append(f'sub {int(last)} {int(cch)}')
        elif op[0] == 'N':
            out.append(f'anext {op[1:]}')
        elif op[0] == 'L':
            out.append(f'leave {op[1:]}')
        elif op == 'Q':
            out.append('nsubs')
        else:
            raise ValueError(op)
    out.append('nsubs')
    return out


def broker_lines(ops: list[str]) -> list[str]:
    out = ['bnew']
    nxt = 0
    for op in ops:
        k = op[1:]
        if op[0] == 'p':
            out.append(f'bpublish {k} {nxt}')
            nxt += 1
        elif op[0] == 't':
            out.append(f'blatest {k}')
        elif op[0] == 's':
            out.append(f'bsub {k} 1')
        elif op[0] == 'S':
            out.append(f'bsub {k} 0')
        elif op[0] == 'n':
            out.append(f'banext {k}')
        elif op[0] == 'l':
            out.append(f'bleave {k}')
        elif op[0] == 'e':
            out.append(f'bend {k}')
        elif op == 'c':
            out.append('bclose')
        else:
            raise ValueError(op)
    return out


# ---------------------------------------------------------------------------
# implementation executor (real classes, plain asyncio) + oracle
# ---------------------------------------------------------------------------

class OracleFail(Exception):
    pass


class SpecSub:
    """What the property says one subscriber must see (independent of the Lean model)."""

    def __init__(self) -> None:
        self.started = False
        self.base: Optional[list] = None   # None: started on an ended topic → nothing
        self.start = 0
        self.got: list = []
        self.stopped = False
        self.left = False
        self.topic: Any = None


class SpecTopic:
    def __init__(self, cache: bool) -> None:
        self.cache = cache
        self.log: list = []
        self.clear_pos = 0
        self.ended = False
        self.end_pos: Optional[int] = None

    def expected(self, s: SpecSub) -> list:
        if s.base is None:
            return []
        end = len(self.log) if self.end_pos is None else self.end_pos
        return s.base + self.log[s.start:end]


async def _drain(loop: asyncio.AbstractEventLoop) -> None:
    for _ in range(100):
        await asyncio.sleep(0)
        if not loop._ready:  # type: ignore[attr-defined]
            break


class ImplExec:
    """Executes protocol lines on the real classes and answers in the model's reply format."""

    def __init__(self) -> None:
        from nextline.utils.pubsub.broker import PubSub
        from nextline.utils.pubsub.item import PubSubItem
        self.PubSubItem = PubSubItem
        self.PubSub = PubSub
        self.item: Any = None
        self.gens: list = []
        self.pend: dict[int, asyncio.Task] = {}
        self.broker: Any = None
        self.bgens: list = []
        self.bpend: dict[int, asyncio.Task] = {}
        # oracle state
        self.topic: Optional[SpecTopic] = None
        self.subs: list[SpecSub] = []
        self.btopics: dict[int, SpecTopic] = {}
        self.bsubs: list[SpecSub] = []
        self.oracle_msgs: list[str] = []

    # -- oracle helpers -------------------------------------------------------
    def _o_start(self, s: SpecSub, t: SpecTopic, last: bool, cch: bool) -> None:
        s.started = True
        s.topic = t
        if t.ended:
            s.base = None
            return
        since = t.log[t.clear_pos:]
        if not last:
            s.base = []
        elif t.cache and cch:
            s.base = list(since)
        else:
            s.base = since[-1:]
        s.start = len(t.log)

    def _o_recv(self, s: SpecSub, res: str, who: str) -> None:
        t = s.topic
        if res.startswith('yield:'):
            v = int(res[6:])
            s.got.append(v)
            exp = t.expected(s)
            if s.got != exp[:len(s.got)]:
                self.oracle_msgs.append(f'{who}: received {s.got}, but the specification allows only a prefix of {exp}')
        elif res == 'stop':
            s.stopped = True
            if not s.left:
                exp = t.expected(s)
                if not t.ended and s.base is not None:
                    self.oracle_msgs.append(f'{who}: iteration ended although the topic was not ended')
                if s.got != exp:
                    self.oracle_msgs.append(f'{who}: ended having received {s.got}, expected exactly {exp}')

    # -- protocol ------------------------------------------------------------
    async def _anext(self, gen: Any, pend: dict, i: int, loop: Any) -> str:
        task = asyncio.ensure_future(gen.__anext__())
        await _drain(loop)
        if task.done():
            return self._result(task)
        pend[i] = task
        return 'pending'

    @staticmethod
    def _result(task: asyncio.Task) -> str:
        try:
            return f'yield:{task.result()}'
        except StopAsyncIteration:
            return 'stop'
        except asyncio.CancelledError:
            return 'cancelled'
        except BaseException as e:  # noqa
            return f'raised:{type(e).__name__}'

    async def handle(self, line: str) -> str:
        loop = asyncio.get_running_loop()
        w = line.split()
        op = w[0]
        r = 'bad-op'
        try:
            if op == 'new':
                self.__init__()  # type: ignore[misc]
                self.item = self.PubSubItem(cache=bool(int(w[1])))
                self.topic = SpecTopic(bool(int(w[1])))
                return 'ok |'
            if op == 'bnew':
                self.__init__()  # type: ignore[misc]
                self.broker = self.PubSub()
                return 'ok |'
            if op == 'publish':
                try:
                    await self.item.publish(int(w[1]))
                    r = 'ok'
                    self.topic.log.append(int(w[1]))
                except RuntimeError:
                    r = 'closed'
                    if not self.topic.ended:
                        self.oracle_msgs.append('publish refused on a topic that was not ended')
            elif op == 'clear':
                try:
                    self.item.clear()
                    r = 'ok'
                    self.topic.clear_pos = len(self.topic.log)
                except RuntimeError:
                    r = 'closed'
            elif op == 'aclose':
                await self.item.aclose()
                r = 'ok'
                if not self.topic.ended:
                    self.topic.ended = True
                    self.topic.end_pos = len(self.topic.log)
            elif op == 'latest':
                r = self._latest(lambda: self.item.latest(), self.topic)
            elif op == 'sub':
                self.gens.append((self.item.subscribe(last=bool(int(w[1])), cache=bool(int(w[2]))),
                                  bool(int(w[1])), bool(int(w[2]))))
                self.subs.append(SpecSub())
                r = f'ok:{len(self.gens) - 1}'
            elif op == 'anext':
                i = int(w[1])
                if i >= len(self.gens):
                    r = 'nosub'
                elif i in self.pend:
                    return 'bad-op'
                else:
                    gen, last, cch = self.gens[i]
                    s = self.subs[i]
                    if not s.started and not s.left:
                        self._o_start(s, self.topic, last, cch)
                    r = await self._anext(gen, self.pend, i, loop)
                    if s.left or not s.started:
                        if r != 'stop':
                            self.oracle_msgs.append(f'sub {i}: yielded {r} after it had left')
                    else:
                        self._o_recv(s, r, f'sub {i}')
            elif op == 'leave':
                i = int(w[1])
                if i >= len(self.gens):
                    r = 'nosub'
                else:
                    await self._leave(self.gens[i][0], self.pend, i)
                    self.subs[i].left = True
                    r = 'ok'
            elif op == 'nsubs':
                r = f'n:{self.item.n_subscriptions}:{int(self.item.closed)}'
            # ---- broker
            elif op == 'bpublish':
                k, a = int(w[1]), int(w[2])
                await self.broker.publish(k, a)
                self._bt(k).log.append(a)
                r = 'ok'
            elif op == 'blatest':
                k = int(w[1])
                t = self._bt(k)
                r = self._latest(lambda: self.broker.latest(k), t)
            elif op == 'bsub':
                k, last = int(w[1]), bool(int(w[2]))
                self.bgens.append((self.broker.subscribe(k, last=last), last, True))
                s = SpecSub()
                s.topic = self._bt(k)   # bound to the topic's current lifetime at the call
                self.bsubs.append(s)
                r = f'ok:{len(self.bgens) - 1}'
            elif op == 'banext':
                h = int(w[1])
                if h >= len(self.bgens):
                    r = 'nosub'
                elif h in self.bpend:
                    return 'bad-op'
                else:
                    gen, last, cch = self.bgens[h]
                    s = self.bsubs[h]
                    if not s.started and not s.left:
                        self._o_start(s, s.topic, last, cch)
                    r = await self._anext(gen, self.bpend, h, loop)
                    if s.left or not s.started:
                        if r != 'stop':
                            self.oracle_msgs.append(f'handle {h}: yielded {r} after it had left')
                    else:
                        self._o_recv(s, r, f'handle {h}')
            elif op == 'bleave':
                h = int(w[1])
                if h >= len(self.bgens):
                    r = 'nosub'
                else:
                    await self._leave(self.bgens[h][0], self.bpend, h)
                    self.bsubs[h].left = True
                    r = 'ok'
            elif op == 'bend':
                k = int(w[1])
                await self.broker.end(k)
                if k in self.btopics:
                    t = self.btopics.pop(k)
                    t.ended = True
                    t.end_pos = len(t.log)
                r = 'ok'
            elif op == 'bclose':
                await self.broker.close()
                for t in self.btopics.values():
                    t.ended = True
                    t.end_pos = len(t.log)
                self.btopics.clear()
                r = 'ok'
        except Exception as e:  # an exception the model does not know
            r = f'raised:{type(e).__name__}'
        await _drain(loop)
        settled = []
        for pend, subs, who in ((self.pend, self.subs, 'sub'), (self.bpend, self.bsubs, 'handle')):
            for i in sorted(pend):
                t = pend[i]
                if t.done():
                    res = self._result(t)
                    del pend[i]
                    self._o_recv(subs[i], res, f'{who} {i}')
                    settled.append(f'{i}:{res}')
        return r + ' |' + ''.join(' ' + s for s in settled)

    def _bt(self, k: int) -> SpecTopic:
        if k not in self.btopics:
            self.btopics[k] = SpecTopic(False)
        return self.btopics[k]

    def _latest(self, f: Any, t: SpecTopic) -> str:
        try:
            v = f()
            r = f'some:{v}'
        except LookupError:
            v = None
            r = 'none'
        since = t.log[t.clear_pos:]
        exp = since[-1] if since else None
        if v != exp:
            self.oracle_msgs.append(f'latest() = {v}, but the most recent item of the current lifetime is {exp}')
        return r

    async def _leave(self, gen: Any, pend: dict, i: int) -> None:
        if i in pend:
            t = pend.pop(i)
            t.cancel()
            try:
                await t
            except (asyncio.CancelledError, StopAsyncIteration):
                pass
        await gen.aclose()

    async def finish(self) -> None:
        """End of scenario: end everything; every subscriber that is still subscribed must terminate
        having received exactly the specified items."""
        loop = asyncio.get_running_loop()
        if self.item is not None:
            await self.item.aclose()
            if not self.topic.ended:
                self.topic.ended = True
                self.topic.end_pos = len(self.topic.log)
        if self.broker is not None:
            await self.broker.close()
            for t in self.btopics.values():
                t.ended = True
                t.end_pos = len(t.log)
        await _drain(loop)
        for gens, pend, subs, who in ((self.gens, self.pend, self.subs, 'sub'),
                                      (self.bgens, self.bpend, self.bsubs, 'handle')):
            for i, (gen, last, cch) in enumerate(gens):
                s = subs[i]
                if s.left or s.stopped:
                    continue
                if not s.started:
                    self._o_start(s, s.topic if s.topic is not None else self.topic, last, cch)
                for _ in range(10000):
                    if i in pend:
                        t = pend.pop(i)
                        await _drain(loop)
                        if not t.done():
                            self.oracle_msgs.append(f'{who} {i}: still waiting after the topic was ended')
                            t.cancel()
                            break
                        res = self._result(t)
                    else:
                        t = asyncio.ensure_future(gen.__anext__())
                        await _drain(loop)
                        if not t.done():
                            self.oracle_msgs.append(f'{who} {i}: still waiting after the topic was ended')
                            t.cancel()
                            break
                        res = self._result(t)
                    self._o_recv(s, res, f'{who} {i}')
                    if res == 'stop' or res.startswith('raised'):
                        break


HANG_TURNS = 20000


def run_impl(lines: list[str]) -> tuple[list[str], list[str]]:
    """Execute one scenario (starting with `new`/`bnew`) on the implementation."""
    async def main() -> tuple[list[str], list[str]]:
        ex = ImplExec()
        out = []
        for ln in lines:
            # nothing here waits for wall-clock time or for another thread: an operation that has not returned after this many turns of
            # the event loop never will (e.g. it polls for something that is not going to happen)
            t = asyncio.ensure_future(ex.handle(ln))
            for _ in range(HANG_TURNS):
                if t.done():
                    break
                await asyncio.sleep(0)
            if not t.done():
                t.cancel()
                out.append('HANG')
                ex.oracle_msgs.append(f'operation {ln!r} had not returned after {HANG_TURNS} turns of the event loop (after {out[:-1][-6:]})')
                return out, ex.oracle_msgs
            out.append(t.result())
        t = asyncio.ensure_future(ex.finish())
        for _ in range(HANG_TURNS * 5):
            if t.done():
                break
            await asyncio.sleep(0)
        if not t.done():
            t.cancel()
            ex.oracle_msgs.append(f'ending the topic(s) at the end of the scenario (aclose / close) had not returned after {HANG_TURNS * 5} turns of the event loop')
        else:
            t.result()
        return out, ex.oracle_msgs
    loop = asyncio.new_event_loop()
    try:
        return loop.run_until_complete(main())
    finally:
        loop.run_until_complete(loop.shutdown_asyncgens())
        loop.close()


def canon(reply: str) -> str:
    head, _, tail = reply.partition('|')
    return head.strip() + ' | ' + ' '.join(sorted(tail.split()))


def _shard(args: tuple) -> list:
    """Worker: run scenarios on the implementation; return (idx, replies, oracle msgs)."""
    scenarios = args
    res = []
    for idx, lines in scenarios:
        try:
            out, msgs = run_impl(lines)
        except Exception as e:  # harness-level failure
            out, msgs = [f'HARNESS:{type(e).__name__}:{e}'], []
        res.append((idx, out, msgs))
    return res


# ---------------------------------------------------------------------------
# concurrent publishers under the permuting loop (atomicity, F2) — oracle only
# ---------------------------------------------------------------------------

def concurrent_case(seed: int, via_broker: bool) -> Optional[dict]:
    from nextline.utils.pubsub.broker import PubSub
    from nextline.utils.pubsub.item import PubSubItem
    rng = random.Random(seed)
    n_pub = rng.randint(2, 3)
    n_items = rng.randint(1, 3)
    n_sub = rng.randint(2, 3)
    chooser = ctl.Rand(random.Random(seed * 7 + 1))
    got: list[list] = [[] for _ in range(n_sub)]
    early = [rng.random() < 0.25 for _ in range(n_sub)]
    done = [False] * n_sub
    started = [False] * n_sub

    async def main() -> None:
        item = PubSubItem()
        broker = PubSub()

        async def publisher(p: int) -> None:
            for j in range(n_items):
                if via_broker:
                    await broker.publish('k', (p, j))
                else:
                    await item.publish((p, j))
                await asyncio.sleep(0)

        async def subscriber(i: int) -> None:
            agen = broker.subscribe('k', last=False) if via_broker else item.subscribe(last=False)
            started[i] = True       # the first step of the iteration below registers the subscription before it suspends
            async for x in agen:
                got[i].append(x)
                if early[i] and len(got[i]) >= 1:
                    break
            await agen.aclose()
            done[i] = True

        subs = [asyncio.ensure_future(subscriber(i)) for i in range(n_sub)]
        # let every subscription start before anything is published (under a random schedule a fixed number of yields is not enough)
        while not all(started):
            await asyncio.sleep(0)
        await asyncio.sleep(0)
        pubs = [asyncio.ensure_future(publisher(p)) for p in range(n_pub)]
        await asyncio.gather(*pubs)
        if via_broker:
            await broker.end('k')
        else:
            await item.aclose()
        await asyncio.wait_for(asyncio.gather(*subs), timeout=5)

    try:
        ctl.run(main, chooser)
    except Exception as e:
        return {'seed': seed, 'via_broker': via_broker, 'error': f'{type(e).__name__}: {e}',
                'schedule': chooser.trace, 'got': got}
    full = [g for g, e in zip(got, early) if not e]
    total = n_pub * n_items
    msgs = []
    for g in full:
        if len(g) != total or len(set(g)) != total:
            msgs.append(f'a subscriber present from the start received {len(g)} items ({len(set(g))} distinct) of {total}')
        for p in range(n_pub):
            seq = [j for (q, j) in g if q == p]
            if seq != sorted(seq):
                msgs.append(f'publisher {p} order broken: {g}')
    if full and any(g != full[0] for g in full):
        msgs.append(f'subscribers disagree on the order: {full}')
    for g, e in zip(got, early):
        if e and full and g != full[0][:len(g)]:
            msgs.append(f'early leaver saw {g}, not a prefix of {full[0]}')
    if not all(done):
        msgs.append('a subscriber did not terminate after the topic ended')
    if msgs:
        return {'seed': seed, 'via_broker': via_broker, 'messages': msgs, 'schedule': chooser.trace, 'got': got}
    return None


def close_race_case(seed: int) -> Optional[dict]:
    """`PubSub.close()` in flight (it suspends between keys) while other tasks subscribe to a new or an existing key and publish:
    every subscription that started before close() returned must terminate, publishing must not raise, and a key used again
    afterwards starts a new lifetime."""
    from nextline.utils.pubsub.broker import PubSub
    rng = random.Random(seed)
    chooser = ctl.Rand(random.Random(seed * 11 + 5))
    nkeys = rng.randint(1, 3)
    late_key = rng.choice(['new', 'k0'])
    late_delay = rng.randint(0, 6)
    pub_delay = rng.randint(0, 6)
    msgs: list[str] = []
    info: dict = {}

    async def main() -> None:
        broker = PubSub()
        started: dict = {}
        ended: dict = {}
        before_close_returned: dict = {}
        closed = [False]

        async def subscriber(name: str, key: str) -> None:
            agen = broker.subscribe(key, last=False)
            started[name] = True
            before_close_returned[name] = not closed[0]
            async for _ in agen:
                pass
            ended[name] = True
        subs = [asyncio.ensure_future(subscriber(f's{i}', f'k{i}')) for i in range(nkeys)]
        while len(started) < nkeys:
            await asyncio.sleep(0)
        await asyncio.sleep(0)
        for i in range(nkeys):
            await broker.publish(f'k{i}', i)

        async def late() -> None:
            for _ in range(late_delay):
                await asyncio.sleep(0)
            await subscriber('late', late_key)

        async def publisher() -> None:
            for _ in range(pub_delay):
                await asyncio.sleep(0)
            try:
                await broker.publish('k0', 99)
            except BaseException as e:  # noqa
                msgs.append(f'publish() while close() was in flight raised {type(e).__name__}: {e}')

        async def closer() -> None:
            await broker.close()
            closed[0] = True
        tl = asyncio.ensure_future(late())
        tp = asyncio.ensure_future(publisher())
        tc = asyncio.ensure_future(closer())
        await tc
        await tp
        for _ in range(60):
            await asyncio.sleep(0)
        for name, early in before_close_returned.items():
            if early and not ended.get(name):
                msgs.append(f'subscription {name} started before close() returned and has not terminated '
                            f'(keys {nkeys}, late subscriber on {late_key!r} after {late_delay} steps)')
        info['late_started_before_close_returned'] = before_close_returned.get('late')
        # whatever is still subscribed belongs to a new lifetime: a second close() ends it
        await broker.close()
        for _ in range(30):
            await asyncio.sleep(0)
        for t in subs + [tl]:
            if not t.done():
                msgs.append('a subscriber is still waiting after a second close()')
                t.cancel()
    try:
        ctl.run(main, chooser)
    except (Exception, ctl.StepBudgetExceeded) as e:  # noqa
        return {'seed': seed, 'close_race': True, 'error': f'{type(e).__name__}: {e}', 'schedule': chooser.trace}
    if msgs:
        return {'seed': seed, 'close_race': True, 'messages': msgs, 'schedule': chooser.trace, 'info': info}
    return None


def several_brokers_case(seed: int) -> Optional[dict]:
    """Two or three PubSub brokers alive at the same time in one process, using equal keys (every Nextline object has a broker with the keys
    'state_name', 'run_info', …): each broker's topics are its own — subscribers receive exactly what was published on THEIR broker, `latest`
    is their broker's, and ending / closing one broker does not touch the subscribers of another."""
    import random as _r
    from nextline.utils.pubsub import PubSub
    rng = _r.Random(seed)
    nb = rng.choice([2, 2, 3])
    keys = ['state_name', 'k'][:rng.choice([1, 2])]
    plan = []
    for _ in range(rng.randint(6, 16)):
        b = rng.randrange(nb)
        plan.append((rng.choice(['pub', 'pub', 'pub', 'latest', 'sub']), b, rng.choice(keys)))
    ender = rng.randrange(nb)
    how = rng.choice(['end', 'close'])
    msgs: list = []

    async def main() -> None:
        brokers = [PubSub() for _ in range(nb)]
        expected: dict = {}        # (broker, key) -> items published so far
        subs: list = []            # (broker, key, start position, received list, task)

        async def reader(b: int, k: str, got: list) -> None:
            async for x in brokers[b].subscribe(k, last=False):
                got.append(x)

        def start_sub(b: int, k: str) -> None:
            got: list = []
            subs.append((b, k, len(expected.get((b, k), [])), got, asyncio.ensure_future(reader(b, k, got))))
        for b in range(nb):
            for k in keys:
                start_sub(b, k)
        await _drain(asyncio.get_running_loop())
        n = 0
        for op, b, k in plan:
            if op == 'pub':
                n += 1
                item = f'{b}:{k}:{n}'
                await brokers[b].publish(k, item)
                expected.setdefault((b, k), []).append(item)
            elif op == 'sub':
                start_sub(b, k)
            else:
                want = expected.get((b, k), [])
                try:
                    got = brokers[b].latest(k)
                    if not want or got != want[-1]:
                        msgs.append(f'latest({k!r}) of broker {b} is {got!r}; published on that broker: {want}')
                except LookupError:
                    if want:
                        msgs.append(f'latest({k!r}) of broker {b} raised LookupError; published on that broker: {want}')
            await _drain(asyncio.get_running_loop())
        # one broker ends its topics / closes: its subscribers terminate, the others' do not
        if how == 'end':
            for k in keys:
                await brokers[ender].end(k)
        else:
            await brokers[ender].close()
        await _drain(asyncio.get_running_loop())
        for b, k, pos, got, t in subs:
            want = expected.get((b, k), [])[pos:]
            if got != want:
                msgs.append(f'a subscriber of {k!r} on broker {b} received {got}; published on that broker since it subscribed: {want}')
            if b == ender and not t.done():
                msgs.append(f'a subscriber of {k!r} on broker {b} did not terminate when that broker did {how}()')
            if b != ender and t.done():
                msgs.append(f'a subscriber of {k!r} on broker {b} terminated when broker {ender} did {how}()')
        # the others still work afterwards
        for b in range(nb):
            if b == ender:
                continue
            for k in keys:
                item = f'{b}:{k}:after'
                await brokers[b].publish(k, item)
                expected.setdefault((b, k), []).append(item)
        await _drain(asyncio.get_running_loop())
        for b, k, pos, got, t in subs:
            if b != ender and got != expected.get((b, k), [])[pos:]:
                msgs.append(f'after broker {ender} did {how}(), a subscriber of {k!r} on broker {b} has received {got}; published there since it subscribed: {expected.get((b, k), [])[pos:]}')
        for b in range(nb):
            await brokers[b].close()
        await _drain(asyncio.get_running_loop())
        for b, k, pos, got, t in subs:
            if not t.done():
                msgs.append(f'a subscriber of {k!r} on broker {b} did not terminate when its broker was closed')
                t.cancel()
    loop = asyncio.new_event_loop()
    try:
        t = loop.create_task(main())
        loop.run_until_complete(asyncio.wait_for(t, timeout=60))
    except BaseException as e:  # noqa
        return {'seed': seed, 'error': f'scenario failed: {type(e).__name__}: {e}', 'messages': [f'scenario failed: {type(e).__name__}: {e}'], 'plan': plan}
    finally:
        loop.run_until_complete(loop.shutdown_asyncgens())
        loop.close()
    if msgs:
        return {'seed': seed, 'brokers': nb, 'keys': keys, 'plan': plan, 'ender': ender, 'how': how, 'messages': [f'{nb} brokers alive at once with equal keys {keys}: ' + m for m in msgs]}
    return None


def many_subscribers_case(seed: int) -> Optional[dict]:
    """One topic with many subscribers (more than any batch size an implementation may use), some leaving after their first item."""
    from nextline.utils.pubsub.broker import PubSub
    from nextline.utils.pubsub.item import PubSubItem
    rng = random.Random(seed)
    n_sub = rng.choice([65, 70, 100, 130, 200])
    n_items = rng.randint(1, 3)
    via_broker = rng.random() < 0.5
    leavers = set(rng.sample(range(n_sub), rng.choice([0, 1, 3])))
    chooser = ctl.Rand(random.Random(seed * 5 + 2)) if rng.random() < 0.5 else ctl.Fifo()
    got: list[list] = [[] for _ in range(n_sub)]
    done = [False] * n_sub
    started = [False] * n_sub

    async def main() -> None:
        item = PubSubItem()
        broker = PubSub()

        async def subscriber(i: int) -> None:
            agen = broker.subscribe('k', last=False) if via_broker else item.subscribe(last=False)
            started[i] = True
            async for x in agen:
                got[i].append(x)
                if i in leavers:
                    break
            await agen.aclose()
            done[i] = True
        subs = [asyncio.ensure_future(subscriber(i)) for i in range(n_sub)]
        while not all(started):
            await asyncio.sleep(0)
        await asyncio.sleep(0)
        for j in range(n_items):
            if via_broker:
                await broker.publish('k', j)
            else:
                await item.publish(j)
            await asyncio.sleep(0)
        if via_broker:
            await broker.end('k')
        else:
            await item.aclose()
        await asyncio.wait_for(asyncio.gather(*subs), timeout=5)
    try:
        ctl.run(main, chooser)
    except (Exception, ctl.StepBudgetExceeded) as e:  # noqa
        missing = [i for i in range(n_sub) if not done[i]]
        return {'seed': seed, 'many': True, 'messages': [f'{n_sub} subscribers on one topic: {type(e).__name__} — subscribers {missing[:8]} did not terminate '
                                                             f'after the topic ended'], 'schedule': getattr(chooser, 'trace', None)}
    msgs = []
    want = list(range(n_items))
    for i in range(n_sub):
        if i in leavers:
            if got[i] != want[:1]:
                msgs.append(f'{n_sub} subscribers: subscriber {i} (leaves after its first item) received {got[i]}')
        elif got[i] != want:
            msgs.append(f'{n_sub} subscribers, {len(leavers)} leaving early: subscriber {i} received {got[i]}, published {want}')
    if msgs:
        return {'seed': seed, 'many': True, 'messages': msgs[:5], 'schedule': getattr(chooser, 'trace', None)}
    return None


def _conc_shard(seeds: list) -> list:
    out = []
    for s, vb in seeds:
        r = (close_race_case(s) if vb == 'close-race' else many_subscribers_case(s) if vb == 'many' else several_brokers_case(s) if vb == 'brokers'
             else concurrent_case(s, vb))
        out.append((s, vb, r))
    return out


# ---------------------------------------------------------------------------
# the check
# ---------------------------------------------------------------------------

def gen_scenarios(chk: common.Check) -> list[tuple[str, list[str], list[str]]]:
    """(kind, ops, protocol lines)"""
    rng = chk.rng
    scen: list[tuple[str, list[str], list[str]]] = []
    # corpus first: minimised past disagreements and hand-written witnesses
    corpus = [
        ('item1', ['P', 'P', 'S11', 'N0', 'P', 'N0', 'N0', 'X', 'N0']),
        ('item1', ['P', 'P', 'P', 'S11', 'N0', 'P', 'N0', 'N0', 'N0', 'N0']),       # replay of cache vs live publish
        ('item1', ['P', 'P', 'S11', 'N0', 'C', 'P', 'N0', 'N0', 'N0']),             # clear during replay
        ('item0', ['P', 'S11', 'S0', 'N0', 'N1', 'P', 'L0', 'P', 'N1', 'X', 'N1']),
        ('item0', ['S11', 'X', 'N0', 'S11', 'N1', 'T', 'P']),
        ('item1', ['P', 'C', 'S11', 'N0', 'P', 'T']),
        ('broker', ['s0', 'e0', 'n0', 'p0', 's0', 'n1', 't0']),                    # bound at subscribe(), not at first pull
        ('broker', ['p0', 's0', 'n0', 'p1', 's1', 'n1', 'c', 'n0', 'n1', 't0']),
        ('broker', ['s0', 'n0', 'p0', 'e0', 'p0', 's0', 'n1', 'n0']),
    ]
    for kind, ops in corpus:
        scen.append((kind, ops, broker_lines(ops) if kind == 'broker' else item_lines(kind == 'item1', ops)))
    maxlen = 4 if chk.tier == 'quick' else 5
    for L in range(1, maxlen + 1):
        for ops in itertools.product(ITEM_ALPHABET, repeat=L):
            # prune sequences that only address subscribers that do not exist
            nsub = 0
            ok = True
            for o in ops:
                if o[0] == 'S':
                    nsub += 1
                elif o[0] in 'NL' and int(o[1:]) >= nsub:
                    ok = False
                    break
            if not ok:
                continue
            for c in (False, True):
                if c is False and 'S10' in ops:
                    continue   # the `cache` argument is irrelevant without a cache; S11 covers it
                scen.append(('item1' if c else 'item0', list(ops), item_lines(c, list(ops))))
    bl = 4 if chk.tier == 'quick' else 5
    for L in range(1, bl + 1):
        for ops in itertools.product(BROKER_ALPHABET, repeat=L):
            nh = 0
            ok = True
            for o in ops:
                if o[0] in 'sS':
                    nh += 1
                elif o[0] in 'nl' and int(o[1:]) >= nh:
                    ok = False
                    break
            if not ok:
                continue
            scen.append(('broker', list(ops), broker_lines(list(ops))))
    # random longer ones
    nrand = 1500 if chk.tier == 'quick' else 20000
    for _ in range(nrand):
        L = rng.randint(5, 60)
        if rng.random() < 0.6:
            c = rng.random() < 0.5
            nsub = 0
            ops = []
            for _ in range(L):
                r = rng.random()
                if r < 0.30:
                    ops.append('P')
                elif r < 0.36:
                    ops.append('C')
                elif r < 0.39:
                    ops.append('X')
                elif r < 0.45:
                    ops.append('T')
                elif r < 0.60 and nsub < 6:
                    ops.append(rng.choice(['S11', 'S10', 'S0', 'S11']))
                    nsub += 1
                elif nsub:
                    i = rng.randrange(nsub)
                    ops.append(('L' if rng.random() < 0.1 else 'N') + str(i))
                else:
                    ops.append('P')
            scen.append(('item1' if c else 'item0', ops, item_lines(c, ops)))
        else:
            nh = 0
            ops = []
            for _ in range(L):
                r = rng.random()
                k = rng.randrange(2)
                if r < 0.30:
                    ops.append(f'p{k}')
                elif r < 0.36:
                    ops.append(f't{k}')
                elif r < 0.44:
                    ops.append(f'e{k}')
                elif r < 0.47:
                    ops.append('c')
                elif r < 0.62 and nh < 6:
                    ops.append(rng.choice(['s', 'S']) + str(k))
                    nh += 1
                elif nh:
                    i = rng.randrange(nh)
                    ops.append(('l' if rng.random() < 0.1 else 'n') + str(i))
                else:
                    ops.append(f'p{k}')
            scen.append(('broker', ops, broker_lines(ops)))
    return scen


def run(chk: common.Check) -> None:
    chk.cov.rule = ('operation sequences over publish/clear/aclose/latest/subscribe(last,cache)/anext(i)/leave(i) on PubSubItem '
                    '(cache on/off) and publish/latest/subscribe/anext/leave/end/close on PubSub with 2 keys: all sequences up '
                    'to a fixed length, then seeded random ones up to length 60; plus publisher/subscriber task sets under '
                    'the permuting loop. A case is non-trivial if at least one item was delivered to a subscriber or a '
                    'subscriber was terminated by an end; distinct = distinct (kind, op sequence).')
    chk.assumptions += [
        'F2: publish/clear/aclose/end/close and the snapshot+register prefix of subscribe() do not suspend (exercised: '
        'concurrent publishers under the permuting loop must yield one agreed order)',
        'leaving early is modelled as an explicit aclose() of the iterator (or cancellation of its pending __anext__); '
        'an iterator that is merely dropped is finalised by the asyncio asyncgen hooks, which is CPython behaviour',
    ]
    scen = gen_scenarios(chk)
    nshards = 16
    shards = [[] for _ in range(nshards)]
    for idx, (kind, ops, lines) in enumerate(scen):
        shards[idx % nshards].append((idx, lines))
    with mp.get_context('fork').Pool(nshards) as pool:
        results = pool.map(_shard, shards)
        nconc = 300 if chk.tier == 'quick' else 5000
        cs = [(chk.seed * 100003 + i, i % 2 == 1) for i in range(nconc)] + [(chk.seed * 100019 + i, 'close-race') for i in range(nconc)] + \
            [(chk.seed * 100043 + i, 'many') for i in range(32 if chk.tier == 'quick' else 400)] + \
            [(chk.seed * 100057 + i, 'brokers') for i in range(120 if chk.tier == 'quick' else 2000)]
        conc = pool.map(_conc_shard, [cs[i::nshards] for i in range(nshards)])
    impl: dict[int, tuple[list[str], list[str]]] = {}
    for sh in results:
        for idx, out, msgs in sh:
            impl[idx] = (out, msgs)
    # model side, one batch
    model_out: Optional[list[str]] = None
    model_err = None
    try:
        all_lines = [ln for (_, _, lines) in scen for ln in lines]
        model_out = common.model_batch('pubsub', all_lines)
    except Exception as e:  # driver missing/broken
        model_err = f'{type(e).__name__}: {e}'
    pos = 0
    disagreements = []
    oracle_fail = []
    for idx, (kind, ops, lines) in enumerate(scen):
        out, msgs = impl[idx]
        nontrivial = any('yield' in o or 'stop' in o for o in out)
        chk.cov.case((kind, tuple(ops)), trivial=not nontrivial)
        for o in ops:
            chk.cov.count('ops', o.rstrip('0123456789') if o[0] in 'NLnlpstSe' and kind == 'broker' else o)
        for o in out:
            chk.cov.count('replies', o.split('|')[0].strip().split(':')[0])
        if out and out[0].startswith('HARNESS'):
            raise RuntimeError(out[0])
        if msgs:
            oracle_fail.append((kind, ops, lines, msgs, out))
        if model_out is not None:
            mo = model_out[pos:pos + len(lines)]
            pos += len(lines)
            if [canon(a) for a in mo] != [canon(a) for a in out]:
                k = next(i for i, (a, b) in enumerate(zip(mo, out)) if canon(a) != canon(b))
                disagreements.append((kind, ops, lines, k, mo[k], out[k], msgs))
        if idx in (0, 3, len(scen) - 1):
            chk.cov.sample({'kind': kind, 'ops': ops, 'impl_replies': out})
    chk.cov.traces_validated = len(scen) if model_out is not None else 0
    chk.cov.exhaustive = True
    chk.cov.extra['exhaustive_scope'] = (f'all item op sequences of length ≤ {4 if chk.tier == "quick" else 5} over {ITEM_ALPHABET} × cache on/off, '
                                         f'all broker op sequences of length ≤ {4 if chk.tier == "quick" else 5} over {BROKER_ALPHABET}')
    # concurrent cases
    nconc_run = 0
    for sh in conc:
        for s, vb, r in sh:
            nconc_run += 1
            chk.cov.case(('conc', s, vb))
            if r is not None:
                oracle_fail.append(('concurrent', [], [], r.get('messages', [r.get('error')]), r))
    chk.cov.count('kinds', 'concurrent-permuted', nconc_run)

    # ---- verdicts
    for kind, ops, lines, msgs, out in oracle_fail[:5]:
        chk.violation(f'C08 oracle: {msgs[0]}', {'kind': kind, 'ops': ops, 'protocol_lines': lines,
                                                  'oracle_messages': msgs, 'implementation': out})
    broken = common.proof_broken(chk)
    if model_err:
        broken.append(f'model driver unusable: {model_err}')
    if disagreements:
        chk.cov.disagreements_checked = len(disagreements)
        kind, ops, lines, k, m, i, msgs = min(disagreements, key=lambda d: len(d[2]))
        broken.append(f'correspondence B broken on {len(disagreements)} scenarios; shortest: {ops} at line {k}: model {m!r} vs implementation {i!r}')
    if broken and not oracle_fail:
        # search for a failing input with the oracle on a wider random sample
        extra = common.Check(chk.pid, 'thorough' if chk.tier == 'quick' else chk.tier, chk.seed + 1)
        found = None
        rs = gen_scenarios(extra)[-4000:]
        with mp.get_context('fork').Pool(nshards) as pool:
            sh2 = [[] for _ in range(nshards)]
            for idx, (kind, ops, lines) in enumerate(rs):
                sh2[idx % nshards].append((idx, lines))
            for sh in pool.map(_shard, sh2):
                for idx, out, msgs in sh:
                    if msgs and found is None:
                        found = (rs[idx], msgs, out)
        if found is not None:
            (kind, ops, lines), msgs, out = found
            chk.violation(f'C08 oracle (widened search): {msgs[0]}', {'kind': kind, 'ops': ops, 'protocol_lines': lines,
                                                                      'oracle_messages': msgs, 'implementation': out,
                                                                      'broken': broken})
        else:
            d = None
            if disagreements:
                kind, ops, lines, k, m, i, msgs = min(disagreements, key=lambda d: len(d[2]))
                d = {'kind': kind, 'ops': ops, 'protocol_lines': lines, 'first_difference_at_line': k, 'model': m,
                     'implementation': i}
            chk.violation('C08: ' + ' | '.join(broken[:3]), {'no_longer_checks': broken, 'shortest_disagreement': d}, no_input=True)
