"""C10 — events are relayed to the main process completely, in order, within the run.  Model F (`NLV.Model.Relay`).

Tie: (1) the real `RunSession.run`/`relay_events`/monitor with a simulated child and channel under the permuting event
loop: bursts of events, slow plugins, immediate exit with a backlog, kills that cut the channel; the observed label
sequence (child created, run-start seen, emit n, exit/kill, deliver n, run-end seen) must be accepted by the Lean LTS;
(2) real spawn children emitting bursts right before exiting, child-side probe log vs the recording plugin's log.
"""
from __future__ import annotations

import asyncio
import datetime
import multiprocessing as mp
import random
from typing import Any

from .. import common, fakes, lifecycle, loop as ctl


def fake_case(seed: int) -> dict:
    rng = random.Random(seed)
    n_events = rng.choice([0, 1, 2, 5, 12, 40])
    # every third case emits a well-formed stream of all event kinds (trace, trace calls, command loops, prompts, output) instead of
    # output only, and every hook of the recording plugin is slow: the completion order of the hooks is what a plugin observes
    wf = seed % 3 == 0
    stream: list = []
    if wf:
        from .c11 import make_event
        call = prompt = 0
        stream.append(['st', 1, 1, None])
        while len(stream) < n_events:
            call += 1
            stream.append(['sc', 1, call, 0, call, 100, 0])
            if rng.random() < 0.6:
                stream.append(['sl', 1, call])
                for _ in range(rng.randint(1, 2)):
                    prompt += 1
                    stream += [['sp', 1, call, prompt, prompt], ['ep', 1, prompt, 1]]
                stream.append(['el', 1, call])
            if rng.random() < 0.5:
                stream.append(['so', 1, len(stream)])
            stream.append(['ec', 1, call])
        stream.append(['et', 1])
        n_events = len(stream)
    slow = rng.choice([0, 0, 1, 3])            # extra scheduler steps a plugin takes per event
    kill = rng.random() < 0.35
    emit_before_start_ack = False
    log: list[str] = []
    delivered: list[int] = []
    emitted: list[int] = []
    chooser = ctl.Rand(random.Random(seed * 13 + 5))

    async def main() -> None:
        from nextline import Nextline
        from nextline import events as E
        from nextline.plugin.spec import hookimpl
        w = fakes.reset_world()
        w.signal_exits = False
        nl = Nextline('x = 1\n')

        class Rec:
            @hookimpl
            async def on_start_run(self, context: Any, event: Any) -> None:
                log.append('startRun')

            @hookimpl
            async def on_write_stdout(self, context: Any, event: Any) -> None:
                for _ in range(slow):
                    await asyncio.sleep(0)
                n = int(event.text)
                delivered.append(n)
                log.append(f'deliver {n}')

            @hookimpl
            async def on_end_run(self, context: Any, event: Any) -> None:
                log.append('endRun')

        if wf:
            index: dict = {}

            def key(ev: Any) -> tuple:
                return (type(ev).__name__, getattr(ev, 'trace_call_no', None) if 'TraceCall' in type(ev).__name__ or 'Cmdloop' in type(ev).__name__ else None,
                        getattr(ev, 'prompt_no', None), getattr(ev, 'text', None))

            def slow_hook(name: str) -> Any:
                async def h(self: Any, context: Any, event: Any) -> None:
                    for _ in range(slow + 1):
                        await asyncio.sleep(0)
                    n = index[key(event)]
                    delivered.append(n)
                    log.append(f'deliver {n}')
                h.__name__ = name
                return hookimpl(h)
            for hn in ('on_start_trace', 'on_end_trace', 'on_start_trace_call', 'on_end_trace_call', 'on_start_cmdloop', 'on_end_cmdloop',
                       'on_start_prompt', 'on_end_prompt', 'on_write_stdout'):
                setattr(Rec, hn, slow_hook(hn))
        nl.register(Rec())
        await nl.start()
        run_task = asyncio.ensure_future(nl.run())
        # wait for the child to exist
        for _ in range(200):
            if w.children:
                break
            await asyncio.sleep(0)
        child = w.children[0]
        log.insert(0, 'createChild') if 'startRun' in log else log.append('createChild')
        now = datetime.datetime.utcnow
        if rng.random() < 0.85:
            # the premise StartAck: a real child boots an interpreter before it can emit anything
            for _ in range(200):
                if 'startRun' in log:
                    break
                await asyncio.sleep(0)
        exit_after = rng.randint(0, n_events)
        for k in range(n_events):
            if k == exit_after and rng.random() < 0.5:
                break
            if wf:
                ev = make_event(stream[k], 1)
                index[key(ev)] = k
                child.emit(ev)
            else:
                child.emit(E.OnWriteStdout(written_at=now(), run_no=1, trace_no=1, text=str(k)))
            emitted.append(k)
            log.append(f'emit {k}')
            for _ in range(rng.choice([0, 0, 0, 1, 2])):
                await asyncio.sleep(0)
        if kill:
            # the child is killed: what is still in the channel beyond `keep` items is lost
            q = child.queue_out.q
            pending = list(q._queue)  # type: ignore[attr-defined]
            keep = rng.randint(0, len(pending))
            q._queue.clear()  # type: ignore[attr-defined]
            for x in pending[:keep]:
                q._queue.append(x)  # type: ignore[attr-defined]
            log.append(f'kill {keep}')
            child.exit(None, exitcode=-9)
        else:
            log.append('exit')
            from nextline.spawned import RunResult
            child.exit(RunResult(ret=None), exitcode=0)
        await asyncio.wait_for(run_task, timeout=60)
        await asyncio.wait_for(nl._imp.wait(), timeout=60) if hasattr(nl, '_imp') else None
        await lifecycle.settle()
        await nl.close()
    err = None
    fakes.install()
    try:
        ctl.run(main, chooser)
    except (Exception, ctl.StepBudgetExceeded) as e:  # noqa
        err = f'{type(e).__name__}: {e}'
    msgs = []
    if err:
        msgs.append(f'the run did not finish: {err}')
    if delivered != emitted[:len(delivered)]:
        msgs.append(f'delivered {delivered} is not a prefix of emitted {emitted}')
    if not kill and not err and delivered != emitted:
        msgs.append(f'no kill, yet only {len(delivered)} of {len(emitted)} events were delivered')
    if 'endRun' in log and log[-1] != 'endRun':
        msgs.append(f'observations after the run-end notification: {log[log.index("endRun"):][:5]}')
    if log.count('endRun') != 1 and not err:
        msgs.append(f'run-end notification seen {log.count("endRun")} times')
    premise = 'startRun' in log and not any(x.startswith('emit') for x in log[:log.index('startRun')])
    if premise and any(x.startswith('deliver') for x in log[:log.index('startRun')]):
        msgs.append('an event was delivered before the run-start notification')
    return {'seed': seed, 'log': log, 'msgs': msgs, 'n': n_events, 'kill': kill, 'slow': slow, 'schedule': chooser.trace}


def _shard(seeds: list) -> list:
    return [fake_case(s) for s in seeds]


def run(chk: common.Check) -> None:
    chk.cov.rule = ('simulated child + channel under the permuting loop: bursts of 0–40 events emitted with random pauses, slow plugins (0–3 extra '
                    'scheduler steps per event), exit with a backlog or a kill that keeps 0..all pending items; real children printing bursts of '
                    '{0, 10, 1000, 3000} lines right before exiting, child-side probe log vs recording plugin. Non-trivial: at least 2 events and '
                    'a backlog at exit; distinct = distinct (seed) / (burst size, ending).')
    chk.assumptions += ['the monitor does not dequeue the first event before on_start_run is issued (StartAck: the child must boot an interpreter)',
                        'byte-level truncation of a pickled event and a kill while the child holds the queue\'s write lock are not exhibited (finding F-G3)']
    n = 800 if chk.tier == 'quick' else 12000
    seeds = [chk.seed * 1000003 + i for i in range(n)]
    with mp.get_context('fork').Pool(16) as pool:
        res = [r for sh in pool.map(_shard, [seeds[i::16] for i in range(16)]) for r in sh]
    lines: list[str] = []
    spans = []
    oracle_fail = []
    for r in res:
        chk.cov.case(r['seed'], trivial=r['n'] < 2)
        chk.cov.count('burst', r['n'])
        chk.cov.count('ending', 'kill' if r['kill'] else 'exit')
        chk.cov.count('slow_plugin_steps', r['slow'])
        if r['msgs']:
            oracle_fail.append((r, r['msgs']))
        enc = ['reset'] + ['obs ' + x for x in r['log']]
        spans.append((r, len(lines), len(enc)))
        lines += enc
    model_err = None
    rejected = []
    try:
        mo = common.model_batch('relay', lines)
        for r, a, k in spans:
            seg = mo[a:a + k]
            bad = [i for i, x in enumerate(seg) if x == 'n=0' or x == 'bad-op']
            if bad:
                rejected.append((r, bad[0]))
            elif 'obs endRun' not in lines[a:a + k]:
                rejected.append((r, k - 1))
        chk.cov.traces_validated = len(spans)
    except Exception as e:
        model_err = f'{type(e).__name__}: {e}'
    chk.cov.sample({'seed': res[3]['seed'], 'observed_labels': res[3]['log'][:40]})
    # real children
    specs = []
    bursts = [0, 10, 1000] if chk.tier == 'quick' else [0, 1, 10, 100, 1000, 3000, 5000]
    for b in bursts:
        src = f'import sys\nfor i in range({b}):\n    sys.stdout.write("%d\\n" % i)\n'
        specs.append({'statement': src, 'mode': 'continuous', 'probe': True, 'timeout': 120, 'burst': b})
        specs.append({'statement': src, 'mode': 'interactive', 'policy': {'kind': 'all', 'command': 'continue'}, 'probe': True,
                      'timeout': 120, 'burst': b})
    # text objects of the script's own classes (a str subclass defined in the script cannot be unpickled in the main process — the event
    # must not carry the script's object), bytes-like oddities, very long lines
    odd = ("import sys\nclass S(str):\n    pass\nfor i in range(8):\n    sys.stdout.write(S('%d\\n' % i) if i % 2 else '%d\\n' % i)\n"
           "print(S('printed'))\nsys.stdout.write('x' * 70000 + '\\n')\n")
    specs.append({'statement': odd, 'mode': 'continuous', 'probe': True, 'timeout': 60, 'burst': 10})
    # the script has emitted its whole burst and returned; a slow plugin keeps most of it in the channel; then interrupt() — the
    # process is not killed (the KeyboardInterrupt is handled in the child), so nothing may be lost
    for b in ([1500] if chk.tier == 'quick' else [400, 1500, 4000]):
        src = f'def burst(n):\n    print(*range(n), sep="\\n")\nburst({b})\nopen("@@MARKER@@", "w").close()\n'
        specs.append({'statement': src, 'mode': 'continuous', 'probe': True, 'timeout': 45, 'burst': b, 'slow_plugin_s': 0.002,
                      'signal': {'kind': 'interrupt', 'after_marker': True, 'delay': 0.3}})
    for r in common.real_runs(specs, jobs=6, hard_timeout=200):
        sp = r['spec']
        chk.cov.case(('real', sp['burst'], sp['mode'], repr(sp.get('signal'))))
        chk.cov.count('kinds', 'real-child')
        rec = r['rec']
        if rec is None or not rec.get('finished'):
            oracle_fail.append(({'real_run': sp, 'stacks': (rec or {}).get('stacks')}, [f'real run did not finish: {(rec or {}).get("errors")}']))
            continue
        child = [(e['_type'], e.get('trace_no'), e.get('text', e.get('prompt_no', e.get('trace_call_no')))) for e in r['child_log']]
        main = [(h['event']['_type'], h['event'].get('trace_no'), h['event'].get('text', h['event'].get('prompt_no', h['event'].get('trace_call_no'))))
                for h in rec['hooks'] if 'event' in h and h['hook'] not in ('on_start_run', 'on_end_run')]
        msgs = []
        if main != child:
            k = next((i for i, (a, b) in enumerate(zip(main, child)) if a != b), min(len(main), len(child)))
            msgs.append(f'plugins observed {len(main)} events, the child emitted {len(child)}; first difference at {k}: '
                        f'{main[k:k + 2]} vs {child[k:k + 2]}')
        names = [h['hook'] for h in rec['hooks']]
        if 'on_end_run' in names and names.index('on_end_run') < len(names) - 2:
            msgs.append(f'hooks after on_end_run: {names[names.index("on_end_run") + 1:][:4]}')
        if 'on_start_run' in names and any(n.startswith('on_') and n not in ('on_initialize_run', 'on_start_run') for n in names[:names.index('on_start_run')]):
            msgs.append('an event was delivered before on_start_run')
        if msgs:
            oracle_fail.append(({'real_run': sp}, msgs))
    # a hook that is busy for seconds on one event while the run comes to its end (script ends / child is killed with events queued behind it)
    from . import _lag
    lag_specs = _lag.specs()
    for sp, r in zip(lag_specs, common.real_runs(lag_specs, jobs=2, hard_timeout=150)):
        chk.cov.case(('real-lagging-hook', sp['lag']))
        chk.cov.count('kinds', 'real-child-hook-busy-at-the-end-' + sp['lag'])
        found = _lag.oracle(sp, r)
        msgs = [m for a in ('delivery', 'protocol') for m in found[a]]
        if msgs:
            oracle_fail.append(({'real_run': sp}, msgs))
    for ctx, msgs in oracle_fail[:5]:
        chk.violation(f'C10 oracle: {msgs[0]}', {'case': ctx, 'oracle_messages': msgs})
    broken = common.proof_broken(chk)
    if model_err:
        broken.append(f'model driver unusable: {model_err}')
    if rejected:
        chk.cov.disagreements_checked = len(rejected)
        r, k = min(rejected, key=lambda x: len(x[0]['log']))
        broken.append(f'correspondence F broken: {len(rejected)} observed traces are not accepted by the model; shortest {r["log"]} rejected at {k}')
    if broken and not oracle_fail:
        d = None
        if rejected:
            r, k = min(rejected, key=lambda x: len(x[0]['log']))
            d = {'seed': r['seed'], 'schedule': r['schedule'], 'observed_labels': r['log'], 'rejected_at': k}
        chk.violation('C10: ' + ' | '.join(broken[:3]), {'no_longer_checks': broken, 'shortest_rejected_trace': d}, no_input=True)
