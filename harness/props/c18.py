"""C18 — done-callbacks fire exactly once.  Model I (`NLV.Model.DoneCallback`), theorems `NLV.Props.C18`.

Tie: systematic preemption (sys.monitoring INSTRUCTION events, DESIGN §4.4) of the monitor thread of the real
`ThreadDoneCallback` before every bytecode offset of `_monitor`, and of a registering thread before every offset
of `register`, with another thread registering / ending in the gap; the observed label sequence
(start/die/register/cb/closeCall/closeRet) must be accepted by the Lean LTS; an independent oracle counts
callbacks.  `TaskDoneCallback` under the permuting loop.
"""
from __future__ import annotations

import asyncio
import dis
import multiprocessing as mp
import random
import sys
import threading
import time
from typing import Any, Optional

from .. import common, loop as ctl

TOOL = 3


class Preempt:
    """Park whichever thread first reaches `offset` of `code` after arming."""

    def __init__(self) -> None:
        self.mon = sys.monitoring
        try:
            self.mon.use_tool_id(TOOL, 'nlv')
        except ValueError:
            pass
        self.code: Any = None
        self.offset = -1
        self.armed = threading.Event()
        self.at_point = threading.Event()
        self.resume = threading.Event()
        self.mon.register_callback(TOOL, self.mon.events.INSTRUCTION, self._on)
        self.codes: list = []

    def _on(self, code: Any, offset: int) -> None:
        if code is self.code and offset == self.offset and self.armed.is_set() and not self.at_point.is_set():
            self.at_point.set()
            self.resume.wait(10)

    def watch(self, code: Any, offset: int) -> None:
        self.code, self.offset = code, offset
        self.armed.clear()
        self.at_point.clear()
        self.resume.clear()
        if code not in self.codes:
            self.codes.append(code)
            self.mon.set_local_events(TOOL, code, self.mon.events.INSTRUCTION)

    def close(self) -> None:
        for c in self.codes:
            self.mon.set_local_events(TOOL, c, 0)
        self.codes.clear()
        self.resume.set()


def offsets_of(fn: Any) -> list[int]:
    return [i.offset for i in dis.get_instructions(fn.__code__)]


def scenario(pre: Preempt, where: str, offset: int, variant: str, raising: bool) -> dict:
    """One preemption scenario on the real ThreadDoneCallback. Returns log + oracle messages."""
    from nextline.utils.done_callback.thread import ThreadDoneCallback
    log: list[str] = []
    ll = threading.Lock()
    names: dict = {}
    called: list = []
    alive_at_cb: list = []

    def L(s: str) -> None:
        with ll:
            log.append(s)

    def done(t: threading.Thread) -> None:
        n = names[t]
        with ll:
            log.append(f'cb {n}')
            called.append(n)
            alive_at_cb.append((n, t.is_alive()))
        if raising and n == 1:
            # `raising` True: an ordinary exception; a name: an exception that is not an `Exception` (it must be re-raised by close() all the same)
            raise {'SystemExit': SystemExit(3), 'KeyboardInterrupt': KeyboardInterrupt(), 'CancelledError': asyncio.CancelledError()}.get(
                raising if isinstance(raising, str) else '', RuntimeError('boom'))

    gates = {2: threading.Event(), 3: threading.Event()}

    def body(n: int) -> None:
        if n in gates:
            gates[n].wait(10)
        L(f'die {n}')

    cb = ThreadDoneCallback(done=done, interval=0.0003)
    t1 = threading.Thread(target=body, args=(1,))
    t2 = threading.Thread(target=body, args=(2,))
    names[t1], names[t2] = 1, 2
    code = ThreadDoneCallback._monitor.__code__ if where == 'monitor' else ThreadDoneCallback.register.__code__
    pre.watch(code, offset)
    L('start 1')
    t1.start()
    t1.join()
    reached = False
    helper: Optional[threading.Thread] = None
    closer: Optional[threading.Thread] = None
    early_exc: Optional[str] = None
    if where == 'monitor':
        cb.register(t1)
        L('register 1')
        pre.armed.set()
        reached = pre.at_point.wait(0.25)
        L('start 2')
        t2.start()

        def reg2() -> None:
            # logged at call time: the registration takes effect somewhere between call and return
            L('register 2')
            cb.register(t2)
        helper = threading.Thread(target=reg2)
        helper.start()
        helper.join(0.02)            # blocks here if the monitor is parked while holding the lock
        if variant in ('die-in-gap', 'close-in-gap'):
            gates[2].set()
            t2.join(0.05)
        if variant == 'close-in-gap' and not helper.is_alive() and not t2.is_alive():
            # everything that was registered has ended; close() is called while the monitor is still parked
            def do_close() -> None:
                nonlocal early_exc
                try:
                    cb.close()
                except BaseException as e:  # noqa
                    early_exc = f'{type(e).__name__}: {e}'
                L(f'closeRet {"1" if early_exc else "-"}')
            L('closeCall')
            closer = threading.Thread(target=do_close)
            closer.start()
            closer.join(0.01)
        pre.resume.set()
        helper.join(30)
    else:
        # park the registering thread inside register(); meanwhile the monitor runs and thread 1 is found dead
        L('start 2')
        t2.start()
        pre.armed.set()

        def reg2() -> None:
            L('register 2')
            cb.register(t2)
        helper = threading.Thread(target=reg2)
        helper.start()
        reached = pre.at_point.wait(0.25)
        L('register 1')
        h1: Optional[threading.Thread] = None
        if reached:
            # the parked thread may hold the lock: register thread 1 from a helper that may block until the resume
            h1 = threading.Thread(target=lambda: cb.register(t1))
            h1.start()
            h1.join(0.02)
        else:
            cb.register(t1)
        time.sleep(0.003)
        if variant == 'die-in-gap':
            gates[2].set()
            t2.join(0.05)
        pre.resume.set()
        helper.join(30)
        if h1 is not None:
            h1.join(30)          # registrations precede close(): the registration of thread 1 must have returned before close() is called
            if h1.is_alive():
                helper = h1      # reported below as 'register() never returned'
    gates[2].set()
    t2.join(30)
    exc: Optional[str] = None
    if closer is not None:
        closer.join(30)
        exc = early_exc
        if closer.is_alive():
            exc = 'close() never returned'
    else:
        L('closeCall')
        try:
            cb.close()
        except BaseException as e:  # noqa
            exc = f'{type(e).__name__}: {e}'
        L(f'closeRet {"1" if exc else "-"}')
    msgs = []
    if helper is not None and helper.is_alive():
        msgs.append('register() never returned')
    for n in (1, 2):
        c = called.count(n)
        if c != 1:
            msgs.append(f'thread {n} was registered and ended, its callback ran {c} times (close() has returned)')
    for n, al in alive_at_cb:
        if al:
            msgs.append(f'callback for thread {n} ran while it was still alive')
    if raising and exc is None:
        msgs.append(f"a callback raised {raising if isinstance(raising, str) else 'RuntimeError'} but close() did not re-raise it")
    if raising and exc is not None and not exc.startswith(raising if isinstance(raising, str) else 'RuntimeError'):
        msgs.append(f'a callback raised {raising if isinstance(raising, str) else "RuntimeError"}, close() raised {exc!r}')
    if not raising and exc is not None:
        msgs.append(f'close() raised {exc!r}')
    return {'log': log, 'msgs': msgs, 'reached': reached}


def xthread_task_case(pre: Preempt, offset: int, variant: str) -> dict:
    """One `TaskDoneCallback` shared by tasks of two threads, each thread with its own event loop (what `ThreadTaskDoneCallback`
    does in the child).  Thread A's task ends; A is parked before bytecode `offset` of `_callback`; in the gap thread B
    registers a task (variant 'register') or B's registered task ends and is called back (variant 'complete'); A resumes.
    Then close() is called: it must not return while a registered task is running, must return once all have ended, and every
    registered task must have been called back exactly once."""
    from nextline.utils.done_callback.task import TaskDoneCallback
    called: list = []
    lock = threading.Lock()
    names: dict = {}
    msgs: list[str] = []

    def done(t: Any) -> None:
        with lock:
            called.append(names.get(t, '?'))
    cb = TaskDoneCallback(done=done)
    rel_b = threading.Event()
    reg_b = threading.Event()
    a_registered = threading.Event()
    go_a = threading.Event()

    def thread_a() -> None:
        async def main() -> None:
            async def work() -> None:
                while not go_a.is_set():
                    await asyncio.sleep(0.001)
            t = asyncio.ensure_future(work())
            names[t] = 'A'
            cb.register(t)
            a_registered.set()
            await t
            await asyncio.sleep(0.02)       # the done-callback is scheduled with call_soon
        asyncio.run(main())

    def thread_b() -> None:
        async def main() -> None:
            async def work() -> None:
                while not rel_b.is_set():
                    await asyncio.sleep(0.001)
            t = asyncio.ensure_future(work())
            names[t] = 'B'
            if variant == 'complete':
                cb.register(t)
                reg_b.set()
            else:
                for _ in range(3000):
                    if pre.at_point.is_set() or go_b.is_set():
                        break
                    await asyncio.sleep(0.001)
                cb.register(t)
                reg_b.set()
            await t
            await asyncio.sleep(0.02)
        asyncio.run(main())
    go_b = threading.Event()
    tb = threading.Thread(target=thread_b, name='nlv-B')
    ta = threading.Thread(target=thread_a, name='nlv-A')
    tb.start()
    if variant == 'complete':
        reg_b.wait(5)
    ta.start()
    a_registered.wait(5)
    pre.watch(TaskDoneCallback._callback.__code__, offset)
    pre.armed.set()
    go_a.set()
    reached = pre.at_point.wait(1.0)
    if not reached:
        go_b.set()
    if variant == 'complete':
        rel_b.set()                      # B's task ends and is called back while A is parked
        for _ in range(400):
            with lock:
                if 'B' in called:
                    break
            time.sleep(0.005)
    else:
        reg_b.wait(5)
    pre.resume.set()
    ta.join(10)
    # close() from a fresh thread
    closed = threading.Event()
    err: list = []

    def closer() -> None:
        try:
            cb.close()
        except BaseException as e:  # noqa
            err.append(f'{type(e).__name__}: {e}')
        closed.set()
    tc = threading.Thread(target=closer, name='nlv-closer', daemon=True)
    tc.start()
    if variant == 'register':
        if closed.wait(0.25):
            msgs.append("close() returned while a registered task (registered from another thread during A's callback) was still running")
        rel_b.set()
    if not closed.wait(30):
        msgs.append('close() did not return although every registered task has ended and been called back' if sorted(called) == ['A', 'B']
                    else f'close() did not return (callbacks so far: {sorted(called)})')
        cb._active.clear()               # let the closer thread go
    rel_b.set()
    tb.join(10)
    if err:
        msgs.append(f'close() raised {err[0]}')
    with lock:
        for nm in ('A', 'B'):
            if called.count(nm) != 1:
                msgs.append(f'the callback of task {nm} ran {called.count(nm)} times')
    return {'msgs': msgs, 'reached': reached}


# ---- the union helper: registrations made by registered ones after close() has begun ---------------------

def union_cases() -> list[dict]:
    """The family: {close, aclose} × who is still running when close begins and registers the late threads (a registered task that is the main task of
    its own event loop, a registered inner task, a registered thread) × the state of the thread monitor at that moment (no thread ever registered, one
    registered and already reported, one that ends right after close began, one alive until the late ones are registered) × how the late threads
    register (themselves / by whoever started them; 1–3 of them; the last one started and registered by the previous late thread)."""
    late = [{'n_late': 1, 'reg_by': 'self', 'chain': False}, {'n_late': 1, 'reg_by': 'starter', 'chain': False},
            {'n_late': 2, 'reg_by': 'self', 'chain': True}, {'n_late': 3, 'reg_by': 'starter', 'chain': False},
            {'n_late': 2, 'reg_by': 'starter', 'chain': True}, {'n_late': 3, 'reg_by': 'self', 'chain': False}]
    out = []
    k = 0
    for closer in ('close', 'aclose'):
        for starter in ('task-main', 'task-inner', 'thread'):
            for early in ('none', 'reported', 'ends-in-close', 'alive'):
                for j in (0, 3):
                    out.append({'closer': closer, 'starter': starter, 'early': early, 'delay': 0.25, **late[(k + j) % 6]})
                k += 1
    return out


def union_case(case: dict) -> dict:
    """`ThreadTaskDoneCallback` driven directly.  A registered task (or thread) is still running when close()/aclose() begins; only after close has
    begun (the closer sets an event right before the call; the starter then waits `delay` ≫ the monitor interval) does it start threads that register
    themselves or that it registers; it ends only after they have registered, so every registration is made while a registered one is still running.
    Oracle (the property's words): when close returns every registered one has ended and been called back exactly once; no callback ran while its
    thread/task was running; no callback is repeated afterwards."""
    from nextline.utils.done_callback import ThreadTaskDoneCallback
    log: list[str] = []
    lock = threading.Lock()
    names: dict = {}
    called: list = []
    early_cb: list = []
    registered: list = []
    harness: list[str] = []

    def running(x: Any) -> bool:
        return x.is_alive() if isinstance(x, threading.Thread) else not x.done()

    def L(s: str) -> None:
        with lock:
            log.append(s)

    def done(x: Any) -> None:
        n = names.get(x, '?')
        r = running(x)
        with lock:
            log.append(f'cb {n}')
            called.append(n)
            if r:
                early_cb.append(n)

    def note(n: str, x: Any) -> None:
        with lock:
            registered.append((n, x))
            log.append(f'register {n}')

    obj = ThreadTaskDoneCallback(done=done, interval=0.001)
    n_late = case['n_late']
    by_starter = case['reg_by'] == 'starter'
    close_called = threading.Event()
    starter_registered = threading.Event()
    late_regd = [threading.Event() for _ in range(n_late)]
    early_gate = threading.Event()
    threads: list = []

    def start_late(i: int) -> None:
        t = threading.Thread(target=late, args=(i,), name=f'nlv-late{i}', daemon=True)
        names[t] = f'L{i}'
        with lock:
            threads.append(t)
            log.append(f'start L{i}')
        t.start()
        if by_starter:
            obj.register(t)              # the thread is alive: it waits for this registration
            note(f'L{i}', t)
            late_regd[i].set()
        if not late_regd[i].wait(30):
            harness.append(f'late thread {i} did not register')

    def late(i: int) -> None:
        if not by_starter:
            obj.register()
            note(f'L{i}', threading.current_thread())
            late_regd[i].set()
        else:
            late_regd[i].wait(30)
        if case['chain'] and i == n_late - 2:
            start_late(i + 1)            # a registered, running thread starts and registers the next one before it ends
        time.sleep(0.03)
        L(f'die L{i}')

    def after_close_begins() -> None:
        if not close_called.wait(30):
            harness.append('close was not called')
        if case['early'] == 'ends-in-close':
            early_gate.set()
            early.join(30)
        time.sleep(case['delay'])
        for i in range(n_late - 1 if case['chain'] else n_late):
            start_late(i)
        early_gate.set()                 # start_late() has waited for each registration (a chained one is waited for by the late thread that starts it)

    def early_body() -> None:
        if case['early'] != 'reported':
            early_gate.wait(60)
        L('die E')

    async def main_task() -> None:
        t = obj.register()               # the task; its host thread is not registered
        names[t] = 'T'
        note('T', t)
        starter_registered.set()
        await asyncio.sleep(0)
        after_close_begins()
        L('die T')

    async def outer() -> None:
        async def work() -> None:
            await asyncio.sleep(0)
            after_close_begins()
            L('die T')
        t = asyncio.ensure_future(work())
        names[t] = 'T'
        obj.register(t)
        note('T', t)
        starter_registered.set()
        await t
        await asyncio.sleep(0.02)

    def thread_starter() -> None:
        obj.register()
        note('S', threading.current_thread())
        starter_registered.set()
        after_close_begins()
        L('die S')

    early: Any = None
    if case['early'] != 'none':
        early = threading.Thread(target=early_body, name='nlv-early', daemon=True)
        names[early] = 'E'
        threads.append(early)
        L('start E')
        early.start()
        obj.register(early)
        note('E', early)
        if case['early'] == 'reported':
            for _ in range(6000):
                with lock:
                    if 'E' in called:
                        break
                time.sleep(0.005)
    if case['starter'] == 'thread':
        host = threading.Thread(target=thread_starter, name='nlv-starter', daemon=True)
        names[host] = 'S'
    else:
        host = threading.Thread(target=asyncio.run, args=((main_task if case['starter'] == 'task-main' else outer)(),), name='nlv-host', daemon=True)
    host.start()
    if not starter_registered.wait(30):
        harness.append('the starter did not register')
    at_return: dict = {}
    err: list = []
    closed = threading.Event()

    def closer() -> None:
        try:
            if case['closer'] == 'close':
                L('closeCall')
                close_called.set()
                obj.close()
            else:
                async def go() -> None:
                    L('closeCall')
                    close_called.set()
                    await obj.aclose()
                asyncio.run(go())
        except BaseException as e:  # noqa
            err.append(f'{type(e).__name__}: {e}')
        with lock:
            at_return['running'] = [n for n, x in registered if running(x)]
            at_return['counts'] = {n: called.count(n) for n, _ in registered}
            log.append('closeRet')
        closed.set()
    tc = threading.Thread(target=closer, name='nlv-closer', daemon=True)
    tc.start()
    msgs: list[str] = []
    what = f"{case['closer']}()"
    if not closed.wait(90):
        with lock:
            msgs.append(f'{what} did not return within 90 s (registered: {[n for n, _ in registered]}, still running: {[n for n, x in registered if running(x)]}, '
                        f'called back: {sorted(called)})')
        early_gate.set()
        close_called.set()
    host.join(30)
    for t in list(threads):
        t.join(30)
    time.sleep(0.1)                      # a repeated callback would show up by now; nothing below waits for a callback that has not happened
    if harness:
        raise RuntimeError('; '.join(harness))
    expect = 1 + (0 if case['early'] == 'none' else 1) + n_late
    with lock:
        if len(registered) != expect:
            raise RuntimeError(f'{len(registered)} registrations, {expect} expected')
        if at_return:
            for n in at_return['running']:
                msgs.append(f'{what} returned while {n} (registered by a still running registered {"thread" if case["starter"] == "thread" else "task"} '
                            f'after {what} had begun) was still running')
            for n, c in at_return['counts'].items():
                if c != 1:
                    msgs.append(f'{what} returned when the callback of registered {n} had run {c} times')
        for n in early_cb:
            msgs.append(f'the callback of {n} ran while it was still running')
        for n, _ in registered:
            if called.count(n) != 1:
                msgs.append(f'{n} was registered and has ended; its callback ran {called.count(n)} times ({what} has returned)')
        if err:
            msgs.append(f'{what} raised {err[0]}')
        return {'log': list(log), 'msgs': msgs}


def _ushard(cases: list) -> list:
    out = []
    for c in cases:
        try:
            r = union_case(c)
            out.append((c, r['log'], r['msgs'], None))
        except BaseException as e:  # noqa
            out.append((c, [], [], f'{type(e).__name__}: {e}'))
    return out


# ---- tasks nobody but the helper refers to ------------------------------------------------------------------

ORPHAN_PARKS = ('future', 'event', 'queue', 'nested', 'sleep')


def orphan_cases() -> list[dict]:
    """The family: {TaskDoneCallback, ThreadTaskDoneCallback} × {close, aclose} × {called after asyncio.run() has returned, called from another thread
    while the tasks are still parked} × how the fire-and-forget tasks were registered (register() from inside the task; register(task) by the creator,
    which then drops its reference; both) × what they are parked on (a future / Event / Queue that only the task's own frame refers to, the same one
    coroutine deeper, a long sleep) × 1–3 of them × 1–3 full garbage collections (back to back or with loop turns in between)."""
    out = []
    k = 0
    for helper in ('task', 'union'):
        for closer in ('close', 'aclose'):
            for when in ('after-run', 'during-run'):
                for reg in ('self', 'creator', 'mixed'):
                    out.append({'helper': helper, 'closer': closer, 'when': when, 'reg': reg, 'n': 1 + k % 3, 'gc': 1 + (k // 2) % 3, 'turns': k % 2 == 1,
                                'parks': [ORPHAN_PARKS[(k + j) % len(ORPHAN_PARKS)] for j in range(1 + k % 3)]})
                    k += 1
    return out


def orphan_case(case: dict) -> dict:
    """Fire-and-forget tasks: `loop.create_task(coro())` whose result the program does not keep, each registered (by itself with `register()`, or by its
    creator with `register(task)` before the creator drops the reference) and parked on something only its own frame refers to.  The program then has the
    garbage collector run (`gc.collect()`), lets a registered task that it does hold finish, and returns from its main coroutine: `asyncio.run()` cancels
    every task of the loop, so every task of the loop ends.  close()/aclose() is called after that (or already while the tasks are parked, from another
    thread).  Oracle (the property's words): every registered task was called back exactly once, after it had ended (cancelled is ended); close returns only
    after that.  The harness itself holds the tasks by name and by weak reference only.  An unregistered task of the same shape tells whether the program
    really dropped the last reference (it must be gone after the collection — otherwise the scenario did not do what it says)."""
    import gc
    import weakref
    if case['helper'] == 'task':
        from nextline.utils.done_callback.task import TaskDoneCallback as Helper
    else:
        from nextline.utils.done_callback import ThreadTaskDoneCallback as Helper  # type: ignore
    lock = threading.Lock()
    log: list[str] = []
    registered: list = []                # (name, weakref)
    called: list = []
    early_cb: list = []
    destroyed: list = []                 # names of tasks the loop reported as 'destroyed but it is pending'
    harness: list[str] = []
    ctl_gone: list = []

    def done(x: Any) -> None:
        n = x.get_name()
        ended = x.done()
        with lock:
            log.append(f'cb {n}')
            called.append(n)
            if not ended:
                early_cb.append(n)

    def note(t: Any) -> None:
        with lock:
            registered.append((t.get_name(), weakref.ref(t)))
            log.append(f'register {t.get_name()}')

    def on_loop_error(_: Any, ctx: dict) -> None:
        t = ctx.get('task')
        with lock:                       # names only: the context must not keep the task alive
            destroyed.append((t.get_name() if t is not None else '?', str(ctx.get('message'))))

    obj: Any = Helper(done=done) if case['helper'] == 'task' else Helper(done=done, interval=0.001)  # type: ignore
    parked: list = []
    names = [f'O{i}' for i in range(case['n'])]
    by_self = {nm: (case['reg'] == 'self' or (case['reg'] == 'mixed' and i % 2 == 0)) for i, nm in enumerate(names)}
    close_called = threading.Event()
    at_return: dict = {}
    err: list = []
    closed = threading.Event()

    async def park(kind: str) -> None:
        if kind == 'future':
            await asyncio.get_running_loop().create_future()
        elif kind == 'event':
            await asyncio.Event().wait()
        elif kind == 'queue':
            await asyncio.Queue().get()
        elif kind == 'nested':
            async def inner() -> None:
                await asyncio.get_running_loop().create_future()
            await inner()
        else:
            await asyncio.sleep(3600)

    async def orphan(nm: str, kind: str, register: bool) -> None:
        if register:
            note(obj.register())
        parked.append(nm)
        await park(kind)                 # reached in the same step as the lines above

    async def kept(gate: asyncio.Event) -> None:
        note(obj.register())
        await gate.wait()
        log.append('finish K')

    async def turns(what: str, cond: Any) -> None:
        for _ in range(2000):
            if cond():
                return
            await asyncio.sleep(0)
        harness.append(what)

    def spawn(loop: Any) -> Any:
        for nm, kind in zip(names, case['parks']):
            if by_self[nm]:
                loop.create_task(orphan(nm, kind, True), name=nm)       # the result is not kept
            else:
                t = loop.create_task(orphan(nm, kind, False), name=nm)
                obj.register(t)
                note(t)
                del t
        return weakref.ref(loop.create_task(orphan('ctl', 'future', False), name='ctl'))    # same shape, not registered

    async def main() -> None:
        loop = asyncio.get_running_loop()
        loop.set_exception_handler(on_loop_error)
        gate = asyncio.Event()
        k = loop.create_task(kept(gate), name='K')
        ctl_ref = spawn(loop)
        await turns('the tasks did not start', lambda: len(parked) == len(names) + 1 and len(registered) == len(names) + 1)
        for _ in range(case['gc']):
            gc.collect()
            if case['turns']:
                await asyncio.sleep(0)
        ctl_gone.append(ctl_ref() is None)
        with lock:
            log.append('gc')
        if case['when'] == 'during-run':
            tc.start()
            if not await asyncio.to_thread(close_called.wait, 30):
                harness.append('close was not called')
            await asyncio.sleep(0.05)
            gc.collect()
        gate.set()
        await k
        del k
        await asyncio.sleep(0)
        # asyncio.run() now cancels every task of the loop that has not ended

    def closer() -> None:
        try:
            with lock:
                log.append('closeCall')
            close_called.set()
            if case['closer'] == 'close':
                obj.close()
            else:
                asyncio.run(obj.aclose())
        except BaseException as e:  # noqa
            err.append(f'{type(e).__name__}: {e}')
        with lock:
            at_return['counts'] = {n: called.count(n) for n, _ in registered}
            at_return['running'] = [n for n, r in registered if (lambda t: t is not None and not t.done())(r())]
            log.append('closeRet')
        closed.set()
    tc = threading.Thread(target=closer, name='nlv-closer', daemon=True)
    gc.collect()                         # whatever earlier scenarios of this process left behind
    run_err: list = []

    def host() -> None:
        try:
            asyncio.run(main())
        except BaseException as e:  # noqa
            run_err.append(f'{type(e).__name__}: {e}')
    th = threading.Thread(target=host, name='nlv-host', daemon=True)
    th.start()
    th.join(120)
    if th.is_alive():
        raise RuntimeError('asyncio.run() of the scenario did not return within 120 s')
    with lock:
        log.append('run returned')
    if case['when'] == 'after-run':
        gc.collect()
        tc.start()
    what = f"{case['closer']}()"
    msgs: list[str] = []
    if not closed.wait(90):
        with lock:
            msgs.append(f'{what} did not return within 90 s after asyncio.run() had cancelled all tasks and returned (registered: {[n for n, _ in registered]}, '
                        f'called back: {sorted(called)})')
        getattr(obj, '_task_callback', obj)._active.clear()         # let the closer thread go
    time.sleep(0.05)                     # a repeated callback would show up by now; nothing below waits for a callback that has not happened
    if run_err:
        raise RuntimeError(f'the program raised {run_err[0]}')
    if harness:
        raise RuntimeError('; '.join(harness))
    if ctl_gone != [True]:
        raise RuntimeError('the unregistered fire-and-forget task was not collected: the scenario holds a reference it says it does not hold')
    with lock:
        if sorted(n for n, _ in registered) != sorted(names + ['K']):
            raise RuntimeError(f'registered {[n for n, _ in registered]}, expected {names + ["K"]}')
        gone = {n for n, _ in destroyed}

        def desc(n: str) -> str:
            if n == 'K':
                return 'task K (held and awaited by the program)'
            return (f"fire-and-forget task {n} (registered {'by itself' if by_self[n] else 'by its creator, which dropped its reference'}, parked on "
                    f"{case['parks'][names.index(n)]}" + ("; the loop reported 'Task was destroyed but it is pending!' for it" if n in gone else '') + ')')
        for n, c in at_return.get('counts', {}).items():
            if c != 1:
                msgs.append(f'{what} returned when the callback of registered {desc(n)} had run {c} times')
        for n in at_return.get('running', []):
            msgs.append(f'{what} returned while registered {desc(n)} was still running')
        for n in early_cb:
            msgs.append(f'the callback of {desc(n)} ran before the task had ended')
        for n, _ in registered:
            if called.count(n) != 1:
                msgs.append(f'{desc(n)} was registered; the program called gc.collect() and ended, asyncio.run() cancelled all tasks and returned, {what} has '
                            f'returned; its callback ran {called.count(n)} times')
        if err:
            msgs.append(f'{what} raised {err[0]}')
        return {'log': list(log), 'msgs': msgs, 'destroyed': sorted(destroyed)}


def _oshard(cases: list) -> list:
    out = []
    for c in cases:
        try:
            r = orphan_case(c)
            out.append((c, r['log'], r['msgs'], None))
        except BaseException as e:  # noqa
            out.append((c, [], [], f'{type(e).__name__}: {e}'))
    return out


def lines_of(log: list[str], raising: bool) -> list[str]:
    return [f"threads {'1' if raising else '-'}"] + ['obs ' + l for l in log]


def _shard(cases: list) -> list:
    pre = Preempt()
    out = []
    try:
        for idx, where, off, variant, raising in cases:
            try:
                r = scenario(pre, where, off, variant, raising)
                out.append((idx, lines_of(r['log'], raising), r['msgs'], r['reached'], None))
            except Exception as e:  # noqa
                out.append((idx, [], [], False, f'{type(e).__name__}: {e}'))
    finally:
        pre.close()
    return out


# ---- tasks --------------------------------------------------------------------------------------------

def task_case(seed: int) -> dict:
    from nextline.utils.done_callback.task import TaskDoneCallback
    rng = random.Random(seed)
    n = rng.randint(1, 4)
    delays = [rng.randint(0, 4) for _ in range(n)]
    reg_at = [rng.randint(0, 5) for _ in range(n)]
    twice = [rng.random() < 0.3 for _ in range(n)]
    log: list[str] = []
    called: list = []
    chooser = ctl.Rand(random.Random(seed * 31 + 7))

    async def main() -> None:
        idx: dict = {}

        def done(t: Any) -> None:
            log.append(f'cb {idx[t]}')
            called.append(idx[t])
        cb = TaskDoneCallback(done=done)

        async def work(i: int) -> None:
            for _ in range(delays[i]):
                await asyncio.sleep(0)
            log.append(f'finish {i}')
        tasks = [asyncio.ensure_future(work(i)) for i in range(n)]
        for i, t in enumerate(tasks):
            idx[t] = i

        async def registrar(i: int) -> None:
            for _ in range(reg_at[i]):
                await asyncio.sleep(0)
            cb.register(tasks[i])
            log.append(f'register {i}')
            if twice[i]:
                await asyncio.sleep(0)
                if i not in called:
                    cb.register(tasks[i])
                    log.append(f'register {i}')
        await asyncio.gather(*[registrar(i) for i in range(n)])
        await asyncio.gather(*tasks)
        for _ in range(6):
            await asyncio.sleep(0)
        await asyncio.wait_for(cb.aclose(), timeout=5)
        log.append('quiescent')
    err = None
    try:
        ctl.run(main, chooser, real_threads=True)
    except (Exception, ctl.StepBudgetExceeded) as e:  # noqa
        err = f'{type(e).__name__}: {e}'
    msgs = []
    if err:
        msgs.append(f'TaskDoneCallback scenario failed: {err}')
    for i in range(n):
        if called.count(i) != 1:
            msgs.append(f'task {i} was registered and finished; its callback ran {called.count(i)} times')
    # a 'finish i' is logged by the task body just before it returns; the callback cannot precede it
    for i in range(n):
        if f'cb {i}' in log and f'finish {i}' in log and log.index(f'cb {i}') < log.index(f'finish {i}'):
            msgs.append(f'callback of task {i} ran before it finished')
    return {'log': log, 'msgs': msgs, 'schedule': chooser.trace}


def _xshard(cases: list) -> list:
    pre = Preempt()
    out = []
    try:
        for off, variant in cases:
            try:
                r = xthread_task_case(pre, off, variant)
                out.append((off, variant, r['msgs'], r['reached'], None))
            except BaseException as e:  # noqa
                out.append((off, variant, [], False, f'{type(e).__name__}: {e}'))
    finally:
        pre.close()
    return out


def _tshard(seeds: list) -> list:
    out = []
    for s in seeds:
        r = task_case(s)
        out.append((s, ['tasks'] + ['obs ' + l for l in r['log']], r['msgs']))
    return out


def run(chk: common.Check) -> None:
    from nextline.utils.done_callback.thread import ThreadDoneCallback
    chk.cov.rule = ('for every bytecode offset of ThreadDoneCallback._monitor (monitor parked there after a dead registered thread exists) and of '
                    'register (registering thread parked there): a second thread registers / ends in the gap, then both end and close() is called; '
                    '× {callback raises or not} × {second thread dies in the gap or after}. TaskDoneCallback: ≤ 4 tasks, random completion and '
                    'registration points (incl. double registration) under the permuting loop; and one TaskDoneCallback shared by tasks of two threads with their '
                    'own event loops, thread A parked before every bytecode of _callback while thread B registers / is called back. ThreadTaskDoneCallback (union): a registered task / '
                    'thread still running when close() / aclose() begins starts 1–3 threads afterwards that register (themselves, by their starter, or chained), × state of the '
                    'thread monitor at that moment (idle, one reported, one ending, one alive); close must return only after all of them ended and were called back once. '
                    'Fire-and-forget tasks (TaskDoneCallback and the union): 1–3 registered tasks (by themselves / by their creator, which drops its reference) that '
                    'nothing but the helper refers to, parked on a future / Event / Queue only their own frame holds (or a sleep), 1–3 gc.collect(), the loop torn down '
                    'by asyncio.run(); close / aclose after that or from another thread meanwhile; each called back exactly once, after it ended. '
                    'Observed label sequences are checked for '
                    'acceptance by the Lean LTS. Non-trivial: the preemption point was actually reached; distinct = distinct (point, variant).')
    chk.assumptions += ['preemption is forced only before the chosen bytecode; other GIL switch points are whatever CPython produces',
                        'registrations precede close() (documented contract of close)']
    cases = []
    idx = 0
    mon_offs = offsets_of(ThreadDoneCallback._monitor)
    reg_offs = offsets_of(ThreadDoneCallback.register)
    variants = ['resume-first', 'die-in-gap', 'close-in-gap']
    stride = 1 if chk.tier == 'thorough' else 1
    for off in mon_offs[::stride]:
        for v in variants:
            cases.append((idx, 'monitor', off, v, False))
            idx += 1
        cases.append((idx, 'monitor', off, 'resume-first', True))
        idx += 1
        if off % 3 == 0:
            cases.append((idx, 'monitor', off, 'resume-first', ['SystemExit', 'KeyboardInterrupt', 'CancelledError'][(off // 3) % 3]))
            idx += 1
    for off in reg_offs:
        for v in variants[:2]:
            cases.append((idx, 'register', off, v, False))
            idx += 1
    n = 16
    shards: list = [[] for _ in range(n)]
    for c in cases:
        shards[c[0] % n].append(c)
    ntask = 400 if chk.tier == 'quick' else 6000
    tseeds = [chk.seed * 100000 + i for i in range(ntask)]
    with mp.get_context('spawn').Pool(n) as pool:      # spawn: sys.monitoring state and threads must not be inherited
        res = pool.map(_shard, shards)
        tres = pool.map(_tshard, [tseeds[i::n] for i in range(n)])
        from nextline.utils.done_callback.task import TaskDoneCallback
        xcases = [(off, v) for off in offsets_of(TaskDoneCallback._callback) for v in ('register', 'complete')]
        xres = pool.map(_xshard, [xcases[i::n] for i in range(n)])
        ucases = union_cases()
        ures = pool.map(_ushard, [ucases[i::n] for i in range(n)])
        ocases = orphan_cases()
        ores = pool.map(_oshard, [ocases[i::n] for i in range(n)])
    rows = []
    for sh in res:
        for i, lines, msgs, reached, err in sh:
            if err:
                rows.append((cases[i][1:], lines or ['threads -'], [f'the scenario did not complete: {err[:300]}'], reached))
                continue
            rows.append((cases[i][1:], lines, msgs, reached))
    trows = []
    for sh in tres:
        for s, lines, msgs in sh:
            trows.append((('tasks', s), lines, msgs, True))
    all_rows = rows + trows
    model_out = None
    model_err = None
    try:
        model_out = common.model_batch('done', [ln for (_, lines, _, _) in all_rows for ln in lines])
    except Exception as e:
        model_err = f'{type(e).__name__}: {e}'
    pos = 0
    oracle_fail = []
    rejected = []
    nreached = 0
    for cfg, lines, msgs, reached in all_rows:
        chk.cov.case(repr(cfg), trivial=not reached)
        nreached += 1 if reached else 0
        chk.cov.count('where', cfg[0])
        for l in lines[1:]:
            chk.cov.count('labels', l.split()[1])
        if msgs:
            oracle_fail.append((cfg, lines, msgs))
        if model_out is not None:
            mo = model_out[pos:pos + len(lines)]
            pos += len(lines)
            bad = [k for k, r in enumerate(mo) if r == 'n=0' or r == 'bad-op']
            if bad:
                rejected.append((cfg, lines, bad[0]))
    for sh in xres:
        for off, variant, msgs, reached, err in sh:
            if err:
                msgs = [f'the scenario did not complete: {err[:300]}']
            chk.cov.case(repr(('task-callback', off, variant)), trivial=not reached)
            nreached += 1 if reached else 0
            chk.cov.count('where', 'task-callback')
            if msgs:
                oracle_fail.append((('task-callback', off, variant, False), [], msgs))
    # the union helper: threads registered by a still running registered task / thread after close() / aclose() has begun
    for sh in ures:
        for c, ulog, msgs, err in sh:
            if err:
                msgs = [f'the scenario did not complete: {err[:300]}']
            chk.cov.case(repr(('union-late-register', sorted(c.items()))))
            chk.cov.count('where', 'union-late-register')
            chk.cov.count('kinds', f"union-{c['closer']}-{c['starter']}-early-{c['early']}")
            if msgs:
                oracle_fail.append((('union-late-register', None, c, False), ['obs ' + l for l in ulog], msgs))
    # registered fire-and-forget tasks that nothing but the helper refers to, across garbage collections and the tear-down of their loop
    for sh in ores:
        for c, olog, msgs, err in sh:
            if err:
                msgs = [f'the scenario did not complete: {err[:300]}']
            chk.cov.case(repr(('orphan-task', sorted(c.items()))))
            chk.cov.count('where', 'orphan-task')
            chk.cov.count('kinds', f"orphan-{c['helper']}-{c['closer']}-{c['when']}-reg-{c['reg']}")
            for pk in c['parks']:
                chk.cov.count('kinds', f'orphan-parked-on-{pk}')
            if msgs:
                oracle_fail.append((('orphan-task', None, c, False), ['obs ' + l for l in olog], msgs))
    # the consequence the property names: every trace that starts in the child is reported as ended — through the real trace machinery
    # in-process, on programs whose threads and tasks end in every way (return, raise, cancellation, left pending, not joined)
    from .. import progs
    from . import _trace
    tspecs = []
    for k, (src, _) in enumerate([progs.cancelled_tasks(random.Random(1)), progs.concurrent(random.Random(2), 2, 2), progs.concurrent(random.Random(3), 2, 1, join=False),
                                  progs.sequential_tasks(random.Random(4), 6),
                                  ("import threading, asyncio\ndef boom():\n    raise ValueError('in thread')\nt = threading.Thread(target=boom)\nt.start()\nt.join()\n"
                                   "async def bad():\n    raise KeyError('in task')\nasync def amain():\n    r = await asyncio.gather(bad(), return_exceptions=True)\n"
                                   "asyncio.run(amain())\nx = 1\n", {}),
                                  # a thread whose only script code runs inside a task (target=asyncio.run) outlives the script, which does not join it; after the
                                  # script has ended the task runs a script function in an executor thread that exists already but has not run script code yet.
                                  # (If the timing is different — the script is still running, or the executor thread is created later — the traces start and
                                  # end in the ordinary way or do not start at all: the oracle below holds either way.)
                                  ("import asyncio\nimport threading\nimport time\n\n\ndef work():\n    time.sleep(0.05)\n\n\nasync def coro():\n"
                                   "    await asyncio.to_thread(time.sleep, 0.01)\n    await asyncio.sleep(0.5)\n    await asyncio.to_thread(work)\n\n\n"
                                   "threading.Thread(target=asyncio.run, args=(coro(),)).start()\ntime.sleep(0.2)\n", {}),
                                  # fire-and-forget tasks parked on something only their own frame refers to (one registers a second one of the same kind), a task
                                  # the script holds and awaits, and garbage collections in between; asyncio.run() cancels the parked ones at its end
                                  ("import asyncio\nimport gc\n\n\nasync def orphan(n):\n    if n:\n        asyncio.get_running_loop().create_task(orphan(n - 1))\n"
                                   "    fut = asyncio.get_running_loop().create_future()\n    await fut\n\n\nasync def waiter():\n    await asyncio.Event().wait()\n\n\n"
                                   "async def kept():\n    await asyncio.sleep(0.01)\n    return 1\n\n\nasync def main():\n"
                                   "    asyncio.get_running_loop().create_task(orphan(1))\n    asyncio.ensure_future(waiter())\n    t = asyncio.create_task(kept())\n"
                                   "    await asyncio.sleep(0)\n    await asyncio.sleep(0)\n    gc.collect()\n    await t\n    gc.collect()\n    await asyncio.sleep(0.01)\n"
                                   "    gc.collect()\n\n\nasyncio.run(main())\nx = 1\n", {})]):
        for pol in ({'kind': 'all', 'command': 'next'}, {'kind': 'all', 'command': 'continue'}):
            tspecs.append({'source': src, 'policy': pol, 'trace_threads': True, 'trace_modules': False, 'kind': 'every-trace-ends', 'timeout': 40,
                           'want_reference': False, 'want_recorder': False})
    td_lines: list = []
    td_spans: list = []
    for r in _trace.run_specs(tspecs, chunk=4):
        sp = r['spec']
        chk.cov.case(('every-trace-ends', sp['source'], repr(sp['policy'])))
        chk.cov.count('where', 'trace-pipeline')
        if 'harness_error' in r:
            if not r['harness_error'].startswith('SKIPPED'):
                oracle_fail.append((('trace-pipeline', sp['source'][:60], sp['policy']['command'], False), [], [f'the traced run did not complete: {r["harness_error"][:200]}']))
            continue
        evs = r['traced']['events']
        started = [e['trace_no'] for e in evs if e['_type'] == 'OnStartTrace']
        ended = [e['trace_no'] for e in evs if e['_type'] == 'OnEndTrace']
        m = []
        if sorted(started) != sorted(ended):
            m.append(f'traces started {sorted(started)}, traces reported as ended {sorted(ended)}')
        if r['traced'].get('error'):
            m.append(f"the run raised {r['traced']['error']}")
        if m:
            oracle_fail.append((('trace-pipeline', sp['source'], sp['policy']['command'], False), [], m))
        # model D1t: the same stream with the exit of the plugin context placed as late as possible must be accepted — every other trace has
        # ended by then, nothing but the end of the last trace follows, nothing starts afterwards
        enc = _trace.encode(evs, teardown=True)
        td_spans.append((sp, len(td_lines), len(enc)))
        td_lines += enc
    td_rejected = []
    td_err = None
    try:
        mo = common.model_batch('trace', td_lines)
        for sp, a0, n0 in td_spans:
            seg = mo[a0:a0 + n0]
            bad = [k for k, x in enumerate(seg) if x.startswith('reject') or x == 'bad-op']
            if bad:
                td_rejected.append((sp, td_lines[a0:a0 + n0][:bad[0] + 1][-8:], seg[bad[0]]))
        chk.cov.count('where', 'teardown-model-streams', len(td_spans))
    except Exception as e:  # noqa
        td_err = f'{type(e).__name__}: {e}'
    chk.cov.extra['preemption_points_reached'] = nreached
    chk.cov.extra['monitor_bytecode_offsets'] = len(mon_offs)
    chk.cov.extra['register_bytecode_offsets'] = len(reg_offs)
    chk.cov.exhaustive = True
    chk.cov.extra['exhaustive_scope'] = 'every single preemption point (bytecode offset) of _monitor and register, for the scenario family above'
    chk.cov.traces_validated = len(all_rows) if model_out is not None else 0
    chk.cov.sample({'case': rows[len(rows) // 2][0], 'observed_labels': rows[len(rows) // 2][1]})
    chk.cov.sample({'case': trows[0][0], 'observed_labels': trows[0][1]})
    for cfg, lines, msgs in oracle_fail[:5]:
        chk.violation(f'C18 oracle: {msgs[0]}', {'case': {'where': cfg[0], 'offset': cfg[1], 'variant': cfg[2], 'callback_raises': cfg[3]} if cfg[0] != 'tasks' else {'tasks_seed': cfg[1]},
                                                  'observed_labels': lines, 'oracle_messages': msgs})
    broken = common.proof_broken(chk)
    if model_err:
        broken.append(f'model driver unusable: {model_err}')
    if rejected:
        chk.cov.disagreements_checked = len(rejected)
        cfg, lines, k = min(rejected, key=lambda r: len(r[1]))
        broken.append(f'correspondence I broken: {len(rejected)} observed traces are not accepted by the model; shortest: {cfg} rejected at {lines[k]!r}')
    if td_err:
        broken.append(f'model driver unusable (teardown streams): {td_err}')
    if td_rejected:
        chk.cov.disagreements_checked = (chk.cov.disagreements_checked or 0) + len(td_rejected)
        sp, ctx, why = min(td_rejected, key=lambda r: len(r[0]['source']))
        broken.append(f'correspondence D1t broken: {len(td_rejected)} streams of completed runs are not accepted by the teardown model ({why}); e.g. … {ctx[-4:]} '
                      f'for the program {sp["source"][:200]!r}, policy {sp["policy"]}')
    if broken and not oracle_fail:
        d = None
        if rejected:
            cfg, lines, k = min(rejected, key=lambda r: len(r[1]))
            d = {'case': cfg, 'observed_labels': lines, 'rejected_at': k}
        elif td_rejected:
            sp, ctx, why = min(td_rejected, key=lambda r: len(r[0]['source']))
            d = {'spec': sp, 'last_lines': ctx, 'reply': why}
        chk.violation('C18: ' + ' | '.join(broken[:3]), {'no_longer_checks': broken, 'shortest_rejected_trace': d}, no_input=True)
