"""Real runs in which the main process lags behind the child: a plugin hook that is busy for seconds on one stdout event (a blocking
callback), so that it is still busy — with events queued behind it — when the script has ended (or when the child is killed).  Used by C10 (everything emitted is delivered,
in order, before end-run), C11 (the registrars close every record out) and C12 (the hook protocol).  The time-outs the run session
uses at the end of a run (a 1 s quiet-period timer while draining) must not cut that work short."""
from __future__ import annotations

N_END = 24        # lines printed by the script that ends by itself
N_KILL = 16       # lines printed before the script goes to sleep and is killed
STALL_END = 4.5   # the hook of the LAST line of the script that ends by itself is busy that long (the end events queue up behind it)
STALL_KILL = 6.5  # the hook of the FIRST line of the script that is killed (about 1.2 s later) is busy that long


def specs() -> list[dict]:
    end = ''.join(f"print('line {i}')\n" for i in range(N_END)) + 'x = 1\n'
    kill = ('import time, pathlib\n' + ''.join(f"print('line {i}')\n" for i in range(N_KILL))
            + "pathlib.Path('@@MARKER@@').write_text('x')\ntime.sleep(60)\n")
    return [
        {'statement': end, 'mode': 'continuous', 'stall_s': STALL_END, 'stall_on_text': f'line {N_END - 1}\n', 'timeout': 90, 'lag': 'script-ends',
         'n_lines': N_END},
        # (killed a good while after its last event, i.e. not while it is writing to the queue: that is the recorded finding F-G3)
        {'statement': kill, 'mode': 'continuous', 'stall_s': STALL_KILL, 'stall_on_text': 'line 0\n', 'timeout': 90, 'lag': 'killed-with-backlog', 'n_lines': N_KILL,
         'signal': {'kind': 'kill', 'after_marker': True, 'delay': 1.0}},
    ]


def oracle(sp: dict, r: dict) -> dict:
    """→ {'delivery': [...], 'closeout': [...], 'protocol': [...]} messages per aspect"""
    out: dict = {'delivery': [], 'closeout': [], 'protocol': []}
    rec = r['rec']
    who = (f"a plugin's hook is busy for {sp['stall_s']} s on the stdout event {sp['stall_on_text']!r}; the script prints {sp['n_lines']} lines and "
           f"{'ends' if sp['lag'] == 'script-ends' else 'is killed about 1 s after the last one'} while that hook is still busy")
    if rec is None or not rec.get('finished'):
        msg = f"{who}: the run did not finish: {(rec or {}).get('errors')}"
        return {'delivery': [msg], 'closeout': [msg], 'protocol': [msg]}
    hooks = [h['hook'] for h in rec['hooks']]
    word = ''.join({'on_initialize_run': 'I', 'on_start_run': 'S', 'on_end_run': 'E', 'on_finished': 'F'}.get(h, 'p') for h in hooks)
    import re
    if not re.fullmatch(r'ISp*EF', word):
        short = re.sub(r'p{4,}', lambda m: f'p×{len(m.group(0))}', word)
        out['protocol'].append(f'{who}: the plugin received {short!r} (expected initialise-run, start-run, the events, end-run, finished — each once, in that order)')
    for h in rec['hooks']:
        want = {'on_initialize_run': ('initialized', True), 'on_start_run': ('running', True), 'on_end_run': ('running', True), 'on_finished': ('finished', False)}.get(h['hook'])
        if want is None and h['hook'].startswith('on_'):
            want = ('running', True)
        if want and (h['state'], h['run_arg']) != want:
            out['protocol'].append(f"{who}: {h['hook']} was called in state {h['state']!r} with the run's arguments {'present' if h['run_arg'] else 'absent'}")
            break
    # delivery: the stdout events handed to the plugin, and the records published, are the lines the script printed, in order
    got_hook = [h['event']['text'] for h in rec['hooks'] if h['hook'] == 'on_write_stdout']
    got_pub = [s[1] for s in rec['stdout']]
    want_lines = [f'line {i}\n' for i in range(sp['n_lines'])]
    for name, got in (('handed to the plugin', got_hook), ('published on the stdout topic', got_pub)):
        if got != want_lines:
            out['delivery'].append(f'{who}: {len(got)} of {len(want_lines)} lines were {name}'
                                   + ('' if got == want_lines[:len(got)] else f' (not a prefix: {got[:5]}…)'))
    if 'on_end_run' in hooks and any(h == 'on_write_stdout' for h in hooks[hooks.index('on_end_run'):]):
        out['delivery'].append(f'{who}: stdout events were delivered after end-run')
    # close-out by the registrars
    ri = [x['state'] for x in rec['run_info']]
    if ri != ['initialized', 'running', 'finished']:
        out['closeout'].append(f'{who}: run_info records {ri}')
    started = [t['trace_no'] for t in rec['trace_info'] if t['state'] == 'running']
    finished = [t['trace_no'] for t in rec['trace_info'] if t['state'] == 'finished']
    if sorted(started) != sorted(finished):
        out['closeout'].append(f'{who}: traces reported running {sorted(started)}, reported finished {sorted(finished)}')
    if rec.get('trace_ids_after'):
        out['closeout'].append(f"{who}: after the run the active trace ids are {rec['trace_ids_after']}")
    if rec['trace_ids'] and list(rec['trace_ids'][-1]) != []:
        out['closeout'].append(f"{who}: the last publication of the active trace ids is {rec['trace_ids'][-1]}")
    return out
