"""C07 — a command reaches exactly the prompt it addresses, once.  Model E (`NLV.Model.Commands`).

Tie: the real `Prompt` plugin, `relay_commands` thread, `PromptFunc` counter and `Repeater.on_prompt` in a
real plugin manager, with simulated traces (threads); phase-synchronised command streams (the harness waits
for queue quiescence after every operation, so the model is deterministic) — outcomes must equal the model's.
Plus real runs with decoy commands around every genuine answer.
"""
from __future__ import annotations

import itertools
import multiprocessing as mp
import queue
import random
import threading
import time
from types import SimpleNamespace
from typing import Any, Optional

from .. import common


class IQueue(queue.Queue):
    """queue.Queue that knows how many threads are inside get()."""

    def __init__(self, *a: Any, **k: Any) -> None:
        super().__init__(*a, **k)
        self.waiters = 0
        self._wl = threading.Lock()

    def get(self, *a: Any, **k: Any) -> Any:  # type: ignore[override]
        with self._wl:
            self.waiters += 1
        try:
            return super().get(*a, **k)
        finally:
            with self._wl:
                self.waiters -= 1

    def idle(self) -> bool:
        """a consumer is blocked in get() on an empty queue"""
        return self.empty() and self.waiters >= 1


class Rig:
    """Real Prompt + Repeater + PromptFunc in a real plugin manager; traces are threads driven by the harness."""

    def __init__(self) -> None:
        import apluggy
        from nextline.spawned.plugin import spec
        from nextline.spawned.plugin.plugins.pdb_ import prompt as prompt_mod
        from nextline.spawned.plugin.plugins.pdb_.factory import PromptFunc
        from nextline.spawned.plugin.plugins.repeat import Repeater
        from nextline.spawned.types import RunArg
        self.prompt_mod = prompt_mod
        self.org_queue = prompt_mod.Queue
        self.instrumented = hasattr(prompt_mod, 'Queue')
        if self.instrumented:
            prompt_mod.Queue = IQueue  # type: ignore[attr-defined]
        self.tl = threading.local()
        rig = self

        class Stub:
            @spec.hookimpl
            def current_trace_no(self) -> Optional[int]:
                return getattr(rig.tl, 'trace_no', None)

            @spec.hookimpl
            def current_thread_no(self) -> Optional[int]:
                return getattr(rig.tl, 'trace_no', None)

            @spec.hookimpl
            def current_task_no(self) -> Optional[int]:
                return None

            @spec.hookimpl
            def current_trace_call_info(self) -> Any:
                return SimpleNamespace(trace_call_no=1, file_name='f', line_no=1, frame_object_id=1, event='line')

        self.qi: Any = IQueue()
        self.qo: Any = queue.Queue()
        hook = apluggy.PluginManager(spec.PROJECT_NAME)
        hook.add_hookspecs(spec)
        hook.register(Repeater)
        hook.register(prompt_mod.Prompt)
        hook.register(Stub())
        hook.hook.init(hook=hook, run_arg=RunArg(run_no=1, statement=''), modules_to_skip=set(), queue_in=self.qi,
                       queue_out=self.qo)
        self.hook = hook
        self.prompt_func = PromptFunc(hook)
        self.ctx = hook.with_.context()
        self.ctx.__enter__()
        self.traces: dict[int, dict] = {}
        self.events: list = []
        self.ended: list = []      # OnEndPrompt events not yet reported

    # -- trace threads ---------------------------------------------------------------------
    def _worker(self, t: int, inbox: queue.Queue, st: dict) -> None:
        self.tl.trace_no = t
        while True:
            act = inbox.get()
            try:
                if act == 'start':
                    self.hook.hook.on_start_trace(trace_no=t)
                elif act == 'open':
                    st['cmd'] = self.prompt_func(text=f'(Pdb{t}) ')
                elif act == 'end':
                    self.hook.hook.on_end_trace(trace_no=t)
                    st['busy'] = False
                    return
                elif act == 'quit':
                    st['busy'] = False
                    return
            except BaseException as e:  # noqa
                st['error'] = f'{type(e).__name__}: {e}'
            st['busy'] = False

    def act(self, t: int, what: str) -> None:
        if t not in self.traces:
            st = {'busy': False, 'inbox': queue.Queue(), 'cmd': None, 'open': False}
            th = threading.Thread(target=self._worker, args=(t, st['inbox'], st), daemon=True)
            st['thread'] = th
            self.traces[t] = st
            th.start()
        st = self.traces[t]
        st['busy'] = True
        st['inbox'].put(what)

    def _qmap(self) -> Optional[dict]:
        # the per-trace queues are private to the plugin; used only to detect quiescence (fallback: time)
        for name, p in self.hook.list_name_plugin():
            qm = getattr(p, '_queue_map', None)
            if isinstance(qm, dict):
                return qm
        return None

    def quiesce(self, timeout: float = 5.0) -> None:
        t0 = time.time()
        qm = self._qmap()
        stable = 0
        while time.time() - t0 < timeout:
            ok = self.qi.idle()
            if ok:
                for t, st in self.traces.items():
                    if not st['busy']:
                        continue
                    # busy: inside prompt(); quiescent iff blocked on its own empty queue
                    q = qm.get(t) if qm is not None else None
                    if isinstance(q, IQueue):
                        ok = ok and q.idle()
                    else:
                        ok = False
            if ok:
                stable += 1
                if stable >= 2:
                    return
            else:
                stable = 0
            time.sleep(0.0005)
        if qm is None or not self.instrumented:
            return   # time-based fallback: we waited long enough
        raise TimeoutError('no quiescence')

    def drain(self) -> list:
        out = []
        while True:
            try:
                e = self.qo.get_nowait()
            except queue.Empty:
                return out
            out.append(e)
            if type(e).__name__ == 'OnEndPrompt':
                self.ended.append(e)

    def close(self) -> None:
        # answer every open prompt so that the threads can finish
        from nextline.spawned.commands import PdbCommand
        for _ in range(3):
            evs = self.drain()
            self.events += evs
            self.quiesce()
        opened = {}
        for e in self.events:
            n = type(e).__name__
            if n == 'OnStartPrompt':
                opened[e.prompt_no] = e.trace_no
            elif n == 'OnEndPrompt':
                opened.pop(e.prompt_no, None)
        for p, t in opened.items():
            self.qi.put(PdbCommand(trace_no=t, prompt_no=p, command='continue'))
        for t, st in self.traces.items():
            st['inbox'].put('quit')
        for t, st in self.traces.items():
            st['thread'].join(timeout=2)
        try:
            self.ctx.__exit__(None, None, None)
        finally:
            if self.instrumented:
                self.prompt_mod.Queue = self.org_queue  # type: ignore[attr-defined]


def run_impl(ops: list[tuple]) -> list[str]:
    from nextline.spawned.commands import PdbCommand
    rig = Rig()
    out = ['ok']
    live: set = set()
    openp: dict[int, int] = {}
    try:
        for op in ops:
            if op[0] == 'start':
                t = op[1]
                if t in live:
                    out.append('err')
                    continue
                rig.act(t, 'start')
                while rig.traces[t]['busy']:
                    time.sleep(0.0002)
                live.add(t)
                rig.events += rig.drain()
                out.append('ok')
            elif op[0] == 'end':
                t = op[1]
                if t not in live or t in openp:
                    out.append('err')
                    continue
                rig.act(t, 'end')
                rig.traces[t]['thread'].join(timeout=2)
                live.discard(t)
                del rig.traces[t]
                rig.events += rig.drain()
                out.append('ok')
            elif op[0] == 'open':
                t = op[1]
                if t not in live or t in openp:
                    out.append('err')
                    continue
                rig.act(t, 'open')
                # wait for the OnStartPrompt of this trace
                p = None
                t0 = time.time()
                while p is None and time.time() - t0 < 5:
                    for e in rig.drain():
                        rig.events.append(e)
                        if type(e).__name__ == 'OnStartPrompt' and e.trace_no == t:
                            p = e.prompt_no
                    if p is None:
                        time.sleep(0.0002)
                openp[t] = p  # type: ignore[assignment]
                rig.quiesce()
                out.append(f'p={p} ' + _report(rig, openp))
            elif op[0] == 'send':
                _, t, p, c = op
                rig.qi.put(PdbCommand(trace_no=t, prompt_no=p, command=str(c)))
                rig.quiesce()
                out.append(_report(rig, openp))
    finally:
        rig.close()
    return out


def _report(rig: Rig, openp: dict) -> str:
    ex = []
    # a prompt that was answered: its thread is no longer busy; give the OnEndPrompt event time to arrive
    t0 = time.time()
    while time.time() - t0 < 2:
        evs = rig.drain()
        rig.events += evs
        for e in rig.ended:
            ex.append((e.trace_no, e.prompt_no, e.command))
            openp.pop(e.trace_no, None)
        rig.ended.clear()
        pending = [t for t in openp if not rig.traces[t]['busy']]
        if not pending:
            break
        time.sleep(0.0005)
    ex.sort()
    return ' '.join(f'exec:{t}:{p}:{c}' for t, p, c in ex) if ex else 'none'


def lines_of(ops: list[tuple]) -> list[str]:
    return ['reset'] + [' '.join(map(str, op)) for op in ops]


def _shard(scen: list) -> list:
    out = []
    for idx, ops in scen:
        try:
            out.append((idx, run_impl(ops), None))
        except Exception as e:
            out.append((idx, [], f'{type(e).__name__}: {e}'))
    return out


def gen(chk: common.Check) -> list[list[tuple]]:
    rng = chk.rng
    scen: list[list[tuple]] = []
    # exhaustive: 2 traces × 2 prompts; command streams of length ≤ k over decoy kinds, issued at every phase
    kinds = ['genuine', 'stale', 'dup', 'future', 'other', 'unknown']
    maxlen = 3 if chk.tier == 'quick' else 4
    for L in range(0, maxlen + 1):
        for seq in itertools.product(kinds, repeat=L):
            for open2 in (False, True):
                ops: list[tuple] = [('start', 1), ('start', 2), ('open', 1)]
                if open2:
                    ops.append(('open', 2))
                p1 = 1
                p2 = 2 if open2 else None
                answered = False
                for k in seq:
                    if k == 'genuine':
                        ops.append(('send', 1, p1, 7))
                        if not answered:
                            answered = True
                    elif k == 'stale':
                        ops.append(('send', 1, 0, 8))
                    elif k == 'dup':
                        ops.append(('send', 1, p1, 9))
                    elif k == 'future':
                        ops.append(('send', 1, p1 + 2, 10))
                    elif k == 'other':
                        ops.append(('send', 2, p1, 11))
                    elif k == 'unknown':
                        ops.append(('send', 9, p1, 12))
                # second prompts: open again and answer genuinely
                ops.append(('send', 1, p1, 7))
                ops.append(('open', 1))
                scen.append(ops)
    nrand = 300 if chk.tier == 'quick' else 5000
    for _ in range(nrand):
        ops = []
        live: list[int] = []
        openp: dict[int, int] = {}
        counter = 1
        hist: list[tuple[int, int]] = []
        for _ in range(rng.randint(3, 30)):
            r = rng.random()
            if r < 0.15 and len(live) < 3:
                t = max(live + [0]) + 1
                live.append(t)
                ops.append(('start', t))
            elif r < 0.35 and [t for t in live if t not in openp]:
                t = rng.choice([t for t in live if t not in openp])
                openp[t] = counter
                hist.append((t, counter))
                counter += 1
                ops.append(('open', t))
            elif r < 0.40 and [t for t in live if t not in openp] and len(live) > 1:
                t = rng.choice([t for t in live if t not in openp])
                live.remove(t)
                ops.append(('end', t))
            else:
                k = rng.random()
                if k < 0.45 and openp:
                    t = rng.choice(list(openp))
                    ops.append(('send', t, openp.pop(t), rng.randint(1, 5)))
                elif k < 0.6 and hist:
                    t, p = rng.choice(hist)
                    ops.append(('send', t, p, 20 + rng.randint(0, 3)))        # stale / duplicate / other trace's
                elif k < 0.75 and live:
                    ops.append(('send', rng.choice(live), counter + rng.randint(0, 3), 30))   # future (maybe exact-early)
                elif k < 0.9 and live:
                    ops.append(('send', rng.choice(live), rng.randint(0, counter), 40))
                else:
                    ops.append(('send', 50 + rng.randint(0, 2), rng.randint(0, counter), 50))  # unknown trace
        # the model needs to know which prompts are open: it does (it tracks them itself)
        scen.append(ops)
    return scen


def oracle(ops: list[tuple], out: list[str]) -> list[str]:
    """From the property statement: an executed command has exactly the numbers of a prompt open at that time and is
    the first such command still undelivered; decoys never execute."""
    msgs = []
    openp: dict[int, int] = {}
    answered: set = set()
    for op, r in zip(ops, out[1:]):
        toks = r.split()
        if op[0] == 'open' and toks and toks[0].startswith('p='):
            openp[op[1]] = int(toks[0][2:])
            toks = toks[1:]
        for tok in toks:
            if tok.startswith('exec:'):
                t, p, c = tok[5:].split(':')
                t, p = int(t), int(p)
                if openp.get(t) != p:
                    msgs.append(f'a command was executed at trace {t} prompt {p}, but the open prompt there was {openp.get(t)}')
                if (t, p) in answered:
                    msgs.append(f'prompt ({t},{p}) was answered twice')
                answered.add((t, p))
                sent = [o for o in ops if o[0] == 'send' and o[1] == t and o[2] == p and str(o[3]) == c]
                if not sent:
                    msgs.append(f'executed command {c!r} at ({t},{p}) was never addressed to it')
                openp.pop(t, None)
    return msgs


# ---------------------------------------------------------------------------------------------------------------
# The TEXT of genuine commands: empty, whitespace only, Python statements and `p` expressions with a countable effect
# on the script's state, the same text at consecutive prompts.  Every command is addressed to exactly one prompt, so
# the script's state (seen through `p (hits, x)` in the text of the following prompt, and through the script's last
# line of output) must be the one in which every addressed command was executed once, at its own prompt.
# ---------------------------------------------------------------------------------------------------------------

TEXT_PROBE = 'p (hits, x)'
TEXT_RESUMING = ('next', 'step', 'continue')
TEXT_NLINES = 40
TEXT_SCRIPT = ('hits = []; x = 0\n' + ''.join(f'v{i} = {i}\n' for i in range(TEXT_NLINES)) + "print('HITS', hits, 'X', x)\n")
# The unchanged library hands a whitespace-only command (' ', '\t', '\n') to Pdb as it is, and to cmd.Cmd a blank line
# means "repeat the last command" (emptyline): the command addressed to the trace's previous prompt runs again.  That is
# existing behaviour (reported as an observation in the coverage histogram 'whitespace_only_command'), so the oracle
# accepts both outcomes for a NON-empty blank command.  An empty command ('') is end-of-file to Pdb: the debugger quits
# (bdb.BdbQuit in the script); accepted are "quit" and "nothing happens", never a re-execution.
TEXT_BLANK_MAY_REPEAT = False


def _text_effects(c: str, st: tuple) -> list[tuple]:
    """What command text `c` may do to the state st = (hits, x, last non-blank command of the trace, blank repeats):
    a list of (state', output or None = not compared, the trace moves on, the debugger quits)."""
    import re
    hits, x, last, reps = st
    if c == '':
        return [(st, None, False, True), (st, '', False, False)]
    if not c.strip():
        alts = [(st, '', False, False)]
        if TEXT_BLANK_MAY_REPEAT and last:
            alts += [((h, xx, last, reps + 1), o, m, q) for (h, xx, _l, _r), o, m, q in _text_effects(last, st)]
        return alts
    s = c.strip()
    if s in TEXT_RESUMING:
        return [((hits, x, s, reps), None, True, False)]
    m = re.fullmatch(r'(p )?hits\.append\((\d+)\)', s)
    if m:
        return [((hits + (int(m[2]),), x, s, reps), 'None\n' if m[1] else '', False, False)]
    if s == '!x = x + 1':
        return [((hits, x + 1, last, reps), '', False, False)]       # cmd.Cmd does not remember a line that starts with '!'
    if s == TEXT_PROBE:
        return [((hits, x, s, reps), repr((list(hits), x)) + '\n', False, False)]
    raise ValueError(f'command text outside the vocabulary of this scenario: {c!r}')


def _text_class(c: str) -> str:
    if c == '':
        return 'empty'
    if not c.strip():
        return 'whitespace-only'
    if c in TEXT_RESUMING:
        return 'resuming'
    if c == TEXT_PROBE:
        return 'p-expression-readonly'
    return 'p-expression-with-effect' if c.startswith('p ') else 'python-statement'


def gen_text_sequences(chk: common.Check) -> list[list[str]]:
    """Per-trace command sequences (the i-th prompt of the trace is answered with the i-th text, 'continue' afterwards)."""
    rng = chk.rng
    seqs = [
        ['next', 'next', 'hits.append(1)', '', TEXT_PROBE, 'next', TEXT_PROBE],                     # '' after a statement
        ['step', 'p hits.append(2)', '', TEXT_PROBE],                                                 # '' after a p-expression with an effect
        ['next', '!x = x + 1', '!x = x + 1', TEXT_PROBE, '', 'next', TEXT_PROBE],                    # same text twice; '' after a read-only p
        ['', 'next', TEXT_PROBE],                                                                         # '' as the trace's very first command
        ['next', 'next', '', TEXT_PROBE],                                                             # '' after a resuming command
        ['next', 'hits.append(3)', ' ', TEXT_PROBE, '\t', 'next', TEXT_PROBE],                       # whitespace only
        ['next', 'hits.append(4)', 'hits.append(4)', 'hits.append(4)', TEXT_PROBE, '\n', TEXT_PROBE],  # same text three times; a newline
        ['  ', 'step', TEXT_PROBE, 'p hits.append(5)', 'p hits.append(5)', TEXT_PROBE, '', 'next'],
    ]
    for _ in range(4 if chk.tier == 'quick' else 52):
        seq: list[str] = []
        n = rng.randint(4, 9)
        empty_at = rng.randint(2, n) if rng.random() < 0.7 else -1
        while len(seq) < n:
            r = rng.random()
            if len(seq) == empty_at:
                c = ''
            elif not any(q in TEXT_RESUMING for q in seq) and r >= 0.45:
                c = rng.choice(['next', 'step', ' ', '\t'])      # hits and x exist once the script's first line has run
            elif seq and seq[-1] not in TEXT_RESUMING and seq[-1].strip() and r < 0.2:
                c = seq[-1]                                    # the same text at consecutive prompts
            elif r < 0.45:
                c = rng.choice(['next', 'step'])
            elif r < 0.6:
                c = f'hits.append({rng.randint(1, 3)})'
            elif r < 0.7:
                c = f'p hits.append({rng.randint(1, 3)})'
            elif r < 0.8:
                c = '!x = x + 1'
            elif r < 0.9:
                c = TEXT_PROBE
            else:
                c = rng.choice([' ', '   ', '\t', '\n', ' \n'])
            seq.append(c)
        seqs.append(seq + [TEXT_PROBE, 'next', TEXT_PROBE])
    return seqs


def texts_oracle(rec: dict) -> tuple[list[str], dict]:
    """Recorded == addressed at every prompt, and the script's state as seen after every command is the one in which every
    addressed command was executed exactly once while its own prompt was open (see `_text_effects`)."""
    import ast
    import re
    msgs: list[str] = []
    info: dict = {'addressed': [], 'blank_repeated': False}
    prompts = [h['event'] for h in rec['hooks'] if h['hook'] == 'on_start_prompt']
    genuine = {(t, p): c for t, p, c in rec['commands_sent'] if 'DECOY' not in c}
    closed: dict = {}
    for h in rec['hooks']:
        if h['hook'] == 'on_start_prompt' and 'DECOY' in h['event']['prompt_text']:
            msgs.append(f"a decoy command was executed: its output appears in the text of prompt {h['event']['prompt_no']}")
        if h['hook'] == 'on_end_prompt':
            e = h['event']
            k = (e['trace_no'], e['prompt_no'])
            if k in closed:
                msgs.append(f'prompt {k} was closed twice: with {closed[k]!r} and with {e["command"]!r}')
            closed[k] = e['command']
            if genuine.get(k) != e['command']:
                msgs.append(f"prompt {k} closed with {e['command']!r}; addressed to it: {genuine.get(k)!r}")
    if len({e['trace_no'] for e in prompts}) > 1:
        return msgs + ['the scenario failed: the one-thread script was prompted in more than one trace'], info
    states: set = {(((), 0, '', 0), False)}
    for i, e in enumerate(prompts):
        k = (e['trace_no'], e['prompt_no'])
        if k not in genuine:
            break
        c = genuine[k]
        info['addressed'].append([k[0], k[1], c])
        nxt = prompts[i + 1] if i + 1 < len(prompts) else None
        new: set = set()
        expected = []
        for st, _q in states:
            for st2, out, moves, quits in _text_effects(c, st):
                if nxt is None:
                    new.add((st2, quits))
                elif quits:
                    expected.append('no further prompt (the debugger quits)')
                elif moves:
                    new.add((st2, False))
                else:
                    expected.append(f"{out + '(Pdb) '!r} at line {e['line_no']}")
                    if nxt['line_no'] == e['line_no'] and nxt['prompt_text'] == out + '(Pdb) ':
                        new.add((st2, False))
        if not new:
            why = ''
            m = re.match(r'\((\[[\d, ]*\]), (\d+)\)\n', nxt['prompt_text'])       # the output of the probe
            counts = _text_counts(info['addressed'], ast.literal_eval(m[1]), int(m[2])) if m else ''
            if counts:
                why = ' — ' + counts
            elif nxt['line_no'] != e['line_no']:
                why = ' — the trace moved on although the command addressed to this prompt does not resume the script'
            elif c.strip() != TEXT_PROBE and nxt['prompt_text'] != '(Pdb) ':
                why = ' — output appears that the command addressed to this prompt does not produce'
            msgs.append(f"command texts: prompt {k} (line {e['line_no']}) was answered with {c!r}; the trace's next prompt shows "
                        f"{nxt['prompt_text']!r} at line {nxt['line_no']}; with every addressed command executed once, at its own prompt: "
                        f"{' or '.join(sorted(set(expected)))}{why}; addressed so far: {[a[2] for a in info['addressed']]}")
            return msgs, info
        states = new
    out_text = ''.join(h['event']['text'] for h in rec['hooks'] if h['hook'] == 'on_write_stdout')
    m = re.search(r'HITS (\[[\d, ]*\]) X (\d+)', out_text)
    if m:
        seen_hits, seen_x = tuple(ast.literal_eval(m[1])), int(m[2])
        final = {(st, q) for st, q in states if not q and st[0] == seen_hits and st[1] == seen_x}
        if not final:
            msgs.append(f'command texts: the script ended with hits={list(seen_hits)} x={seen_x}; with every addressed command executed once, at its own '
                        f'prompt: {sorted({(list(st[0]), st[1]) for st, q in states if not q})} — '
                        f"{_text_counts(info['addressed'], list(seen_hits), seen_x) or 'the order of the effects differs'}; addressed:{[a[2] for a in info['addressed']]}")
            return msgs, info
    else:
        final = {(st, q) for st, q in states if q}
        if not final:
            msgs.append(f"the scenario failed: the script's last line of output is missing although no addressed command makes the debugger quit; "
                        f"stdout {out_text[-200:]!r}, exception {str(rec.get('exception'))[-120:]!r}")
            return msgs, info
    info['blank_repeated'] = all(st[3] > 0 for st, _q in final)
    info['quit'] = all(q for _st, q in final)
    return msgs, info


def _text_counts(addressed: list, seen_hits: list, seen_x: int) -> str:
    """'<text> was addressed to n prompt(s), executed m time(s)' for the texts whose effect count differs."""
    import re
    out = []
    want: dict = {}
    for _t, _p, c in addressed:
        m = re.fullmatch(r'(?:p )?hits\.append\((\d+)\)', c.strip())
        if m:
            want[int(m[1])] = want.get(int(m[1]), 0) + 1
    for v in sorted(set(want) | set(seen_hits)):
        if want.get(v, 0) != seen_hits.count(v):
            out.append(f'hits.append({v}) was addressed to {want.get(v, 0)} prompt(s), executed {seen_hits.count(v)} time(s)')
    nx = sum(1 for _t, _p, c in addressed if c.strip() == '!x = x + 1')
    if nx != seen_x:
        out.append(f"'!x = x + 1' was addressed to {nx} prompt(s), executed {seen_x} time(s)")
    return '; '.join(out)


def run(chk: common.Check) -> None:
    chk.cov.rule = ('command streams against simulated traces: all streams of length ≤ 3/4 over {genuine, stale, duplicate, future, other-trace, '
                    'unknown-trace} for 2 traces with 1–2 open prompts, then seeded random op sequences (start/end trace, open prompt, send) over '
                    '≤ 3 traces; executed on the real Prompt/relay_commands/PromptFunc/Repeater and on the Lean model. Non-trivial: at least '
                    'one command executed and one discarded; distinct = distinct op sequence. Plus real-child runs with five decoys around '
                    'every genuine answer.')
    chk.assumptions += ['the harness waits for queue quiescence after every operation, so arrival order relative to prompt openings is known '
                        '(the theorems quantify over all interleavings; the correspondence samples the phase-synchronised ones)',
                        'queue.Queue is FIFO and thread-safe (CPython)']
    scen = gen(chk)
    n = 16
    shards: list = [[] for _ in range(n)]
    for i, ops in enumerate(scen):
        shards[i % n].append((i, ops))
    with mp.get_context('fork').Pool(n) as pool:
        res = pool.map(_shard, shards)
    impl = {}
    failed: dict = {}
    for sh in res:
        for i, out, err in sh:
            if err:
                failed[i] = err           # e.g. the command pipeline never became quiescent: commands stuck on their way
            impl[i] = out
    model_out = None
    model_err = None
    try:
        model_out = common.model_batch('cmd', [ln for ops in scen for ln in lines_of(ops)])
    except Exception as e:
        model_err = f'{type(e).__name__}: {e}'
    pos = 0
    disagreements = []
    oracle_fail = []
    for i, ops in enumerate(scen):
        out = impl[i]
        if i in failed:
            if model_out is not None:
                pos += len(ops) + 1
            oracle_fail.append((ops, [f'the scenario did not complete: {failed[i]} (commands stuck on their way to the prompts?)'], out))
            continue
        nex = sum(o.count('exec:') for o in out)
        chk.cov.case(repr(ops), trivial=nex == 0)
        for op in ops:
            chk.cov.count('ops', op[0])
        chk.cov.count('executed_per_scenario', nex)
        msgs = oracle(ops, out)
        if msgs:
            oracle_fail.append((ops, msgs, out))
        if model_out is not None:
            mo = model_out[pos:pos + len(ops) + 1]
            pos += len(ops) + 1
            if mo != out:
                k = next(j for j, (a, b) in enumerate(zip(mo, out)) if a != b)
                disagreements.append((ops, k, mo[k], out[k]))
        if i in (5, len(scen) - 1):
            chk.cov.sample({'ops': ops, 'impl_replies': out})
    chk.cov.traces_validated = len(scen) if model_out is not None else 0
    chk.cov.exhaustive = True
    chk.cov.extra['exhaustive_scope'] = 'all decoy streams of length ≤ 3 (quick) / 4 (thorough) over 6 kinds × {1, 2} open prompts'

    # real runs with decoys
    nreal = 8 if chk.tier == 'quick' else 60
    specs = []
    for i in range(nreal):
        src = ('import threading\n'
               'def f(n):\n    s = 0\n    for i in range(n):\n        s += i\n    return s\n'
               't = threading.Thread(target=f, args=(2,))\nt.start()\nx = f(2)\nt.join()\nprint(x)\n')
        pol = [{'kind': 'all', 'command': 'next'}, {'kind': 'all', 'command': 'step'},
               {'kind': 'random', 'seed': i, 'choices': ['next', 'step', 'return']}][i % 3]
        specs.append({'statement': src, 'trace_threads': True, 'policy': pol, 'decoys': True, 'timeout': 60})
    # two runs of one object: the first is killed / terminated / interrupted at a prompt; in the second every command must still reach its prompt
    two = []
    for kind in ('kill', 'terminate', 'interrupt'):
        two.append({'statement': 'x = 1\ny = 2\nz = 3\nw = 4\n', 'policy': {'kind': 'all', 'command': 'next'}, 'timeout': 40,
                    'signal': {'kind': kind, 'at_prompt': 2}, 'second_run': True, 'second_timeout': 20})
    for r in common.real_runs(two, jobs=3, hard_timeout=120):
        rec = r['rec']
        sp = r['spec']
        chk.cov.case(('real-two-runs', sp['signal']['kind']))
        chk.cov.count('kinds', 'real-child-second-run-after-' + sp['signal']['kind'])
        msgs = []
        if rec is None or rec.get('second_finished') is not True:
            msgs.append(f"after the first run was ended by {sp['signal']['kind']}() at a prompt, the second run of the same object did not finish: "
                        f"{(rec or {}).get('errors')}")
        else:
            ended = {(h['event']['trace_no'], h['event']['prompt_no']): h['event']['command'] for h in rec['second_hooks'] if h['hook'] == 'on_end_prompt'}
            sent = {(t, p): c for t, p, c in rec['second_commands_sent']}
            if not ended or ended != sent:
                msgs.append(f'second run: commands recorded at the prompts {ended}, commands sent {sent}')
        if msgs:
            oracle_fail.append(({'real_run': sp}, msgs, {'errors': (rec or {}).get('errors')}))
    for r in common.real_runs(specs, jobs=8, hard_timeout=120):
        rec = r['rec']
        chk.cov.case(('real', repr(r['spec']['policy'])))
        chk.cov.count('kinds', 'real-child-with-decoys')
        if rec is None or not rec.get('finished'):
            oracle_fail.append(({'real_run': r['spec']}, [f'run with decoys did not complete: {(rec or {}).get("errors")} {r["stderr"][-200:]}'],
                                {'stacks': (rec or {}).get('stacks'), 'stderr': r['stderr']}))
            continue
        msgs = []
        genuine = {(t, p): c for t, p, c in rec['commands_sent'] if 'DECOY' not in c}
        nprompts = 0
        for h in rec['hooks']:
            if h['hook'] == 'on_start_prompt':
                nprompts += 1
                if 'DECOY' in h['event']['prompt_text']:
                    msgs.append(f"a decoy command was executed: its output appears in the text of prompt {h['event']['prompt_no']}")
            if h['hook'] == 'on_end_prompt':
                e = h['event']
                if genuine.get((e['trace_no'], e['prompt_no'])) != e['command']:
                    msgs.append(f"prompt ({e['trace_no']},{e['prompt_no']}) closed with {e['command']!r}; addressed to it: "
                                f"{genuine.get((e['trace_no'], e['prompt_no']))!r}")
        chk.cov.count('real_prompts', 'n', nprompts)
        if msgs:
            oracle_fail.append(({'real_run': r['spec']}, msgs, None))

    # the TEXT of the genuine commands: empty, whitespace only, statements / p-expressions with a countable effect, the same
    # text at consecutive prompts; every second run with decoys around every genuine answer
    chk.cov.rule += (' Plus real-child runs of a straight-line script whose prompts are answered with unusual command texts (empty, whitespace '
                     'only, Python statements and p-expressions that change the script\'s state, identical texts at consecutive prompts): '
                     'fixed sequences and seeded random ones; distinct = distinct sequence of texts.')
    tspecs = [{'statement': TEXT_SCRIPT, 'policy': {'kind': 'seq', 'commands': seq, 'then': 'continue'}, 'decoys': i % 2 == 1, 'timeout': 60}
              for i, seq in enumerate(gen_text_sequences(chk))]
    for r in common.real_runs(tspecs, jobs=8, hard_timeout=120):
        rec = r['rec']
        sp = r['spec']
        seq = sp['policy']['commands']
        chk.cov.case(('real-texts', tuple(seq), sp['decoys']))
        chk.cov.count('kinds', 'real-child-command-texts')
        replay = {'real_run': {k: v for k, v in sp.items() if k != 'tmpdir'}}
        if rec is None or not rec.get('finished'):
            oracle_fail.append((replay, [f'run with unusual command texts {seq} did not complete: {(rec or {}).get("errors")} {r["stderr"][-200:]}'],
                                {'stacks': (rec or {}).get('stacks_at_timeout') or (rec or {}).get('stacks'), 'stderr': r['stderr']}))
            continue
        try:
            msgs, info = texts_oracle(rec)
        except Exception as e:  # noqa
            msgs, info = [f'the scenario failed: {type(e).__name__}: {e}'], {'addressed': []}
        for _t, _p, c in info['addressed']:
            chk.cov.count('command_texts', _text_class(c))
        for (_t1, _p1, a), (_t2, _p2, b) in zip(info['addressed'], info['addressed'][1:]):
            if a == b and a not in TEXT_RESUMING:
                chk.cov.count('command_texts', 'identical-at-consecutive-prompts')
        if info.get('quit'):
            chk.cov.count('empty_command', 'the debugger quit (BdbQuit in the script)')
        if info.get('blank_repeated'):
            chk.cov.count('whitespace_only_command', 're-executed the command addressed to the previous prompt (Pdb: blank line = repeat; tolerated)')
        if msgs:
            oracle_fail.append((replay, msgs, {'commands_sent': rec.get('commands_sent'),
                                               'prompts': [[h['event']['trace_no'], h['event']['prompt_no'], h['event']['line_no'], h['event']['prompt_text']]
                                                           for h in rec['hooks'] if h['hook'] == 'on_start_prompt'],
                                               'exception': str(rec.get('exception'))[-300:]}))

    # several traces with open prompts at the same time (one thread's first prompt is withheld until nothing else moves), every
    # genuine answer surrounded by decoys incl. this prompt's number addressed to every other live trace; real trace machinery in-process
    from . import _trace
    cspecs = []
    for s in _trace.gen_specs(chk, 0, 24 if chk.tier == 'quick' else 240, with_modules=False):
        if not s['trace_threads']:
            continue
        s = dict(s, decoys=True, want_reference=False, want_recorder=False)
        if len(cspecs) % 2 == 0:
            s['policy'] = {'kind': 'withhold', 'command': 'next'}
        cspecs.append(s)
    for r in _trace.run_specs(cspecs):
        sp = r['spec']
        if 'harness_error' in r:
            if not r['harness_error'].startswith('SKIPPED'):
                oracle_fail.append(({'script': sp['source'], 'policy': sp['policy']}, [f'the traced run did not complete: {r["harness_error"][:200]}'], None))
            continue
        chk.cov.case(('inproc', sp['source'], repr(sp['policy'])))
        chk.cov.count('kinds', 'concurrent-traces-with-decoys')
        msgs = _trace.commands_oracle(r['traced'])
        if msgs:
            oracle_fail.append(({'script': sp['source'], 'policy': sp['policy'], 'decoys': True}, msgs, None))

    for ops, msgs, out in oracle_fail[:5]:
        chk.violation(f'C07 oracle: {msgs[0]}', {'ops': ops, 'oracle_messages': msgs, 'implementation': out})
    broken = common.proof_broken(chk)
    if model_err:
        broken.append(f'model driver unusable: {model_err}')
    if disagreements:
        chk.cov.disagreements_checked = len(disagreements)
        ops, k, m, im = min(disagreements, key=lambda d: len(d[0]))
        broken.append(f'correspondence E broken on {len(disagreements)} scenarios; shortest {ops} at step {k}: model {m!r} vs implementation {im!r}')
    if broken and not oracle_fail:
        d = None
        if disagreements:
            ops, k, m, im = min(disagreements, key=lambda d: len(d[0]))
            d = {'ops': ops, 'step': k, 'model': m, 'implementation': im}
        chk.violation('C07: ' + ' | '.join(broken[:3]), {'no_longer_checks': broken, 'shortest_disagreement': d}, no_input=True)
