"""C06 — each thread and each asyncio task is debugged as its own independent trace.  Model D1 (`NLV.Model.Trace`).

Tie: as C09 (model acceptance of the emitted streams, which checks the numbering discipline of trace, thread and task
numbers), plus an oracle that uses the program's layout as ground truth: every worker function is executed by exactly
one thread/task, so the code location of a trace call identifies the entity that produced it; and a responder that
withholds the answer to one thread's prompt until nothing else moves.
"""
from __future__ import annotations

import re

from .. import common
from . import _trace


def owner_ranges(src: str) -> dict:
    """function name → (first line, last line) of the worker functions"""
    lines = src.split('\n')
    rng: dict = {}
    cur = None
    for i, l in enumerate(lines, 1):
        m = re.match(r'(?:async )?def (thread_body_\d+|task_body_\d+|stress_body_\d+)\(', l)
        if m:
            cur = m.group(1)
            rng[cur] = [i + 1, i + 1]      # body only: the `def` line itself is executed by the defining (main) thread
        elif cur and (l.startswith(' ') or l == ''):
            if l.strip():
                rng[cur][1] = i
        else:
            cur = None
    return rng


def oracle(sp: dict, t: dict) -> list[str]:
    msgs = []
    evs = t['events']
    ranges = owner_ranges(sp['source'])
    by_owner: dict = {}
    info: dict = {}
    for e in evs:
        if e['_type'] == 'OnStartTrace':
            if e['trace_no'] in info:
                msgs.append(f"trace number {e['trace_no']} started twice")
            info[e['trace_no']] = (e['thread_no'], e['task_no'])
        if e['_type'] in ('OnStartTraceCall', 'OnStartPrompt') and e['file_name'] == '<string>':
            for fn, (a, b) in ranges.items():
                if a <= e['line_no'] <= b:
                    by_owner.setdefault(fn, set()).add(e['trace_no'])
    # the text of a prompt is what *this* trace's debugger printed: every location line in it (`> file(line)function()`) names a
    # function this trace executes — never the worker function of another thread/task
    for e in evs:
        if e['_type'] == 'OnStartPrompt':
            for fn in re.findall(r'> [^\n(]*\(\d+\)(\w+)\(\)', e.get('prompt_text') or ''):
                if fn in ranges and by_owner.get(fn) and e['trace_no'] not in by_owner[fn]:
                    msgs.append(f"the prompt text of trace {e['trace_no']} shows a location in {fn}, which runs in trace {sorted(by_owner[fn])}: "
                                f"{e['prompt_text'][:120]!r}")
                    break
    tns = list(info)
    if len(set(tns)) != len(tns):
        msgs.append('trace numbers are not distinct')
    for fn, ts in by_owner.items():
        if len(ts) != 1:
            msgs.append(f'{fn} is executed by one thread/task but its trace calls carry trace numbers {sorted(ts)}')
    owners_of: dict = {}
    for fn, ts in by_owner.items():
        for x in ts:
            owners_of.setdefault(x, []).append(fn)
    for x, fns in owners_of.items():
        if len(fns) > 1:
            msgs.append(f'trace {x} carries events of several entities: {fns}')
    if not sp.get('trace_threads', True):
        for fn in by_owner:
            if fn.startswith('thread_body'):
                msgs.append(f'thread tracing is off but {fn} was traced')
    # (thread number, task number)
    main_thread = None
    for fn, ts in by_owner.items():
        x = next(iter(ts))
        th, tk = info.get(x, (None, None))
        if fn.startswith('thread_body') and tk is not None:
            msgs.append(f'{fn} runs in a plain thread but its trace has task number {tk}')
        if fn.startswith('task_body'):
            if tk is None:
                msgs.append(f'{fn} runs as an asyncio task but its trace has no task number')
            main_thread = th if main_thread is None else main_thread
            if th != main_thread:
                msgs.append(f'tasks of one event loop carry different thread numbers {main_thread} and {th}')
    thread_nos = [info[next(iter(ts))][0] for fn, ts in by_owner.items() if fn.startswith('thread_body') and next(iter(ts)) in info]
    if len(set(thread_nos)) != len(thread_nos):
        msgs.append(f'different threads share a thread number: {thread_nos}')
    task_ids = [info[next(iter(ts))] for fn, ts in by_owner.items() if fn.startswith('task_body') and next(iter(ts)) in info]
    if len(set(task_ids)) != len(task_ids):
        msgs.append(f'different tasks share (thread number, task number): {task_ids}')
    # a reported piece of output is the text of one thread/task: never the markers of two of them
    for e in evs:
        if e['_type'] == 'OnWriteStdout':
            who = set(re.findall(r'(?:^| )([TA]\d+) ', e['text']))
            if len(who) > 1:
                msgs.append(f"the output {e['text']!r} reported for trace {e['trace_no']} mixes text written by {sorted(who)}")
                break
    # stdout attribution: the line "T3 …" / "A1 …" is printed by thread_body_3 / task_body_1
    for e in evs:
        if e['_type'] == 'OnWriteStdout':
            m = re.match(r'([TA])(\d+) ', e['text'])
            if m:
                fn = ('thread_body_' if m.group(1) == 'T' else 'task_body_') + m.group(2)
                if fn in by_owner and e['trace_no'] not in by_owner[fn]:
                    msgs.append(f'output {e["text"]!r} of {fn} is attributed to trace {e["trace_no"]}, {fn} is trace {sorted(by_owner[fn])}')
    # work handed to executor threads: the line "W k <thread name>" is printed by that pool thread
    by_thread_name: dict = {}
    for e in evs:
        if e['_type'] == 'OnWriteStdout':
            m = re.match(r'W (\d+) (\S+)', e['text'])
            if m:
                by_thread_name.setdefault(m.group(2), set()).add(e['trace_no'])
    seen_tr: dict = {}
    for name, ts in by_thread_name.items():
        if len(ts) != 1:
            msgs.append(f'output written by executor thread {name} is attributed to several traces {sorted(ts)}')
        for x in ts:
            if x in seen_tr and seen_tr[x] != name:
                msgs.append(f'trace {x} carries output of two executor threads {seen_tr[x]} and {name}')
            seen_tr[x] = name
            if x in info and info[x][1] is not None:
                msgs.append(f'output written by executor thread {name} is attributed to trace {x}, which belongs to a task (task number {info[x][1]})')
    # withheld prompt: the other threads finished while it was open
    w = t.get('withheld') or {}
    if sp['policy']['kind'] == 'withhold' and w.get('trace') is not None:
        rel = w.get('released_at')
        if rel is None:
            msgs.append('the withheld prompt was never released (the run ended without it?)')
        else:
            before = evs[:rel]
            # judged: the program's own worker threads (executor threads idle in their pool and never "finish")
            workers = {x for fn, ts in by_owner.items() if fn.startswith('thread_body') for x in ts}
            started = {e['trace_no'] for e in before if e['_type'] == 'OnStartTrace' and e['trace_no'] in workers}
            ended = {e['trace_no'] for e in before if e['_type'] == 'OnEndTrace'}
            stuck = started - ended - {w['trace']}
            if stuck:
                msgs.append(f'while the prompt of trace {w["trace"]} was left unanswered, threads with traces {sorted(stuck)} did not finish')
            # when nothing moves any more, every other trace is between trace calls (its thread is blocked in the script's own code, e.g. in
            # join()) or has ended — not inside a trace call that never got as far as its prompt
            last: dict = {}
            for e in before:
                if e.get('trace_no') is not None and e['_type'] != 'OnWriteStdout':
                    last[e['trace_no']] = e['_type']
            inside = sorted(tn for tn, ty in last.items() if tn != w['trace'] and ty in ('OnStartTraceCall', 'OnStartCmdloop'))
            if inside:
                msgs.append(f'while the prompt of trace {w["trace"]} was left unanswered, traces {inside} got stuck inside a trace call before '
                            f'any prompt was issued for them')
    return msgs


def interrupt_program(n_lines: list[int], ending: str, pos: int) -> tuple[str, int]:
    """A script whose main thread starts len(n_lines) threads, waits until each of them is blocked in `go.wait()` (the handshake and the wait
    are one line, hence one prompt: when the main thread goes on, every prompt these threads have had so far has been answered), and then runs
    three lines inside a `try`.  Returns (source, number of the `pos`-th of these lines).  An interrupt delivered while the main thread sits at
    its prompt there is caught (`ending == 'except'`) or passes through a `finally` (`'finally'`); either way the main thread then releases
    the threads and joins them.  Worker i still has n_lines[i-1] + 2 lines to execute and a line of text to print at that moment."""
    L = ['import threading', '', 'ready = threading.Semaphore(0)', 'go = threading.Event()', '', '']
    for i, n in enumerate(n_lines, 1):
        L += [f'def thread_body_{i}():', '    ready.release(); go.wait()', f'    v = {i}']
        L += [f'    v = v + {k + 1}' for k in range(n)]
        L += [f"    print('T{i} done', v)", '', '']
    L.append('ts = []')
    for i in range(1, len(n_lines) + 1):
        L.append(f'ts.append(threading.Thread(target=thread_body_{i}))')
    L += ['for t in ts:', '    t.start()', 'for t in ts:', '    ready.acquire()', 'try:']
    target = len(L) + 1 + pos
    L += ['    mark = 1', '    mark = 2', '    mark = 3']
    if ending == 'except':
        L += ['except KeyboardInterrupt:', '    mark = -1', 'go.set()', 'for t in ts:', '    t.join()']
    else:
        L += ['finally:', '    go.set()', '    for t in ts:', '        t.join()']
    L.append("print('M done', mark)")
    return '\n'.join(L) + '\n', target


def interrupt_cases(chk: common.Check) -> list[dict]:
    shapes = [(1, 'except'), (2, 'except'), (1, 'finally'), (2, 'finally')]
    if chk.tier != 'quick':
        shapes = shapes * 3 + [(3, 'except'), (3, 'finally')]
    cases = []
    for nw, ending in shapes:
        n_lines = [chk.rng.randint(1, 4) for _ in range(nw)]
        pos = chk.rng.randrange(3)
        src, target = interrupt_program(n_lines, ending, pos)
        cases.append({'source': src, 'target_line': target, 'ending': ending, 'n_lines': n_lines,
                      'spec': {'statement': src, 'policy': {'kind': 'all', 'command': chk.rng.choice(['next', 'next', 'step'])},
                               'trace_threads': True, 'timeout': 60}})
    return cases


def _per_trace(rec: dict, src: str) -> dict:
    """what a real run reported, per worker function: its trace number(s), its prompts, its answers, its output, start/end of its trace"""
    ranges = owner_ranges(src)
    hooks = rec.get('hooks') or []
    owner: dict = {fn: set() for fn in ranges}
    for h in hooks:
        e = h.get('event') or {}
        if h['hook'] in ('on_start_trace_call', 'on_start_prompt') and e.get('file_name') == '<string>':
            for fn, (a, b) in ranges.items():
                if a <= e['line_no'] <= b:
                    owner[fn].add(e['trace_no'])
    out: dict = {}
    for fn, ts in owner.items():
        sel = [h for h in hooks if (h.get('event') or {}).get('trace_no') in ts]
        out[fn] = {'traces': sorted(ts),
                   'prompts': [[h['event']['event'], h['event']['line_no']] for h in sel if h['hook'] == 'on_start_prompt'],
                   'answered': [h['event']['command'] for h in sel if h['hook'] == 'on_end_prompt'],
                   'stdout': ''.join(h['event']['text'] for h in sel if h['hook'] == 'on_write_stdout'),
                   'stdout_subscribed': ''.join(x[1] for x in rec.get('stdout') or [] if x[0] in ts),
                   'started': sum(1 for h in sel if h['hook'] == 'on_start_trace'),
                   'ended': sum(1 for h in sel if h['hook'] == 'on_end_trace')}
    return out


def interrupt_oracle(case: dict, ref: dict, run: dict, k: int) -> list[str]:
    """`ref`: the run without interrupt; `run`: the same run with interrupt() delivered instead of the answer to the k-th prompt, which is the
    main thread's prompt at case['target_line'].  The interrupt is an event of the main thread's trace: every other thread goes on exactly as
    it does without it — prompted at each of its lines, every prompt answered, its output reported for its trace, its trace ended."""
    rec = run.get('rec')
    if not rec or rec.get('watchdog'):
        return [f"scenario failed: the interrupted run produced no record (rc={run.get('rc')}, {(run.get('stderr') or '')[-300:]!r})"]
    prompts = [h['event'] for h in rec['hooks'] if h['hook'] == 'on_start_prompt']
    if rec.get('signal_sent_at_prompt') != k or len(prompts) < k or prompts[k - 1]['trace_no'] != 1 or prompts[k - 1]['line_no'] != case['target_line']:
        at = [prompts[k - 1]['trace_no'], prompts[k - 1]['line_no']] if len(prompts) >= k else None
        return [f"scenario failed: the interrupt was to replace the answer to prompt {k} = main thread at line {case['target_line']}; it was sent at "
                f"prompt {rec.get('signal_sent_at_prompt')} (trace, line) = {at}"]
    who = (f"interrupt() while the main thread (trace 1) sat at its open prompt at line {case['target_line']} "
           f"({case['source'].split(chr(10))[case['target_line'] - 1].strip()!r}, inside try/{case['ending']}), every prompt of the other threads answered")
    msgs = []
    if not rec.get('finished'):
        msgs.append(f"{who}: the run never finished ({rec.get('errors')})")
    want, got = _per_trace(ref['rec'], case['source']), _per_trace(rec, case['source'])
    for fn in sorted(want):
        w, g = want[fn], got[fn]
        if len(g['traces']) != 1:
            msgs.append(f"{who}: {fn} is executed by one thread but its trace calls carry trace numbers {g['traces']}")
            continue
        x = g['traces'][0]
        if x == 1:
            msgs.append(f'{who}: {fn} runs in a thread of its own but its events carry the trace number of the main thread')
        if g['prompts'] != w['prompts']:
            missing = [p for p in w['prompts'] if p not in g['prompts']]
            msgs.append(f"{who}: {fn} (trace {x}) was prompted at [event, line] {g['prompts']}; without the interrupt it is prompted at {w['prompts']}"
                        + (f': it was never prompted at {missing}' if missing else ''))
        elif len(g['answered']) != len(g['prompts']):
            msgs.append(f"{who}: {fn} (trace {x}) had {len(g['prompts'])} prompts, {len(g['answered'])} of them ended with an answer")
        for key, what in (('stdout', 'OnWriteStdout'), ('stdout_subscribed', 'subscribe_stdout()')):
            if g[key] != w[key]:
                msgs.append(f"{who}: the output reported ({what}) for {fn} (trace {x}) is {g[key]!r}; without the interrupt it is {w[key]!r}")
                break
        if (g['started'], g['ended']) != (1, 1):
            msgs.append(f"{who}: the trace {x} of {fn} started {g['started']} and ended {g['ended']} time(s)")
    shared = [t for fn in got for t in got[fn]['traces']]
    if len(set(shared)) != len(shared):
        msgs.append(f'{who}: different threads share a trace number: { {fn: got[fn]["traces"] for fn in got} }')
    if rec.get('finished') and not msgs:
        # the interrupt itself arrived where it belongs (otherwise the scenario did not exercise what it is meant to)
        exc = rec.get('exception') or ''
        main_out = ''.join(x[1] for x in rec.get('stdout') or [] if x[0] == 1)
        if case['ending'] == 'except' and ('M done -1' not in main_out or exc):
            msgs.append(f'scenario failed: the main thread was to catch the KeyboardInterrupt and print "M done -1"; its output is {main_out!r}, '
                        f'format_exception() ends with {exc[-120:]!r}')
        if case['ending'] == 'finally' and 'KeyboardInterrupt' not in exc:
            msgs.append(f'scenario failed: the main thread was to end with the KeyboardInterrupt; format_exception() ends with {exc[-120:]!r}')
    return msgs


def run_interrupt_cases(chk: common.Check) -> list:
    """→ [(spec, messages, first events)] for the cases that failed"""
    cases = interrupt_cases(chk)
    fails = []
    refs = common.real_runs([c['spec'] for c in cases], jobs=4, hard_timeout=120)
    todo = []
    for c, ref in zip(cases, refs):
        rec = ref.get('rec')
        hit = []
        if rec and rec.get('finished') and not rec.get('exception'):
            pr = [h['event'] for h in rec['hooks'] if h['hook'] == 'on_start_prompt']
            hit = [i for i, e in enumerate(pr, 1) if e['trace_no'] == 1 and e['event'] == 'line' and e['line_no'] == c['target_line']]
        if len(hit) != 1:
            fails.append((c['spec'], [f"scenario failed: the run without interrupt did not finish cleanly with one prompt of the main thread at line "
                                      f"{c['target_line']}: prompts there {hit}, rc={ref.get('rc')}, errors={(rec or {}).get('errors')}, "
                                      f"exception={((rec or {}).get('exception') or '')[-200:]!r}, stderr={(ref.get('stderr') or '')[-200:]!r}"], None))
            continue
        todo.append((c, ref, hit[0]))
    runs = common.real_runs([dict(c['spec'], signal={'kind': 'interrupt', 'at_prompt': k}) for c, _, k in todo], jobs=4, hard_timeout=120)
    for (c, ref, k), r in zip(todo, runs):
        chk.cov.case(('interrupt-at-main-prompt', c['source'], c['ending'], c['target_line'], c['spec']['policy']['command']))
        chk.cov.count('kinds', 'interrupt-at-the-open-prompt-of-the-main-thread-other-threads-go-on')
        chk.cov.count('policy', c['spec']['policy']['command'] + '+interrupt')
        m = interrupt_oracle(c, ref, r, k)
        if m:
            rec = r.get('rec') or {}
            fails.append((r['spec'], m, {'prompts [trace, event, line]': [[h['event']['trace_no'], h['event']['event'], h['event']['line_no']]
                                                                         for h in rec.get('hooks') or [] if h['hook'] == 'on_start_prompt'],
                                         'stdout': rec.get('stdout'), 'exception': rec.get('exception'), 'errors': rec.get('errors'),
                                         'stacks_at_timeout': rec.get('stacks_at_timeout'), 'stderr': (r.get('stderr') or '')[-1500:]}))
    return fails


def run(chk: common.Check) -> None:
    chk.cov.rule = ('generated programs that start 0–3 threads and 0–3 asyncio tasks (nested and sequential), each running its own worker function, '
                    'with trace_threads on and off, under next/step/continue/random policies, decoys, and a responder that withholds the answer to '
                    'one thread\'s first prompt until nothing else moves; through the real trace machinery in-process. The code location of a trace '
                    'call identifies the producing thread/task. Non-trivial: at least two entities besides the main thread; distinct = distinct '
                    '(program, policy, options). Plus real Nextline runs (spawn child) of scripts with 1–3 threads that still have lines to execute '
                    'and text to print when interrupt() is delivered instead of the answer to a prompt of the main thread (caught there, or passing '
                    'through a finally): each thread is prompted, answered and reported exactly as in the same run without the interrupt.')
    chk.assumptions += ['the interrupt scenario delivers SIGINT only while the main thread is the one at an open prompt, outside asyncio.run(), every '
                        'prompt of the other threads answered: F-G2, F-G5 and F-G6 (C02) are recorded findings outside it','OS/GIL scheduling of threads is whatever CPython produces in these runs (not exhibited by the model)',
                        'a prompt blocks its own thread, hence every task of that thread\'s event loop: the non-blocking claim is about other threads']
    n2 = 60 if chk.tier == 'quick' else 600
    specs = [s for s in _trace.gen_specs(chk, 0, n2, with_modules=False)]
    nwith = 0
    for i, s in enumerate(specs):
        if i % 3 == 1 and s['trace_threads']:
            s['policy'] = {'kind': 'withhold', 'command': 'next'}
            nwith += 1
            if nwith % 2 == 0:
                s['trace_modules'] = True        # the non-blocking claim does not depend on the module filter in use
    specs += _trace.stress_specs(chk, 8 if chk.tier == 'quick' else 60)
    results = _trace.run_specs(specs)
    lines: list[str] = []
    spans = []
    oracle_fail = []
    for r in results:
        sp = r['spec']
        if 'harness_error' in r:
            if r['harness_error'].startswith('SKIPPED'):
                continue
            oracle_fail.append((sp, [f'the traced run did not complete: {r["harness_error"][:300]}'], None))
            continue
        t = r['traced']
        evs = t['events']
        nent = len({e['trace_no'] for e in evs if e['_type'] == 'OnStartTrace'})
        chk.cov.case((sp['source'], repr(sp['policy']), sp['trace_threads']), trivial=nent < 3)
        chk.cov.count('entities_per_run', nent)
        chk.cov.count('policy', sp['policy'].get('command', sp['policy']['kind']) if sp['policy']['kind'] != 'withhold' else 'withhold')
        msgs = oracle(sp, t) + _trace.grammar_oracle(evs, sp.get('run_no', 1))
        if t.get('error'):
            msgs.append(f'spawned.run raised: {t["error"]}')
        if msgs:
            oracle_fail.append((sp, msgs, evs[:40]))
        enc = _trace.encode(evs)
        spans.append((sp, len(lines), len(enc)))
        lines += enc
    # real runs: interrupt() at the open prompt of the main thread is an event of that trace only; the other threads go on as without it
    try:
        oracle_fail += run_interrupt_cases(chk)
    except Exception as e:  # noqa
        oracle_fail.append(({'scenario': 'interrupt at the open prompt of the main thread'}, [f'scenario failed: {type(e).__name__}: {e}'], None))
    model_err = None
    rejected = []
    try:
        mo = common.model_batch('trace', lines)
        for sp, a, n in spans:
            seg = mo[a:a + n]
            bad = [k for k, x in enumerate(seg) if x.startswith('reject') or x == 'bad-op']
            if bad:
                rejected.append((sp, lines[a:a + n][:bad[0] + 1][-12:], seg[bad[0]]))
        chk.cov.traces_validated = len(spans)
    except Exception as e:
        model_err = f'{type(e).__name__}: {e}'
    if spans:
        sp, a, n = spans[len(spans) // 2]
        chk.cov.sample({'program': sp['source'], 'policy': sp['policy'], 'encoded_events': lines[a:a + min(n, 25)]})
    for sp, msgs, evs in oracle_fail[:5]:
        chk.violation(f'C06 oracle: {msgs[0]}', {'spec': sp, 'oracle_messages': msgs[:10], 'first_events': evs})
    broken = common.proof_broken(chk)
    if model_err:
        broken.append(f'model driver unusable: {model_err}')
    if rejected:
        chk.cov.disagreements_checked = len(rejected)
        sp, ctx, why = min(rejected, key=lambda r: len(r[0]['source']))
        broken.append(f'correspondence D1 broken: {len(rejected)} emitted streams are not accepted by the model ({why}); e.g. … {ctx[-4:]}')
    if broken and not oracle_fail:
        d = None
        if rejected:
            sp, ctx, why = min(rejected, key=lambda r: len(r[0]['source']))
            d = {'spec': sp, 'last_lines': ctx, 'reply': why}
        chk.violation('C06: ' + ' | '.join(broken[:3]), {'no_longer_checks': broken, 'smallest_rejected': d}, no_input=True)
