"""C15 — at most one script execution is in flight per Nextline object.  Model A."""
from __future__ import annotations

from typing import Any

from .. import common, lifecycle
from . import _life

KINDS = {'cs', 'ps', 'ret', 'blocked', 'st'}


def oracle_serial(r: dict) -> list[str]:
    msgs = []
    running = False
    for op, rep in zip(r['ops'], r['impl']):
        if rep == 'skipped':
            continue
        g = lifecycle.group(rep)
        toks = rep.split()
        if int(g['lc'][0]) > 1:
            msgs.append(f'{g["lc"][0]} child processes alive after {op!r}')
        ncs = sum(1 for t in toks if t.startswith('cs:'))
        if ncs and running:
            msgs.append(f'a child was started by {op!r} while a run was in progress')
        if ncs > 1:
            msgs.append(f'{ncs} children started by one request')
        if op.split()[0] in ('run', 'rac', 'rcw', 'reset') and running and any(t.startswith('ret:') and t.endswith(':ok') for t in toks):
            msgs.append(f'{op!r} was accepted while a run was in progress')
        if 'ps:finished' in toks and g['lc'][0] != '0' and not any(t.startswith('cs:') for t in toks):
            msgs.append("'finished' was published while the child was still alive")
        if ncs:
            running = True
        if 'ps:finished' in toks:
            running = False
    return msgs


def cancel_run_case(k: int) -> dict:
    """The task that called run() is cancelled k scheduler steps after the request (a `wait_for` time-out, a cancelled request
    handler).  Whatever becomes of the request, the invariants hold: no child alive in a state other than 'running', never two."""
    import asyncio
    from .. import fakes, loop as ctl
    from nextline.spawned import RunResult

    async def main() -> dict:
        sc = lifecycle.Scenario(0, 1, False, False)
        await sc.setup()
        await sc.op('start')
        nl = sc.nl
        t = asyncio.ensure_future(nl.run())
        for _ in range(k):
            await asyncio.sleep(0)
        t.cancel()
        try:
            await t
        except BaseException:  # noqa
            pass
        await lifecycle.settle()
        out: dict = {'k': k, 'state_after_cancel': nl.state, 'live_after_cancel': len(sc.world.live()), 'max_live': len(sc.world.live())}
        # the caller carries on: reset and run again
        for _ in range(2):
            for call in (nl.reset, nl.run):
                try:
                    await asyncio.wait_for(call(), timeout=5)
                except BaseException:  # noqa
                    pass
                await lifecycle.settle()
                out['max_live'] = max(out['max_live'], len(sc.world.live()))
        for c in sc.world.live():
            c.exit(RunResult(ret=None), exitcode=0)
        await lifecycle.settle()
        try:
            await asyncio.wait_for(nl.close(), timeout=5)
        except BaseException:  # noqa
            pass
        return out
    fakes.install()
    try:
        return ctl.run(main, ctl.Fifo())
    except (Exception, ctl.StepBudgetExceeded) as e:  # noqa
        return {'k': k, 'error': f'{type(e).__name__}: {e}'}


def overlap_reset_run_case(d: int, slow_hook: bool) -> dict:
    """reset() from one task, run() from another d scheduler steps later (optionally with a plugin whose reset hook is slow, which
    widens the window), then another run(): whoever wins, a child is alive only in state 'running' and there is never more than one."""
    import asyncio
    from .. import fakes, loop as ctl
    from nextline.spawned import RunResult

    async def main() -> dict:
        from nextline.plugin.spec import hookimpl
        sc = lifecycle.Scenario(0, 1, False, False)
        await sc.setup()
        nl = sc.nl
        if slow_hook:
            class Slow:
                @hookimpl
                async def reset(self, context: Any, reset_options: Any) -> None:
                    for _ in range(6):
                        await asyncio.sleep(0)
            nl.register(Slow())
        await sc.op('start')
        t1 = asyncio.ensure_future(nl.reset())
        for _ in range(d):
            await asyncio.sleep(0)
        t2 = asyncio.ensure_future(nl.run())
        await asyncio.gather(t1, t2, return_exceptions=True)
        await lifecycle.settle()
        out: dict = {'d': d, 'slow_hook': slow_hook, 'state': nl.state, 'live': len(sc.world.live()), 'max_live': len(sc.world.live())}
        try:
            await asyncio.wait_for(nl.run(), timeout=5)
        except BaseException:  # noqa
            pass
        await lifecycle.settle()
        out['max_live'] = max(out['max_live'], len(sc.world.live()))
        for c in sc.world.live():
            c.exit(RunResult(ret=None), exitcode=0)
        await lifecycle.settle()
        try:
            await asyncio.wait_for(nl.close(), timeout=5)
        except BaseException:  # noqa
            pass
        return out
    fakes.install()
    try:
        return ctl.run(main, ctl.Fifo())
    except (Exception, ctl.StepBudgetExceeded) as e:  # noqa
        return {'d': d, 'slow_hook': slow_hook, 'error': f'{type(e).__name__}: {e}'}


def plugin_fault_variants() -> list[dict]:
    """A third-party plugin, registered with nl.register(), that fails around the run: its context-manager hook `run` (ordered by
    default, tryfirst or trylast among the implementations, i.e. entered before or after the built-in session has created the child)
    raises when it is entered or when it is left, at once or after `susp` suspensions; or its `on_start_run` / `on_end_run` raises.
    `where` = 'none' is the control: the same plugin, not failing."""
    vs: list[dict] = []
    for order in ('plain', 'tryfirst', 'trylast'):
        vs.append({'hook': 'run', 'order': order, 'where': 'none', 'susp': 0})
        for where in ('enter', 'exit'):
            for susp in (0, 2):
                vs.append({'hook': 'run', 'order': order, 'where': where, 'susp': susp})
    for hook in ('on_start_run', 'on_end_run'):
        for susp in (0, 2):
            vs.append({'hook': hook, 'order': 'plain', 'where': 'call', 'susp': susp})
    return vs


def plugin_fault_case(v: dict, sched: Any = None) -> dict:
    """One object, one faulty third-party plugin (see `plugin_fault_variants`) that fails in the first run only.  run(); the simulated
    child exits only when the scenario says so (after run() has returned and everything has settled), so a run that is given up
    without waiting for its child leaves the child alive and visible.  Then reset() + run().  Sampled: the live children of the
    object at every publication of the state 'finished' and of a run_info in state 'finished', and after every scheduler step.
    `sched`: None = first-in-first-out loop, an integer = the seed of a randomly permuting loop."""
    import asyncio
    import random
    from contextlib import asynccontextmanager
    from .. import fakes, loop as ctl
    from nextline.spawned import RunResult

    holder: dict = {}
    out: dict = {'variant': v, 'sched': sched, 'max_live': 0, 'published_finished': [], 'steps': []}

    def on_step() -> None:
        w = holder.get('w')
        if w is not None:
            out['max_live'] = max(out['max_live'], len(w.live()))

    async def main() -> dict:
        from nextline.plugin.spec import hookimpl
        sc = lifecycle.Scenario(0, 1, False, False)
        await sc.setup()
        nl = sc.nl
        holder['w'] = sc.world
        mark = {'plain': hookimpl, 'tryfirst': hookimpl(tryfirst=True), 'trylast': hookimpl(trylast=True)}[v['order']]
        calls = {'n': 0}

        async def fail(what: str) -> None:
            for _ in range(v['susp']):
                await asyncio.sleep(0)
            raise RuntimeError(f'third-party plugin failure {what} (injected by the harness)')

        if v['hook'] == 'run':
            class Faulty:
                @mark
                @asynccontextmanager
                async def run(self, context: Any) -> Any:
                    calls['n'] += 1
                    first = calls['n'] == 1
                    out.setdefault('child_exists_at_enter', context.running_process is not None)
                    if first and v['where'] == 'enter':
                        await fail('entering its run context')
                    yield
                    if first and v['where'] == 'exit':
                        await fail('leaving its run context')
        elif v['hook'] == 'on_start_run':
            class Faulty:  # type: ignore[no-redef]
                @mark
                async def on_start_run(self, context: Any, event: Any) -> None:
                    calls['n'] += 1
                    if calls['n'] == 1:
                        await fail('in on_start_run')
        else:
            class Faulty:  # type: ignore[no-redef]
                @mark
                async def on_end_run(self, context: Any, event: Any) -> None:
                    calls['n'] += 1
                    if calls['n'] == 1:
                        await fail('in on_end_run')
        await sc.op('start')
        if nl.register(Faulty()) is None:
            raise RuntimeError('the plugin was not registered')
        # observe publications at the broker, at the moment they are made
        ps = nl._imp.pubsub
        org_publish = ps.publish

        async def publish(key: Any, value: Any) -> None:
            what = None
            if key == 'state_name' and value == 'finished':
                what = 'state'
            elif key == 'run_info' and getattr(value, 'state', None) == 'finished':
                what = f'run_info/{value.run_no}'
            if what is not None:
                out['published_finished'].append({'what': what, 'live_pids': [c.process.pid for c in sc.world.live()],
                                                  'children_so_far': len(sc.world.children)})
            await org_publish(key, value)
        ps.publish = publish

        async def call(name: str) -> None:
            try:
                await asyncio.wait_for(getattr(nl, name)(), timeout=5)
                res = 'ok'
            except BaseException as e:  # noqa
                res = type(e).__name__
            await lifecycle.settle()
            out['steps'].append({'call': name, 'result': res, 'state': nl.state, 'live': len(sc.world.live()),
                                 'children_so_far': len(sc.world.children)})

        async def child_exits() -> None:
            live = sc.world.live()
            for c in live:
                c.exit(RunResult(ret=None), exitcode=0)
            await lifecycle.settle()
            out['steps'].append({'call': f'(the child exits: {len(live)})', 'state': nl.state, 'live': len(sc.world.live())})

        await call('run')                # the plugin fails here, or ...
        out['children_run1'] = len(sc.world.children)
        if nl.state == 'running':
            await child_exits()          # ... here.  (A child is told to exit only while the object says a run is in progress:
                                         # what is alive once 'finished' has been reported stays alive.)
        out['state_after_run1'] = nl.state
        await call('reset')
        await call('run')
        out['live_in_run2'] = len(sc.world.live())
        out['state_in_run2'] = nl.state
        out['plugin_calls'] = calls['n']
        if nl.state == 'running':
            await child_exits()
        out['state_end'] = nl.state
        out['live_end'] = len(sc.world.live())
        for c in sc.world.live():        # clean up
            c.exit(RunResult(ret=None), exitcode=0)
        await lifecycle.settle()
        try:
            await asyncio.wait_for(nl.close(), timeout=5)
        except BaseException:  # noqa
            pass
        return out
    fakes.install()
    try:
        return ctl.run(main, ctl.Fifo() if sched is None else ctl.Rand(random.Random(sched)), on_step)
    except (Exception, ctl.StepBudgetExceeded) as e:  # noqa
        return {'variant': v, 'sched': sched, 'error': f'{type(e).__name__}: {e}'}


def oracle_plugin_fault(r: dict) -> list[str]:
    v = r['variant']
    if v['hook'] == 'run':
        desc = (f"a third-party plugin's `run` context hook ({v['order']} order) "
                + {'none': 'that does not fail', 'enter': 'raises when entered', 'exit': 'raises when left'}[v['where']])
    else:
        desc = f"a third-party plugin's `{v['hook']}` hook raises"
    if v['susp']:
        desc += f" (after {v['susp']} suspensions)"
    m = []
    for p in r['published_finished']:
        if p['live_pids']:
            m.append(f"{desc}: {p['what']} 'finished' was published while the child process(es) {p['live_pids']} of the object were alive")
    if r['max_live'] > 1:
        m.append(f"{desc}; then reset() + run(): {r['max_live']} child processes of the object alive at once")
    for s in r['steps']:
        if s['live'] and s['state'] != 'running':
            m.append(f"{desc}: after {s['call']} the state is {s['state']!r} with {s['live']} child process(es) alive")
            break
    return list(dict.fromkeys(m))


def run(chk: common.Check) -> None:
    chk.cov.rule = ('serial histories (as C01) over several run cycles; the number of live simulated children is sampled after every operation; '
                    'compared with the Lean model on child starts, state publications and call results; overlapping run/run, run/reset, reset/run, '
                    'run/close from 2–3 tasks under the permuting loop with live children sampled after every scheduler step (oracle only); '
                    'a third-party plugin failing around the run (its `run` context hook in default/tryfirst/trylast order raising on enter or on '
                    'exit, its on_start_run/on_end_run raising), live children sampled at every publication of \'finished\' (oracle only). '
                    'Non-trivial: a request was issued while a run was in progress; distinct = distinct (options, history, schedule kind).')
    chk.assumptions += ['serial histories; hooks do not raise']
    L = 3 if chk.tier == 'quick' else 4
    scen = _life.gen_serial(chk, L, 1500 if chk.tier == 'quick' else 20000)
    rows = _life.run_serial(chk, scen)

    def nontrivial(r: dict) -> bool:
        seen_run = False
        for op, rep in zip(r['ops'], r['impl']):
            if seen_run and op.split()[0] in ('run', 'rac', 'rcw', 'reset') and 'lc=1' in rep:
                return True
            if 'cs:' in rep:
                seen_run = True
        return False
    _life.coverage(chk, rows, nontrivial)
    chk.cov.exhaustive = True
    chk.cov.extra['exhaustive_scope'] = f'all serial histories of length ≤ {L} over {_life.ALPHABET}'
    oracle_fail = []
    for r in rows:
        if r['error']:
            oracle_fail.append(({'init': r['init'], 'ops': r['ops']}, [f'scenario failed: {r["error"]}'], None))
            continue
        m = oracle_serial(r)
        if m:
            oracle_fail.append(({'init': r['init'], 'ops': r['ops'], 'schedule': r['schedule'], 'implementation': r['impl']}, m, None))
    dis = _life.compare(rows, KINDS)
    conc = _life.run_concurrent(chk, 400 if chk.tier == 'quick' else 8000)
    for c in conc:
        chk.cov.case(('conc', c['seed']))
        chk.cov.count('kinds', 'concurrent')
        if c['max_live_children'] > 1:
            oracle_fail.append((c, [f'{c["max_live_children"]} child processes alive at once (overlapping calls {c["calls"]})'], None))
        if c['child_alive_at_finished']:
            oracle_fail.append((c, [f"'finished' published while a child was alive (overlapping calls {c['calls']})"], 'overlap_child_alive_at_finished'))
    for slow_hook in (False, True):
        for d in range(0, 5):
            r = overlap_reset_run_case(d, slow_hook)
            chk.cov.case(('overlap-reset-run', d, slow_hook))
            chk.cov.count('kinds', 'overlap-reset-then-run')
            m = []
            if 'error' in r:
                m.append(f'scenario failed: {r["error"]}')
            else:
                if r['live'] and r['state'] != 'running':
                    m.append(f"reset() and, {d} scheduler steps later, run() from another task: state {r['state']} with {r['live']} child process(es) alive")
                if r['max_live'] > 1:
                    m.append(f"reset() and, {d} steps later, run() from another task, then run() again: {r['max_live']} child processes alive at once")
            if m:
                oracle_fail.append(({'overlap_reset_run': r}, m, None))
    for k in range(2, 10):        # (k = 1 lands in the window of open finding F-A3: the object is left in 'running' without a run)
        r = cancel_run_case(k)
        chk.cov.case(('cancel-run-caller', k))
        chk.cov.count('kinds', 'run-caller-cancelled')
        m = []
        if 'error' in r:
            m.append(f'scenario failed: {r["error"]}')
        else:
            if r['live_after_cancel'] and r['state_after_cancel'] != 'running':
                m.append(f"the caller of run() was cancelled {k} scheduler steps after the request: state {r['state_after_cancel']} with "
                         f"{r['live_after_cancel']} child process(es) alive")
            if r['max_live'] > 1:
                m.append(f"the caller of run() was cancelled {k} steps after the request, then reset()/run(): {r['max_live']} child processes alive at once")
        if m:
            oracle_fail.append(({'cancel_run_caller': r}, m, None))
    # a third-party plugin fails around the run (its `run` context hook in the three hook orders, on enter / on exit; its
    # on_start_run / on_end_run): no child of the object is alive when 'finished' is published, never two children
    for v in plugin_fault_variants():
        for sched in (None, chk.seed * 7919 + 1, chk.seed * 7919 + 2):
            r = plugin_fault_case(v, sched)
            kind = 'plugin-' + v['hook'] + ('' if v['hook'] != 'run' else '-' + v['order']) + '-' + v['where']
            chk.cov.case(('plugin-fault', v['hook'], v['order'], v['where'], v['susp'], 'fifo' if sched is None else 'rand'))
            chk.cov.count('kinds', kind)
            if 'error' in r:
                oracle_fail.append(({'plugin_fault': r}, [f'scenario failed: {r["error"]}'], None))
                continue
            m = oracle_plugin_fault(r)
            if m:
                # on_start_run is called by the built-in session after the child was created and before the part of its `run`
                # context that waits for the child: a raising on_start_run is the mechanism of the open finding F-A2d
                sig = 'start_run_hook_failure_abandons_child' if v['hook'] == 'on_start_run' else None
                oracle_fail.append(({'plugin_fault': r}, m, sig))
    # real spawn children: when 'finished' is published no child process of the object is alive — also for a script whose process
    # takes seconds to exit after the script has returned (a non-daemon thread it left behind, thread tracing off)
    rs = [{'statement': 'import threading, time\nthreading.Thread(target=time.sleep, args=(4.5,)).start()\nx = 1\n', 'mode': 'continuous',
           'trace_threads': False, 'timeout': 40, 'why': 'slow-exit'},
          {'statement': 'x = 1\ny = 2\n', 'policy': {'kind': 'all', 'command': 'next'}, 'timeout': 40, 'why': 'plain'},
          {'statement': 'import time\ntime.sleep(0.2)\nx = 1\n', 'policy': {'kind': 'all', 'command': 'next'}, 'timeout': 40,
           'signal': {'kind': 'kill', 'at_prompt': 1}, 'why': 'kill'}]
    for r in common.real_runs(rs, jobs=3, hard_timeout=90):
        sp = r['spec']
        rec = r['rec']
        chk.cov.case(('real', sp['why']))
        chk.cov.count('kinds', 'real-child-' + sp['why'])
        if rec is None or not rec.get('finished'):
            oracle_fail.append(({'real_run': sp}, [f'real run did not finish: {(rec or {}).get("errors")}'], None))
            continue
        alive = rec.get('children_alive_at_finished')
        if alive is None or any(a for a in alive):
            oracle_fail.append(({'real_run': sp}, [f"'finished' was published while child processes {alive} of the object were alive"], None))
    _life.finish(chk, 'C15', oracle_fail, dis, 'child starts, state publications, call results')
